(* C20 - Python predicates are interchangeable with compiled ones.
   Only statements; every proof is `exact <lemma>` to a lemma of Sem/NativeThms.v, Sem/NativeFacts.v, Engine/NativeMono.v.

   world                    the engine: functions of the loaded script (w_ir), Python predicates registered under a key
                            name_k (w_fix: arity inferred or explicit) or name_n (w_var: variadic), dynamic facts (w_dyn)
   nfun                     a registered predicate as its answer function: arguments, state |-> answers (state, yielded
                            value) in order + "then raises"
   nquery n w name args s   YP.query: dynamic facts first, then the function found under name_<len args>, else name_n;
                            n = nesting depth of calls.  Answers are states; the yielded values are dropped (`drop`) where
                            a query is consumed, as the emitted code and the builtins do
   native_rows rows vals    for row in rows: for _ in unify_arrays(args, row): yield vals[row]    (rows over fresh variables)
   raising f j              f, raising instead of delivering its answer number j *)
From Coq Require Import String.
From Coq Require Import List Arith ZArith.
Import ListNotations.
From YP Require Import Base.Str Term.Term Unify.Unify Lang.Ast Comp.IR Comp.CompileBody Comp.CompileClause Sem.Res Sem.RefSem Sem.IRSem Sem.ExecMono
  Sem.Machine Sem.RunSem Sem.ClauseSem Sem.ProgramCorrect Sem.Native Sem.NativeThms Sem.NativeFacts Sem.NativeSource Sem.NativeExc Engine.RunBoundedM Engine.NativeMono
  Unify.Bounded Sem.Fresh Sem.RenameSim Sem.NativeRename Sem.NativeChain Sem.NativeChainExc Engine.BoundedMachine Engine.NativeChainMono.

(* ---- sem_extensional: the answers of a body / of emitted code / of a whole engine depend on a predicate only through
        its answer function (no functional extensionality axiom) *)

Theorem C20_sem_extensional_body : forall (S : Type) (I I' : str -> list sterm -> S -> list S * bool),
  (forall f a s, I f a s = I' f a s) -> forall b s, sem I b s = sem I' b s.
Proof. exact sem_ext. Qed.
Print Assumptions C20_sem_extensional_body.

Theorem C20_sem_extensional_code : forall (S : Type) (assign : str -> expr -> S -> S) (J1 J2 : expr -> S -> list S * bool),
  (forall it s, J1 it s = J2 it s) -> forall c s f, exec_list J1 assign c s f = exec_list J2 assign c s f.
Proof. exact exec_list_ext. Qed.
Print Assumptions C20_sem_extensional_code.

(* by induction on the call depth: engines whose registered predicates agree pointwise (for a consumer that ignores the
   yielded values) answer every query alike *)
Theorem C20_sem_extensional_program : forall w1 w2, same_answers w1 w2 ->
  forall n name args s, nquery n w1 name args s = nquery n w2 name args s.
Proof. exact sem_extensional_program. Qed.
Print Assumptions C20_sem_extensional_program.

(* ---- yield_value_irrelevant: at the predicate ... *)
Theorem C20_yield_value_irrelevant_leaf : forall rows vals args s,
  drop (native_rows rows vals args s) = match_rows rows args s.
Proof. exact drop_native_rows. Qed.
Print Assumptions C20_yield_value_irrelevant_leaf.

(* ... and for every query of every engine: changing only the values that a registered predicate yields changes nothing *)
Theorem C20_yield_value_irrelevant : forall ir fixl varl dynl name k rows vals1 vals2 n qname args s,
  nquery n (mk_world ir ((name, k, native_rows rows vals1) :: fixl) varl dynl) qname args s =
  nquery n (mk_world ir ((name, k, native_rows rows vals2) :: fixl) varl dynl) qname args s.
Proof. exact yield_value_irrelevant_world. Qed.
Print Assumptions C20_yield_value_irrelevant.

(* ---- native_equals_compiled_facts: the generator function compiled from name(row_1). ... name(row_n). (ground rows)
        and the Python predicate over the same rows deliver the same answers for all arguments and states, whatever the
        calls mean and whatever the predicate yields *)
Theorem C20_native_equals_compiled_facts : forall call name rows vals cnt code cnt' args s,
  compile_clauses (map (fact_clause name) rows) cnt = Some (code, cnt') ->
  Forall (fun row => ground_row row = true /\ length row = length args) rows ->
  drop (native_rows (map row_of rows) vals args s) =
  (let '(ys, k) := run_function (iter call) assign code (bind_args 0 args, s) in
   (map snd ys, match k with CErr => true | _ => false end)).
Proof. exact native_equals_compiled_facts. Qed.
Print Assumptions C20_native_equals_compiled_facts.

(* such facts always compile *)
Theorem C20_facts_compile : forall name rows cnt, exists code, compile_clauses (map (fact_clause name) rows) cnt = Some (code, cnt).
Proof. exact compile_facts. Qed.
Print Assumptions C20_facts_compile.

(* ---- "replacing any subset of a program's fact predicates by such functions changes no answer of any query, in any
        context": engines related by any number of swaps (Python predicate under a fixed key <-> compiled facts) answer
        every query alike, at every call depth, next to any dynamic facts and other predicates *)
Theorem C20_subset_interchangeable : forall w w', swaps w w' ->
  forall n name args s, nquery n w name args s = nquery n w' name args s.
Proof. exact subset_interchangeable. Qed.
Print Assumptions C20_subset_interchangeable.

(* ---- the same for SOURCE programs and the model compiler.  rules: the program without the replaced predicates; specs: the
        replaced predicates (name, arity, ground rows, yielded values), registered under name_<arity> (arity inferred or
        explicit); P = rules ++ their facts is compiled as a whole.  Every query has the same answers against
        "compiled rules + Python predicates" and against "compiled P", at every depth, next to any dynamic facts dynl *)
Theorem C20_program_with_python_predicates : forall rules specs dynl ir irf,
  compile_program rules = Some ir -> compile_program (rules ++ py_clauses specs)%list = Some irf ->
  good_program rules -> Forall spec_ok specs -> NoDup (map fst specs) ->
  (forall c, In c rules -> lookup_fix specs (c_name c) (length (c_args c)) = None) ->
  forall n name args s,
    nquery n (mk_world ir (py_table specs) [] dynl) name args s = nquery n (mk_world irf [] [] dynl) name args s.
Proof. exact program_with_python_predicates. Qed.
Print Assumptions C20_program_with_python_predicates.

(* ... and with all three registration styles: vspecs are predicates registered with arity=-1 (key name_n); P is any program
   whose clauses per key are: the facts of a replaced predicate / the clauses of rules *)
Theorem C20_program_with_python_predicates_all_styles : forall rules P ir irf specs vspecs dynl,
  compile_program rules = Some ir -> compile_program P = Some irf -> good_program rules -> good_program P ->
  (forall name k,
    match lookup_fix specs name k with
    | Some (rows, vals) => rows <> [] /\ Forall (fun row => ground_row row = true /\ length row = k) rows /\
                           clauses_for P name k = map (fact_clause name) rows
    | None =>
        match lookup_var vspecs name with
        | Some (kv, rows, vals) =>
            (forall c a s0, builtin c name a s0 = None) /\ str_eqb name (s_ "call") = false /\
            clauses_for rules name k = [] /\ rows <> [] /\
            Forall (fun row => ground_row row = true /\ length row = kv) rows /\
            clauses_for P name k = (if Nat.eqb k kv then map (fact_clause name) rows else [])
        | None => clauses_for P name k = clauses_for rules name k
        end
    end) ->
  forall n name args s,
    nquery n (mk_world ir (py_table specs) (pyv_table vspecs) dynl) name args s = nquery n (mk_world irf [] [] dynl) name args s.
Proof. exact source_interchangeable_all_styles. Qed.
Print Assumptions C20_program_with_python_predicates_all_styles.

(* ... hence, with C01 (ProgramCorrect.machine_computes_clause_semantics): rules compiled alone + Python predicates compute, for
   every query, exactly the clause-level reference semantics of the WHOLE Prolog program rules ++ facts *)
Theorem C20_python_predicates_compute_clause_semantics : forall rules specs ir irf,
  compile_program rules = Some ir -> compile_program (rules ++ py_clauses specs)%list = Some irf ->
  good_program rules -> Forall spec_ok specs -> NoDup (map fst specs) ->
  (forall c, In c rules -> lookup_fix specs (c_name c) (length (c_args c)) = None) ->
  (forall f, In f irf -> Resolve.reserved (fn_name f) = false) ->
  forall n name args s,
    nquery n (mk_world ir (py_table specs) [] []) name args s = solveA n (rules ++ py_clauses specs) name args s.
Proof. exact python_predicates_compute_clause_semantics. Qed.
Print Assumptions C20_python_predicates_compute_clause_semantics.

(* ---- for ARBITRARY rows (variables, repeated variables: not only ground ones): a Python predicate over the rows answers
        every call exactly as the same rows stored as dynamic facts (assert_fact) - engines that differ only in this answer
        every query alike *)
Theorem C20_python_predicate_equals_dynamic_facts : forall w w' name k rows vals,
  python_vs_dynamic w w' name k rows vals ->
  forall n qname args s, nquery n w qname args s = nquery n w' qname args s.
Proof. exact python_equals_dynamic_facts_nquery. Qed.
Print Assumptions C20_python_predicate_equals_dynamic_facts.

(* ---- "next to dynamic facts": the stored facts of name/arity answer first, then the function found for the call *)
Theorem C20_dynamic_facts_first : forall call w name args s,
  Resolve.reserved name = false ->
  nstep call w name args s =
  (let d := match_rows (w_dyn w name (length args)) args s in
   if snd d then (fst d, true)
   else (fst d ++ fst (call_function call w name args s), snd (call_function call w name args s))).
Proof. exact dynamic_facts_first. Qed.
Print Assumptions C20_dynamic_facts_first.

(* ---- args_in_call_order *)
Theorem C20_args_in_call_order : forall call w g sargs r s f,
  w_fix w g (length sargs) = Some f -> Resolve.reserved g = false -> w_dyn w g (length sargs) = [] ->
  iter (nstep call w) (query_expr g sargs) (r, s) =
  (map (fun x => (r, x)) (map fst (fst (f (map (instA r) sargs) s))), snd (f (map (instA r) sargs) s)).
Proof. exact args_in_call_order. Qed.
Print Assumptions C20_args_in_call_order.

Theorem C20_args_in_call_order_variadic : forall call w g sargs r s f,
  w_var w g = Some f -> w_fix w g (length sargs) = None -> find_func (w_ir w) g (length sargs) = None ->
  (forall c a s0, builtin c g a s0 = None) -> str_eqb g (s_ "call") = false ->
  Resolve.reserved g = false -> w_dyn w g (length sargs) = [] ->
  iter (nstep call w) (query_expr g sargs) (r, s) =
  (map (fun x => (r, x)) (map fst (fst (f (map (instA r) sargs) s))), snd (f (map (instA r) sargs) s)).
Proof. exact args_in_call_order_variadic. Qed.
Print Assumptions C20_args_in_call_order_variadic.

(* ---- exception_passthrough: a predicate that raises instead of its j-th answer delivers the j answers before ... *)
Theorem C20_exception_at_the_predicate : forall (f : nfun) j args s, j < length (fst (f args s)) ->
  drop (raising f j args s) = (firstn j (fst (drop (f args s))), true).
Proof. exact raising_leaf. Qed.
Print Assumptions C20_exception_at_the_predicate.

(* ... and EVERY query of EVERY engine, in every context and at every depth, either is not affected at all (the exception
   point is never reached) or delivers a prefix of its answers and then ends with the exception: nothing catches,
   replaces or delays it, no answer before it is lost *)
Theorem C20_exception_passthrough : forall w pname k j n name args s,
  let r' := nquery n (with_raising_fix w pname k j) name args s in
  let r := nquery n w name args s in
  (snd r' = false /\ r' = r) \/ (snd r' = true /\ prefixl (fst r') (fst r)).
Proof. exact exception_passthrough_fix. Qed.
Print Assumptions C20_exception_passthrough.

Theorem C20_exception_passthrough_variadic : forall w pname j n name args s,
  let r' := nquery n (with_raising_var w pname j) name args s in
  let r := nquery n w name args s in
  (snd r' = false /\ r' = r) \/ (snd r' = true /\ prefixl (fst r') (fst r)).
Proof. exact exception_passthrough_var. Qed.
Print Assumptions C20_exception_passthrough_variadic.

(* ---- "... reaches the consumer unchanged".  nqueryE is the same engine with the exception object carried along instead of
        a bool (Sem/NativeExc.v: XDepth/XUnify/XGoal/XCode are the engine's own, XPy tag is the object a Python predicate
        raised); forgetting which exception it was gives nquery exactly, so all theorems above speak about this engine *)
Theorem C20_engine_with_exceptions_refines : forall w n name args s,
  er (nqueryE n w name args s) = nquery n (erase_world w) name args s.
Proof. exact erase_nqueryE. Qed.
Print Assumptions C20_engine_with_exceptions_refines.

(* whatever property the engine's own exceptions and the exceptions raised by the registered predicates have, the exception
   that ends a query has it: the emitted code, the builtins and YP.query never create, wrap or replace one *)
Theorem C20_exception_provenance : forall (Q : exn -> Prop), Q XDepth -> Q XUnify -> Q XGoal -> Q XCode ->
  forall w : worldE,
  (forall name k f args s e, e_fix w name k = Some f -> snd (f args s) = Some e -> Q e) ->
  (forall name f args s e, e_var w name = Some f -> snd (f args s) = Some e -> Q e) ->
  forall n name args s e, snd (nqueryE n w name args s) = Some e -> Q e.
Proof. exact exception_provenance. Qed.
Print Assumptions C20_exception_provenance.

(* in particular: if the registered predicates raise nothing but the object XPy tag, a query that does not end by one of the
   engine's own exceptions ends by exactly that object *)
Theorem C20_exception_unchanged : forall w tag,
  (forall name k f args s e, e_fix w name k = Some f -> snd (f args s) = Some e -> e = XPy tag) ->
  (forall name f args s e, e_var w name = Some f -> snd (f args s) = Some e -> e = XPy tag) ->
  forall n name args s e, snd (nqueryE n w name args s) = Some e -> engine_exn e \/ e = XPy tag.
Proof. exact exception_unchanged. Qed.
Print Assumptions C20_exception_unchanged.

(* ---- the engine without Python predicates and dynamic facts is the engine of Sem/Machine.v, whose compiled programs
        compute the clause-level semantics (C01: machine_computes_clause_semantics) *)
Theorem C20_plain_is_machine : forall ir, (forall f, In f ir -> Resolve.reserved (fn_name f) = false) ->
  forall n name args s, nquery n (plain ir) name args s = query n ir name args s.
Proof. exact plain_is_machine. Qed.
Print Assumptions C20_plain_is_machine.

(* ---- non-vacuity: rules t1(X,Y) :- q(X), e(X,Y).  t2(X) :- q(X), \+ e(X,c).  t3(X) :- once(q(X)).  t4(L) :- findall(X,q(X),L).
        with q/1 = {a,b,c} and e/2 = {(a,b),(b,c)} as Python predicates (yielding mixed values) and as compiled facts *)
Local Open Scope string_scope.
Definition A (x : string) := SAtom (d x).
Definition X := SVar (d "X"). Definition Y := SVar (d "Y"). Definition L := SVar (d "L").
Definition ex_rules : program :=
  [ {| c_name := d "t1"; c_args := [X; Y]; c_body := BAnd (BCall (d "q") [X]) (BCall (d "e") [X; Y]) |};
    {| c_name := d "t2"; c_args := [X]; c_body := BAnd (BCall (d "q") [X]) (BNot (BCall (d "e") [X; A "c"])) |};
    {| c_name := d "t3"; c_args := [X]; c_body := BCall (d "once") [SFun (d "q") [X]] |};
    {| c_name := d "t4"; c_args := [L]; c_body := BCall (d "findall") [X; SFun (d "q") [X]; L] |} ].
Definition q_rows := [[A "a"]; [A "b"]; [A "c"]].
Definition e_rows := [[A "a"; A "b"]; [A "b"; A "c"]].
Definition ex_full : program := (ex_rules ++ map (fact_clause (d "q")) q_rows ++ map (fact_clause (d "e")) e_rows)%list.
Definition w_py (ir : ir_program) : world :=
  mk_world ir [(d "q", 1, native_rows (map row_of q_rows) [false; true; false]);
               (d "e", 2, native_rows (map row_of e_rows) [true; true])] [] [].

Example C20_nonvacuous :
  match compile_program ex_rules, compile_program ex_full with
  | Some ir, Some irf =>
      let ta := TAtom (d "a") in let tb := TAtom (d "b") in let tc := TAtom (d "c") in
      let ans := fun nq (r : list st * bool) => (map (answer_of nq) (fst r), snd r) in
      ans 2 (nquery 6 (w_py ir) (d "t1") [TVar 0; TVar 1] (st0 2)) = ([[ta; tb]; [tb; tc]], false) /\
      nquery 6 (w_py ir) (d "t1") [TVar 0; TVar 1] (st0 2) = nquery 6 (plain irf) (d "t1") [TVar 0; TVar 1] (st0 2) /\
      nquery 6 (w_py ir) (d "t2") [TVar 0] (st0 1) = nquery 6 (plain irf) (d "t2") [TVar 0] (st0 1) /\
      ans 1 (nquery 6 (w_py ir) (d "t2") [TVar 0] (st0 1)) = ([[ta]; [tc]], false) /\
      nquery 6 (w_py ir) (d "t4") [TVar 0] (st0 1) = nquery 6 (plain irf) (d "t4") [TVar 0] (st0 1) /\
      (* q raises instead of its answer number 1: t1 delivers its first answer, then the exception *)
      ans 2 (nquery 6 (with_raising_fix (w_py ir) (d "q") 1 1) (d "t1") [TVar 0; TVar 1] (st0 2)) = ([[ta; tb]], true) /\
      (* under once/1 the exception point is never reached *)
      ans 1 (nquery 6 (with_raising_fix (w_py ir) (d "q") 1 1) (d "t3") [TVar 0] (st0 1)) = ([[ta]], false) /\
      (* findall/3 delivers nothing and ends with the exception *)
      ans 1 (nquery 6 (with_raising_fix (w_py ir) (d "q") 1 1) (d "t4") [TVar 0] (st0 1)) = ([], true)
  | _, _ => False
  end.
Proof. vm_compute. repeat split. Qed.

(* the same with the exception object: q raises the object XPy 7 instead of its answer number 1; t1 delivers its first
   answer and then ends with exactly XPy 7, three generator frames up *)
Definition liftE (f : nfun) : nfunE := fun args s => (fst (f args s), if snd (f args s) then Some XUnify else None).
Definition wE_py (ir : ir_program) : worldE :=
  {| e_ir := ir;
     e_fix := fun n k => if key_eq (n, k) (d "q", 1) then Some (raisingE (liftE (native_rows (map row_of q_rows) [false; true; false])) 1 7)
                         else if key_eq (n, k) (d "e", 2) then Some (liftE (native_rows (map row_of e_rows) [true; true])) else None;
     e_var := fun _ => None; e_dyn := fun _ _ => [] |}.

Example C20_exception_nonvacuous :
  match compile_program ex_rules with
  | Some ir =>
      let ta := TAtom (d "a") in let tb := TAtom (d "b") in
      let r := nqueryE 6 (wE_py ir) (d "t1") [TVar 0; TVar 1] (st0 2) in
      (map (answer_of 2) (fst r), snd r) = ([[ta; tb]], Some (XPy 7)) /\
      snd (nqueryE 6 (wE_py ir) (d "t4") [TVar 0] (st0 1)) = Some (XPy 7) /\
      snd (nqueryE 6 (wE_py ir) (d "t3") [TVar 0] (st0 1)) = None /\
      snd (nqueryE 1 (wE_py ir) (d "t1") [TVar 0; TVar 1] (st0 2)) = Some XDepth
  | None => False
  end.
Proof. vm_compute. repeat split. Qed.

(* ==== rows WITH VARIABLES: equal up to an injective renaming of the cells created during the query (Sem/NativeRename.v;
        relation rel_st / rel_val / ans_rel / call_rel / same_answer of Sem/RenameSim.v).
   row_of_src row   the row of the Python predicate for the source row: its variables, numbered by first occurrence, become
                    fresh cells at every use
   noalias row      no argument of the row is a plain variable that occurs once among the top-level arguments (the compiler
                    does not create a cell for such a variable but names the goal argument: see the refuted statement) *)

(* the row loop - stored facts, a Python predicate - from related states with related arguments gives related answers *)
Theorem C20_rows_related : forall rows, Forall frow_ok rows -> forall p sA sR argsA argsR,
  rel_st p sA sR -> Forall2 (rel_val p sA sR) argsA argsR ->
  Forall2 (ans_rel p sA sR) (fst (match_rows rows argsA sA)) (fst (match_rows rows argsR sR)) /\
  snd (match_rows rows argsA sA) = snd (match_rows rows argsR sR).
Proof. exact match_rows_rel. Qed.
Print Assumptions C20_rows_related.

(* native_equals_compiled_facts for rows with variables: the generator function compiled from name(row_1). ... name(row_n).
   and the Python predicate over the same rows, called from related states with related arguments, whatever the calls mean:
   same number of answers, same order, same end, k-th answers related by a renaming of the cells the call created *)
Theorem C20_native_equals_compiled_facts_rel : forall call name rows vals cnt code cnt' p sA sR argsA argsR,
  compile_clauses (map (fact_clause name) rows) cnt = Some (code, cnt') ->
  Forall (fun row => noalias row /\ length row = length argsA) rows ->
  rel_st p sA sR -> Forall2 (rel_val p sA sR) argsA argsR ->
  let rN := drop (native_rows (map row_of_src rows) vals argsA sA) in
  let rC := (let '(ys, k) := run_function (iter call) assign code (bind_args 0 argsR, sR) in
             (map snd ys, match k with CErr => true | _ => false end)) in
  Forall2 (ans_rel p sA sR) (fst rN) (fst rC) /\ snd rN = snd rC.
Proof. exact native_equals_compiled_facts_rel. Qed.
Print Assumptions C20_native_equals_compiled_facts_rel.

(* ... from the same state with the same arguments: answers equal up to an injective renaming that fixes the cells of
   the caller (RenameSim.same_answer) *)
Theorem C20_native_equals_compiled_facts_renaming : forall call name rows vals cnt code cnt' args s,
  compile_clauses (map (fact_clause name) rows) cnt = Some (code, cnt') ->
  Forall (fun row => noalias row /\ length row = length args) rows ->
  wf (sto s) -> inv s -> Forall (bounded (nxt s)) args ->
  let rN := drop (native_rows (map row_of_src rows) vals args s) in
  let rC := (let '(ys, k) := run_function (iter call) assign code (bind_args 0 args, s) in
             (map snd ys, match k with CErr => true | _ => false end)) in
  Forall2 (same_answer s) (fst rN) (fst rC) /\ snd rN = snd rC.
Proof. exact native_equals_compiled_facts_renaming. Qed.
Print Assumptions C20_native_equals_compiled_facts_renaming.

(* ground rows are the special case (the exact statement above) *)
Theorem C20_ground_rows_special_case : forall row, ground_row row = true -> noalias row /\ row_of_src row = row_of row.
Proof. exact (fun row G => conj (ground_noalias row G) (row_of_src_ground row G)). Qed.
Print Assumptions C20_ground_rows_special_case.

(* REFUTED for rows with an aliased argument, already for p(X). called as p(V), V unbound: the compiled code binds nothing
   (V_X = arg1), the Python predicate's unify(arg, X') binds V to the row's fresh variable X'.  Neither answer is the other's
   image under a renaming that fixes the caller's cells (the answers are variants of each other: V unbound vs V bound to an
   unbound fresh variable - the same after canonical renaming of unbound variables, which is what the check compares). *)
Theorem C20_native_equals_compiled_facts_same_answer_refuted :
  compile_clauses (map (fact_clause (s_ "p")) cx_rows) 0 = Some (cx_code, 0) /\
  wf (sto cx_s) /\ inv cx_s /\ Forall (bounded (nxt cx_s)) [TVar 0] /\
  drop (native_rows (map row_of_src cx_rows) [] [TVar 0] cx_s) = ([cx_native], false) /\
  (let '(ys, k) := run_function (iter cx_call) assign cx_code (bind_args 0 [TVar 0], cx_s) in
   (map snd ys, match k with CErr => true | _ => false end)) = ([cx_compiled], false) /\
  ~ same_answer cx_s cx_native cx_compiled /\ ~ same_answer cx_s cx_compiled cx_native.
Proof. exact native_equals_compiled_facts_same_answer_refuted. Qed.
Print Assumptions C20_native_equals_compiled_facts_same_answer_refuted.

(* subset_interchangeable for rows with variables, through programs: rules compiled alone + Python predicates over the rows
   of specs vs the compiled program rules ++ facts are in the relation call_rel at every depth - related calls (related
   states, related arguments) have related answers - in any context (conjunction, cut, if-then-else, negation, call/N,
   once/1, findall/3), next to any dynamic facts *)
Theorem C20_subset_interchangeable_rel : forall rules specs dynl ir irf,
  compile_program rules = Some ir -> compile_program (rules ++ py_clauses specs)%list = Some irf ->
  good_program rules -> Forall spec_ok_src specs -> NoDup (map fst specs) -> dyn_ok dynl ->
  (forall c, In c rules -> lookup_fix specs (c_name c) (length (c_args c)) = None) ->
  forall n, call_rel (nquery n (mk_world ir (py_table_src specs) [] dynl)) (nquery n (mk_world irf [] [] dynl)).
Proof. exact program_with_python_predicates_rel. Qed.
Print Assumptions C20_subset_interchangeable_rel.

(* ... every query from every well-formed state: same number of answers, same order, same end, the k-th answers equal up
   to an injective renaming of the cells created during the query *)
Theorem C20_subset_interchangeable_renaming : forall rules specs dynl ir irf,
  compile_program rules = Some ir -> compile_program (rules ++ py_clauses specs)%list = Some irf ->
  good_program rules -> Forall spec_ok_src specs -> NoDup (map fst specs) -> dyn_ok dynl ->
  (forall c, In c rules -> lookup_fix specs (c_name c) (length (c_args c)) = None) ->
  forall n name args s, wf (sto s) -> inv s -> Forall (bounded (nxt s)) args ->
    Forall2 (same_answer s) (fst (nquery n (mk_world ir (py_table_src specs) [] dynl) name args s))
                            (fst (nquery n (mk_world irf [] [] dynl) name args s)) /\
    snd (nquery n (mk_world ir (py_table_src specs) [] dynl) name args s) =
    snd (nquery n (mk_world irf [] [] dynl) name args s).
Proof. exact program_with_python_predicates_renaming. Qed.
Print Assumptions C20_subset_interchangeable_renaming.

(* non-vacuity: t(A,B,C) :- v(A), w(B,C).  l(L) :- findall(X, v(X), L).  with v/1 = {f(X); g(X,Y,X)} and
   w/2 = {(Z,Z); (h(U), k(U,a))}: the hypotheses hold, and the two engines' answers really differ in their cells *)
Definition V_ (x : string) := SVar (d x).
Definition rn_rules : program :=
  [ {| c_name := d "t"; c_args := [V_ "A"; V_ "B"; V_ "C"]; c_body := BAnd (BCall (d "v") [V_ "A"]) (BCall (d "w") [V_ "B"; V_ "C"]) |};
    {| c_name := d "l"; c_args := [V_ "L"]; c_body := BCall (d "findall") [V_ "X"; SFun (d "v") [V_ "X"]; V_ "L"] |} ].
Definition v_rows := [[SFun (d "f") [V_ "X"]]; [SFun (d "g") [V_ "X"; V_ "Y"; V_ "X"]]].
Definition w_rows := [[V_ "Z"; V_ "Z"]; [SFun (d "h") [V_ "U"]; SFun (d "k") [V_ "U"; A "a"]]].
Definition rn_specs : list pyspec := [ (d "v", 1, (v_rows, [false; true])); (d "w", 2, (w_rows, [true; true])) ].

Example C20_renaming_nonvacuous :
  Forall spec_ok_src rn_specs /\ NoDup (map fst rn_specs) /\
  (forall c, In c rn_rules -> lookup_fix rn_specs (c_name c) (length (c_args c)) = None) /\
  match compile_program rn_rules, compile_program (rn_rules ++ py_clauses rn_specs)%list with
  | Some ir, Some irf =>
      let ans := fun nq (r : list st * bool) => (map (answer_of nq) (fst r), snd r) in
      let f x := TFun (d "f") [x] in let g x y := TFun (d "g") [x; y; x] in
      let h x := TFun (d "h") [x] in let k x := TFun (d "k") [x; TAtom (d "a")] in
      ans 3 (nquery 6 (mk_world ir (py_table_src rn_specs) [] []) (d "t") [TVar 0; TVar 1; TVar 2] (st0 3)) =
        ([[f (TVar 3); TVar 4; TVar 4]; [f (TVar 3); h (TVar 4); k (TVar 4)];
          [g (TVar 3) (TVar 4); TVar 5; TVar 5]; [g (TVar 3) (TVar 4); h (TVar 5); k (TVar 5)]], false) /\
      ans 3 (nquery 6 (mk_world irf [] [] []) (d "t") [TVar 0; TVar 1; TVar 2] (st0 3)) =
        ([[f (TVar 3); TVar 4; TVar 4]; [f (TVar 3); h (TVar 5); k (TVar 5)];
          [g (TVar 4) (TVar 5); TVar 6; TVar 6]; [g (TVar 4) (TVar 5); h (TVar 7); k (TVar 7)]], false) /\
      ans 1 (nquery 6 (mk_world ir (py_table_src rn_specs) [] []) (d "l") [TVar 0] (st0 1)) =
        ([[mk_list [f (TVar 4); g (TVar 7) (TVar 8)]]], false) /\
      ans 1 (nquery 6 (mk_world irf [] [] []) (d "l") [TVar 0] (st0 1)) =
        ([[mk_list [f (TVar 4); g (TVar 8) (TVar 9)]]], false)
  | _, _ => False
  end.
Proof.
  split; [repeat constructor; discriminate|]. split; [repeat constructor; cbn; intuition discriminate|].
  split; [intros c [<-|[<-|[]]]; reflexivity|]. vm_compute. repeat split.
Qed.

(* ==== ONE PREDICATE DEFINED FROM MIXED SOURCES (round 3; Sem/NativeChain.v, Engine/NativeChainMono.v)
   cdef                     a definition under a key: CNat f (a registered Python predicate) | CIr f (the generator function of a
                            loaded script)
   cworld                   the engine whose eval_context holds a CHAIN (list of definitions, as built by chain_functions) per key
   run_chain call ds        itertools.chain over the members' generators, every member from the state of the call; the yielded
                            values are passed through unseen; an exception in a member ends the chain
   cquery n w               YP.query over such an engine
   op / build               register_function (the key := [f]), load_script_from_string(script, overwrite) (every key the
                            script defines := [g] / old chain ++ [g]), assert_fact; build = the engine after a sequence of them
   op_twin                  the same operation, or register_function(python predicate over ground rows, yielding anything)
                            against load_script(its facts, overwrite=True) *)

Local Open Scope list_scope.

(* the engine of the theorems above is the special case "one member per chain" *)
Theorem C20_chain_engine_refines : forall w n name args s, cquery n (embed w) name args s = nquery n w name args s.
Proof. exact cquery_refines_nquery. Qed.
Print Assumptions C20_chain_engine_refines.

(* a chain answers with the concatenation of its members' answers - WHATEVER they yield (True is not a cut here) - up to the
   first exception *)
Theorem C20_chain_is_concatenation : forall call ds1 ds2 args s,
  run_chain call (ds1 ++ ds2) args s =
  (if snd (run_chain call ds1 args s) then (fst (run_chain call ds1 args s), true)
   else (fst (run_chain call ds1 args s) ++ fst (run_chain call ds2 args s), snd (run_chain call ds2 args s))).
Proof. exact run_chain_app. Qed.
Print Assumptions C20_chain_is_concatenation.

Theorem C20_chain_of_two : forall call d1 d2 args s,
  run_chain call [d1; d2] args s =
  (if snd (run_def call d1 args s) then (fst (run_def call d1 args s), true)
   else (fst (run_def call d1 args s) ++ fst (run_def call d2 args s), snd (run_def call d2 args s))).
Proof. exact run_chain_two. Qed.
Print Assumptions C20_chain_of_two.

(* engines whose chains agree member by member for a value-ignoring consumer answer every query alike *)
Theorem C20_chain_members_interchangeable : forall w1 w2, members_agree w1 w2 ->
  forall n name args s, cquery n w1 name args s = cquery n w2 name args s.
Proof. exact chain_members_interchangeable. Qed.
Print Assumptions C20_chain_members_interchangeable.

(* a Python predicate over ground rows, whatever it yields, and the function compiled from its facts are such members *)
Theorem C20_chain_member_python_vs_compiled : forall name k rows vals f cnt cnt',
  Forall (fun row => ground_row row = true /\ length row = k) rows ->
  compile_clauses (map (fact_clause name) rows) cnt = Some (fn_body f, cnt') ->
  def_equiv k (CNat (native_rows (map row_of rows) vals)) (CIr f).
Proof. exact def_equiv_facts. Qed.
Print Assumptions C20_chain_member_python_vs_compiled.

(* engines BUILT by the same sequence of register_function / load_script (overwrite or not) / assert_fact, in any order,
   with Python predicates on one side and their facts loaded with overwrite=True on the other (any subset, any yielded
   values), answer every query alike at every depth *)
Theorem C20_mixed_sources_interchangeable : forall ops1 ops2, Forall2 op_twin ops1 ops2 ->
  forall n name args s, cquery n (build cempty ops1) name args s = cquery n (build cempty ops2) name args s.
Proof. exact mixed_sources_interchangeable. Qed.
Print Assumptions C20_mixed_sources_interchangeable.

(* the same for SOURCE scripts, each compiled on its own by the model compiler (what the check runs): sop_twin = the same
   operation, register_function(python predicate over the rows) with other yielded values, or - for n >= 1 ground rows -
   register_function(name, python predicate over the rows) against load_script(compile("name(row_1). .. name(row_n)."), overwrite=True) *)
Theorem C20_mixed_sources_interchangeable_source : forall l1 l2 o1 o2, Forall2 sop_twin l1 l2 ->
  sops_ops l1 = Some o1 -> sops_ops l2 = Some o2 ->
  forall n name args s, cquery n (build cempty o1) name args s = cquery n (build cempty o2) name args s.
Proof. exact source_mixed_sources_interchangeable. Qed.
Print Assumptions C20_mixed_sources_interchangeable_source.

(* register_function(p, python predicate over the rows); load_script(clauses cs2 of p, overwrite=False)  answers like the
   ONE definition  p(row_1). .. p(row_n). cs2 : the rows are the first clauses of the predicate *)
Theorem C20_python_then_script_is_one_definition : forall call name rows vals cs2 f2 f12 cnt2 cnt2' cnt12 cnt12' args s,
  Forall (fun row => ground_row row = true /\ length row = length args) rows ->
  Forall good_clause cs2 ->
  compile_clauses cs2 cnt2 = Some (fn_body f2, cnt2') ->
  compile_clauses (map (fact_clause name) rows ++ cs2) cnt12 = Some (fn_body f12, cnt12') ->
  run_chain call [CNat (native_rows (map row_of rows) vals); CIr f2] args s = run_def call (CIr f12) args s.
Proof. exact python_then_script_is_one_definition. Qed.
Print Assumptions C20_python_then_script_is_one_definition.

Theorem C20_chained_python_predicate_is_first_clauses : forall w w' name k rows vals cs2,
  chained_vs_single w w' name k rows vals cs2 ->
  forall n qname args s, cquery n w qname args s = cquery n w' qname args s.
Proof. exact chained_python_predicate_is_first_clauses. Qed.
Print Assumptions C20_chained_python_predicate_is_first_clauses.

(* monotone in the call depth and in the Python predicates that are members of chains *)
Theorem C20_chain_engine_monotone : forall w1 w2 n m, cworld_le w1 w2 -> n <= m -> call_le (cquery n w1) (cquery m w2).
Proof. exact cquery_mono. Qed.
Print Assumptions C20_chain_engine_monotone.

(* the member number i of the chain under pname/k raises instead of its answer number j: any query, in any context, is only
   cut short - the answers are a prefix and the query ends with the exception - or does not change at all *)
Theorem C20_exception_passthrough_chain_member : forall w pname k i j n name args s,
  let r' := cquery n (with_raising_member w pname k i j) name args s in
  let r := cquery n w name args s in
  (snd r' = false /\ r' = r) \/ (snd r' = true /\ prefixl (fst r') (fst r)).
Proof. exact exception_passthrough_member. Qed.
Print Assumptions C20_exception_passthrough_chain_member.

Theorem C20_exception_at_the_chain : forall call ds1 f ds2 j args s,
  snd (run_chain call ds1 args s) = false -> j < length (fst (f args s)) ->
  run_chain call (ds1 ++ CNat (raising f j) :: ds2) args s =
  (fst (run_chain call ds1 args s) ++ firstn j (fst (drop (f args s))), true).
Proof. exact raising_member_at_the_chain. Qed.
Print Assumptions C20_exception_at_the_chain.

(* the chain engine with the exception OBJECT carried along (Sem/NativeChainExc.v; what the check evaluates): it erases to cquery,
   also when built by a sequence of operations; and whatever property the engine's own exceptions and those raised by the Python
   predicates that are chain members (or variadic) have, the exception that ends any query has it - chain_functions /
   itertools.chain create, wrap or replace nothing *)
Theorem C20_chain_engine_with_exceptions_refines : forall w n name args s,
  er (cqueryE n w name args s) = cquery n (erase_cworld w) name args s.
Proof. exact erase_cqueryE. Qed.
Print Assumptions C20_chain_engine_with_exceptions_refines.

Theorem C20_chain_engine_with_exceptions_built : forall ops n name args s,
  er (cqueryE n (buildE cemptyE ops) name args s) = cquery n (build cempty (map erase_op ops)) name args s.
Proof. exact erase_built_cqueryE. Qed.
Print Assumptions C20_chain_engine_with_exceptions_built.

Theorem C20_chain_exception_provenance : forall Q : exn -> Prop, Q XDepth -> Q XUnify -> Q XGoal -> Q XCode ->
  forall w : cworldE,
  (forall name k ds f args s e, ce_fix w name k = Some ds -> In (ENat f) ds -> snd (f args s) = Some e -> Q e) ->
  (forall name f args s e, ce_var w name = Some f -> snd (f args s) = Some e -> Q e) ->
  forall n name args s e, snd (cqueryE n w name args s) = Some e -> Q e.
Proof. exact chain_exception_provenance. Qed.
Print Assumptions C20_chain_exception_provenance.

Theorem C20_chain_exception_unchanged : forall w tag,
  (forall name k ds f args s e, ce_fix w name k = Some ds -> In (ENat f) ds -> snd (f args s) = Some e -> e = XPy tag) ->
  (forall name f args s e, ce_var w name = Some f -> snd (f args s) = Some e -> e = XPy tag) ->
  forall n name args s e, snd (cqueryE n w name args s) = Some e -> engine_exn e \/ e = XPy tag.
Proof. exact chain_exception_unchanged. Qed.
Print Assumptions C20_chain_exception_unchanged.

(* non-vacuity: rules  c1(X) :- m(X).  c2(X) :- m(X), !.  c5(L) :- findall(X, m(X), L).  loaded first; then
   register_function(m, python predicate over {a, b} yielding True); then load_script(m(c). m(X) :- c2(X)., overwrite=False) *)
Definition ch_rules : program :=
  [ {| c_name := d "c1"; c_args := [X]; c_body := BCall (d "m") [X] |};
    {| c_name := d "c2"; c_args := [X]; c_body := BAnd (BCall (d "m") [X]) BCut |};
    {| c_name := d "c5"; c_args := [L]; c_body := BCall (d "findall") [X; SFun (d "m") [X]; L] |} ].
Definition ch_rows := [[A "a"]; [A "b"]].
Definition ch_later : program := [ fact_clause (d "m") [A "c"] ].
Definition ch_code (p : list clause) : list stmt := match compile_clauses p 0 with Some (code, _) => code | None => [] end.
Definition ch_f (p : list clause) : func := {| fn_name := d "m"; fn_arity := 1; fn_body := ch_code p |}.
Definition ch_ir : ir_program := match compile_program ch_rules with Some ir => ir | None => [] end.
Definition ch_m := native_rows (map row_of ch_rows) [true; true].
Definition ch_py : list op := [OLoad ch_ir true; OReg (d "m") 1 ch_m; OLoad [ch_f ch_later] false].
Definition ch_tw : list op := [OLoad ch_ir true; OLoad [ch_f (map (fact_clause (d "m")) ch_rows)] true; OLoad [ch_f ch_later] false].

Example C20_chain_nonvacuous :
  Forall2 op_twin ch_py ch_tw /\
  c_fix (build cempty ch_py) (d "m") 1 = Some [CNat ch_m; CIr (ch_f ch_later)] /\
  (let ta := TAtom (d "a") in let tb := TAtom (d "b") in let tc := TAtom (d "c") in
   let ans := fun nq (r : list st * bool) => (map (answer_of nq) (fst r), snd r) in
   ans 1 (cquery 6 (build cempty ch_py) (d "m") [TVar 0] (st0 1)) = ([[ta]; [tb]; [tc]], false) /\
   ans 1 (cquery 6 (build cempty ch_tw) (d "c1") [TVar 0] (st0 1)) = ([[ta]; [tb]; [tc]], false) /\
   ans 1 (cquery 6 (build cempty ch_py) (d "c2") [TVar 0] (st0 1)) = ([[ta]], false) /\
   ans 1 (cquery 6 (build cempty ch_py) (d "c5") [TVar 0] (st0 1)) = ([[mk_list [ta; tb; tc]]], false) /\
   (* the Python predicate (member 0 of the chain) raises instead of its answer number 1: a, then the exception; m(c) is not tried *)
   ans 1 (cquery 6 (with_raising_member (build cempty ch_py) (d "m") 1 0 1) (d "c1") [TVar 0] (st0 1)) = ([[ta]], true) /\
   ans 1 (cquery 6 (with_raising_member (build cempty ch_py) (d "m") 1 0 1) (d "c2") [TVar 0] (st0 1)) = ([[ta]], false) /\
   (* with the exception object: the Python predicate raises XPy 7 instead of its answer number 1; three frames up it is XPy 7 *)
   (let r := cqueryE 6 (buildE cemptyE [ELoad ch_ir true; EReg (d "m") 1 (raisingE (liftE ch_m) 1 7); ELoad [ch_f ch_later] false])
               (d "c1") [TVar 0] (st0 1) in (map (answer_of 1) (fst r), snd r) = ([[ta]], Some (XPy 7)))).
Proof.
  split.
  { constructor; [apply twin_same|]. constructor; [|constructor; [apply twin_same|constructor]].
    eapply (twin_facts (d "m") 1 ch_rows [true; true] _ 0); [discriminate|repeat constructor| |reflexivity|reflexivity].
    vm_compute. reflexivity. }
  split; [reflexivity|]. vm_compute. repeat split.
Qed.

(* ------------------------------------------------------------------ round 4: behind every consumer API (Sem/Consumers.v)
   The answers of a registered Python predicate queried at the top level reach the consumer with the yielded values; predicates
   that agree after dropping them are indistinguishable behind plain iteration, YP.evaluate_bounded, list(query) (number of
   answers, end) and next(query) + close(). *)
From YP Require Import Sem.Consumers.

Theorem C20_consumers_yield_value_irrelevant : forall (A : Type) (read : st -> A) (r1 r2 : nres),
  drop r1 = drop r2 ->
  plain_iteration st A read r1 = plain_iteration st A read r2 /\
  evaluate_bounded st A (fun _ => read) r1 = evaluate_bounded st A (fun _ => read) r2 /\
  length (fst (list_query st r1)) = length (fst (list_query st r2)) /\ snd (list_query st r1) = snd (list_query st r2) /\
  next_then_close st A read r1 = next_then_close st A read r2.
Proof. exact native_consumers_yield_value_irrelevant. Qed.
Print Assumptions C20_consumers_yield_value_irrelevant.

(* non-vacuity: q/1 over {a, b, c} yielding True, True, True and yielding False, True, False *)
Example C20_consumers_nonvacuous :
  let r1 := native_rows (map row_of q_rows) [true; true; true] [TVar 0] (st0 1) in
  let r2 := native_rows (map row_of q_rows) [false; true; false] [TVar 0] (st0 1) in
  drop r1 = drop r2 /\ r1 <> r2 /\
  evaluate_bounded st (list term) (fun _ x => answer_of 1 x) r1 = [[TAtom (d "a")]; [TAtom (d "b")]; [TAtom (d "c")]] /\
  evaluate_bounded_stopping st (list term) (fun _ x => answer_of 1 x) r1 = [[TAtom (d "a")]].
Proof. vm_compute. repeat split. intros H. discriminate H. Qed.

From Coq Require Import Bool.
(* non-vacuity with a RE-ENTRANT Python predicate: t1(X,Y) :- q(X), e(X,Y) written in Python - the registered function queries the
   engine it is registered in (the world below it: w_py with q/1 and e/2 as Python predicates) inside its own loop and yields once
   per inner answer.  (No inner query raises here; the general case would have to stop at the first inner exception.) *)
Definition t1_py (w : world) : nfun := fun args s =>
  match args with
  | [x; y] =>
      let r1 := nquery 5 w (d "q") [x] s in
      let rs := map (fun s1 => nquery 5 w (d "e") [x; y] s1) (fst r1) in
      (flat_map (fun r => map (fun s2 => (s2, true)) (fst r)) rs, snd r1 || existsb snd rs)
  | _ => ([], false)
  end.
Definition w_re (ir : ir_program) : world :=
  let w := w_py ir in
  {| w_ir := w_ir w; w_fix := fun n k => if key_eq (n, k) (d "t1", 2) then Some (t1_py w) else w_fix w n k;
     w_var := w_var w; w_dyn := w_dyn w |}.

Example C20_reentrant_nonvacuous :
  match compile_program ex_rules, compile_program ex_full with
  | Some ir, Some irf =>
      let ta := TAtom (d "a") in let tb := TAtom (d "b") in let tc := TAtom (d "c") in
      (* every query of the engine with the re-entrant t1/2 as of the all-compiled engine *)
      nquery 7 (w_re ir) (d "t1") [TVar 0; TVar 1] (st0 2) = nquery 7 (plain irf) (d "t1") [TVar 0; TVar 1] (st0 2) /\
      (* behind evaluate_bounded: both answers although each arrives flagged True; the stopping consumer would lose the second *)
      evaluate_bounded st (list term) (fun _ x => answer_of 2 x) (t1_py (w_py ir) [TVar 0; TVar 1] (st0 2)) = [[ta; tb]; [tb; tc]] /\
      evaluate_bounded_stopping st (list term) (fun _ x => answer_of 2 x) (t1_py (w_py ir) [TVar 0; TVar 1] (st0 2)) = [[ta; tb]]
  | _, _ => False
  end.
Proof. vm_compute. repeat split. Qed.
