(* C20 - Python predicates are interchangeable with compiled ones.
   Only statements; every proof is `exact <lemma>` to a lemma of Sem/NativeThms.v. *)
From Coq Require Import String.
From Coq Require Import List Arith ZArith.
Import ListNotations.
From YP Require Import Base.Str Term.Term Unify.Unify Lang.Ast Comp.IR Sem.Machine Sem.Native Sem.NativeThms.

Theorem C20_yield_value_irrelevant_leaf : forall rows vals args s,
  drop (native_rows rows vals args s) = match_rows rows args s.
Proof. exact drop_native_rows. Qed.
Print Assumptions C20_yield_value_irrelevant_leaf.
