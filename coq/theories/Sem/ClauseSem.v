(* Clause-level reference semantics of a program ("SLD resolution with the compiler's way of
   creating the clause variables"), stated on the SOURCE program only - no intermediate code, no
   loops, no flags, no labels, no rewriting:

   solveA n P name args st :
     the clauses of name/arity are tried in source order; for each clause
       1. a head argument that is a plain variable occurring once among the top-level head arguments
          simply names the corresponding goal argument (X := arg_i);
       2. every other variable of the clause gets a fresh cell (head variables first, then body
          variables, each in order of first occurrence);
       3. the remaining head arguments are unified with the goal arguments, left to right, by the
          engine's unification (C02: computes a most general unifier);
       4. the body runs under the reference control semantics RefSem.sem (textbook semantics of
          , ; -> \+ ! true fail), calls being resolved by solveA one level down;
     a cut ends the clause loop and is not propagated to the caller; an error (call depth
     exhausted, cyclic unification) ends the enumeration after the answers produced so far.
     A name/arity without clauses is a builtin (=, \=, call/N, once/1, findall/3) or fails.
   n is the step index = nesting depth of calls.

   Sem/ProgramCorrect.v proves that the compiled program, run by the model of the emitted
   code (Sem/Machine.query), computes exactly solveA. *)
From Coq Require Import String.
From Coq Require Import List Arith Bool ZArith NArith.
Import ListNotations.
From YP Require Import Base.Str Term.Term Term.Fast Unify.Unify Unify.Fast Lang.Ast Comp.IR Comp.CompileBody Comp.CompileClause
  Sem.Res Sem.RefSem Sem.IRSem Sem.Machine.
Local Open Scope string_scope.
Local Open Scope list_scope.

(* the term a source term denotes in an activation whose local names are bound as in r *)
Fixpoint instA (r : env) (t : sterm) : term :=
  match t with
  | SAtom a => TAtom a
  | SNum ds => TInt (digits_value ds)
  | SVar v => match env_get (pyvar v) r with Some x => x | None => bad_term end
  | SFun f args => TFun f (map (instA r) args)
  | SList items => mk_list (map (instA r) items)
  | SPair h t => cons_term (instA r h) (instA r t)
  end.

Definition argval (i : nat) (r : env) : term :=
  match env_get (argvar i) r with Some t => t | None => bad_term end.

(* step 1: X := arg_i for the aliased positions *)
Fixpoint alias_env (i : nat) (pos : list (option str)) (r : env) : env :=
  match pos with
  | [] => r
  | Some v :: rest => alias_env (S i) rest ((pyvar v, argval i r) :: r)
  | None :: rest => alias_env (S i) rest r
  end.

(* step 2: fresh cells *)
Fixpoint fresh_env (vars : list str) (r : env) (k : nat) : env * nat :=
  match vars with
  | [] => (r, k)
  | v :: rest => fresh_env rest ((pyvar v, TVar k) :: r) (S k)
  end.

Definition clause_pos (c : clause) := head_args_by_pos (c_args c).
Definition clause_fv_head (c : clause) := filter_free (some_list (clause_pos c)) (flat_map sterm_vars (c_args c)).
Definition clause_fv_body (c : clause) := filter_free (some_list (clause_pos c) ++ clause_fv_head c) (body_vars (c_body c)).

Definition clause_enter (c : clause) (cf : cfg) : cfg :=
  let '(r, s) := cf in
  let r1 := alias_env 0 (clause_pos c) r in
  let '(r2, k) := fresh_env (clause_fv_head c ++ clause_fv_body c) r1 (nxt s) in
  (r2, {| sto := sto s; nxt := k |}).

Inductive hres := HOk (s : st) | HFail | HErr.

(* step 3 *)
Fixpoint head_unify (i : nat) (pos : list (option str)) (args : list sterm) (r : env) (s : st) : hres :=
  match pos, args with
  | None :: pr, a :: ar =>
      match unify_fast ufuel (sto s) (argval i r) (instA r a) with
      | UOk s' => head_unify (S i) pr ar r {| sto := s'; nxt := nxt s |}
      | UFail => HFail
      | UOof | UCyc => HErr
      end
  | Some _ :: pr, _ :: ar => head_unify (S i) pr ar r s
  | _, _ => HOk s
  end.

Section Clauses.
Variable call : str -> list term -> st -> list st * bool.

Definition leafA (f : str) (sargs : list sterm) (c : cfg) : list cfg * bool :=
  let '(r, s) := c in
  let '(xs, e) := call f (map (instA r) sargs) s in (map (fun x => (r, x)) xs, e).

(* steps 3 and 4 for one clause, entered at cf1 *)
Definition clause_res (c : clause) (cf1 : cfg) : res cfg :=
  let '(r, s) := cf1 in
  match head_unify 0 (clause_pos c) (c_args c) r s with
  | HOk s' => sem leafA (c_body c) (r, s')
  | HFail => ([], FNorm)
  | HErr => ([], FErr)
  end.

Fixpoint clausesA (cs : list clause) (cf : cfg) : res cfg :=
  match cs with
  | [] => ([], FNorm)
  | c :: rest =>
      let cf1 := clause_enter c cf in
      let '(ys, f) := clause_res c cf1 in
      match f with
      | FNorm => let '(zs, g) := clausesA rest cf1 in (ys ++ zs, g)
      | _ => (ys, f)
      end
  end.
End Clauses.

Definition clauses_for (p : program) (name : str) (ar : nat) : list clause :=
  filter (fun c => key_eqb (clause_key c) (name, ar)) p.

Fixpoint solveA (n : nat) (p : program) (name : str) (args : list term) (s : st) {struct n} : list st * bool :=
  match n with
  | O => ([], true)
  | S n' =>
      match clauses_for p name (length args) with
      | [] => match builtin (solveA n' p) name args s with Some r => r | None => ([], false) end
      | cs => let '(ys, f) := clausesA (solveA n' p) cs (bind_args 0 args, s) in
              (map snd ys, match f with FErr => true | _ => false end)
      end
  end.
