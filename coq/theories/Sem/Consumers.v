(* The consumer APIs of a query (round 4; C05, C20).

   YP.query returns a Python generator: a stream of answers (the bindings in force while the generator is suspended), each
   with the value that was yielded - False, or True for "the clause that produced this answer committed with a final cut" (a
   registered Python predicate may yield anything) -, ending normally or with an exception.  The documented ways of consuming
   it are modelled here over such a stream, whatever engine produced it (Sem/Native.v nquery with the flags of the top-level
   definition, Sem/NativeChain.v, a re-entrant Python predicate that passes the answers of an inner query on):

     for x in q: read()                                    plain_iteration
     yp.evaluate_bounded(q, projection, recursion_limit)   evaluate_bounded   (for x in q: result.append(projection(x));
                                                                               a RuntimeError ends the loop silently)
     list(q)                                               list_query         (the flags only; the bindings are undone)
     next(q); q.close()                                    next_then_close

   Proved: none of them depends on the flags (streams that agree after dropping the flags are indistinguishable for a projection
   that does not look at the flag: the number of answers, every answer, the first answer, the end), evaluate_bounded is plain
   iteration with the end dropped; and the consumer that STOPS at a flagged answer (evaluate_bounded_stopping: `if x is True:
   break`) delivers a prefix, which is everything exactly when no flagged answer has a successor - so it loses answers as soon
   as a flagged answer is followed by another one (a caller with alternatives of its own, a second definition chained behind
   the cutting one): the flag means "the clause committed", never "the query has no more answers". *)
From Coq Require Import List Bool Arith Lia.
Import ListNotations.

Section Consumers.
  Variables St A : Type.

  Definition stream := (list (St * bool) * bool)%type.      (* answers with the yielded flag; ended by an exception? *)

  Definition plain_iteration (read : St -> A) (r : stream) : list A * bool :=
    (map (fun a => read (fst a)) (fst r), snd r).

  Definition evaluate_bounded (proj : bool -> St -> A) (r : stream) : list A :=
    map (fun a => proj (snd a) (fst a)) (fst r).

  Definition list_query (r : stream) : list bool * bool := (map snd (fst r), snd r).

  Definition next_then_close (read : St -> A) (r : stream) : option A * bool :=
    match fst r with
    | a :: _ => (Some (read (fst a)), false)      (* the rest of the search is never run *)
    | [] => (None, snd r)
    end.

  (* the consumer of the seeded change: stop after an answer that arrives flagged *)
  Fixpoint until_flag (l : list (St * bool)) : list (St * bool) :=
    match l with
    | [] => []
    | a :: rest => if snd a then [a] else a :: until_flag rest
    end.

  Definition evaluate_bounded_stopping (proj : bool -> St -> A) (r : stream) : list A :=
    map (fun a => proj (snd a) (fst a)) (until_flag (fst r)).

  Lemma evaluate_bounded_is_plain_iteration : forall read r,
    evaluate_bounded (fun _ => read) r = fst (plain_iteration read r).
  Proof. intros read r. reflexivity. Qed.

  (* streams that agree after dropping the flags are indistinguishable *)
  Lemma consumers_ignore_flags : forall (read : St -> A) (r1 r2 : stream),
    map fst (fst r1) = map fst (fst r2) -> snd r1 = snd r2 ->
    plain_iteration read r1 = plain_iteration read r2 /\
    evaluate_bounded (fun _ => read) r1 = evaluate_bounded (fun _ => read) r2 /\
    length (fst (list_query r1)) = length (fst (list_query r2)) /\ snd (list_query r1) = snd (list_query r2) /\
    next_then_close read r1 = next_then_close read r2.
  Proof.
    intros read [l1 e1] [l2 e2] Hl He. cbn [fst snd] in *. subst e2.
    assert (Hm : map (fun a : St * bool => read (fst a)) l1 = map (fun a : St * bool => read (fst a)) l2).
    { rewrite <- (map_map fst read l1), <- (map_map fst read l2), Hl. reflexivity. }
    unfold plain_iteration, evaluate_bounded, list_query, next_then_close. cbn [fst snd].
    repeat split.
    - rewrite Hm. reflexivity.
    - exact Hm.
    - rewrite !map_length. rewrite <- (map_length fst l1), <- (map_length fst l2), Hl. reflexivity.
    - destruct l1 as [|a1 t1], l2 as [|a2 t2]; cbn in Hl; try discriminate; [reflexivity|].
      injection Hl as Ha _. rewrite Ha. reflexivity.
  Qed.

  Lemma until_flag_prefix : forall l, exists post, l = until_flag l ++ post.
  Proof.
    induction l as [|a rest IH]; [exists []; reflexivity|].
    cbn [until_flag]. destruct (snd a).
    - exists rest. reflexivity.
    - destruct IH as [post IH]. exists post. cbn. rewrite <- IH. reflexivity.
  Qed.

  Lemma stopping_delivers_a_prefix : forall proj r, exists post,
    evaluate_bounded proj r = evaluate_bounded_stopping proj r ++ post.
  Proof.
    intros proj r. destruct (until_flag_prefix (fst r)) as [post H].
    exists (map (fun a => proj (snd a) (fst a)) post).
    unfold evaluate_bounded, evaluate_bounded_stopping. rewrite <- map_app, <- H. reflexivity.
  Qed.

  (* no flagged answer has a successor *)
  Definition flag_only_last (l : list (St * bool)) : Prop :=
    forall pre a post, l = pre ++ a :: post -> post <> [] -> snd a = false.

  Lemma until_flag_all_iff : forall l, until_flag l = l <-> flag_only_last l.
  Proof.
    induction l as [|a rest IH].
    - split; [|reflexivity]. intros _ pre a post H. destruct pre; discriminate.
    - cbn [until_flag]. destruct (snd a) eqn:Ea.
      + split.
        * intros H. injection H as H. subst rest. intros pre b post Hl Hp.
          destruct pre as [|x [|y pre]]; cbn in Hl.
          -- injection Hl as _ Hl. subst post. contradiction.
          -- injection Hl as _ Hl. discriminate.
          -- injection Hl as _ Hl. discriminate.
        * intros H. destruct rest as [|b rest]; [reflexivity|].
          specialize (H [] a (b :: rest) eq_refl). rewrite Ea in H. discriminate H. discriminate.
      + split.
        * intros H. injection H as H. apply IH in H. intros pre b post Hl Hp.
          destruct pre as [|x pre]; cbn in Hl.
          -- injection Hl as Hb _. subst b. exact Ea.
          -- injection Hl as _ Hl. exact (H pre b post Hl Hp).
        * intros H. f_equal. apply IH. intros pre b post Hl Hp.
          apply (H (a :: pre) b post); [cbn; rewrite Hl; reflexivity|exact Hp].
  Qed.

  Lemma until_flag_length : forall l, length (until_flag l) <= length l.
  Proof.
    intros l. destruct (until_flag_prefix l) as [post H]. rewrite H at 2. rewrite app_length. lia.
  Qed.

  (* a flagged answer that is followed by another one: the stopping consumer loses answers *)
  Lemma stopping_loses_answers : forall proj (r : stream) pre s post,
    fst r = pre ++ (s, true) :: post -> post <> [] ->
    length (evaluate_bounded_stopping proj r) < length (evaluate_bounded proj r).
  Proof.
    intros proj r pre s post Hl Hp. unfold evaluate_bounded, evaluate_bounded_stopping. rewrite !map_length.
    assert (Hn : until_flag (fst r) <> fst r).
    { intros H. apply until_flag_all_iff in H. specialize (H pre (s, true) post Hl Hp). discriminate H. }
    destruct (until_flag_prefix (fst r)) as [post' H'].
    destruct post' as [|x post'].
    - rewrite app_nil_r in H'. symmetry in H'. contradiction.
    - rewrite H' at 2. rewrite app_length. cbn. lia.
  Qed.

  Lemma stopping_complete_iff : forall proj (r : stream),
    evaluate_bounded_stopping proj r = evaluate_bounded proj r <-> flag_only_last (fst r).
  Proof.
    intros proj r. split.
    - intros H. apply until_flag_all_iff.
      assert (Hlen : length (until_flag (fst r)) = length (fst r)).
      { apply (f_equal (@length A)) in H. unfold evaluate_bounded, evaluate_bounded_stopping in H.
        rewrite !map_length in H. exact H. }
      destruct (until_flag_prefix (fst r)) as [post H'].
      destruct post as [|x post]; [rewrite app_nil_r in H'; symmetry; exact H'|].
      rewrite H' in Hlen at 2. rewrite app_length in Hlen. cbn in Hlen. lia.
    - intros H. unfold evaluate_bounded_stopping, evaluate_bounded.
      apply until_flag_all_iff in H. rewrite H. reflexivity.
  Qed.
End Consumers.

(* the same for the answers of a registered Python predicate queried at the top level (Sem/Native.v: nres is such a stream):
   predicates that agree after dropping the yielded values are indistinguishable behind every consumer API *)
From YP Require Import Sem.Machine Sem.Native.

Lemma native_consumers_yield_value_irrelevant : forall (A : Type) (read : st -> A) (r1 r2 : nres),
  drop r1 = drop r2 ->
  plain_iteration st A read r1 = plain_iteration st A read r2 /\
  evaluate_bounded st A (fun _ => read) r1 = evaluate_bounded st A (fun _ => read) r2 /\
  length (fst (list_query st r1)) = length (fst (list_query st r2)) /\ snd (list_query st r1) = snd (list_query st r2) /\
  next_then_close st A read r1 = next_then_close st A read r2.
Proof.
  intros A read r1 r2 H. unfold drop in H. injection H as H1 H2.
  exact (consumers_ignore_flags st A read r1 r2 H1 H2).
Qed.
