(* compile_body is correct with respect to the reference control semantics, for all bodies
   (a cut inside a condition or under \+ is local to it). *)
From Coq Require Import List Arith Bool Lia.
Import ListNotations.
From YP Require Import Base.Str Lang.Ast Sem.Res Sem.RefSem Sem.SemLemmas Comp.IR Comp.CompileBody Sem.IRSem.
Set Implicit Arguments.

Fixpoint wfm (cnt:nat) (b:body) : bool :=
  match b with
  | BMark l => l <=? cnt
  | BAnd a b | BOr a b | BIf a b => wfm cnt a && wfm cnt b
  | BNot a => wfm cnt a
  | _ => true end.

Section C.
Variable S : Type.
Variable I : str -> list sterm -> S -> list S * bool.
Variable J : expr -> S -> list S * bool.
Variable assign : str -> expr -> S -> S.
Hypothesis HJ : forall f args s, J (query_expr f args) s = I f args s.
Notation sem := (sem I).
Notation exec_list := (exec_list J assign).
Notation exec_stmt := (exec_stmt J assign).

(* which end markers a body can produce *)
Definition finP (P:fin -> Prop) (b:body) := forall s, P (snd (sem b s)).

Lemma seqr_fin (P:fin->Prop) (f:S->res S) xs e :
  P e -> (forall x, snd (f x) = FNorm \/ P (snd (f x))) -> P (snd (seqr f xs e)).
Proof.
  intros He Hf. induction xs as [|x r IH]; simpl; [exact He|].
  destruct (Hf x) as [H|H]; destruct (f x) as [ys g]; simpl in *.
  - subst g. destruct (seqr f r e); simpl in *; exact IH.
  - destruct g; simpl; try exact H. destruct (seqr f r e); simpl in *; exact IH.
Qed.



Lemma por_fin (P:fin->Prop) (ra rb:res S) : (snd ra = FNorm \/ P (snd ra)) -> P (snd rb) -> P (snd (por ra rb)).
Proof. destruct ra as [xs fa], rb as [ys g]; simpl; intros [H|H] Hb; subst; simpl; auto. destruct fa; simpl; auto. Qed.

Lemma ite_fin (P:fin->Prop) rc (t:S->res S) e :
  (snd rc = FNorm \/ P (snd rc)) -> (forall x, P (snd (t x))) -> P (snd e) -> P (snd (ite rc t e)).
Proof. destruct rc as [[|x r] f]; simpl; intros H Ht He; auto. destruct H as [H|H]; subst; auto. destruct f; simpl; auto. Qed.

Lemma opaque_fin (P:fin->Prop) (r:res S) : (snd r = FCut \/ snd r = FNorm \/ P (snd r)) -> snd (opaque r) = FNorm \/ P (snd (opaque r)).
Proof. destruct r as [xs f]; simpl; intros [H|[H|H]]; subst; simpl; auto. destruct f; simpl; auto. Qed.

Lemma tcut_sem b : tcut b = false -> forall s, snd (sem b s) <> FCut.
Proof.
  set (P := fun f:fin => f <> FCut).
  assert (PN: P FNorm) by discriminate.
  assert (PE: P FErr) by discriminate.
  assert (PX: forall l, P (FExit l)) by (intros l; discriminate).
  enough (H: tcut b = false -> forall s, P (snd (sem b s))) by exact H.
  induction b using body_ind'; simpl; intros Htc s; auto; try discriminate.
  - match goal with |- context[I ?f0 ?a0 ?s0] => destruct (I f0 a0 s0) as [xs e] end; simpl; destruct e; auto.
  - apply orb_false_iff in Htc as [Ha Hb]. destruct (RefSem.sem I b1 s) as [xs e] eqn:E.
    apply seqr_fin.
    + specialize (IHb1 Ha s). rewrite E in IHb1. exact IHb1.
    + intros x. right. apply IHb2; exact Hb.
  - apply orb_false_iff in Htc as [Ha Hb].
    match goal with Hif: isif _ = false |- _ =>
      let E := fresh in pose proof (@sem_or_plain _ I b1 b2 s Hif) as E; simpl in E; rewrite E; clear E end.
    apply por_fin; [right; apply IHb1; exact Ha|apply IHb2; exact Hb].
  - apply orb_false_iff in Htc as [Ha Hb]. apply ite_fin.
    + apply opaque_fin. destruct (snd (RefSem.sem I b1 s)); auto.
    + intros x. apply IHb2; exact Ha.
    + apply IHb3; exact Hb.
  - apply ite_fin.
    + apply opaque_fin. destruct (snd (RefSem.sem I b1 s)); auto.
    + intros x. apply IHb2; exact Htc.
    + exact PN.
  - apply ite_fin.
    + apply opaque_fin. destruct (snd (RefSem.sem I b s)); auto.
    + intros; exact PN.
    + exact PN.
Qed.

Lemma wfm_sem cnt b : wfm cnt b = true -> forall s l, snd (sem b s) = FExit l -> l <= cnt.
Proof.
  set (P := fun f:fin => forall l, f = FExit l -> l <= cnt).
  assert (PN: P FNorm) by (intros l; discriminate).
  assert (PC: P FCut) by (intros l; discriminate).
  assert (PE: P FErr) by (intros l; discriminate).
  enough (H: wfm cnt b = true -> forall s, P (snd (sem b s))) by (intros W s l; apply (H W s)).
  induction b using body_ind'; simpl; intros W s; auto.
  - match goal with |- context[I ?f0 ?a0 ?s0] => destruct (I f0 a0 s0) as [xs e] end; simpl; destruct e; auto.
  - intros l0 E; inversion E; subst. apply Nat.leb_le; exact W.
  - apply andb_true_iff in W as [Wa Wb]. destruct (RefSem.sem I b1 s) as [xs e] eqn:E.
    apply seqr_fin.
    + specialize (IHb1 Wa s). rewrite E in IHb1. exact IHb1.
    + intros x. right. apply IHb2; exact Wb.
  - apply andb_true_iff in W as [Wa Wb].
    match goal with Hif: isif _ = false |- _ =>
      let E := fresh in pose proof (@sem_or_plain _ I b1 b2 s Hif) as E; simpl in E; rewrite E; clear E end.
    apply por_fin; [right; apply IHb1; exact Wa|apply IHb2; exact Wb].
  - apply andb_true_iff in W as [Wa Wb]. simpl in Wa. apply andb_true_iff in Wa as [Wc Wt]. apply ite_fin.
    + apply opaque_fin. right; right. apply IHb1; exact Wc.
    + intros x. apply IHb2; exact Wt.
    + apply IHb3; exact Wb.
  - apply andb_true_iff in W as [Wc Wt]. apply ite_fin.
    + apply opaque_fin. right; right. apply IHb1; exact Wc.
    + intros x. apply IHb2; exact Wt.
    + exact PN.
  - apply ite_fin.
    + apply opaque_fin. right; right. apply IHb; exact W.
    + intros; exact PN.
    + exact PN.
Qed.

Lemma wfm_mono cnt cnt' b : cnt <= cnt' -> wfm cnt b = true -> wfm cnt' b = true.
Proof.
  intros Hle. induction b; simpl; intros W; auto;
    try (apply andb_true_iff in W as [Wa Wb]; apply andb_true_iff; split; auto).
  apply Nat.leb_le in W. apply Nat.leb_le. lia.
Qed.

(* compile_body never emits an assignment *)
Definition isasg (st:stmt) : bool := match st with SAssign _ _ => true | _ => false end.
Definition noasg (c:list stmt) : bool := forallb (fun st => negb (isasg st)) c.
Lemma noasg_app c1 c2 : noasg (c1++c2) = noasg c1 && noasg c2.
Proof. apply forallb_app. Qed.

Lemma exec_list_cons st r s f : isasg st = false -> exec_list (st::r) s f =
  let '(ys,k,f1) := exec_stmt st s f in
  match k with CNorm => let '(zs,k2,f2) := exec_list r s f1 in (ys++zs,k2,f2) | _ => (ys,k,f1) end.
Proof. destruct st; simpl; intros H; try discriminate; reflexivity. Qed.

Lemma exec_list_app c1 c2 s f : noasg c1 = true -> exec_list (c1++c2) s f =
  let '(ys,k,f1) := exec_list c1 s f in
  match k with CNorm => let '(zs,k2,f2) := exec_list c2 s f1 in (ys++zs,k2,f2) | _ => (ys,k,f1) end.
Proof.
  revert f. induction c1 as [|st r IH]; intros f NA.
  - simpl. destruct (exec_list c2 s f) as [[zs k2] f2]; reflexivity.
  - simpl in NA. apply andb_true_iff in NA as [NA1 NA2]. apply negb_true_iff in NA1.
    rewrite <- app_comm_cons, !exec_list_cons by exact NA1.
    destruct (exec_stmt st s f) as [[ys k] f1]. destruct k; try reflexivity.
    rewrite IH by exact NA2. destruct (exec_list r s f1) as [[zs k2] f2]. destruct k2; try reflexivity.
    destruct (exec_list c2 s f2) as [[ws k3] f3]. rewrite app_assoc. reflexivity.
Qed.

Definition catch l (r:res S) : res S :=
  match r with (xs,FExit l') => if Nat.eqb l' l then (xs,FNorm) else r | _ => r end.

Lemma sem_block c t e l s :
  tcut c = false ->
  snd (sem c s) <> FExit l -> (forall x, snd (sem t x) <> FExit l) -> snd (sem e s) <> FExit l ->
  catch l (sem (BOr (BAnd c (BAnd (BMark l) t)) e) s) = sem (BOr (BIf c t) e) s.
Proof.
  intros Hc Xc Xt Xe.
  rewrite (@sem_or_plain _ I (BAnd c (BAnd (BMark l) t)) e s eq_refl), sem_or_if.
  rewrite sem_and. pose proof (tcut_sem c Hc s) as Nc.
  destruct (RefSem.sem I c s) as [xs fc] eqn:Ec. simpl in Nc, Xc. unfold bindr; simpl fst; simpl snd.
  destruct xs as [|x r].
  - simpl. destruct fc; simpl; try congruence.
    + destruct (RefSem.sem I e s) as [ys g] eqn:Ee; simpl in *. destruct g; try reflexivity.
      destruct (Nat.eqb l0 l) eqn:El; [apply Nat.eqb_eq in El; congruence|reflexivity].
    + destruct (Nat.eqb l0 l) eqn:El; [apply Nat.eqb_eq in El; congruence|reflexivity].
  - assert (E: seqr (RefSem.sem I (BAnd (BMark l) t)) (x::r) fc =
               let '(ys,g) := RefSem.sem I t x in (ys, match g with FNorm => FExit l | _ => g end)).
    { simpl. destruct (RefSem.sem I t x) as [ys g]; destruct g; try reflexivity. rewrite app_nil_r. reflexivity. }
    rewrite E. specialize (Xt x).
    replace (ite (opaque (x :: r, fc)) (RefSem.sem I t) (RefSem.sem I e s)) with (RefSem.sem I t x) by (destruct fc; reflexivity).
    destruct (RefSem.sem I t x) as [ys g]; simpl in *. destruct g; simpl; try reflexivity.
    + rewrite Nat.eqb_refl. reflexivity.
    + destruct (Nat.eqb l0 l) eqn:El; [apply Nat.eqb_eq in El; congruence|reflexivity].
Qed.

Definition cof (fn:fin) : compl := match fn with FNorm => CNorm | FCut => CRet | FErr => CErr | FExit _ => CBrk end.
Definition post (cnt:nat) (fn:fin) (f f':flags) : Prop :=
  match fn with
  | FNorm => doBreak f' = false /\ (forall l, l <= cnt -> lab f' l = lab f l)
  | FExit l0 => doBreak f' = true /\ lab f' l0 = true /\ (forall l, l <= cnt -> l <> l0 -> lab f' l = lab f l)
  | _ => True
  end.
Definition okr (cnt:nat) (r:res S) (o:out S) (f:flags) : Prop :=
  exists f', o = (fst r, cof (snd r), f') /\ post cnt (snd r) f f'.
Definition ok (cnt:nat) (b:body) (code:list stmt) : Prop :=
  noasg code = true /\
  forall s f, doBreak f = false -> okr cnt (sem b s) (exec_list code s f) f.

Lemma post_mono cnt cnt' fn f f' : cnt <= cnt' -> post cnt' fn f f' -> post cnt fn f f'.
Proof. intros Hle. destruct fn; simpl; auto.
  - intros [H1 H2]; split; auto. intros l Hl; apply H2; lia.
  - intros [H1 [H2 H3]]; repeat split; auto. intros l0 Hl; apply H3; lia. Qed.
Lemma ok_mono cnt cnt' b code : cnt <= cnt' -> ok cnt' b code -> ok cnt b code.
Proof. intros Hle [NA H]. split; [exact NA|]. intros s f Hf. destruct (H s f Hf) as [f' [E P]]. exists f'; split; auto. eapply post_mono; eauto. Qed.
Lemma ok_ext cnt b b' code : (forall s, sem b s = sem b' s) -> ok cnt b' code -> ok cnt b code.
Proof. intros E [NA H]. split; [exact NA|]. intros s f Hf. rewrite E. apply H; exact Hf. Qed.

(* the loop of a Foreach realises seqr *)
Lemma after_loop_cons (body:S->flags->out S) e x r f :
  after_loop (loop body e (x::r) f) =
  let '(ys,k,f1) := body x f in
  match k with
  | CNorm => let '(zs,k2,f2) := after_loop (loop body e r f1) in (ys++zs,k2,f2)
  | CBrk => (ys, (if doBreak f1 then CBrk else CNorm), f1)
  | _ => (ys,k,f1) end.
Proof.
  simpl. destruct (body x f) as [[ys k] f1]. destruct k; try reflexivity.
  destruct (loop body e r f1) as [[zs k2] f2]. destruct k2; reflexivity.
Qed.

Lemma loop_ok cnt (K:S->res S) code (e:bool) :
  (forall x f, doBreak f = false -> okr cnt (K x) (exec_list code x f) f) ->
  forall xs f, doBreak f = false ->
  okr cnt (seqr K xs (if e then FErr else FNorm)) (after_loop (loop (exec_list code) e xs f)) f.
Proof.
  intros HK. induction xs as [|x r IH]; intros f Hf.
  - simpl. destruct e; simpl.
    + exists f; split; [reflexivity|exact Logic.I].
    + rewrite Hf. exists f; split; [reflexivity|]. simpl; auto.
  - rewrite after_loop_cons. destruct (HK x f Hf) as [f1 [E P]]. rewrite E. simpl seqr.
    destruct (K x) as [ys g]; simpl fst in *; simpl snd in *. destruct g; simpl cof; cbv iota.
    + destruct P as [P1 P2]. destruct (IH f1 P1) as [f2 [E2 Q]]. rewrite E2.
      destruct (seqr K r (if e then FErr else FNorm)) as [ws h]; simpl fst in *; simpl snd in *.
      exists f2. split; [reflexivity|].
      destruct h; simpl in *; auto.
      * destruct Q as [Q1 Q2]. split; auto. intros l0 Hl. rewrite Q2 by auto. apply P2; auto.
      * destruct Q as [Q1 [Q2 Q3]]. repeat split; auto. intros l0 Hl Hn. rewrite Q3 by auto. apply P2; auto.
    + exists f1; split; [reflexivity|exact Logic.I].
    + exists f1; split; [reflexivity|exact Logic.I].
    + destruct P as [P1 [P2 P3]]. rewrite P1. exists f1. split; [reflexivity|]. simpl. auto.
Qed.

Lemma exec_list_single st s f : isasg st = false -> exec_list [st] s f = exec_stmt st s f.
Proof. intros NA. rewrite exec_list_cons by exact NA. simpl. destruct (exec_stmt st s f) as [[ys k] f1]. destruct k; try reflexivity. rewrite app_nil_r. reflexivity. Qed.

Lemma ok_foreach cnt g args K c : ok cnt K c -> ok cnt (BAnd (BCall g args) K) [SForeach (query_expr g args) c].
Proof.
  intros [NA H]. split; [reflexivity|]. intros s f Hf. rewrite exec_list_single by reflexivity. rewrite exec_stmt_eq. simpl RefSem.sem.
  rewrite HJ. destruct (I g args s) as [xs e]. apply loop_ok; [|exact Hf]. intros x f0 Hf0. apply H; exact Hf0.
Qed.

Lemma ok_snoc_break cnt l K c : ok cnt K c -> ok cnt (BAnd (BMark l) K) (c ++ [SBreakBlock l]).
Proof.
  intros [NA H]. split; [rewrite noasg_app, NA; reflexivity|].
  intros s f Hf. rewrite exec_list_app by exact NA. destruct (H s f Hf) as [f1 [E P]]. rewrite E.
  rewrite sem_and. unfold bindr. simpl fst; simpl snd. rewrite seqr_single.
  destruct (RefSem.sem I K s) as [ys g]; simpl fst in *; simpl snd in *.
  destruct g; simpl cof; cbv iota.
  - simpl. exists (setbrk true (setlab l true f1)). rewrite app_nil_r. split; [reflexivity|].
    simpl in *. destruct P as [P1 P2]. rewrite Nat.eqb_refl. repeat split; auto.
    intros l0 Hl Hn. destruct (Nat.eqb l0 l) eqn:El; [apply Nat.eqb_eq in El; congruence|]. apply P2; exact Hl.
  - exists f1; split; [reflexivity|exact Logic.I].
  - exists f1; split; [reflexivity|exact Logic.I].
  - exists f1; split; [reflexivity|exact P].
Qed.

Lemma ok_snoc_return cnt K c : ok cnt K c -> ok cnt (BAnd BCut K) (c ++ [SReturn]).
Proof.
  intros [NA H]. split; [rewrite noasg_app, NA; reflexivity|].
  intros s f Hf. rewrite exec_list_app by exact NA. destruct (H s f Hf) as [f1 [E P]]. rewrite E.
  rewrite sem_and. unfold bindr. simpl fst; simpl snd. rewrite seqr_single.
  destruct (RefSem.sem I K s) as [ys g]; simpl fst in *; simpl snd in *.
  destruct g; simpl cof; cbv iota.
  - simpl. exists f1. rewrite app_nil_r. split; [reflexivity|exact Logic.I].
  - exists f1; split; [reflexivity|exact Logic.I].
  - exists f1; split; [reflexivity|exact Logic.I].
  - exists f1; split; [reflexivity|exact P].
Qed.

Lemma ok_app_or cnt x y c1 c2 : isif x = false -> ok cnt x c1 -> ok cnt y c2 -> ok cnt (BOr x y) (c1++c2).
Proof.
  intros Hx [NA1 H1] [NA2 H2]. split; [rewrite noasg_app, NA1, NA2; reflexivity|].
  intros s f Hf. rewrite exec_list_app by exact NA1. rewrite (@sem_or_plain _ I x y s Hx).
  destruct (H1 s f Hf) as [f1 [E P]]. rewrite E.
  destruct (RefSem.sem I x s) as [xs fa]; simpl fst in *; simpl snd in *.
  destruct fa; simpl cof; cbv iota; simpl por.
  - destruct P as [P1 P2]. destruct (H2 s f1 P1) as [f2 [E2 Q]]. rewrite E2.
    destruct (RefSem.sem I y s) as [ys g]; simpl fst in *; simpl snd in *.
    exists f2; split; [reflexivity|]. destruct g; simpl in *; auto.
    + destruct Q as [Q1 Q2]. split; auto. intros l0 Hl. rewrite Q2 by auto. apply P2; auto.
    + destruct Q as [Q1 [Q2 Q3]]. repeat split; auto. intros l0 Hl Hn. rewrite Q3 by auto. apply P2; auto.
  - exists f1; split; [reflexivity|exact Logic.I].
  - exists f1; split; [reflexivity|exact Logic.I].
  - exists f1; split; [reflexivity|exact P].
Qed.

Lemma ok_block cnt c t e code :
  tcut c = false -> wfm cnt c = true -> wfm cnt t = true -> wfm cnt e = true ->
  ok (Datatypes.S cnt) (BOr (BAnd c (BAnd (BMark (Datatypes.S cnt)) t)) e) code ->
  ok cnt (BOr (BIf c t) e) [SBlock (Datatypes.S cnt) code].
Proof.
  intros Hc Wc Wt We [NA H]. split; [reflexivity|]. intros s f Hf. set (l := Datatypes.S cnt) in *.
  rewrite exec_list_single by reflexivity. rewrite exec_stmt_eq.
  assert (Fr: forall b, wfm cnt b = true -> forall s0, snd (RefSem.sem I b s0) <> FExit l).
  { intros b W s0 E. apply (@wfm_sem cnt b W) in E. unfold l in E. lia. }
  rewrite <- (@sem_block c t e l s Hc (Fr c Wc s) (Fr t Wt) (Fr e We s)).
  assert (Hf0: doBreak (setlab l false f) = false) by exact Hf.
  destruct (H s (setlab l false f) Hf0) as [f1 [E P]]. rewrite E.
  destruct (RefSem.sem I (BOr (BAnd c (BAnd (BMark l) t)) e) s) as [ys g]; simpl fst in *; simpl snd in *.
  destruct g; simpl cof; simpl catch; unfold end_block.
  - destruct P as [P1 P2]. assert (L: lab f1 l = false).
    { rewrite P2 by (unfold l; lia). simpl. rewrite Nat.eqb_refl. reflexivity. }
    rewrite L, P1. exists f1. split; [reflexivity|]. simpl. split; auto.
    intros l0 Hl. rewrite P2 by (unfold l; lia). simpl.
    destruct (Nat.eqb l0 l) eqn:El; [apply Nat.eqb_eq in El; unfold l in El; lia|reflexivity].
  - exists f1; split; [reflexivity|exact Logic.I].
  - exists f1; split; [reflexivity|exact Logic.I].
  - destruct P as [P1 [P2 P3]]. destruct (Nat.eqb l0 l) eqn:El.
    + apply Nat.eqb_eq in El. subst l0. rewrite P2. simpl. exists (setbrk false f1). split; [reflexivity|].
      simpl. split; auto. intros l0 Hl. rewrite P3 by (unfold l; lia). simpl.
      destruct (Nat.eqb l0 l) eqn:El; [apply Nat.eqb_eq in El; unfold l in El; lia|reflexivity].
    + assert (Hn: l0 <> l) by (apply Nat.eqb_neq; exact El).
      assert (L: lab f1 l = false).
      { rewrite P3 by (unfold l; auto; lia). simpl. rewrite Nat.eqb_refl. reflexivity. }
      rewrite L, P1. exists f1. split; [reflexivity|]. simpl. repeat split; auto.
      intros l1 Hl Hn1. rewrite P3 by (unfold l; auto; lia). simpl.
      destruct (Nat.eqb l1 l) eqn:El1; [apply Nat.eqb_eq in El1; unfold l in El1; lia|reflexivity].
Qed.


(* ---- the same over arbitrary semantic functions, for the blocks that have no body-level counterpart *)
Definition okR (cnt:nat) (R:S -> res S) (code:list stmt) : Prop :=
  noasg code = true /\
  forall s f, doBreak f = false -> okr cnt (R s) (exec_list code s f) f.

Lemma okR_mono cnt cnt' R code : cnt <= cnt' -> okR cnt' R code -> okR cnt R code.
Proof. intros Hle [NA H]. split; [exact NA|]. intros s f Hf. destruct (H s f Hf) as [f' [E P]]. exists f'; split; auto. eapply post_mono; eauto. Qed.
Lemma okR_ext cnt R R' code : (forall s, R s = R' s) -> okR cnt R' code -> okR cnt R code.
Proof. intros E [NA H]. split; [exact NA|]. intros s f Hf. rewrite E. apply H; exact Hf. Qed.

Lemma okR_app cnt R1 R2 c1 c2 : okR cnt R1 c1 -> okR cnt R2 c2 -> okR cnt (fun s => por (R1 s) (R2 s)) (c1++c2).
Proof.
  intros [NA1 H1] [NA2 H2]. split; [rewrite noasg_app, NA1, NA2; reflexivity|].
  intros s f Hf. rewrite exec_list_app by exact NA1.
  destruct (H1 s f Hf) as [f1 [E P]]. rewrite E.
  destruct (R1 s) as [xs fa]; simpl fst in *; simpl snd in *.
  destruct fa; simpl cof; cbv iota; simpl por.
  - destruct P as [P1 P2]. destruct (H2 s f1 P1) as [f2 [E2 Q]]. rewrite E2.
    destruct (R2 s) as [ys g]; simpl fst in *; simpl snd in *.
    exists f2; split; [reflexivity|]. destruct g; simpl in *; auto.
    + destruct Q as [Q1 Q2]. split; auto. intros l0 Hl. rewrite Q2 by auto. apply P2; auto.
    + destruct Q as [Q1 [Q2 Q3]]. repeat split; auto. intros l0 Hl Hn. rewrite Q3 by auto. apply P2; auto.
  - exists f1; split; [reflexivity|exact Logic.I].
  - exists f1; split; [reflexivity|exact Logic.I].
  - exists f1; split; [reflexivity|exact P].
Qed.

Lemma okR_block cnt R code :
  okR (Datatypes.S cnt) R code -> okR cnt (fun s => catch (Datatypes.S cnt) (R s)) [SBlock (Datatypes.S cnt) code].
Proof.
  intros [NA H]. split; [reflexivity|]. intros s f Hf. set (l := Datatypes.S cnt) in *.
  rewrite exec_list_single by reflexivity. rewrite exec_stmt_eq.
  assert (Hf0: doBreak (setlab l false f) = false) by exact Hf.
  destruct (H s (setlab l false f) Hf0) as [f1 [E P]]. rewrite E.
  destruct (R s) as [ys g]; simpl fst in *; simpl snd in *.
  destruct g; simpl cof; simpl catch; unfold end_block.
  - destruct P as [P1 P2]. assert (L: lab f1 l = false).
    { rewrite P2 by (unfold l; lia). simpl. rewrite Nat.eqb_refl. reflexivity. }
    rewrite L, P1. exists f1. split; [reflexivity|]. simpl. split; auto.
    intros l0 Hl. rewrite P2 by (unfold l; lia). simpl.
    destruct (Nat.eqb l0 l) eqn:El; [apply Nat.eqb_eq in El; unfold l in El; lia|reflexivity].
  - exists f1; split; [reflexivity|exact Logic.I].
  - exists f1; split; [reflexivity|exact Logic.I].
  - destruct P as [P1 [P2 P3]]. destruct (Nat.eqb l0 l) eqn:El.
    + apply Nat.eqb_eq in El. subst l0. rewrite P2. simpl. exists (setbrk false f1). split; [reflexivity|].
      simpl. split; auto. intros l0 Hl. rewrite P3 by (unfold l; lia). simpl.
      destruct (Nat.eqb l0 l) eqn:El; [apply Nat.eqb_eq in El; unfold l in El; lia|reflexivity].
    + assert (Hn: l0 <> l) by (apply Nat.eqb_neq; exact El).
      assert (L: lab f1 l = false).
      { rewrite P3 by (unfold l; auto; lia). simpl. rewrite Nat.eqb_refl. reflexivity. }
      rewrite L, P1. exists f1. split; [reflexivity|]. simpl. repeat split; auto.
      intros l1 Hl Hn1. rewrite P3 by (unfold l; auto; lia). simpl.
      destruct (Nat.eqb l1 l) eqn:El1; [apply Nat.eqb_eq in El1; unfold l in El1; lia|reflexivity].
Qed.

(* ---- a cut inside a condition: replaced by the marker of the condition's own block *)
Definition c2f (m:nat) (g:fin) : fin := match g with FCut => FExit m | _ => g end.
Definition c2e (m:nat) (r:res S) : res S := (fst r, c2f m (snd r)).

Lemma seqr_c2e m (f:S->res S) xs e : seqr (fun x => c2e m (f x)) xs (c2f m e) = c2e m (seqr f xs e).
Proof.
  induction xs as [|x r IH]; [reflexivity|]. cbn [seqr]. unfold c2e at 1. destruct (f x) as [ys g]. cbn [fst snd].
  destruct g; cbn [c2f]; try reflexivity.
  rewrite IH. destruct (seqr f r e) as [zs h]. reflexivity.
Qed.

Lemma por_c2e m (ra rb:res S) : por (c2e m ra) (c2e m rb) = c2e m (por ra rb).
Proof. destruct ra as [xs g], rb as [ys h]. unfold c2e. cbn [fst snd]. destruct g; reflexivity. Qed.

Lemma ite_c2e m rc (t:S->res S) e : snd rc <> FCut ->
  ite rc (fun x => c2e m (t x)) (c2e m e) = c2e m (ite rc t e).
Proof. destruct rc as [[|x r] g]; cbn [ite snd]; intros H; [|reflexivity]. destruct g; try reflexivity. congruence. Qed.

Lemma opaque_not_cut (r:res S) : snd (opaque r) <> FCut.
Proof. destruct r as [xs g]; destruct g; simpl; discriminate. Qed.

Lemma isif_loc m b : isif (loc m b) = isif b.
Proof. destruct b; reflexivity. Qed.

Lemma sem_loc m b : forall s, sem (loc m b) s = c2e m (sem b s).
Proof.
  induction b as [f a| | | |l|a b IHa IHb|a b Hif IHa IHb|c t e IHc IHt IHe|c t IHc IHt|a IHa] using body_ind'; intros s.
  - cbn [loc RefSem.sem]. destruct (I f a s) as [xs e]. destruct e; reflexivity.
  - reflexivity.
  - reflexivity.
  - reflexivity.
  - reflexivity.
  - cbn [loc RefSem.sem]. rewrite IHa. destruct (RefSem.sem I a s) as [xs e]. cbn [c2e fst snd].
    rewrite (seqr_ext _ (fun x => c2e m (RefSem.sem I b x)) _ _ IHb). apply seqr_c2e.
  - cbn [loc]. rewrite (@sem_or_plain _ I (loc m a) (loc m b) s) by (rewrite isif_loc; exact Hif).
    rewrite (@sem_or_plain _ I a b s Hif), IHa, IHb. apply por_c2e.
  - cbn [loc]. rewrite !sem_or_if. rewrite IHe.
    rewrite (ite_ext _ _ (fun x => c2e m (RefSem.sem I t x)) _ IHt). apply ite_c2e. apply opaque_not_cut.
  - cbn [loc RefSem.sem]. rewrite (ite_ext _ _ (fun x => c2e m (RefSem.sem I t x)) _ IHt).
    change (@nil S, FNorm) with (c2e m (@nil S, FNorm)). apply ite_c2e. apply opaque_not_cut.
  - cbn [loc RefSem.sem].
    change (fun _ : S => (@nil S, FNorm)) with (fun x : S => c2e m ((fun _ : S => (@nil S, FNorm)) x)).
    change ([s], FNorm) with (c2e m ([s], FNorm)). apply ite_c2e. apply opaque_not_cut.
Qed.

Lemma wfm_loc cnt m b k : wfm cnt b = true -> cnt <= k -> m <= k -> wfm k (loc m b) = true.
Proof.
  intros W L1 L2. induction b as [f a| | | |l|a IHa b IHb|a IHa b IHb|c IHc t IHt|a IHa]; cbn [loc wfm] in *.
  - reflexivity.
  - reflexivity.
  - reflexivity.
  - apply Nat.leb_le; exact L2.
  - apply Nat.leb_le in W. apply Nat.leb_le. lia.
  - apply andb_true_iff in W as [Wa Wb]. apply andb_true_iff; split; auto.
  - apply andb_true_iff in W as [Wa Wb]. apply andb_true_iff; split; auto.
  - apply andb_true_iff in W as [Wa Wb]. apply andb_true_iff; split; [exact (@wfm_mono cnt k c L1 Wa)|auto].
  - exact (@wfm_mono cnt k a L1 W).
Qed.

(* the two-block scheme for a condition with a cut of its own *)
Lemma sem_block2 c t e l m s :
  l <> m ->
  snd (sem c s) <> FExit l -> snd (sem c s) <> FExit m ->
  (forall x, snd (sem t x) <> FExit l) -> (forall x, snd (sem t x) <> FExit m) ->
  snd (sem e s) <> FExit l ->
  catch l (por (catch m (sem (BAnd (loc m c) (BAnd (BMark l) t)) s)) (sem e s)) = sem (BOr (BIf c t) e) s.
Proof.
  intros Hlm Xcl Xcm Xtl Xtm Xel.
  rewrite sem_or_if, sem_and, sem_loc. unfold bindr.
  destruct (RefSem.sem I c s) as [xs fc] eqn:Ec. cbn [c2e fst snd] in *.
  destruct xs as [|x r].
  - cbn [seqr]. destruct fc; cbn [c2f catch opaque ite por].
    + destruct (RefSem.sem I e s) as [ys g]; cbn [snd] in *. destruct g; try reflexivity.
      cbn [catch]. destruct (Nat.eqb l0 l) eqn:El; [apply Nat.eqb_eq in El; congruence|reflexivity].
    + rewrite Nat.eqb_refl. cbn [por].
      destruct (RefSem.sem I e s) as [ys g]; cbn [snd] in *. destruct g; try reflexivity.
      cbn [catch]. destruct (Nat.eqb l0 l) eqn:El; [apply Nat.eqb_eq in El; congruence|reflexivity].
    + reflexivity.
    + destruct (Nat.eqb l0 m) eqn:Em; [apply Nat.eqb_eq in Em; congruence|]. cbn [por catch].
      destruct (Nat.eqb l0 l) eqn:El; [apply Nat.eqb_eq in El; congruence|reflexivity].
  - assert (E: seqr (RefSem.sem I (BAnd (BMark l) t)) (x::r) (c2f m fc) =
               let '(ys,g) := RefSem.sem I t x in (ys, match g with FNorm => FExit l | _ => g end)).
    { simpl. destruct (RefSem.sem I t x) as [ys g]; destruct g; try reflexivity. rewrite app_nil_r. reflexivity. }
    rewrite E. specialize (Xtl x). specialize (Xtm x).
    replace (ite (opaque (x :: r, fc)) (RefSem.sem I t) (RefSem.sem I e s)) with (RefSem.sem I t x) by (destruct fc; reflexivity).
    destruct (RefSem.sem I t x) as [ys g]; cbn [snd] in *. destruct g; cbn [catch por].
    + destruct (Nat.eqb l m) eqn:Em; [apply Nat.eqb_eq in Em; congruence|]. cbn [por catch]. rewrite Nat.eqb_refl. reflexivity.
    + reflexivity.
    + reflexivity.
    + destruct (Nat.eqb l0 m) eqn:Em; [apply Nat.eqb_eq in Em; congruence|]. cbn [por catch].
      destruct (Nat.eqb l0 l) eqn:El; [apply Nat.eqb_eq in El; congruence|reflexivity].
Qed.

Lemma ok_block2 cnt c t e c1 c2 k1 :
  wfm cnt c = true -> wfm cnt t = true -> wfm cnt e = true ->
  Datatypes.S (Datatypes.S cnt) <= k1 ->
  ok (Datatypes.S (Datatypes.S cnt)) (BAnd (loc (Datatypes.S (Datatypes.S cnt)) c) (BAnd (BMark (Datatypes.S cnt)) t)) c1 ->
  ok k1 e c2 ->
  ok cnt (BOr (BIf c t) e) [SBlock (Datatypes.S cnt) ([SBlock (Datatypes.S (Datatypes.S cnt)) c1] ++ c2)].
Proof.
  intros Wc Wt We Lk O1 O2. set (l := Datatypes.S cnt) in *. set (m := Datatypes.S l) in *.
  assert (Fr: forall b, wfm cnt b = true -> forall s0 l0, cnt < l0 -> snd (RefSem.sem I b s0) <> FExit l0).
  { intros b W s0 l0 Hl E. apply (@wfm_sem cnt b W) in E. lia. }
  apply okR_ext with (R' := fun s => catch l (por (catch m (RefSem.sem I (BAnd (loc m c) (BAnd (BMark l) t)) s)) (RefSem.sem I e s))).
  { intros s. symmetry. apply sem_block2; try (apply Fr; auto; unfold m, l; lia); try (intros x; apply Fr; auto; unfold m, l; lia). unfold m; lia. }
  apply okR_block. apply okR_app.
  - apply okR_block. exact O1.
  - apply okR_mono with (cnt' := k1); [unfold l; lia|exact O2].
Qed.

Lemma ok_leaf cnt b code : ok cnt (BAnd b BTrue) code -> ok cnt b code.
Proof. apply ok_ext. intros s. symmetry. apply sem_and_true. Qed.

Ltac bools := cbn [wfm tcut andb negb orb] in *; repeat match goal with
  | H: _ && _ = true |- _ => apply andb_true_iff in H; destruct H
  | |- _ && _ = true => apply andb_true_iff; split
  | H: negb _ = true |- _ => apply negb_true_iff in H
  | |- negb _ = true => apply negb_true_iff
  end; cbn [wfm tcut andb negb orb] in *; auto.

Theorem comp_ok : forall n b cnt code cnt',
  comp n b cnt = Some (code,cnt') -> wfm cnt b = true ->
  cnt <= cnt' /\ ok cnt b code.
Proof.
  induction n as [|n IH]; intros b cnt code cnt' H W; [discriminate|].
  (* every rewrite case: apply IH to the rewritten body and transport along a semantic equality *)
  assert (RW: forall b', comp n b' cnt = Some (code,cnt') -> wfm cnt b' = true ->
              (forall s, sem b s = sem b' s) -> cnt <= cnt' /\ ok cnt b code).
  { intros b' H' W' E. destruct (IH _ _ _ _ H' W') as [L O]. split; [exact L|]. eapply ok_ext; eauto. }
  destruct b as [g ga| | | |l|a K|x y|c t|x]; cbn [comp] in H.
  - (* BCall *) apply (RW _ H); [bools|intros s; symmetry; apply sem_and_true].
  - inversion H; subst. split; [lia|]. split; [reflexivity|]. intros s f Hf. exists f. simpl. split; auto.
  - apply (RW _ H); [bools|intros s; symmetry; apply sem_and_true].
  - inversion H; subst. split; [lia|]. split; [reflexivity|]. intros s f Hf. exists f. simpl. split; auto.
  - apply (RW _ H); [bools|intros s; symmetry; apply sem_and_true].
  - (* BAnd a K *)
    cbn [wfm tcut] in W. bools.
    destruct a as [g ga| | | |l|x y|x y|c t|x].
    + destruct (comp n K cnt) as [[c k]|] eqn:E; [|discriminate]. inversion H; subst.
      destruct (IH _ _ _ _ E) as [L O]; auto. split; [exact L|]. apply ok_foreach; exact O.
    + apply (RW _ H); [bools|intros s; apply sem_true_and].
    + inversion H; subst. split; [lia|]. split; [reflexivity|]. intros s f Hf. exists f. simpl. split; auto.
    + destruct (comp n K cnt) as [[c k]|] eqn:E; [|discriminate]. inversion H; subst.
      destruct (IH _ _ _ _ E) as [L O]; auto. split; [exact L|]. apply ok_snoc_return; exact O.
    + destruct (comp n K cnt) as [[c k]|] eqn:E; [|discriminate]. inversion H; subst.
      destruct (IH _ _ _ _ E) as [L O]; auto. split; [exact L|]. apply ok_snoc_break; exact O.
    + apply (RW _ H); [bools|intros s; apply sem_and_assoc].
    + destruct x; try (apply (RW _ H); [bools|intros s; apply sem_or_distr; reflexivity]).
      apply (RW _ H); [bools|intros s; apply sem_ite_distr].
    + apply (RW _ H); [bools|intros s; apply sem_if_and].
    + apply (RW _ H); [bools|intros s; apply sem_not_and].
  - (* BOr x y *)
    cbn [wfm tcut] in W. bools.
    assert (Plain: isif x = false ->
      match comp n x cnt with
      | Some (c1,k1) => match comp n y k1 with Some (c2,k2) => Some (c1++c2,k2) | None => None end
      | None => None end = Some (code,cnt') -> cnt <= cnt' /\ ok cnt (BOr x y) code).
    { intros Hx H'. destruct (comp n x cnt) as [[c1 k1]|] eqn:E1; [|discriminate].
      destruct (comp n y k1) as [[c2 k2]|] eqn:E2; [|discriminate]. inversion H'; subst.
      destruct (IH _ _ _ _ E1) as [L1 O1]; auto.
      destruct (IH _ _ _ _ E2) as [L2 O2]; auto. { eapply wfm_mono; eauto. }
      split; [lia|]. apply ok_app_or; auto. eapply ok_mono; eauto. }
    destruct x as [g ga| | | |l|x1 x2|x1 x2|c t|x1]; try (apply Plain; [reflexivity|exact H]).
    (* if-then-else *)
    cbn [wfm tcut] in *. bools.
    destruct (tcut c) eqn:Tc.
    + (* the condition has a cut of its own: two blocks *)
      destruct (comp n (BAnd (loc (Datatypes.S (Datatypes.S cnt)) c) (BAnd (BMark (Datatypes.S cnt)) t)) (Datatypes.S (Datatypes.S cnt)))
        as [[c1 k1]|] eqn:E1; [|discriminate].
      destruct (comp n y k1) as [[c2 k2]|] eqn:E2; [|discriminate]. inversion H; subst.
      destruct (IH _ _ _ _ E1) as [L1 O1].
      { cbn [wfm]. bools; [apply (@wfm_loc cnt); auto; lia|apply Nat.leb_le; lia|apply (@wfm_mono cnt); [lia|assumption]]. }
      destruct (IH _ _ _ _ E2) as [L2 O2]. { apply (@wfm_mono cnt k1 y); [lia|assumption]. }
      split; [lia|]. apply (@ok_block2 cnt c t y c1 c2 k1); auto.
    + destruct (comp n (BOr (BAnd c (BAnd (BMark (Datatypes.S cnt)) t)) y) (Datatypes.S cnt)) as [[code' k]|] eqn:E; [|discriminate].
      inversion H; subst.
      destruct (IH _ _ _ _ E) as [L O].
      { simpl. rewrite Nat.leb_refl. bools; eapply wfm_mono; try eassumption; lia. }
      split; [lia|]. apply ok_block; auto.
  - (* BIf *) apply (RW _ H); [bools|intros s; symmetry; apply sem_and_true].
  - (* BNot *) apply (RW _ H); [bools|intros s; symmetry; apply sem_and_true].
Qed.

Definition fin_of_compl (k:compl) : fin :=
  match k with CNorm | CBrk => FNorm | CRet => FCut | CErr => FErr end.

Fixpoint nomark (b:body) : bool :=
  match b with BMark _ => false | BAnd a b | BOr a b | BIf a b => nomark a && nomark b | BNot a => nomark a | _ => true end.
Lemma nomark_wfm b cnt : nomark b = true -> wfm cnt b = true.
Proof. induction b; simpl; intros; bools. discriminate. Qed.

Lemma nomark_sem b : nomark b = true -> forall s l, snd (sem b s) <> FExit l.
Proof.
  set (P := fun f:fin => forall l, f <> FExit l).
  assert (PN: P FNorm) by (intros l; discriminate).
  assert (PC: P FCut) by (intros l; discriminate).
  assert (PE: P FErr) by (intros l; discriminate).
  enough (H: nomark b = true -> forall s, P (snd (sem b s))) by (intros W s l; apply (H W s)).
  induction b using body_ind'; simpl; intros W s; auto; try discriminate.
  - match goal with |- context[I ?f0 ?a0 ?s0] => destruct (I f0 a0 s0) as [xs e] end; simpl; destruct e; auto.
  - apply andb_true_iff in W as [Wa Wb]. destruct (RefSem.sem I b1 s) as [xs e] eqn:E.
    apply seqr_fin.
    + specialize (IHb1 Wa s). rewrite E in IHb1. exact IHb1.
    + intros x. right. apply IHb2; exact Wb.
  - apply andb_true_iff in W as [Wa Wb].
    match goal with Hif: isif _ = false |- _ =>
      let E := fresh in pose proof (@sem_or_plain _ I b1 b2 s Hif) as E; simpl in E; rewrite E; clear E end.
    apply por_fin; [right; apply IHb1; exact Wa|apply IHb2; exact Wb].
  - apply andb_true_iff in W as [Wa Wb]. simpl in Wa. apply andb_true_iff in Wa as [Wc Wt]. apply ite_fin.
    + apply opaque_fin. right; right. apply IHb1; exact Wc.
    + intros x. apply IHb2; exact Wt.
    + apply IHb3; exact Wb.
  - apply andb_true_iff in W as [Wc Wt]. apply ite_fin.
    + apply opaque_fin. right; right. apply IHb1; exact Wc.
    + intros x. apply IHb2; exact Wt.
    + exact PN.
  - apply ite_fin.
    + apply opaque_fin. right; right. apply IHb; exact W.
    + intros; exact PN.
    + exact PN.
Qed.

(* C05/C06 core: for every body without $CUTIF markers (i.e. every body that can come from source text),
   for every interpretation of the leaves, whatever the label counter is when the body is compiled,
   the emitted code yields exactly the answers of the reference semantics, in order, and ends
   the same way (return <-> cut, exception <-> error), with doBreak false again at the end. *)
Theorem control_correct : forall n b cnt code cnt',
  comp n b cnt = Some (code,cnt') -> nomark b = true ->
  noasg code = true /\
  forall s f, doBreak f = false ->
    exists f', exec_list code s f = (fst (sem b s), cof (snd (sem b s)), f') /\
               (snd (sem b s) = FNorm -> doBreak f' = false) /\
               (forall l, snd (sem b s) <> FExit l).
Proof.
  intros n b cnt code cnt' H M. destruct (comp_ok _ _ _ H (nomark_wfm _ cnt M)) as [_ [NA O]].
  split; [exact NA|]. intros s f Hf.
  destruct (O s f Hf) as [f' [E P]]. exists f'. split; [exact E|].
  pose proof (@nomark_sem b M s) as X. split; [|exact X].
  intros EN. rewrite EN in P. apply P.
Qed.

(* a function whose body is the code of one clause body *)
Corollary control_correct_function : forall n b cnt code cnt',
  comp n b cnt = Some (code,cnt') -> nomark b = true ->
  forall s, (let '(ys,k) := run_function J assign code s in (ys, fin_of_compl k)) = sem b s.
Proof.
  intros n b cnt code cnt' H M s. destruct (control_correct _ _ _ H M) as [_ O].
  unfold run_function. destruct (O s flags0 eq_refl) as [f' [E [_ X]]]. rewrite E.
  destruct (RefSem.sem I b s) as [ys g]; simpl in *. destruct g; try reflexivity.
  exfalso. exact (X l eq_refl).
Qed.
End C.
