(* Readable consequences of the reference semantics RefSem.sem for a cut that is NOT a top-level goal of the
   clause body: a cut at the end of a branch of a disjunction, in the then branch and in the else branch of an
   if-then-else commits exactly like a top-level cut (the result ends with FCut, which makes the clause loop stop:
   SpecLemmas.cut_prunes_later_clauses), the other branch is not tried, and whatever follows the construct in the
   body (goals to the right of the cut) runs on every answer produced and cannot make the cut forgotten. *)
From Coq Require Import List Arith Bool.
Import ListNotations.
From YP Require Import Base.Str Lang.Ast Sem.Res Sem.RefSem Sem.SemLemmas.

Section CutBranches.
Variable S : Type.
Variable I : str -> list sterm -> S -> list S * bool.
Notation sem := (RefSem.sem I).

(* ( A, ! ; B ): the first answer of A only; B is not tried; the clause is cut.  B is tried iff A has no answer. *)
Lemma cut_in_disjunction_branch A B s :
  sem (BOr (BAnd A BCut) B) s =
  match sem A s with
  | (x :: _, _) => ([x], FCut)
  | ([], FNorm) => sem B s
  | ([], g) => ([], g)
  end.
Proof.
  rewrite sem_or_plain by reflexivity. cbn [RefSem.sem].
  destruct (RefSem.sem I A s) as [[|x r] e].
  - cbn [seqr]. unfold por. destruct e; try reflexivity. destruct (RefSem.sem I B s); reflexivity.
  - cbn [seqr]. reflexivity.
Qed.

(* ( C -> ! ; E ): commit to the first answer of C and cut the clause; E runs iff C has no answer *)
Lemma cut_in_then_branch C E s :
  sem (BOr (BIf C BCut) E) s =
  match opaque (sem C s) with
  | (x :: _, _) => ([x], FCut)
  | ([], FNorm) => sem E s
  | ([], f) => ([], f)
  end.
Proof. rewrite sem_or_if. reflexivity. Qed.

(* ( C -> T ; ! ): the cut is reached iff C has no answer *)
Lemma cut_in_else_branch C T s :
  sem (BOr (BIf C T) BCut) s =
  match opaque (sem C s) with
  | (x :: _, _) => sem T x
  | ([], FNorm) => ([s], FCut)
  | ([], f) => ([], f)
  end.
Proof. rewrite sem_or_if. reflexivity. Qed.

(* goals to the right of a construct that ended by cut: they run, in order, on every answer it produced ... *)
Lemma cut_then_continue A B s xs :
  sem A s = (xs, FCut) -> sem (BAnd A B) s = seqr (sem B) xs FCut.
Proof. intros H. cbn [RefSem.sem]. rewrite H. reflexivity. Qed.

(* ... and nothing they do makes the cut forgotten: the body never ends normally *)
Lemma cut_never_lost (f : S -> res S) xs : snd (seqr f xs FCut) <> FNorm.
Proof.
  induction xs as [|x r IH]; cbn [seqr snd]; [discriminate|].
  destruct (f x) as [ys g]. destruct g; cbn [snd]; try discriminate.
  destruct (seqr f r FCut) as [zs h]. exact IH.
Qed.

Lemma cut_survives_continuation A B s xs :
  sem A s = (xs, FCut) -> snd (sem (BAnd A B) s) <> FNorm.
Proof. intros H. rewrite (cut_then_continue A B s xs H). apply cut_never_lost. Qed.

(* when the goals to the right all end normally, the body's answers are theirs, in order, and the end is the cut *)
Lemma cut_continuation_backtracks A B s xs :
  sem A s = (xs, FCut) -> (forall x, In x xs -> snd (sem B x) = FNorm) ->
  sem (BAnd A B) s = (flat_map (fun x => fst (sem B x)) xs, FCut).
Proof.
  intros H Hn. rewrite (cut_then_continue A B s xs H). clear H.
  induction xs as [|x r IH]; [reflexivity|].
  cbn [seqr flat_map]. pose proof (Hn x (or_introl eq_refl)) as Hx.
  destruct (RefSem.sem I B x) as [ys g]. cbn [snd fst] in *. subst g.
  rewrite IH by (intros y Hy; apply Hn; right; exact Hy). reflexivity.
Qed.
End CutBranches.
