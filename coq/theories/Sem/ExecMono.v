(* Monotonicity of the IR semantics (Sem/IRSem.v) in the interpretation of the iterator expressions.

   Partial answer lists (answers, "ended by an exception" flag) are ordered by
       le_b r1 r2  :=  if r1 ended by an exception then the answers of r1 are a prefix of those of r2
                       else r2 = r1
   (what a search with more call depth delivers: nothing changes for a search that ended by itself, a
   search that was cut short by the depth limit is continued).  If every iterator is answered by J2 at
   least as far as by J1, then every statement list delivers under J2 at least as far as under J1 - for
   EVERY statement list (break, return, cutIf blocks, flags), not only for compiled ones: an exception
   is never caught inside the emitted code, and the answers delivered before it stay delivered.

   Used by C17 (the machine's answers are prefix-monotone in the call depth) and C20. *)
From Coq Require Import List Arith Bool.
Import ListNotations.
From YP Require Import Base.Str Comp.IR Sem.IRSem.
Set Implicit Arguments.

Definition prefixl {A} (l m : list A) : Prop := exists r, m = l ++ r.

Lemma prefixl_refl {A} (l : list A) : prefixl l l.
Proof. exists []. rewrite app_nil_r. reflexivity. Qed.
Lemma prefixl_nil {A} (l : list A) : prefixl [] l.
Proof. exists l. reflexivity. Qed.
Lemma prefixl_trans {A} (a b c : list A) : prefixl a b -> prefixl b c -> prefixl a c.
Proof. intros [x ->] [y ->]. exists (x ++ y). rewrite app_assoc. reflexivity. Qed.
Lemma prefixl_app {A} (a b c : list A) : prefixl b c -> prefixl (a ++ b) (a ++ c).
Proof. intros [x ->]. exists x. rewrite app_assoc. reflexivity. Qed.
Lemma prefixl_app_r {A} (a b c : list A) : prefixl a b -> prefixl a (b ++ c).
Proof. intros [x ->]. exists (x ++ c). rewrite app_assoc. reflexivity. Qed.
Lemma prefixl_map {A B} (f : A -> B) (a b : list A) : prefixl a b -> prefixl (map f a) (map f b).
Proof. intros [x ->]. exists (map f x). apply map_app. Qed.

Definition le_b {A} (r1 r2 : list A * bool) : Prop :=
  if snd r1 then prefixl (fst r1) (fst r2) else r2 = r1.

Lemma le_b_refl {A} (r : list A * bool) : le_b r r.
Proof. unfold le_b. destruct (snd r); [apply prefixl_refl | reflexivity]. Qed.

Lemma le_b_trans {A} (a b c : list A * bool) : le_b a b -> le_b b c -> le_b a c.
Proof.
  unfold le_b. destruct a as [la ea], b as [lb eb], c as [lc ec]; simpl.
  destruct ea.
  - intros P. destruct eb.
    + intros Q. eapply prefixl_trans; eauto.
    + intros E. injection E as -> ->. exact P.
  - intros E. injection E as -> ->. auto.
Qed.

Lemma le_b_err {A} (l : list A) (r : list A * bool) : le_b ([], true) r.
Proof. unfold le_b; simpl. apply prefixl_nil. Qed.

Lemma le_b_map {A B} (f : A -> B) (r1 r2 : list A * bool) :
  le_b r1 r2 -> le_b (map f (fst r1), snd r1) (map f (fst r2), snd r2).
Proof.
  destruct r1 as [l1 e1], r2 as [l2 e2]. unfold le_b; simpl. destruct e1.
  - apply prefixl_map.
  - intros E. injection E as -> ->. reflexivity.
Qed.

Section Mono.
Variable S : Type.
Variable assign : str -> expr -> S -> S.

(* the same order on the outcomes of statements *)
Definition le_out (o1 o2 : out S) : Prop :=
  match o1 with
  | (ys, CErr, _) => prefixl ys (fst (fst o2))
  | _ => o2 = o1
  end.

Lemma le_out_refl o : le_out o o.
Proof. destruct o as [[ys k] f]. destruct k; simpl; try reflexivity. apply prefixl_refl. Qed.

Lemma le_out_err ys f o : prefixl ys (fst (fst o)) -> le_out (ys, CErr, f) o.
Proof. intros H. exact H. Qed.

Lemma le_out_inv ys k f o : le_out (ys, k, f) o -> k <> CErr -> o = (ys, k, f).
Proof. destruct k; simpl; intros H N; try exact H. congruence. Qed.

Lemma le_out_inv_err ys f o : le_out (ys, CErr, f) o -> prefixl ys (fst (fst o)).
Proof. intros H. exact H. Qed.

(* g keeps the answers and keeps an exception *)
Lemma le_out_map (g : out S -> out S) :
  (forall ys f, g (ys, CErr, f) = (ys, CErr, f)) -> (forall o, fst (fst (g o)) = fst (fst o)) ->
  forall o1 o2, le_out o1 o2 -> le_out (g o1) (g o2).
Proof.
  intros G1 G2 [[ys k] f] o2 H. destruct k.
  1-3: simpl in H; subst o2; apply le_out_refl.
  rewrite G1. apply le_out_err. rewrite G2. exact H.
Qed.

Lemma le_out_app ys o1 o2 : le_out o1 o2 ->
  le_out (let '(zs, k, f) := o1 in (ys ++ zs, k, f)) (let '(zs, k, f) := o2 in (ys ++ zs, k, f)).
Proof.
  destruct o1 as [[zs k] f]. destruct k; simpl; intros H.
  1-3: subst o2; reflexivity.
  destruct o2 as [[zs2 k2] f2]. simpl in *. apply prefixl_app. exact H.
Qed.

Section Loop.
  Variables body1 body2 : S -> flags -> out S.
  Hypothesis Hb : forall x f, le_out (body1 x f) (body2 x f).

  Lemma loop_mono_same e xs : forall f, le_out (loop body1 e xs f) (loop body2 e xs f).
  Proof.
    induction xs as [|x r IH]; intros f; cbn [loop]; [apply le_out_refl|].
    pose proof (Hb x f) as H. destruct (body1 x f) as [[ys k] f1] eqn:E1.
    destruct k.
    - apply le_out_inv in H; [|discriminate]. rewrite H.
      exact (@le_out_app ys _ _ (IH f1)).
    - apply le_out_inv in H; [|discriminate]. rewrite H. apply le_out_refl.
    - apply le_out_inv in H; [|discriminate]. rewrite H. apply le_out_refl.
    - apply le_out_err. apply le_out_inv_err in H.
      destruct (body2 x f) as [[ys2 k2] f2]. cbn [fst] in H.
      destruct k2; cbn [fst]; try exact H.
      destruct (loop body2 e r f2) as [[zs k3] f3]. cbn [fst]. apply prefixl_app_r. exact H.
  Qed.

  (* the iterator delivered more before its exception, or ended differently after more answers *)
  Lemma loop_mono_more xs more e2 : forall f, le_out (loop body1 true xs f) (loop body2 e2 (xs ++ more) f).
  Proof.
    induction xs as [|x r IH]; intros f.
    - cbn [loop app]. apply le_out_err. apply prefixl_nil.
    - rewrite <- app_comm_cons. cbn [loop].
      pose proof (Hb x f) as H. destruct (body1 x f) as [[ys k] f1] eqn:E1.
      destruct k.
      + apply le_out_inv in H; [|discriminate]. rewrite H.
        exact (@le_out_app ys _ _ (IH f1)).
      + apply le_out_inv in H; [|discriminate]. rewrite H. apply le_out_refl.
      + apply le_out_inv in H; [|discriminate]. rewrite H. apply le_out_refl.
      + apply le_out_err. apply le_out_inv_err in H.
        destruct (body2 x f) as [[ys2 k2] f2]. cbn [fst] in H.
        destruct k2; cbn [fst]; try exact H.
        destruct (loop body2 e2 (r ++ more) f2) as [[zs k3] f3]. cbn [fst]. apply prefixl_app_r. exact H.
  Qed.

  Lemma loop_mono r1 r2 f : le_b r1 r2 -> le_out (loop body1 (snd r1) (fst r1) f) (loop body2 (snd r2) (fst r2) f).
  Proof.
    destruct r1 as [xs1 e1], r2 as [xs2 e2]. unfold le_b; cbn [fst snd]. destruct e1.
    - intros [more ->]. apply loop_mono_more.
    - intros E. injection E as -> ->. apply loop_mono_same.
  Qed.
End Loop.

Lemma after_loop_mono (o1 o2 : out S) : le_out o1 o2 -> le_out (after_loop o1) (after_loop o2).
Proof.
  apply le_out_map.
  - reflexivity.
  - intros [[ys k] f]. destruct k; reflexivity.
Qed.

Lemma end_block_mono l (o1 o2 : out S) : le_out o1 o2 -> le_out (end_block l o1) (end_block l o2).
Proof.
  apply le_out_map.
  - reflexivity.
  - intros [[ys k] f]. destruct k; reflexivity.
Qed.

Variables J1 J2 : expr -> S -> list S * bool.
Hypothesis HJ : forall it s, le_b (J1 it s) (J2 it s).

(* induction over statements with nested statement lists *)
Section StmtInd.
  Variable P : stmt -> Prop.
  Variable Q : list stmt -> Prop.
  Hypothesis Hassign : forall x e, P (SAssign x e).
  Hypothesis Hforeach : forall it body, Q body -> P (SForeach it body).
  Hypothesis Hyf : P SYieldFalse.
  Hypothesis Hyt : P SYieldTrue.
  Hypothesis Hret : P SReturn.
  Hypothesis Hblock : forall l body, Q body -> P (SBlock l body).
  Hypothesis Hbreak : forall l, P (SBreakBlock l).
  Hypothesis Hnil : Q [].
  Hypothesis Hcons : forall st r, P st -> Q r -> Q (st :: r).
  Fixpoint stmt_ind2 (st : stmt) : P st :=
    let go := fix go (c : list stmt) : Q c :=
      match c with [] => Hnil | x :: r => Hcons (stmt_ind2 x) (go r) end in
    match st with
    | SAssign x e => Hassign x e
    | SForeach it body => Hforeach it (go body)
    | SYieldFalse => Hyf | SYieldTrue => Hyt | SReturn => Hret
    | SBlock l body => Hblock l (go body)
    | SBreakBlock l => Hbreak l
    end.
  Fixpoint list_ind2 (c : list stmt) : Q c :=
    match c with [] => Hnil | x :: r => Hcons (stmt_ind2 x) (list_ind2 r) end.
End StmtInd.

Lemma exec_list_step (J : expr -> S -> list S * bool) st rest s f :
  exec_list J assign (st :: rest) s f =
  match st with
  | SAssign x e => exec_list J assign rest (assign x e s) f
  | _ => let '(ys, k, f1) := exec_stmt J assign st s f in
         match k with
         | CNorm => let '(zs, k2, f2) := exec_list J assign rest s f1 in (ys ++ zs, k2, f2)
         | _ => (ys, k, f1) end
  end.
Proof. destruct st; reflexivity. Qed.

Lemma exec_cons_mono st rest :
  (forall s f, le_out (exec_stmt J1 assign st s f) (exec_stmt J2 assign st s f)) ->
  (forall s f, le_out (exec_list J1 assign rest s f) (exec_list J2 assign rest s f)) ->
  forall s f, le_out (exec_list J1 assign (st :: rest) s f) (exec_list J2 assign (st :: rest) s f).
Proof.
  intros Hst Hrest s f. rewrite !exec_list_step.
  assert (G : le_out
    (let '(ys, k, f1) := exec_stmt J1 assign st s f in
     match k with CNorm => let '(zs, k2, f2) := exec_list J1 assign rest s f1 in (ys ++ zs, k2, f2) | _ => (ys, k, f1) end)
    (let '(ys, k, f1) := exec_stmt J2 assign st s f in
     match k with CNorm => let '(zs, k2, f2) := exec_list J2 assign rest s f1 in (ys ++ zs, k2, f2) | _ => (ys, k, f1) end)).
  { pose proof (Hst s f) as H. destruct (exec_stmt J1 assign st s f) as [[ys k] f1].
    destruct k.
    - apply le_out_inv in H; [|discriminate]. rewrite H.
      exact (@le_out_app ys _ _ (Hrest s f1)).
    - apply le_out_inv in H; [|discriminate]. rewrite H. apply le_out_refl.
    - apply le_out_inv in H; [|discriminate]. rewrite H. apply le_out_refl.
    - apply le_out_err. apply le_out_inv_err in H.
      destruct (exec_stmt J2 assign st s f) as [[ys2 k2] f2]. cbn [fst] in H.
      destruct k2; cbn [fst]; try exact H.
      destruct (exec_list J2 assign rest s f2) as [[zs k3] f3]. cbn [fst]. apply prefixl_app_r. exact H. }
  destruct st; try exact G. apply Hrest.
Qed.

Theorem exec_stmt_mono : forall st s f, le_out (exec_stmt J1 assign st s f) (exec_stmt J2 assign st s f).
Proof.
  apply (stmt_ind2 (fun st => forall s f, le_out (exec_stmt J1 assign st s f) (exec_stmt J2 assign st s f))
                   (fun c => forall s f, le_out (exec_list J1 assign c s f) (exec_list J2 assign c s f))).
  - intros x e s f. rewrite !exec_stmt_eq. apply le_out_refl.
  - intros it body IH s f. rewrite !exec_stmt_eq.
    specialize (HJ it s). destruct (J1 it s) as [xs1 e1] eqn:E1. destruct (J2 it s) as [xs2 e2] eqn:E2.
    apply after_loop_mono.
    exact (@loop_mono (exec_list J1 assign body) (exec_list J2 assign body) IH (xs1, e1) (xs2, e2) f HJ).
  - intros s f. apply le_out_refl.
  - intros s f. apply le_out_refl.
  - intros s f. apply le_out_refl.
  - intros l body IH s f. rewrite !exec_stmt_eq. apply end_block_mono. apply IH.
  - intros l s f. apply le_out_refl.
  - intros s f. apply le_out_refl.
  - intros st r Hst Hr. apply exec_cons_mono; assumption.
Qed.

Theorem exec_list_mono : forall c s f, le_out (exec_list J1 assign c s f) (exec_list J2 assign c s f).
Proof.
  induction c as [|st r IH]; intros s f; [apply le_out_refl|].
  apply exec_cons_mono; [apply exec_stmt_mono | exact IH].
Qed.

(* the generator function as a whole: answers and completion *)
Definition le_run (r1 r2 : list S * compl) : Prop :=
  match snd r1 with CErr => prefixl (fst r1) (fst r2) | _ => r2 = r1 end.

Theorem run_function_mono code s : le_run (run_function J1 assign code s) (run_function J2 assign code s).
Proof.
  unfold run_function. pose proof (exec_list_mono code s flags0) as H.
  destruct (exec_list J1 assign code s flags0) as [[ys k] f]. unfold le_run; simpl.
  destruct k; simpl in H.
  1-3: rewrite H; reflexivity.
  destruct (exec_list J2 assign code s flags0) as [[ys2 k2] f2]. exact H.
Qed.
End Mono.
