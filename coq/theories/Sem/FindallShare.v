(* findall/3 of this engine does not COPY the collected instances (standard Prolog does): an unbound variable of the
   caller that occurs in an instance is the caller's variable itself inside the result list.  Witness, on the model of
   the compiled code:    t(V) :- findall(X, X = V, [b]).     ?- t(V).    answers V = b
   (with copied instances the list would be [_G] for a fresh _G, and V would stay unbound) - and the same on the
   clause-level reference.  The implementation answers V = b as well (harness: lib/findall_diag.py, notes/C09.md). *)
From Coq Require Import String.
From Coq Require Import List Arith ZArith.
Import ListNotations.
From YP Require Import Base.Str Term.Term Term.Fast Lang.Ast Comp.IR Comp.CompileClause Sem.Machine Sem.ClauseSem.
Local Open Scope string_scope.
Local Open Scope list_scope.

Definition share_prog : program :=
  [ {| c_name := d "t"; c_args := [SVar (d "V")];
       c_body := BCall (d "findall") [SVar (d "X"); SFun (d "=") [SVar (d "X"); SVar (d "V")]; SList [SAtom (d "b")]] |} ].

Lemma findall_shares_caller_variables :
  exists ir, compile_program share_prog = Some ir /\
  map (fun x => den (sto x) (TVar 0)) (fst (query 10 ir (d "t") [TVar 0] {| sto := []; nxt := 1 |})) = [TAtom (d "b")] /\
  map (fun x => den (sto x) (TVar 0)) (fst (solveA 10 share_prog (d "t") [TVar 0] {| sto := []; nxt := 1 |})) = [TAtom (d "b")].
Proof.
  eexists. split; [vm_compute; reflexivity|]. split; vm_compute; reflexivity.
Qed.
