(* findall/3 collects COPIES of the instances (engine.py YP.findall since the repair D27, as standard Prolog): an unbound
   variable of the caller that occurs in an instance is a new variable inside the result list.  Witness, on the model of
   the compiled code and on the clause-level reference:
       t(V) :- findall(X, X = V, [b]).        ?- t(V).      one answer, V stays unbound
       u(V,L) :- findall(X, X = V, L), V = a.  ?- u(V,L).    V = a, L = [_G] with _G a variable other than V
   (before D27 the engine answered V = b and L = [a]: the instance was the caller's variable itself). *)
From Coq Require Import String.
From Coq Require Import List Arith ZArith.
Import ListNotations.
From YP Require Import Base.Str Term.Term Term.Fast Lang.Ast Comp.IR Comp.CompileClause Sem.Machine Sem.ClauseSem.
Local Open Scope string_scope.
Local Open Scope list_scope.

Definition share_prog : program :=
  [ {| c_name := d "t"; c_args := [SVar (d "V")];
       c_body := BCall (d "findall") [SVar (d "X"); SFun (d "=") [SVar (d "X"); SVar (d "V")]; SList [SAtom (d "b")]] |};
    {| c_name := d "u"; c_args := [SVar (d "V"); SVar (d "L")];
       c_body := BAnd (BCall (d "findall") [SVar (d "X"); SFun (d "=") [SVar (d "X"); SVar (d "V")]; SVar (d "L")])
                      (BCall (d "=") [SVar (d "V"); SAtom (d "a")]) |} ].

Definition is_var_other_than (v : nat) (t : term) : bool :=
  match t with TVar w => negb (Nat.eqb v w) | _ => false end.

Lemma findall_copies_instances :
  exists ir, compile_program share_prog = Some ir /\
  map (fun x => den (sto x) (TVar 0)) (fst (query 10 ir (d "t") [TVar 0] {| sto := []; nxt := 1 |})) = [TVar 0] /\
  map (fun x => den (sto x) (TVar 0)) (fst (solveA 10 share_prog (d "t") [TVar 0] {| sto := []; nxt := 1 |})) = [TVar 0] /\
  map (fun x => match den (sto x) (TVar 1) with
                | TFun _ [e; _] => (den (sto x) (TVar 0), is_var_other_than 0 e)
                | _ => (TVar 0, false) end)
      (fst (query 10 ir (d "u") [TVar 0; TVar 1] {| sto := []; nxt := 2 |})) = [(TAtom (d "a"), true)].
Proof.
  eexists. split; [vm_compute; reflexivity|]. split; [|split]; vm_compute; reflexivity.
Qed.
