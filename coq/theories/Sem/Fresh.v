(* Every clause activation works on fresh variables.

   inv s: every cell mentioned by the store of s is below the allocation counter nxt s.
   Theorem solveA_fresh: from such a state and goal arguments below the counter, every answer state
   again satisfies inv, its counter has only grown and its store extends the store of the call.
   Hence the cells a clause activation allocates (nxt s, nxt s + 1, ...: clause_enter) occur neither in
   the store nor in the goal when they are allocated, and no later activation on the same search path
   (recursive or repeated call) receives them again; distinct source variables of a clause - in
   particular the distinct x1, x2, ... that the front end writes for each `_` - get distinct cells. *)
From Coq Require Import String.
From Coq Require Import List Arith Bool ZArith NArith Lia.
Import ListNotations.
From YP Require Import Base.Str Term.Term Term.Fast Unify.Unify Unify.Fast Lang.Ast Comp.IR Comp.CompileBody Comp.CompileClause
  Sem.Res Sem.RefSem Sem.SemLemmas Sem.IRSem Sem.Machine Sem.ClauseSem.
From YP Require Export Unify.Bounded.
Local Open Scope string_scope.
Local Open Scope list_scope.

Definition inv (s : st) : Prop := store_bounded (nxt s) (sto s).
Definition env_bounded (k : nat) (r : env) : Prop := forall x t, In (x, t) r -> bounded k t.
Lemma env_bounded_mono k k' r : k <= k' -> env_bounded k r -> env_bounded k' r.
Proof. intros L B x t H. eapply bounded_mono; eauto. Qed.

(* ---------------------------------------------------------------- a generic invariant lemma for sem *)
Section SemInv.
Variable S : Type.
Variable I : str -> list sterm -> S -> list S * bool.
Variable P : S -> Prop.
Variable Q : S -> S -> Prop.
Hypothesis Qrefl : forall s, Q s s.
Hypothesis Qtrans : forall a b c, Q a b -> Q b c -> Q a c.
Hypothesis Hleaf : forall f a s, P s -> forall x, In x (fst (I f a s)) -> P x /\ Q s x.

Definition good_from (s : S) (r : res S) : Prop := forall x, In x (fst r) -> P x /\ Q s x.

Lemma seqr_good s (f : S -> res S) xs e :
  (forall x, In x xs -> P x /\ Q s x) -> (forall x, P x -> good_from x (f x)) -> good_from s (seqr f xs e).
Proof.
  intros Hx Hf. induction xs as [|x r IH]; intros y Hy; [contradiction|].
  cbn [seqr] in Hy. destruct (f x) as [ys g] eqn:E.
  assert (Gx: good_from x (ys, g)) by (rewrite <- E; apply Hf; apply Hx; left; reflexivity).
  assert (Qx: Q s x) by (apply Hx; left; reflexivity).
  assert (IH': good_from s (seqr f r e)) by (apply IH; intros z Hz; apply Hx; right; exact Hz).
  destruct g.
  - destruct (seqr f r e) as [zs h]. cbn [fst] in *. apply in_app_or in Hy as [Hy|Hy].
    + destruct (Gx y Hy) as [A B]. split; [exact A|eapply Qtrans; eauto].
    + apply IH'. exact Hy.
  - cbn [fst] in Hy. destruct (Gx y Hy) as [A B]. split; [exact A|eapply Qtrans; eauto].
  - cbn [fst] in Hy. destruct (Gx y Hy) as [A B]. split; [exact A|eapply Qtrans; eauto].
  - cbn [fst] in Hy. destruct (Gx y Hy) as [A B]. split; [exact A|eapply Qtrans; eauto].
Qed.

Lemma opaque_good s r : good_from s r -> good_from s (opaque r).
Proof. destruct r as [xs g]; destruct g; auto. Qed.

Lemma ite_good s rc (t : S -> res S) e :
  good_from s rc -> (forall x, P x -> good_from x (t x)) -> good_from s e -> good_from s (ite rc t e).
Proof.
  intros Hc Ht He. destruct rc as [[|x r] g]; cbn [ite].
  - destruct g; auto; intros y Hy; contradiction.
  - destruct (Hc x (or_introl eq_refl)) as [Px Qx]. intros y Hy. destruct (Ht x Px y Hy) as [A B].
    split; [exact A|eapply Qtrans; eauto].
Qed.

Lemma por_good s ra rb : good_from s ra -> good_from s rb -> good_from s (por ra rb).
Proof.
  intros Ha Hb. destruct ra as [xs g]; destruct g; cbn [por]; auto.
  destruct rb as [ys h]. intros y Hy. cbn [fst] in Hy. apply in_app_or in Hy as [Hy|Hy]; [apply Ha|apply Hb]; exact Hy.
Qed.

Lemma nil_good s g : good_from s ([], g).
Proof. intros y Hy; contradiction. Qed.
Lemma single_good s g : P s -> good_from s ([s], g).
Proof. intros Ps y [Hy|Hy]; [subst; auto|contradiction]. Qed.

Theorem sem_good : forall b s, P s -> good_from s (sem I b s).
Proof.
  induction b as [f a| | | |l|a b IHa IHb|a b Hif IHa IHb|c t e IHc IHt IHe|c t IHc IHt|a IHa] using body_ind'; intros s Ps.
  - cbn [sem]. pose proof (Hleaf f a s Ps) as H. destruct (I f a s) as [xs e]. exact H.
  - apply single_good; exact Ps.
  - apply nil_good.
  - apply single_good; exact Ps.
  - apply single_good; exact Ps.
  - cbn [sem]. pose proof (IHa s Ps) as Ha. destruct (sem I a s) as [xs e]. apply seqr_good; [exact Ha|exact IHb].
  - rewrite sem_or_plain by exact Hif. apply por_good; auto.
  - rewrite sem_or_if. apply ite_good; [apply opaque_good; auto|exact IHt|auto].
  - cbn [sem]. apply ite_good; [apply opaque_good; auto|exact IHt|apply nil_good].
  - cbn [sem]. apply ite_good; [apply opaque_good; auto|intros; apply nil_good|apply single_good; exact Ps].
Qed.
End SemInv.

(* ---------------------------------------------------------------- the engine model *)
Definition grows (s x : st) : Prop := nxt s <= nxt x /\ ext (sto s) (sto x).
Definition cfg_ok (c : cfg) : Prop := inv (snd c) /\ env_bounded (nxt (snd c)) (fst c).
Definition cfg_grows (c d : cfg) : Prop := fst c = fst d /\ grows (snd c) (snd d).

Lemma grows_refl s : grows s s. Proof. split; [lia|apply ext_refl]. Qed.
Lemma grows_trans a b c : grows a b -> grows b c -> grows a c.
Proof. intros [A1 A2] [B1 B2]. split; [lia|eapply ext_trans; eauto]. Qed.
Lemma cfg_grows_refl c : cfg_grows c c. Proof. split; [reflexivity|apply grows_refl]. Qed.
Lemma cfg_grows_trans a b c : cfg_grows a b -> cfg_grows b c -> cfg_grows a c.
Proof. intros [A1 A2] [B1 B2]. split; [congruence|eapply grows_trans; eauto]. Qed.

(* what a resolution function must satisfy *)
Definition call_ok (call : str -> list term -> st -> list st * bool) : Prop :=
  forall f args s, inv s -> Forall (bounded (nxt s)) args ->
  forall x, In x (fst (call f args s)) -> inv x /\ grows s x.

Lemma env_get_bounded k r x t : env_bounded k r -> env_get x r = Some t -> bounded k t.
Proof.
  induction r as [|[y u] r IH]; simpl; intros B H; [discriminate|].
  destruct (str_eqb x y).
  - inversion H; subst. apply (B y t). left; reflexivity.
  - apply IH; auto. intros z w Hz. apply (B z w). right; exact Hz.
Qed.

Lemma bad_bounded k : bounded k bad_term. Proof. apply bounded_atom. Qed.

Lemma mk_list_bounded k l : Forall (bounded k) l -> bounded k (mk_list l).
Proof.
  induction 1 as [|x l Hx Hl IH]; simpl; [apply bounded_atom|].
  apply bounded_fun. repeat constructor; auto.
Qed.

Lemma instA_bounded k r : env_bounded k r -> forall t, bounded k (instA r t).
Proof.
  intros B t. induction t as [a|n|v|f args IH|items IH|h t IHh IHt] using sterm_ind'; cbn [instA].
  - apply bounded_atom.
  - apply bounded_int.
  - destruct (env_get (pyvar v) r) as [x|] eqn:E; [eapply env_get_bounded; eauto|apply bad_bounded].
  - apply bounded_fun. apply Forall_forall. intros x Hx. apply in_map_iff in Hx as [y [<- Hy]].
    exact (proj1 (Forall_forall _ _) IH y Hy).
  - apply mk_list_bounded. apply Forall_forall. intros x Hx. apply in_map_iff in Hx as [y [<- Hy]].
    exact (proj1 (Forall_forall _ _) IH y Hy).
  - apply bounded_fun. repeat constructor; auto.
Qed.

Lemma argval_bounded k r i : env_bounded k r -> bounded k (argval i r).
Proof. intros B. unfold argval. destruct (env_get (argvar i) r) eqn:E; [eapply env_get_bounded; eauto|apply bad_bounded]. Qed.

Lemma unify_st_ok s a b x : inv s -> bounded (nxt s) a -> bounded (nxt s) b ->
  In x (fst (unify_st s a b)) -> inv x /\ grows s x.
Proof.
  intros Is Ba Bb. unfold unify_st. destruct (unify_fast ufuel (sto s) a b) as [s'| | |] eqn:E; cbn [fst In]; try tauto.
  intros [<-|[]]. split.
  - unfold inv. cbn [sto nxt]. exact (unify_fast_bounded (nxt s) ufuel (sto s) a b s' Is Ba Bb E).
  - split; cbn [sto nxt]; [lia|eapply unify_fast_ext; eauto].
Qed.

Section WithCall.
Variable call : str -> list term -> st -> list st * bool.
Hypothesis Hcall : call_ok call.

Lemma leafA_ok f a c : cfg_ok c -> forall x, In x (fst (leafA call f a c)) -> cfg_ok x /\ cfg_grows c x.
Proof.
  destruct c as [r s]. intros [Is Br] x Hx. unfold leafA in Hx. cbn [fst snd] in *.
  assert (Fa: Forall (bounded (nxt s)) (map (instA r) a)).
  { apply Forall_forall. intros t Ht. apply in_map_iff in Ht as [u [<- _]]. apply instA_bounded; exact Br. }
  pose proof (Hcall f (map (instA r) a) s Is Fa) as H.
  destruct (call f (map (instA r) a) s) as [xs e]. cbn [fst] in *.
  apply in_map_iff in Hx as [y [<- Hy]]. destruct (H y Hy) as [Iy Gy].
  split; [split; cbn [fst snd]; [exact Iy|eapply env_bounded_mono; [apply Gy|exact Br]]|split; [reflexivity|exact Gy]].
Qed.

Lemma body_ok b c : cfg_ok c -> forall x, In x (fst (sem (leafA call) b c)) -> cfg_ok x /\ cfg_grows c x.
Proof.
  intros Pc. apply (sem_good cfg (leafA call) cfg_ok cfg_grows cfg_grows_refl cfg_grows_trans); [|exact Pc].
  intros f a s Ps. apply leafA_ok; exact Ps.
Qed.

Lemma alias_env_bounded k pos : forall i r, env_bounded k r -> env_bounded k (alias_env i pos r).
Proof.
  induction pos as [|[v|] pr IH]; intros i r B; cbn [alias_env]; auto.
  apply IH. intros x t [H|H]; [inversion H; subst; apply argval_bounded; exact B|apply (B x t H)].
Qed.

Lemma fresh_env_spec vars : forall r k r2 k2, fresh_env vars r k = (r2, k2) ->
  k2 = k + length vars /\ (env_bounded k r -> env_bounded k2 r2).
Proof.
  induction vars as [|v l IH]; intros r k r2 k2 H; cbn [fresh_env] in H.
  - inversion H; subst. split; [cbn; lia|auto].
  - destruct (IH _ _ _ _ H) as [E B]. split; [cbn [length]; lia|].
    intros Br. apply B. intros x t [Hx|Hx].
    + inversion Hx; subst. apply bounded_var. lia.
    + eapply bounded_mono; [|apply (Br x t Hx)]. lia.
Qed.

Lemma clause_enter_ok c cf : cfg_ok cf -> cfg_ok (clause_enter c cf) /\ grows (snd cf) (snd (clause_enter c cf)).
Proof.
  destruct cf as [r s]. intros [Is Br]. unfold clause_enter. cbn [fst snd] in *.
  destruct (fresh_env (clause_fv_head c ++ clause_fv_body c) (alias_env 0 (clause_pos c) r) (nxt s)) as [r2 k] eqn:E.
  destruct (fresh_env_spec _ _ _ _ _ E) as [Ek B]. cbn [fst snd sto nxt].
  split; [split|split]; cbn [fst snd sto nxt].
  - unfold inv. cbn [sto nxt]. eapply store_bounded_mono; [|exact Is]. lia.
  - apply B. apply alias_env_bounded. exact Br.
  - lia.
  - apply ext_refl.
Qed.

Lemma head_unify_ok pos : forall i args r s s', inv s -> env_bounded (nxt s) r ->
  head_unify i pos args r s = HOk s' -> inv s' /\ grows s s'.
Proof.
  induction pos as [|o pr IH]; intros i args r s s' Is Br H.
  - cbn [head_unify] in H. inversion H; subst. split; [exact Is|apply grows_refl].
  - destruct o as [v|]; destruct args as [|a ar]; cbn [head_unify] in H;
      try (inversion H; subst; split; [exact Is|apply grows_refl]; fail).
    + eapply IH; eauto.
    + destruct (unify_fast ufuel (sto s) (argval i r) (instA r a)) as [s1| | |] eqn:E; try discriminate.
      assert (I1: inv {| sto := s1; nxt := nxt s |}).
      { unfold inv; cbn [sto nxt]. eapply unify_fast_bounded; [exact Is| | |exact E]; [apply argval_bounded|apply instA_bounded]; exact Br. }
      destruct (IH _ _ _ _ _ I1 Br H) as [I2 G2]. split; [exact I2|].
      eapply grows_trans; [|exact G2]. split; cbn [sto nxt]; [lia|eapply unify_fast_ext; eauto].
Qed.

Lemma clause_res_ok c cf1 : cfg_ok cf1 -> forall x, In x (fst (clause_res call c cf1)) -> cfg_ok x /\ cfg_grows cf1 x.
Proof.
  destruct cf1 as [r s]. intros [Is Br] x Hx. unfold clause_res in Hx. cbn [fst snd] in *.
  destruct (head_unify 0 (clause_pos c) (c_args c) r s) as [s'| |] eqn:E; try contradiction.
  destruct (head_unify_ok _ _ _ _ _ _ Is Br E) as [I' G'].
  assert (P': cfg_ok (r, s')) by (split; cbn [fst snd]; [exact I'|eapply env_bounded_mono; [apply G'|exact Br]]).
  destruct (body_ok _ _ P' x Hx) as [Px Gx]. split; [exact Px|].
  eapply cfg_grows_trans; [|exact Gx]. split; [reflexivity|exact G'].
Qed.

Lemma clausesA_ok cs : forall cf, cfg_ok cf -> forall x, In x (fst (clausesA call cs cf)) -> cfg_ok x /\ grows (snd cf) (snd x).
Proof.
  induction cs as [|c rest IH]; intros cf Pc x Hx; [contradiction|].
  cbn [clausesA] in Hx. destruct (clause_enter_ok c cf Pc) as [P1 G1].
  pose proof (clause_res_ok c _ P1) as HR.
  destruct (clause_res call c (clause_enter c cf)) as [ys g]. cbn [fst] in HR.
  assert (A: forall y, In y ys -> cfg_ok y /\ grows (snd cf) (snd y)).
  { intros y Hy. destruct (HR y Hy) as [Py [_ Gy]]. split; [exact Py|eapply grows_trans; eauto]. }
  destruct g; cbn [fst] in Hx; auto.
  pose proof (IH _ P1) as HI. destruct (clausesA call rest (clause_enter c cf)) as [zs h]. cbn [fst] in *.
  apply in_app_or in Hx as [Hx|Hx]; [auto|].
  destruct (HI x Hx) as [Px Gx]. split; [exact Px|eapply grows_trans; eauto].
Qed.

(* the builtins *)
Lemma den_fast_bounded s t : inv s -> bounded (nxt s) t -> bounded (nxt s) (den_fast (sto s) t).
Proof. intros Is B. rewrite den_fast_eq. apply bounded_den; auto. Qed.

Lemma call_goal_ok g extra s : inv s -> bounded (nxt s) g -> Forall (bounded (nxt s)) extra ->
  forall x, In x (fst (call_goal call g extra s)) -> inv x /\ grows s x.
Proof.
  intros Is Bg Be x Hx. unfold call_goal in Hx. pose proof (den_fast_bounded s g Is Bg) as D.
  destruct (den_fast (sto s) g) as [a|z|q|v|f gargs]; try contradiction.
  - eapply Hcall; eauto.
  - eapply Hcall; [exact Is| |exact Hx]. apply Forall_app. split; [apply bounded_fun in D; exact D|exact Be].
Qed.

Lemma max_nxt_ge s l : nxt s <= max_nxt s l /\ forall x, In x l -> nxt x <= max_nxt s l.
Proof.
  unfold max_nxt. generalize (nxt s) as m. induction l as [|y r IH]; intros m; cbn [fold_left].
  - split; [lia|intros x []].
  - destruct (IH (Nat.max m (nxt y))) as [A B]. split; [lia|].
    intros x [<-|Hx]; [lia|auto].
Qed.

Lemma shift_bounded lo d k u : bounded k u -> lo <= k -> bounded (k + d) (shift_term lo d u).
Proof.
  intros B L. induction u as [a|z|q|w|f args IH] using term_ind'; cbn [shift_term]; try (intros v Hv; discriminate).
  - assert (Lw: w < k) by (apply B; simpl; apply Nat.eqb_refl).
    destruct (Nat.leb lo w); apply bounded_var; lia.
  - apply bounded_fun. apply bounded_fun in B. apply Forall_forall. intros y Hy.
    apply in_map_iff in Hy as [x [<- Hx]].
    exact (proj1 (Forall_forall _ _) IH x Hx (proj1 (Forall_forall _ _) B x Hx)).
Qed.

Lemma collect_bounded lo t xs : forall base, lo <= base ->
  (forall x, In x xs -> lo <= nxt x /\ bounded (nxt x) (den_fast (sto x) t)) ->
  base <= snd (collect lo base t xs) /\ Forall (bounded (snd (collect lo base t xs))) (fst (collect lo base t xs)).
Proof.
  induction xs as [|x r IH]; intros base L H; cbn [collect]; [split; [cbn; lia|constructor]|].
  destruct (H x (or_introl eq_refl)) as [Lx Bx].
  assert (L2: lo <= base + (nxt x - lo)) by lia.
  destruct (IH (base + (nxt x - lo)) L2 (fun y Hy => H y (or_intror Hy))) as [A B].
  destruct (collect lo (base + (nxt x - lo)) t r) as [es b]. cbn [fst snd] in *.
  split; [lia|]. constructor; [|exact B].
  eapply bounded_mono; [|apply (shift_bounded lo (base - lo) (nxt x)); auto]. lia.
Qed.

Lemma builtin_ok name args s r : inv s -> Forall (bounded (nxt s)) args ->
  builtin call name args s = Some r -> forall x, In x (fst r) -> inv x /\ grows s x.
Proof.
  intros Is Fa H x Hx. unfold builtin in H.
  destruct (str_eqb name (s_ "=")).
  { destruct args as [|a [|b [|? ?]]]; try discriminate. injection H as <-. inversion Fa as [|? ? Ba Fb]; subst. inversion Fb as [|? ? Bb ?]; subst.
    exact (unify_st_ok s a b x Is Ba Bb Hx). }
  destruct (str_eqb name (s_ "\=")).
  { destruct args as [|a [|b [|? ?]]]; try discriminate.
    destruct (unify_fast ufuel (sto s) a b); injection H as <-; cbn [fst In] in Hx; try contradiction.
    destruct Hx as [<-|[]]. split; [exact Is|apply grows_refl]. }
  destruct (str_eqb name (s_ "call")).
  { destruct args as [|g extra]; injection H as <-; [contradiction|]. inversion Fa; subst. eapply call_goal_ok; eauto. }
  destruct (str_eqb name (s_ "once")).
  { destruct args as [|g [|? ?]]; try discriminate. injection H as <-. inversion Fa; subst.
    pose proof (call_goal_ok g [] s Is ltac:(assumption) (Forall_nil _)) as HG.
    destruct (call_goal call g [] s) as [[|y ys] e]; cbn [fst In] in *; try contradiction.
    destruct Hx as [<-|[]]. apply HG. left; reflexivity. }
  destruct (str_eqb name (s_ "findall")); [|discriminate].
  destruct args as [|t [|g [|l [|? ?]]]]; try discriminate. injection H as <-.
  inversion Fa as [|? ? Bt F1]; subst. inversion F1 as [|? ? Bg F2]; subst. inversion F2 as [|? ? Bl _]; subst.
  pose proof (call_goal_ok g [] s Is Bg (Forall_nil _)) as HG.
  destruct (call_goal call g [] s) as [xs e]. cbn [fst] in HG. destruct e; [contradiction|].
  destruct (max_nxt_ge s xs) as [M1 M2].
  assert (HC: forall y, In y xs -> 0 <= nxt y /\ bounded (nxt y) (den_fast (sto y) t)).
  { intros y Hy. destruct (HG y Hy) as [Iy Gy]. split; [lia|].
    apply den_fast_bounded; [exact Iy|]. eapply bounded_mono; [apply Gy|exact Bt]. }
  destruct (collect_bounded 0 t xs (nxt s) (Nat.le_0_l _) HC) as [C1 C2].
  destruct (collect 0 (nxt s) t xs) as [es b]. cbn [fst snd] in *.
  set (s1 := {| sto := sto s; nxt := b |}) in *.
  assert (I1: inv s1) by (unfold inv, s1; cbn [sto nxt]; eapply store_bounded_mono; [|exact Is]; lia).
  assert (G1: grows s s1) by (unfold s1; split; cbn [sto nxt]; [lia|apply ext_refl]).
  assert (BL: bounded (nxt s1) (mk_list es)) by (apply mk_list_bounded; exact C2).
  destruct (unify_st_ok s1 l _ x I1 ltac:(eapply bounded_mono; [|exact Bl]; unfold s1; cbn [nxt]; lia) BL Hx) as [Ix Gx].
  split; [exact Ix|eapply grows_trans; eauto].
Qed.
End WithCall.

(* ---------------------------------------------------------------- the theorem *)
Lemma bind_args_bounded k args : Forall (bounded k) args -> forall i, env_bounded k (bind_args i args).
Proof.
  induction 1 as [|a l Ha Hl IH]; intros i x t Hx; cbn [bind_args] in Hx; [contradiction|].
  destruct Hx as [Hx|Hx]; [inversion Hx; subst; exact Ha|eapply IH; eauto].
Qed.

Theorem solveA_fresh : forall n p, call_ok (solveA n p).
Proof.
  induction n as [|n IH]; intros p name args s Is Fa x Hx; [contradiction|].
  cbn [solveA] in Hx.
  destruct (clauses_for p name (length args)) as [|c cs].
  - destruct (builtin (solveA n p) name args s) as [r|] eqn:E; [|contradiction].
    eapply builtin_ok; eauto.
  - assert (P0: cfg_ok (bind_args 0 args, s)) by (split; cbn [fst snd]; [exact Is|apply bind_args_bounded; exact Fa]).
    pose proof (clausesA_ok (solveA n p) (IH p) (c :: cs) _ P0) as H.
    destruct (clausesA (solveA n p) (c :: cs) (bind_args 0 args, s)) as [ys g]. cbn [fst] in *.
    apply in_map_iff in Hx as [y [<- Hy]]. destruct (H y Hy) as [[Iy _] Gy]. split; [exact Iy|exact Gy].
Qed.

(* the i-th variable of the list gets cell k + i: distinct variables of a clause get distinct cells *)
Lemma fresh_env_cells vars : forall r k,
  fresh_env vars r k = (rev (combine (map pyvar vars) (map TVar (seq k (length vars)))) ++ r, k + length vars).
Proof.
  induction vars as [|v l IH]; intros r k; cbn [fresh_env length seq map combine rev app].
  - f_equal. lia.
  - rewrite IH. f_equal; [|lia]. rewrite <- app_assoc. reflexivity.
Qed.
