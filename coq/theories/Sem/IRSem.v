(* Semantics of the intermediate code as CPython executes the emitted text:

     for lN in <it>: body      iterate the answers of <it>; a `break` in the body ends the loop;
       if doBreak: break       the emitted trailer turns a set doBreak into a break of the next loop out
     cutIfN = False            SBlock N body
     for _ in [1]: body
     if cutIfN: doBreak = False
     if doBreak: break
     cutIfN = True; doBreak = True; break      SBreakBlock N
     return                    SReturn         (ends the generator function)
     yield False / yield True  one answer (the state at that point)
     x = e                     SAssign: changes the state for the statements that follow

   over an arbitrary state type S (environment + store), an arbitrary interpretation
   J of iterator expressions (J it s = answers in order, true iff an exception ends the
   iteration after them) and of assignments.  This is the statement of what CPython
   does with the emitted text; it is validated by running the emitted text (trusted base). *)
From Coq Require Import List Arith Bool.
Import ListNotations.
From YP Require Import Base.Str Comp.IR.
Set Implicit Arguments.

Inductive compl := CNorm | CBrk | CRet | CErr.
Record flags := { doBreak : bool; lab : nat -> bool }.
Definition setlab l v (f:flags) := {| doBreak := doBreak f; lab := fun x => if Nat.eqb x l then v else lab f x |}.
Definition setbrk b (f:flags) := {| doBreak := b; lab := lab f |}.
Definition flags0 : flags := {| doBreak := false; lab := fun _ => false |}.

Section Exec.
Variable S : Type.
Variable J : expr -> S -> list S * bool.
Variable assign : str -> expr -> S -> S.
Definition out := (list S * compl * flags)%type.

Definition after_loop (r:out) : out :=
  let '(ys,k,f) := r in
  match k with CNorm => (ys, (if doBreak f then CBrk else CNorm), f) | _ => r end.

Section Loop.
  Variable body : S -> flags -> out.
  Fixpoint loop (e:bool) (xs:list S) (f:flags) : out :=
    match xs with
    | [] => ([], (if e then CErr else CNorm), f)
    | x::r => let '(ys,k,f1) := body x f in
        match k with
        | CNorm => let '(zs,k2,f2) := loop e r f1 in (ys++zs,k2,f2)
        | CBrk => (ys,CNorm,f1)
        | _ => (ys,k,f1) end
    end.
End Loop.

Definition end_block l (r:out) : out :=
  let '(ys,k,f1) := r in
  match k with
  | CNorm | CBrk =>
      let f2 := if lab f1 l then setbrk false f1 else f1 in
      (ys, (if doBreak f2 then CBrk else CNorm), f2)
  | _ => r end.

Fixpoint exec_stmt (st:stmt) (s:S) (f:flags) {struct st} : out :=
  let exec_list := fix exec_list (c:list stmt) (s:S) (f:flags) {struct c} : out :=
      match c with
      | [] => ([],CNorm,f)
      | SAssign x e :: rest => exec_list rest (assign x e s) f
      | st::rest => let '(ys,k,f1) := exec_stmt st s f in
          match k with
          | CNorm => let '(zs,k2,f2) := exec_list rest s f1 in (ys++zs,k2,f2)
          | _ => (ys,k,f1) end
      end in
  match st with
  | SAssign _ _ => ([],CNorm,f)
  | SYieldFalse | SYieldTrue => ([s],CNorm,f)
  | SReturn => ([],CRet,f)
  | SBreakBlock l => ([],CBrk, setbrk true (setlab l true f))
  | SForeach it body =>
      let '(xs,e) := J it s in after_loop (loop (exec_list body) e xs f)
  | SBlock l body => end_block l (exec_list body s (setlab l false f))
  end.

Fixpoint exec_list (c:list stmt) (s:S) (f:flags) {struct c} : out :=
  match c with
  | [] => ([],CNorm,f)
  | SAssign x e :: rest => exec_list rest (assign x e s) f
  | st::rest => let '(ys,k,f1) := exec_stmt st s f in
      match k with
      | CNorm => let '(zs,k2,f2) := exec_list rest s f1 in (ys++zs,k2,f2)
      | _ => (ys,k,f1) end
  end.

Lemma exec_stmt_eq st s f : exec_stmt st s f =
  match st with
  | SAssign _ _ => ([],CNorm,f)
  | SYieldFalse | SYieldTrue => ([s],CNorm,f)
  | SReturn => ([],CRet,f)
  | SBreakBlock l => ([],CBrk, setbrk true (setlab l true f))
  | SForeach it body =>
      let '(xs,e) := J it s in after_loop (loop (exec_list body) e xs f)
  | SBlock l body => end_block l (exec_list body s (setlab l false f))
  end.
Proof. destruct st; reflexivity. Qed.

(* the function wrapper:  doBreak = False; for _ in [1]: code; if False: yield False *)
Definition run_function (code:list stmt) (s:S) : list S * compl :=
  let '(ys,k,_) := exec_list code s flags0 in (ys,k).
End Exec.
