(* The concrete engine model for compiled programs (no dynamic facts, no registered Python
   predicates other than the builtins =, \=, call/N, once/1, findall/3):

     state of one search path:  st = (store of active bindings, next fresh cell)
     environment of an activation: Python local name -> term
     query n prog name args st = answers (states) in order + "ended by an exception" flag, where n
       bounds the nesting depth of query() calls (step index: 0 = the interpreter's recursion limit
       is hit, which raises)

   YP.query for a loaded program: the generator function <name>_<arity> if the program defines
   it, else the builtin of that name/arity, else no answer.  Cells are named by a counter that is
   threaded along the search path (object identity of Variable objects is an arbitrary injective
   naming; cells of abandoned branches are never visible again). *)
From Coq Require Import String.
From Coq Require Import List Arith Bool ZArith NArith.
Import ListNotations.
From YP Require Import Base.Str Term.Term Term.Fast Unify.Unify Unify.Fast Lang.Ast Comp.IR Comp.CompileBody Sem.Res Sem.IRSem.
Local Open Scope string_scope.
Local Open Scope list_scope.

Record st := { sto : store; nxt : nat }.
Definition env := list (str * term).
Definition cfg := (env * st)%type.

Fixpoint env_get (x : str) (r : env) : option term :=
  match r with [] => None | (y, t) :: r' => if str_eqb x y then Some t else env_get x r' end.

Definition nil_atom : term := TAtom (s_ "[]").
Definition cons_term (h t : term) : term := TFun (s_ ".") [h; t].
Fixpoint mk_list (l : list term) : term :=
  match l with [] => nil_atom | x :: r => cons_term x (mk_list r) end.

(* value of a decimal numeral *)
Definition digits_value (ds : str) : Z :=
  Z.of_N (fold_left (fun acc c => (acc * 10 + (c - 48))%N) ds 0%N).

(* terms that could not be built stand for a NameError etc.: none occurs in compiled code *)
Definition bad_term : term := TAtom (s_ "$bad").

Fixpoint eval_expr (r : env) (e : expr) : term :=
  let evals := fix evals (l : list expr) : list term :=
      match l with [] => [] | x :: t => eval_expr r x :: evals t end in
  match e with
  | EVar v => if str_eqb v (s_ "ATOM_NIL") then nil_atom else
              match env_get v r with Some t => t | None => bad_term end
  | ENum ds => TInt (digits_value ds)
  | EStr s => TStr s
  | ECall f args =>
      if str_eqb f (s_ "atom") then match args with [EStr a] => TAtom a | _ => bad_term end
      else if str_eqb f (s_ "functor") then
        match args with [EStr g; EList xs] => TFun g (evals xs) | _ => bad_term end
      else if str_eqb f (s_ "listpair") then
        match args with [h; t] => cons_term (eval_expr r h) (eval_expr r t) | _ => bad_term end
      else if str_eqb f (s_ "makelist") then
        match args with [EList xs] => mk_list (evals xs) | _ => bad_term end
      else bad_term
  | EList _ => bad_term
  end.

Definition ufuel : nat := 400.

(* x = e : `variable()` allocates the next cell *)
Definition assign (x : str) (e : expr) (c : cfg) : cfg :=
  let '(r, s) := c in
  match e with
  | ECall f [] =>
      if str_eqb f (s_ "variable")
      then ((x, TVar (nxt s)) :: r, {| sto := sto s; nxt := S (nxt s) |})
      else ((x, eval_expr r e) :: r, s)
  | _ => ((x, eval_expr r e) :: r, s)
  end.

Definition unify_st (s : st) (a b : term) : list st * bool :=
  match unify_fast ufuel (sto s) a b with
  | UOk s' => ([{| sto := s'; nxt := nxt s |}], false)
  | UFail => ([], false)
  | UOof | UCyc => ([], true)
  end.

Definition max_nxt (s : st) (l : list st) : nat := fold_left (fun m x => Nat.max m (nxt x)) l (nxt s).

(* findall collects one COPY of the instance of the template per answer (engine.py YP.findall: copy_term(template, {}),
   since the repair D27): every unbound variable of an instance is replaced by a new variable, consistently within
   the instance, so different instances share no variable with each other, with the caller or with the goal.
   In the model the copy of answer x_j moves every cell c of the dereferenced template to base_j + c, where
   base_1 = the counter at the call and base_(j+1) = base_j + nxt x_j: an injective renaming onto a range of cells
   that exist nowhere else (collect with lo = 0).  The general form with a threshold lo (cells below lo stay, the
   model of the code before D27) is kept because the lemmas are stated for every lo. *)
Fixpoint shift_term (lo d : nat) (t : term) : term :=
  match t with
  | TVar v => if Nat.leb lo v then TVar (v + d) else t
  | TFun f args => TFun f (map (shift_term lo d) args)
  | _ => t
  end.

Fixpoint collect (lo base : nat) (t : term) (xs : list st) : list term * nat :=
  match xs with
  | [] => ([], base)
  | x :: r =>
      let e := shift_term lo (base - lo) (den_fast (sto x) t) in
      let '(es, b) := collect lo (base + (nxt x - lo)) t r in (e :: es, b)
  end.

(* the builtin predicates, over an arbitrary `call` (YP.query one level down) *)
Section Builtins.
Variable call : str -> list term -> st -> list st * bool.

(* YP.call: the goal is dereferenced; an atom or a compound term; the extra arguments are appended *)
Definition call_goal (g : term) (extra : list term) (s : st) : list st * bool :=
  match den_fast (sto s) g with
  | TAtom a => call a extra s
  | TFun f gargs => call f (gargs ++ extra) s
  | _ => ([], true)            (* unbound or not callable: the code raises *)
  end.

Definition builtin (name : str) (args : list term) (s : st) : option (list st * bool) :=
  if str_eqb name (s_ "=") then
    match args with [a; b] => Some (unify_st s a b) | _ => None end
  else if str_eqb name (s_ "\=") then
    match args with
    | [a; b] => Some (match unify_fast ufuel (sto s) a b with
                      | UOk _ => ([], false) | UFail => ([s], false) | _ => ([], true) end)
    | _ => None end
  else if str_eqb name (s_ "call") then
    match args with g :: extra => Some (call_goal g extra s) | [] => Some ([], true) end
  else if str_eqb name (s_ "once") then
    match args with
    | [g] => Some (match call_goal g [] s with (x :: _, _) => ([x], false) | ([], e) => ([], e) end)
    | _ => None end
  else if str_eqb name (s_ "findall") then
    match args with
    | [t; g; l] =>
        Some (let '(xs, e) := call_goal g [] s in
              if e then ([], true) else
              let '(es, b) := collect 0 (nxt s) t xs in
              unify_st {| sto := sto s; nxt := b |} l (mk_list es))
    | _ => None end
  else None.
End Builtins.

Fixpoint find_func (p : ir_program) (name : str) (ar : nat) : option func :=
  match p with
  | [] => None
  | f :: r => if str_eqb (fn_name f) name && Nat.eqb (fn_arity f) ar then Some f else find_func r name ar
  end.

Fixpoint bind_args (i : nat) (args : list term) : env :=
  match args with [] => [] | a :: r => (s_ "arg" ++ dec_of_nat (S i), a) :: bind_args (S i) r end.

(* iterator expressions of the generated code *)
Definition iter (call : str -> list term -> st -> list st * bool) (it : expr) (c : cfg) : list cfg * bool :=
  let '(r, s) := c in
  match it with
  | ECall f [a; b] =>
      if str_eqb f (s_ "unify") then
        let '(xs, e) := unify_st s (eval_expr r a) (eval_expr r b) in (map (fun x => (r, x)) xs, e)
      else if str_eqb f (s_ "query") then
        match a, b with
        | EStr name, EList args =>
            let '(xs, e) := call name (map (eval_expr r) args) s in (map (fun x => (r, x)) xs, e)
        | _, _ => ([], true)
        end
      else ([], true)
  | _ => ([], true)
  end.

Fixpoint query (n : nat) (p : ir_program) (name : str) (args : list term) (s : st) {struct n} : list st * bool :=
  match n with
  | O => ([], true)
  | S n' =>
      match find_func p name (length args) with
      | Some f =>
          let '(ys, k) := run_function (iter (query n' p)) assign (fn_body f) (bind_args 0 args, s) in
          (map snd ys, match k with CErr => true | _ => false end)
      | None =>
          match builtin (query n' p) name args s with
          | Some r => r
          | None => ([], false)
          end
      end
  end.
