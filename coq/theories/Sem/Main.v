(* The end-to-end statement for compiled programs: the model of the emitted code computes the answers of
   SLD resolution with every clause renamed apart (SldR.solveR), in the same order, with the same
   multiplicity and the same way of ending, up to an injective renaming of the cells created during the
   query (composition of Sem/ProgramCorrect.v and Sem/RenameSim.v). *)
From Coq Require Import List Arith.
Import ListNotations.
From YP Require Import Base.Str Term.Term Unify.Unify Unify.Bounded Unify.Rename Lang.Ast Comp.IR Comp.CompileClause
  Sem.Machine Sem.ClauseSem Sem.SldR Sem.ProgramCorrect Sem.Fresh Sem.RenameSim.

Theorem compiled_program_is_sld : forall n p ir,
  compile_program p = Some ir -> good_program p ->
  forall name args s, wf (sto s) -> inv s -> Forall (bounded (nxt s)) args ->
  Forall2 (same_answer s) (fst (query n ir name args s)) (fst (solveR n p name args s)) /\
  snd (query n ir name args s) = snd (solveR n p name args s).
Proof.
  intros n p ir HC G name args s W I B.
  rewrite (machine_computes_clause_semantics n p ir HC G name args s).
  apply naming_equals_renaming_apart; assumption.
Qed.
