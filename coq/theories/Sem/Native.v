(* C20: the engine model of Sem/Machine.v extended by the rest of YP.query (engine.py):

       def query(self, name, args):
           yield from self.match_dynamic(self.atom(name), args)          # dynamic facts first
           if name not in self.eval_blacklist:                            # API names are never called
               function = self.eval_context.get(f'{name}_{len(args)}', self.eval_context.get(f'{name}_n'))
               if function is not None:
                   yield from function( *args )

   eval_context holds, under the key '<name>_<arity>', the generator function of a loaded script (w_ir), a
   builtin, or a Python function registered with register_function(name, f) / (name, f, arity=k) (w_fix; in
   the harness registered after loading, so it replaces an older entry with the same key), and under
   '<name>_n' a function registered with arity=-1 (w_var) or the builtin call/N.

   A registered Python predicate is modelled by its ANSWER FUNCTION: called with the argument list (engine
   terms, in call order) in a state, it delivers answers - each a state and the value it yields - and then
   ends normally or raises.  YP.query passes the yielded values through; the emitted code (`for lN in
   query(..)`) and the builtins never look at them: they are dropped where a query is consumed.

   The well-behaved predicates of the property are
       def p( *args ):
           for row in rows:                       # row: terms over fresh variables
               for _ in unify_arrays(args, row):  # or nested `for _ in unify(arg_i, row_i)`
                   yield v                         # any value
   = native_rows rows vals, which is literally the loop of _match_all_clauses over stored facts. *)
From Coq Require Import String.
From Coq Require Import List Arith Bool ZArith NArith.
Import ListNotations.
From YP Require Import Base.Str Term.Term Term.Fast Unify.Unify Unify.Fast Lang.Ast Comp.IR Comp.CompileBody
  Sem.Res Sem.IRSem Sem.Machine.
From YP Require Engine.Resolve.
Local Open Scope string_scope.
Local Open Scope list_scope.

(* ------------------------------------------------------------------ rows: stored facts, rows of a Python predicate *)

(* copy_term with a fresh mapping / `yp.variable()` per row: the row's variables 0..nv-1 become the cells
   nxt..nxt+nv-1 *)
Fixpoint tshift (off : nat) (t : term) : term :=
  let shifts := fix shifts (l : list term) : list term :=
      match l with [] => [] | x :: r => tshift off x :: shifts r end in
  match t with
  | TVar v => TVar (v + off)
  | TFun f args => TFun f (shifts args)
  | _ => t
  end.

Record frow := { r_vals : list term; r_nv : nat }.

Definition row_terms (r : frow) (s : st) : list term := map (tshift (nxt s)) (r_vals r).

(* for clause in clauses: for _ in unify_arrays(args, copy(clause.values)): yield False *)
Fixpoint match_rows (rows : list frow) (args : list term) (s : st) : list st * bool :=
  match rows with
  | [] => ([], false)
  | r :: rest =>
      match unify_arrays_fast ufuel (sto s) args (row_terms r s) with
      | UOk s' => let '(zs, e) := match_rows rest args s in ({| sto := s'; nxt := nxt s + r_nv r |} :: zs, e)
      | UFail => match_rows rest args s
      | UOof | UCyc => ([], true)
      end
  end.

(* ------------------------------------------------------------------ registered Python predicates *)

Definition nres := (list (st * bool) * bool)%type.          (* answers with the yielded value; raised? *)
Definition nfun := list term -> st -> nres.
Definition drop (r : nres) : list st * bool := (map fst (fst r), snd r).

Fixpoint native_rows (rows : list frow) (vals : list bool) (args : list term) (s : st) : nres :=
  match rows with
  | [] => ([], false)
  | r :: rest =>
      match unify_arrays_fast ufuel (sto s) args (row_terms r s) with
      | UOk s' => let '(zs, e) := native_rows rest (tl vals) args s in
                  (({| sto := s'; nxt := nxt s + r_nv r |}, hd false vals) :: zs, e)
      | UFail => native_rows rest (tl vals) args s
      | UOof | UCyc => ([], true)
      end
  end.

(* a predicate that raises instead of delivering its answer number j (counted from 0) *)
Definition raising (f : nfun) (j : nat) : nfun :=
  fun args s => let '(xs, e) := f args s in if Nat.ltb j (length xs) then (firstn j xs, true) else (xs, e).

(* ------------------------------------------------------------------ the engine *)

Record world := {
  w_ir  : ir_program;
  w_fix : str -> nat -> option nfun;
  w_var : str -> option nfun;
  w_dyn : str -> nat -> list frow
}.

Definition callT := str -> list term -> st -> list st * bool.

(* eval_context.get('<name>_<k>', eval_context.get('<name>_n')) applied to the arguments *)
Definition call_function (call : callT) (w : world) (name : str) (args : list term) (s : st) : list st * bool :=
  match w_fix w name (length args) with
  | Some f => drop (f args s)
  | None =>
      match find_func (w_ir w) name (length args) with
      | Some f =>
          let '(ys, k) := run_function (iter call) assign (fn_body f) (bind_args 0 args, s) in
          (map snd ys, match k with CErr => true | _ => false end)
      | None =>
          if str_eqb name (s_ "call") then       (* the only builtin under a '<name>_n' key *)
            match w_var w name with
            | Some f => drop (f args s)
            | None => match builtin call name args s with Some r => r | None => ([], false) end
            end
          else
            match builtin call name args s with
            | Some r => r
            | None => match w_var w name with Some f => drop (f args s) | None => ([], false) end
            end
      end
  end.

Definition nstep (call : callT) (w : world) (name : str) (args : list term) (s : st) : list st * bool :=
  let '(ds, de) := match_rows (w_dyn w name (length args)) args s in
  if de then (ds, true)
  else if Resolve.reserved name then (ds, false)
  else let '(fs, fe) := call_function call w name args s in (ds ++ fs, fe).

Fixpoint nquery (n : nat) (w : world) (name : str) (args : list term) (s : st) {struct n} : list st * bool :=
  match n with
  | O => ([], true)
  | S n' => nstep (nquery n' w) w name args s
  end.

(* what the consumer of a top-level query sees: the yielded values too (YP.query passes them through) *)
Definition top_values (w : world) (name : str) (args : list term) (s : st) : option (list bool) :=
  match w_fix w name (length args) with
  | Some f => Some (map snd (fst (f args s)))
  | None => None
  end.

(* ------------------------------------------------------------------ worlds from tables *)

Definition key_eq (a b : str * nat) : bool := str_eqb (fst a) (fst b) && Nat.eqb (snd a) (snd b).

Fixpoint lookup_fix {A} (l : list (str * nat * A)) (name : str) (k : nat) : option A :=
  match l with
  | [] => None
  | (n0, k0, a) :: r => if key_eq (n0, k0) (name, k) then Some a else lookup_fix r name k
  end.

Fixpoint lookup_var {A} (l : list (str * A)) (name : str) : option A :=
  match l with
  | [] => None
  | (n0, a) :: r => if str_eqb n0 name then Some a else lookup_var r name
  end.

Definition mk_world (ir : ir_program) (fixl : list (str * nat * nfun)) (varl : list (str * nfun))
    (dynl : list (str * nat * list frow)) : world :=
  {| w_ir := ir; w_fix := lookup_fix fixl; w_var := lookup_var varl;
     w_dyn := fun name k => match lookup_fix dynl name k with Some rows => rows | None => [] end |}.

Definition plain (ir : ir_program) : world :=
  {| w_ir := ir; w_fix := fun _ _ => None; w_var := fun _ => None; w_dyn := fun _ _ => [] |}.
