(* C20, round 3: ONE predicate defined from MIXED SOURCES.

   The engine of Sem/Native.v keeps at most one definition per key (a registered Python predicate hides the function
   of the loaded script).  engine.py allows more:

       def chain_functions(func1, func2):
           funcs = [f for f in [func1, func2] if f is not None]
           def chain( *args ):
               return itertools.chain( *[f( *args ) for f in funcs])
           return chain

       def load_script_from_string(self, s, fn='', overwrite=True):
           new_context = self.eval_context.copy(); exec(compile(s, fn, 'exec'), new_context)
           for k, v in new_context.items():
               if self.eval_context.get(k) != v:
                   if overwrite: self.eval_context[k] = v
                   else:         self.eval_context[k] = chain_functions(self.eval_context.get(k), v)

       def register_function(self, name, func, arity=None):      # plain assignment
           self.eval_context[f'{name}_{arity}'] = func            # or f'{name}_n'

   so the value under a key '<name>_<k>' is a CHAIN: a list of definitions, each a registered Python predicate or the
   generator function of some loaded script (scripts are compiled separately), built by any sequence of
   register_function / load_script(overwrite=True) (both: the key := [the new definition]) and
   load_script(overwrite=False) (the key := old chain ++ [the new definition]).  Calling the chain runs the members
   in order from the same state; the yielded values are passed through (nobody looks at them: a member that
   yields True - a compiled clause that cuts, a Python predicate that likes True - is followed by the next
   member all the same); an exception in a member ends the chain.

   Here: the engine with chains (cquery), proved to be nquery on the worlds of Sem/Native.v (embed), the laws of
   chains (concatenation), and interchangeability MEMBER BY MEMBER: engines whose chains agree member by member for a
   value-ignoring consumer answer every query alike - in particular a chain member that is a Python predicate over
   ground rows, whatever it yields, against the compiled facts, in every position of every chain; and the same for
   engines BUILT by the same sequence of operations, with register_function(python predicate) on one side and
   load_script(its facts, overwrite=True) on the other. *)
From Coq Require Import String.
From Coq Require Import List Arith Bool ZArith NArith.
Import ListNotations.
From YP Require Import Base.Str Term.Term Term.Fast Unify.Unify Unify.Fast Lang.Ast Comp.IR Comp.CompileBody Comp.CompileClause
  Sem.Res Sem.IRSem Sem.Machine Sem.ClauseSem Sem.ProgramCorrect Sem.Native Sem.NativeThms Sem.NativeFacts.
From YP Require Engine.Resolve.
Local Open Scope string_scope.
Local Open Scope list_scope.

(* ------------------------------------------------------------------ the engine with chains *)

Inductive cdef :=
| CNat (f : nfun)        (* a registered Python predicate *)
| CIr (f : func).        (* the generator function of a loaded script *)

Definition chain := list cdef.

Record cworld := {
  c_fix : str -> nat -> option chain;      (* eval_context['<name>_<k>'] *)
  c_var : str -> option nfun;              (* eval_context['<name>_n']: only register_function(arity=-1) writes it *)
  c_dyn : str -> nat -> list frow
}.

Definition run_def (call : callT) (d : cdef) (args : list term) (s : st) : list st * bool :=
  match d with
  | CNat f => drop (f args s)
  | CIr f =>
      let '(ys, k) := run_function (iter call) assign (fn_body f) (bind_args 0 args, s) in
      (map snd ys, match k with CErr => true | _ => false end)
  end.

(* itertools.chain over the members' generators: every member from the state of the call *)
Fixpoint run_chain (call : callT) (ds : chain) (args : list term) (s : st) : list st * bool :=
  match ds with
  | [] => ([], false)
  | d :: r =>
      let '(xs, e) := run_def call d args s in
      if e then (xs, true)
      else let '(ys, e') := run_chain call r args s in (xs ++ ys, e')
  end.

Definition ccall_function (call : callT) (w : cworld) (name : str) (args : list term) (s : st) : list st * bool :=
  match c_fix w name (length args) with
  | Some ds => run_chain call ds args s
  | None =>
      if str_eqb name (s_ "call") then
        match c_var w name with
        | Some f => drop (f args s)
        | None => match builtin call name args s with Some r => r | None => ([], false) end
        end
      else
        match builtin call name args s with
        | Some r => r
        | None => match c_var w name with Some f => drop (f args s) | None => ([], false) end
        end
  end.

Definition cstep (call : callT) (w : cworld) (name : str) (args : list term) (s : st) : list st * bool :=
  let '(ds, de) := match_rows (c_dyn w name (length args)) args s in
  if de then (ds, true)
  else if Resolve.reserved name then (ds, false)
  else let '(fs, fe) := ccall_function call w name args s in (ds ++ fs, fe).

Fixpoint cquery (n : nat) (w : cworld) (name : str) (args : list term) (s : st) {struct n} : list st * bool :=
  match n with
  | O => ([], true)
  | S n' => cstep (cquery n' w) w name args s
  end.

(* the values a top-level consumer sees for a chain of Python predicates only *)
Fixpoint chain_values (ds : chain) (args : list term) (s : st) : option (list bool) :=
  match ds with
  | [] => Some []
  | CNat f :: r =>
      if snd (f args s) then Some (map snd (fst (f args s)))
      else match chain_values r args s with Some l => Some (map snd (fst (f args s)) ++ l) | None => None end
  | CIr _ :: _ => None
  end.

(* ------------------------------------------------------------------ laws of chains *)

Lemma run_chain_nil call args s : run_chain call [] args s = ([], false).
Proof. reflexivity. Qed.

Lemma run_chain_one call d args s : run_chain call [d] args s = run_def call d args s.
Proof.
  cbn [run_chain]. destruct (run_def call d args s) as [xs e]. destruct e; [reflexivity|]. rewrite app_nil_r. reflexivity.
Qed.

(* chain_functions(chain_functions(.., ..), ..): the answers of ds1 ++ ds2 are the answers of ds1 followed by those of ds2;
   an exception in ds1 ends everything *)
Theorem run_chain_app call ds1 ds2 args s :
  run_chain call (ds1 ++ ds2) args s =
  (if snd (run_chain call ds1 args s) then (fst (run_chain call ds1 args s), true)
   else (fst (run_chain call ds1 args s) ++ fst (run_chain call ds2 args s), snd (run_chain call ds2 args s))).
Proof.
  induction ds1 as [|d r IH].
  - cbn [app run_chain fst snd]. destruct (run_chain call ds2 args s). reflexivity.
  - cbn [app run_chain]. destruct (run_def call d args s) as [xs e]. destruct e; [reflexivity|].
    rewrite IH. destruct (run_chain call r args s) as [ys e1]. cbn [fst snd]. destruct e1; [reflexivity|].
    destruct (run_chain call ds2 args s) as [zs e2]. cbn [fst snd]. rewrite app_assoc. reflexivity.
Qed.

(* the chain of a definition and a later one = the concatenation of their answers *)
Corollary run_chain_two call d1 d2 args s :
  run_chain call [d1; d2] args s =
  (if snd (run_def call d1 args s) then (fst (run_def call d1 args s), true)
   else (fst (run_def call d1 args s) ++ fst (run_def call d2 args s), snd (run_def call d2 args s))).
Proof.
  change [d1; d2] with ([d1] ++ [d2]). rewrite run_chain_app, !run_chain_one. reflexivity.
Qed.

(* ------------------------------------------------------------------ extensionality in the calls *)

Section CallExtC.
Variables c1 c2 : callT.
Hypothesis Hc : forall name args s, c1 name args s = c2 name args s.

Lemma run_def_ext d args s : run_def c1 d args s = run_def c2 d args s.
Proof.
  destruct d as [f|f]; [reflexivity|]. cbn [run_def].
  rewrite (@run_function_ext cfg assign (iter c1) (iter c2) (iter_ext c1 c2 Hc)). reflexivity.
Qed.

Lemma run_chain_ext ds args s : run_chain c1 ds args s = run_chain c2 ds args s.
Proof.
  induction ds as [|d r IH]; [reflexivity|]. cbn [run_chain]. rewrite run_def_ext, IH. reflexivity.
Qed.

Lemma ccall_function_ext w name args s : ccall_function c1 w name args s = ccall_function c2 w name args s.
Proof.
  unfold ccall_function. destruct (c_fix w name (length args)); [apply run_chain_ext|].
  rewrite (ProgramCorrect.builtin_ext c1 c2 Hc). reflexivity.
Qed.

Lemma cstep_ext w name args s : cstep c1 w name args s = cstep c2 w name args s.
Proof. unfold cstep. rewrite ccall_function_ext. reflexivity. Qed.
End CallExtC.

Definition cworld_equiv (w1 w2 : cworld) : Prop :=
  forall call name args s, cstep call w1 name args s = cstep call w2 name args s.

Lemma cworld_equiv_refl w : cworld_equiv w w.
Proof. intros call name args s. reflexivity. Qed.
Lemma cworld_equiv_sym w1 w2 : cworld_equiv w1 w2 -> cworld_equiv w2 w1.
Proof. intros H call name args s. symmetry. apply H. Qed.
Lemma cworld_equiv_trans w1 w2 w3 : cworld_equiv w1 w2 -> cworld_equiv w2 w3 -> cworld_equiv w1 w3.
Proof. intros H1 H2 call name args s. rewrite H1. apply H2. Qed.

Theorem cworld_equiv_cquery w1 w2 : cworld_equiv w1 w2 ->
  forall n name args s, cquery n w1 name args s = cquery n w2 name args s.
Proof.
  intros H. induction n as [|n IH]; intros name args s; [reflexivity|].
  cbn [cquery]. rewrite (cstep_ext (cquery n w1) (cquery n w2) IH). apply H.
Qed.

(* ------------------------------------------------------------------ the engine of Sem/Native.v is the special case
   "every chain has one member" *)

Definition embed (w : world) : cworld :=
  {| c_fix := fun name k =>
       match w_fix w name k with
       | Some f => Some [CNat f]
       | None => match find_func (w_ir w) name k with Some f => Some [CIr f] | None => None end
       end;
     c_var := w_var w;
     c_dyn := w_dyn w |}.

Lemma cstep_embed call w name args s : cstep call (embed w) name args s = nstep call w name args s.
Proof.
  unfold cstep, nstep. cbn [embed c_dyn].
  destruct (match_rows (w_dyn w name (length args)) args s) as [ds de]. destruct de; [reflexivity|].
  destruct (Resolve.reserved name); [reflexivity|].
  assert (E : ccall_function call (embed w) name args s = call_function call w name args s).
  { unfold ccall_function, call_function. cbn [embed c_fix c_var].
    destruct (w_fix w name (length args)) as [f|]; [apply run_chain_one|].
    destruct (find_func (w_ir w) name (length args)) as [f|]; [apply run_chain_one|]. reflexivity. }
  rewrite E. reflexivity.
Qed.

Theorem cquery_refines_nquery w : forall n name args s, cquery n (embed w) name args s = nquery n w name args s.
Proof.
  induction n as [|n IH]; intros name args s; [reflexivity|].
  cbn [cquery nquery]. rewrite (cstep_ext (cquery n (embed w)) (nquery n w) IH). apply cstep_embed.
Qed.

(* ------------------------------------------------------------------ interchangeable members *)

(* two definitions under a key of arity k that a value-ignoring consumer cannot tell apart, whatever the calls mean *)
Definition def_equiv (k : nat) (d1 d2 : cdef) : Prop :=
  forall call args s, length args = k -> run_def call d1 args s = run_def call d2 args s.

Lemma def_equiv_refl k d : def_equiv k d d.
Proof. intros call args s _. reflexivity. Qed.
Lemma def_equiv_sym k d1 d2 : def_equiv k d1 d2 -> def_equiv k d2 d1.
Proof. intros H call args s L. symmetry. apply H. exact L. Qed.

(* what a Python predicate yields is irrelevant: only the answers count *)
Lemma def_equiv_yield k f1 f2 : (forall args s, drop (f1 args s) = drop (f2 args s)) -> def_equiv k (CNat f1) (CNat f2).
Proof. intros H call args s _. apply H. Qed.

Lemma def_equiv_rows_vals k rows vals1 vals2 : def_equiv k (CNat (native_rows rows vals1)) (CNat (native_rows rows vals2)).
Proof. apply def_equiv_yield. intros args s. rewrite !drop_native_rows. reflexivity. Qed.

(* a Python predicate over ground rows, whatever it yields = the generator function compiled from the facts *)
Lemma def_equiv_facts name k rows vals f cnt cnt' :
  Forall (fun row => ground_row row = true /\ length row = k) rows ->
  compile_clauses (map (fact_clause name) rows) cnt = Some (fn_body f, cnt') ->
  def_equiv k (CNat (native_rows (map row_of rows) vals)) (CIr f).
Proof.
  intros F HC call args s L. cbn [run_def]. subst k.
  apply (native_equals_compiled_facts call name rows vals cnt (fn_body f) cnt' args s HC F).
Qed.

(* ... = the same rows stored as dynamic facts would answer (the loop is the same) *)

Definition chain_equiv (k : nat) (o1 o2 : option chain) : Prop :=
  match o1, o2 with
  | Some l1, Some l2 => Forall2 (def_equiv k) l1 l2
  | None, None => True
  | _, _ => False
  end.

Lemma chain_equiv_refl k o : chain_equiv k o o.
Proof.
  destruct o as [l|]; [|exact I]. cbn [chain_equiv]. induction l as [|d r IH]; constructor; [apply def_equiv_refl|exact IH].
Qed.

Lemma run_chain_equiv call k l1 l2 args s : Forall2 (def_equiv k) l1 l2 -> length args = k ->
  run_chain call l1 args s = run_chain call l2 args s.
Proof.
  intros F L. induction F as [|d1 d2 r1 r2 Hd _ IH]; [reflexivity|].
  cbn [run_chain]. rewrite (Hd call args s L), IH. reflexivity.
Qed.

Record members_agree (w1 w2 : cworld) : Prop := {
  ma_fix : forall name k, chain_equiv k (c_fix w1 name k) (c_fix w2 name k);
  ma_var : forall name, ofun_eq (c_var w1 name) (c_var w2 name);
  ma_dyn : forall name k, c_dyn w1 name k = c_dyn w2 name k
}.

Lemma members_agree_equiv w1 w2 : members_agree w1 w2 -> cworld_equiv w1 w2.
Proof.
  intros [Hf Hv Hd] call name args s. unfold cstep. rewrite Hd.
  destruct (match_rows (c_dyn w2 name (length args)) args s) as [ds de]. destruct de; [reflexivity|].
  destruct (Resolve.reserved name); [reflexivity|].
  assert (E : ccall_function call w1 name args s = ccall_function call w2 name args s).
  { unfold ccall_function. specialize (Hf name (length args)). specialize (Hv name).
    destruct (c_fix w1 name (length args)) as [l1|], (c_fix w2 name (length args)) as [l2|]; cbn [chain_equiv] in Hf; try contradiction.
    - apply (run_chain_equiv call (length args) l1 l2 args s Hf eq_refl).
    - destruct (c_var w1 name) as [g1|], (c_var w2 name) as [g2|]; cbn [ofun_eq] in Hv; try contradiction.
      + rewrite Hv. reflexivity.
      + reflexivity. }
  rewrite E. reflexivity.
Qed.

(* engines whose chains agree member by member answer every query alike, at every depth, in any context *)
Theorem chain_members_interchangeable w1 w2 : members_agree w1 w2 ->
  forall n name args s, cquery n w1 name args s = cquery n w2 name args s.
Proof. intros H. apply cworld_equiv_cquery. apply members_agree_equiv. exact H. Qed.

(* ------------------------------------------------------------------ building the engine: the operations *)

Inductive op :=
| OReg (name : str) (k : nat) (f : nfun)          (* register_function(name, f) / (name, f, arity=k) *)
| ORegVar (name : str) (f : nfun)                 (* register_function(name, f, arity=-1) *)
| OLoad (ir : ir_program) (overwrite : bool)      (* load_script_from_string(text of ir, overwrite=..) *)
| OAssert (name : str) (row : frow).              (* assert_fact(name, row) *)

Definition set_fix (t : str -> nat -> option chain) (name : str) (k : nat) (v : chain) : str -> nat -> option chain :=
  fun n0 k0 => if key_eq (n0, k0) (name, k) then Some v else t n0 k0.

(* for k, v in new_context.items(): if eval_context.get(k) != v: replace / chain after the old value *)
Definition load_fix (t : str -> nat -> option chain) (ir : ir_program) (ow : bool) : str -> nat -> option chain :=
  fun n0 k0 =>
    match find_func ir n0 k0 with
    | Some f => if ow then Some [CIr f] else Some (match t n0 k0 with Some old => old ++ [CIr f] | None => [CIr f] end)
    | None => t n0 k0
    end.

Definition apply_op (w : cworld) (o : op) : cworld :=
  match o with
  | OReg name k f => {| c_fix := set_fix (c_fix w) name k [CNat f]; c_var := c_var w; c_dyn := c_dyn w |}
  | ORegVar name f => {| c_fix := c_fix w; c_var := fun n0 => if str_eqb n0 name then Some f else c_var w n0; c_dyn := c_dyn w |}
  | OLoad ir ow => {| c_fix := load_fix (c_fix w) ir ow; c_var := c_var w; c_dyn := c_dyn w |}
  | OAssert name row =>
      {| c_fix := c_fix w; c_var := c_var w;
         c_dyn := fun n0 k0 => if key_eq (n0, k0) (name, length (r_vals row)) then c_dyn w n0 k0 ++ [row] else c_dyn w n0 k0 |}
  end.

Definition cempty : cworld := {| c_fix := fun _ _ => None; c_var := fun _ => None; c_dyn := fun _ _ => [] |}.

Definition build (w : cworld) (ops : list op) : cworld := fold_left apply_op ops w.

(* two operations that do the same to the engine, up to interchangeable members *)
Inductive op_twin : op -> op -> Prop :=
| twin_same o : op_twin o o
| twin_yield name k f1 f2 : (forall args s, drop (f1 args s) = drop (f2 args s)) -> op_twin (OReg name k f1) (OReg name k f2)
| twin_yield_var name f1 f2 : (forall args s, drop (f1 args s) = drop (f2 args s)) -> op_twin (ORegVar name f1) (ORegVar name f2)
  (* register_function(name, python predicate over the rows)  ~  load_script(name(row_1). .. name(row_n)., overwrite=True) *)
| twin_facts name k rows vals f cnt cnt' :
    rows <> [] ->
    Forall (fun row => ground_row row = true /\ length row = k) rows ->
    compile_clauses (map (fact_clause name) rows) cnt = Some (fn_body f, cnt') ->
    fn_name f = name -> fn_arity f = k ->
    op_twin (OReg name k (native_rows (map row_of rows) vals)) (OLoad [f] true)
| twin_facts_rev name k rows vals f cnt cnt' :
    rows <> [] ->
    Forall (fun row => ground_row row = true /\ length row = k) rows ->
    compile_clauses (map (fact_clause name) rows) cnt = Some (fn_body f, cnt') ->
    fn_name f = name -> fn_arity f = k ->
    op_twin (OLoad [f] true) (OReg name k (native_rows (map row_of rows) vals)).

Lemma key_eq_refl a : key_eq a a = true.
Proof. destruct a as [x n]. unfold key_eq. cbn [fst snd]. rewrite str_eqb_refl, Nat.eqb_refl. reflexivity. Qed.

Lemma find_func_one f n0 k0 :
  find_func [f] n0 k0 = if key_eq (n0, k0) (fn_name f, fn_arity f) then Some f else None.
Proof.
  cbn [find_func]. unfold key_eq. cbn [fst snd]. rewrite (str_eqb_sym (fn_name f) n0), (Nat.eqb_sym (fn_arity f) k0).
  destruct (str_eqb n0 (fn_name f) && Nat.eqb k0 (fn_arity f)); reflexivity.
Qed.

Lemma chain_equiv_app k o1 o2 d1 d2 : chain_equiv k o1 o2 -> def_equiv k d1 d2 ->
  chain_equiv k (Some (match o1 with Some old => old ++ [d1] | None => [d1] end))
                (Some (match o2 with Some old => old ++ [d2] | None => [d2] end)).
Proof.
  intros H Hd. destruct o1 as [l1|], o2 as [l2|]; cbn [chain_equiv] in *; try contradiction.
  - apply Forall2_app; [exact H|]. constructor; [exact Hd|constructor].
  - constructor; [exact Hd|constructor].
Qed.

Lemma apply_op_twin w1 w2 o1 o2 : members_agree w1 w2 -> op_twin o1 o2 -> members_agree (apply_op w1 o1) (apply_op w2 o2).
Proof.
  intros [Hf Hv Hd] T. destruct T as [o|name k f1 f2 H|name f1 f2 H|name k rows vals f cnt cnt' NE F HC Hn Hk|name k rows vals f cnt cnt' NE F HC Hn Hk].
  - destruct o as [name k f|name f|ir ow|name row]; (split; [intros n0 k0|intros n0|intros n0 k0]); cbn [apply_op c_fix c_var c_dyn];
      try apply Hf; try apply Hv; try apply Hd.
    + unfold set_fix. destruct (key_eq (n0, k0) (name, k)); [apply chain_equiv_refl|apply Hf].
    + destruct (str_eqb n0 name); [apply ofun_eq_refl|apply Hv].
    + unfold load_fix. destruct (find_func ir n0 k0) as [f|]; [|apply Hf]. destruct ow; [apply chain_equiv_refl|].
      apply chain_equiv_app; [apply Hf|apply def_equiv_refl].
    + rewrite Hd. reflexivity.
  - split; cbn [apply_op c_fix c_var c_dyn]; [intros n0 k0|intros n0|intros n0 k0]; try apply Hv; try apply Hd.
    unfold set_fix. destruct (key_eq (n0, k0) (name, k)) eqn:K; [|apply Hf].
    cbn [chain_equiv]. constructor; [|constructor]. apply def_equiv_yield. exact H.
  - split; cbn [apply_op c_fix c_var c_dyn]; [intros n0 k0|intros n0|intros n0 k0]; try apply Hf; try apply Hd.
    destruct (str_eqb n0 name); [cbn [ofun_eq]; exact H|apply Hv].
  - split; cbn [apply_op c_fix c_var c_dyn]; [intros n0 k0|intros n0|intros n0 k0]; try apply Hv; try apply Hd.
    unfold set_fix, load_fix. rewrite find_func_one, Hn, Hk.
    destruct (key_eq (n0, k0) (name, k)) eqn:K; [|apply Hf].
    apply key_eq_true in K. injection K as -> ->. cbn [chain_equiv]. constructor; [|constructor].
    eapply def_equiv_facts; eassumption.
  - split; cbn [apply_op c_fix c_var c_dyn]; [intros n0 k0|intros n0|intros n0 k0]; try apply Hv; try apply Hd.
    unfold set_fix, load_fix. rewrite find_func_one, Hn, Hk.
    destruct (key_eq (n0, k0) (name, k)) eqn:K; [|apply Hf].
    apply key_eq_true in K. injection K as -> ->. cbn [chain_equiv]. constructor; [|constructor].
    apply def_equiv_sym. eapply def_equiv_facts; eassumption.
Qed.

Lemma build_twin ops1 ops2 : Forall2 op_twin ops1 ops2 -> forall w1 w2, members_agree w1 w2 ->
  members_agree (build w1 ops1) (build w2 ops2).
Proof.
  intros F. induction F as [|o1 o2 r1 r2 T _ IH]; intros w1 w2 H; [exact H|].
  cbn [build fold_left]. apply IH. apply apply_op_twin; assumption.
Qed.

Lemma members_agree_refl w : members_agree w w.
Proof. split; intros; [apply chain_equiv_refl|apply ofun_eq_refl|reflexivity]. Qed.

(* engines built by the same sequence of register_function / load_script (overwrite or not) / assert_fact, where any of the
   register_function(python predicate over ground rows, yielding anything) is replaced by load_script(its facts,
   overwrite=True) - or the other way round - answer every query alike, at every depth *)
Theorem mixed_sources_interchangeable ops1 ops2 : Forall2 op_twin ops1 ops2 ->
  forall n name args s, cquery n (build cempty ops1) name args s = cquery n (build cempty ops2) name args s.
Proof.
  intros F. apply chain_members_interchangeable. apply build_twin; [exact F|apply members_agree_refl].
Qed.

(* what a chain is after  register_function(p, f); load_script(script defining p/k as g, overwrite=False):  [f; g],
   whose answers are f's followed by g's (run_chain_two), whatever f yields *)
Lemma build_reg_then_load w name k f g ir :
  find_func ir name k = Some g ->
  c_fix (build w [OReg name k f; OLoad ir false]) name k = Some [CNat f; CIr g].
Proof.
  intros H. cbn [build fold_left apply_op c_fix]. unfold load_fix, set_fix. rewrite H, key_eq_refl. reflexivity.
Qed.

Lemma build_load_then_reg w name k f ir ow :
  c_fix (build w [OLoad ir ow; OReg name k f]) name k = Some [CNat f].
Proof. cbn [build fold_left apply_op c_fix]. unfold set_fix. rewrite key_eq_refl. reflexivity. Qed.

Lemma build_reg_then_overwrite w name k f g ir :
  find_func ir name k = Some g ->
  c_fix (build w [OReg name k f; OLoad ir true]) name k = Some [CIr g].
Proof. intros H. cbn [build fold_left apply_op c_fix]. unfold load_fix. rewrite H. reflexivity. Qed.

(* ------------------------------------------------------------------ chains that agree as wholes *)

Definition chain_sim (k : nat) (o1 o2 : option chain) : Prop :=
  match o1, o2 with
  | Some l1, Some l2 => forall call args s, length args = k -> run_chain call l1 args s = run_chain call l2 args s
  | None, None => True
  | _, _ => False
  end.

Lemma chain_equiv_sim k o1 o2 : chain_equiv k o1 o2 -> chain_sim k o1 o2.
Proof.
  destruct o1 as [l1|], o2 as [l2|]; cbn [chain_equiv chain_sim]; try tauto.
  intros F call args s L. apply (run_chain_equiv call k l1 l2 args s F L).
Qed.

Record chains_agree (w1 w2 : cworld) : Prop := {
  ca_fix : forall name k, chain_sim k (c_fix w1 name k) (c_fix w2 name k);
  ca_var : forall name, ofun_eq (c_var w1 name) (c_var w2 name);
  ca_dyn : forall name k, c_dyn w1 name k = c_dyn w2 name k
}.

Lemma chains_agree_equiv w1 w2 : chains_agree w1 w2 -> cworld_equiv w1 w2.
Proof.
  intros [Hf Hv Hd] call name args s. unfold cstep. rewrite Hd.
  destruct (match_rows (c_dyn w2 name (length args)) args s) as [ds de]. destruct de; [reflexivity|].
  destruct (Resolve.reserved name); [reflexivity|].
  assert (E : ccall_function call w1 name args s = ccall_function call w2 name args s).
  { unfold ccall_function. specialize (Hf name (length args)). specialize (Hv name).
    destruct (c_fix w1 name (length args)) as [l1|], (c_fix w2 name (length args)) as [l2|]; cbn [chain_sim] in Hf; try contradiction.
    - apply Hf. reflexivity.
    - destruct (c_var w1 name) as [g1|], (c_var w2 name) as [g2|]; cbn [ofun_eq] in Hv; try contradiction.
      + rewrite Hv. reflexivity.
      + reflexivity. }
  rewrite E. reflexivity.
Qed.

Theorem chains_interchangeable w1 w2 : chains_agree w1 w2 ->
  forall n name args s, cquery n w1 name args s = cquery n w2 name args s.
Proof. intros H. apply cworld_equiv_cquery. apply chains_agree_equiv. exact H. Qed.

(* ------------------------------------------------------------------ a chain against ONE program

   register_function(p, python predicate over the rows); load_script(script with clauses cs2 of p/k, overwrite=False)
   answers like the single script   p(row_1). .. p(row_n). cs2   - the Python predicate's rows are the FIRST clauses of the
   predicate, whatever it yields.  (A compiled member that cuts does not stop the chain, a cut in one script does stop the
   later clauses: so this needs the first member to be cut-free, which rows are.) *)

Definition fin_err (f : fin) : bool := match f with FErr => true | _ => false end.

Lemma run_def_clauses call cs cnt cnt' f args s :
  compile_clauses cs cnt = Some (fn_body f, cnt') -> Forall good_clause cs ->
  run_def call (CIr f) args s =
  (map snd (fst (clausesA call cs (bind_args 0 args, s))), fin_err (snd (clausesA call cs (bind_args 0 args, s)))).
Proof.
  intros HC G. cbn [run_def]. unfold run_function.
  destruct (clauses_ok call cs cnt (fn_body f) cnt' (bind_args 0 args, s) flags0 HC G eq_refl) as [f' [E _]].
  rewrite E. destruct (snd (clausesA call cs (bind_args 0 args, s))); reflexivity.
Qed.

Lemma clausesA_facts_app call name rows cs2 : forall args s,
  Forall (fun row => ground_row row = true /\ length row = length args) rows ->
  let cf := (bind_args 0 args, s) in
  clausesA call (map (fact_clause name) rows ++ cs2) cf =
  (let '(ys, f) := clausesA call (map (fact_clause name) rows) cf in
   match f with
   | FNorm => let '(zs, g) := clausesA call cs2 cf in (ys ++ zs, g)
   | _ => (ys, f)
   end).
Proof.
  induction rows as [|row rest IH]; intros args s F cf.
  - cbn [map app clausesA]. destruct (clausesA call cs2 cf) as [zs g]. reflexivity.
  - inversion F as [|? ? [G L] Fr]; subst. cbn [map app clausesA].
    unfold cf. rewrite (fact_enter name row (bind_args 0 args, s) G). fold cf.
    destruct (clause_res call (fact_clause name row) cf) as [ys f]. destruct f; try reflexivity.
    pose proof (IH args s Fr) as E. cbv zeta in E. fold cf in E. rewrite E.
    destruct (clausesA call (map (fact_clause name) rest) cf) as [ys' f']. destruct f'; try reflexivity.
    destruct (clausesA call cs2 cf) as [zs g]. rewrite app_assoc. reflexivity.
Qed.

Theorem python_then_script_is_one_definition call name rows vals cs2 f2 f12 cnt2 cnt2' cnt12 cnt12' args s :
  Forall (fun row => ground_row row = true /\ length row = length args) rows ->
  Forall good_clause cs2 ->
  compile_clauses cs2 cnt2 = Some (fn_body f2, cnt2') ->
  compile_clauses (map (fact_clause name) rows ++ cs2) cnt12 = Some (fn_body f12, cnt12') ->
  run_chain call [CNat (native_rows (map row_of rows) vals); CIr f2] args s = run_def call (CIr f12) args s.
Proof.
  intros F G2 H2 H12.
  assert (G12 : Forall good_clause (map (fact_clause name) rows ++ cs2)).
  { apply Forall_app. split; [|exact G2]. apply Forall_forall. intros c Hc. apply in_map_iff in Hc as [row [<- _]]. apply fact_good. }
  rewrite run_chain_two, (run_def_clauses call _ _ _ _ args s H12 G12), (run_def_clauses call _ _ _ _ args s H2 G2).
  cbn [run_def]. rewrite drop_native_rows.
  pose proof (clausesA_facts_app call name rows cs2 args s F) as E. cbv zeta in E. rewrite E.
  pose proof (fact_clauses_rows call name rows args s F) as E1. cbv zeta in E1. rewrite E1.
  destruct (match_rows (map row_of rows) args s) as [xs e]. cbn [fst snd]. destruct e.
  - cbn [fst snd fin_err]. rewrite map_map. cbn [snd]. rewrite map_id. reflexivity.
  - destruct (clausesA call cs2 (bind_args 0 args, s)) as [zs g]. cbn [fst snd].
    rewrite map_app, map_map. cbn [snd]. rewrite map_id. reflexivity.
Qed.

(* at the level of engines: w has [python predicate over the rows; function of the later script], w' the function compiled
   from the single definition; everything else is the same: every query is answered alike *)
Record chained_vs_single (w w' : cworld) (name : str) (k : nat) (rows : list (list sterm)) (vals : list bool) (cs2 : list clause) : Prop := {
  cs_rows : Forall (fun row => ground_row row = true /\ length row = k) rows;
  cs_good : Forall good_clause cs2;
  cs_chain : exists f2 cnt2 cnt2', compile_clauses cs2 cnt2 = Some (fn_body f2, cnt2') /\
               c_fix w name k = Some [CNat (native_rows (map row_of rows) vals); CIr f2];
  cs_single : exists f12 cnt12 cnt12', compile_clauses (map (fact_clause name) rows ++ cs2) cnt12 = Some (fn_body f12, cnt12') /\
               c_fix w' name k = Some [CIr f12];
  cs_other : forall n0 k0, key_eq (n0, k0) (name, k) = false -> c_fix w' n0 k0 = c_fix w n0 k0;
  cs_var : forall n0, c_var w' n0 = c_var w n0;
  cs_dyn : forall n0 k0, c_dyn w' n0 k0 = c_dyn w n0 k0
}.

Theorem chained_python_predicate_is_first_clauses w w' name k rows vals cs2 :
  chained_vs_single w w' name k rows vals cs2 ->
  forall n qname args s, cquery n w qname args s = cquery n w' qname args s.
Proof.
  intros [Hrows Hgood [f2 [cnt2 [cnt2' [H2 Hw]]]] [f12 [cnt12 [cnt12' [H12 Hw']]]] Hother Hvar Hdyn].
  apply chains_interchangeable. split.
  - intros n0 k0. destruct (key_eq (n0, k0) (name, k)) eqn:K.
    + apply key_eq_true in K. injection K as -> ->. rewrite Hw, Hw'. cbn [chain_sim]. intros call args s L.
      rewrite (run_chain_one call (CIr f12)). subst k.
      eapply python_then_script_is_one_definition; eassumption.
    + rewrite (Hother _ _ K). apply chain_equiv_sim. apply chain_equiv_refl.
  - intros n0. rewrite Hvar. apply ofun_eq_refl.
  - intros n0 k0. symmetry. apply Hdyn.
Qed.

(* ------------------------------------------------------------------ the same for SOURCE scripts and the model compiler *)

Lemma group_facts name k rows : Forall (fun row : list sterm => length row = k) rows -> forall acc,
  fold_left (fun g c => group_insert c g) (map (fact_clause name) rows) [((name, k), acc)] = [((name, k), acc ++ map (fact_clause name) rows)].
Proof.
  induction rows as [|row rest IH]; intros F acc; [cbn [map fold_left]; rewrite app_nil_r; reflexivity|].
  inversion F as [|? ? L Fr]; subst. cbn [map fold_left group_insert].
  unfold clause_key, key_eqb. cbn [fact_clause c_name c_args fst snd]. rewrite str_eqb_refl, Nat.eqb_refl. cbn [andb].
  rewrite (IH Fr). rewrite <- app_assoc. reflexivity.
Qed.

(* the script  name(row_1). .. name(row_n).  (n >= 1, rows of length k) compiles to ONE function, under the key name_k *)
Lemma compile_facts_program name k rows : rows <> [] -> Forall (fun row : list sterm => length row = k) rows ->
  exists f cnt', compile_program (map (fact_clause name) rows) = Some [f] /\ fn_name f = name /\ fn_arity f = k /\
                 compile_clauses (map (fact_clause name) rows) 0 = Some (fn_body f, cnt').
Proof.
  intros NE F. destruct rows as [|row rest]; [contradiction|]. inversion F as [|? ? L Fr]; subst.
  unfold compile_program, group_program. cbn [map fold_left group_insert].
  change (clause_key (fact_clause name row)) with (name, length row).
  match goal with |- context [compile_groups ?g 0] =>
    replace g with [((name, length row), [fact_clause name row] ++ map (fact_clause name) rest)]
      by (symmetry; apply (group_facts name (length row) rest Fr [fact_clause name row])) end.
  change ([fact_clause name row] ++ map (fact_clause name) rest) with (map (fact_clause name) (row :: rest)).
  destruct (compile_facts name (row :: rest) 0) as [code E]. cbn [compile_groups]. rewrite E. cbn [fst snd].
  eexists. exists 0. split; [reflexivity|]. repeat split. exact E.
Qed.

Inductive sop :=
| SReg (name : str) (k : nat) (rows : list (list sterm)) (vals : list bool)   (* register_function(name, python predicate over the rows) *)
| SRegAny (name : str) (k : nat) (f : nfun)                                    (* any other Python predicate *)
| SRegVar (name : str) (f : nfun)
| SLoad (p : program) (overwrite : bool)                                       (* compile p, load_script_from_string *)
| SAssert (name : str) (row : frow).

Definition sop_op (o : sop) : option op :=
  match o with
  | SReg name k rows vals => Some (OReg name k (native_rows (map row_of rows) vals))
  | SRegAny name k f => Some (OReg name k f)
  | SRegVar name f => Some (ORegVar name f)
  | SLoad p ow => match compile_program p with Some ir => Some (OLoad ir ow) | None => None end
  | SAssert name row => Some (OAssert name row)
  end.

Fixpoint sops_ops (l : list sop) : option (list op) :=
  match l with
  | [] => Some []
  | o :: r => match sop_op o, sops_ops r with Some x, Some xs => Some (x :: xs) | _, _ => None end
  end.

Inductive sop_twin : sop -> sop -> Prop :=
| stwin_same o : sop_twin o o
| stwin_vals name k rows vals1 vals2 : sop_twin (SReg name k rows vals1) (SReg name k rows vals2)
| stwin_facts name k rows vals : rows <> [] -> Forall (fun row => ground_row row = true /\ length row = k) rows ->
    sop_twin (SReg name k rows vals) (SLoad (map (fact_clause name) rows) true)
| stwin_facts_rev name k rows vals : rows <> [] -> Forall (fun row => ground_row row = true /\ length row = k) rows ->
    sop_twin (SLoad (map (fact_clause name) rows) true) (SReg name k rows vals).

Lemma Forall_len k (rows : list (list sterm)) : Forall (fun row => ground_row row = true /\ length row = k) rows ->
  Forall (fun row : list sterm => length row = k) rows.
Proof. intros F. eapply Forall_impl; [|exact F]. intros a [_ H]. exact H. Qed.

Lemma sop_twin_op o1 o2 x1 x2 : sop_twin o1 o2 -> sop_op o1 = Some x1 -> sop_op o2 = Some x2 -> op_twin x1 x2.
Proof.
  intros T E1 E2. destruct T as [o|name k rows vals1 vals2|name k rows vals NE F|name k rows vals NE F].
  - rewrite E1 in E2. injection E2 as <-. apply twin_same.
  - cbn [sop_op] in E1, E2. injection E1 as <-. injection E2 as <-. apply twin_yield. intros args s. rewrite !drop_native_rows. reflexivity.
  - cbn [sop_op] in E1, E2. injection E1 as <-.
    destruct (compile_facts_program name k rows NE (Forall_len k rows F)) as [f [cnt' [EC [Hn [Hk HB]]]]].
    rewrite EC in E2. injection E2 as <-. eapply twin_facts; eassumption.
  - cbn [sop_op] in E1, E2. injection E2 as <-.
    destruct (compile_facts_program name k rows NE (Forall_len k rows F)) as [f [cnt' [EC [Hn [Hk HB]]]]].
    rewrite EC in E1. injection E1 as <-. eapply twin_facts_rev; eassumption.
Qed.

Lemma sops_twin_ops l1 l2 : Forall2 sop_twin l1 l2 -> forall o1 o2, sops_ops l1 = Some o1 -> sops_ops l2 = Some o2 -> Forall2 op_twin o1 o2.
Proof.
  intros F. induction F as [|a b r1 r2 T _ IH]; intros o1 o2 E1 E2.
  - cbn [sops_ops] in E1, E2. injection E1 as <-. injection E2 as <-. constructor.
  - cbn [sops_ops] in E1, E2.
    destruct (sop_op a) as [x1|] eqn:A1; [|discriminate]. destruct (sops_ops r1) as [xs1|]; [|discriminate].
    destruct (sop_op b) as [x2|] eqn:A2; [|discriminate]. destruct (sops_ops r2) as [xs2|]; [|discriminate].
    injection E1 as <-. injection E2 as <-. constructor; [eapply sop_twin_op; eassumption|apply IH; reflexivity].
Qed.

(* what the check does: two sequences of source-level operations, each script compiled on its own by the model compiler *)
Theorem source_mixed_sources_interchangeable l1 l2 o1 o2 : Forall2 sop_twin l1 l2 ->
  sops_ops l1 = Some o1 -> sops_ops l2 = Some o2 ->
  forall n name args s, cquery n (build cempty o1) name args s = cquery n (build cempty o2) name args s.
Proof. intros F E1 E2. apply mixed_sources_interchangeable. eapply sops_twin_ops; eassumption. Qed.
