(* C20: the engine with chains of definitions (Sem/NativeChain.v) with the exception OBJECT carried along, as Sem/NativeExc.v does
   for the engine with one definition per key.  Two theorems:
     erase_cqueryE          forgetting which exception it was gives exactly NativeChain.cquery;
     chain_exception_provenance   whatever property Q the engine's own exceptions and those raised by the Python predicates that
                            are members of chains (or variadic) have, the exception that ends any query has it: chain_functions /
                            itertools.chain create, wrap or replace nothing. *)
From Coq Require Import String.
From Coq Require Import List Arith Bool ZArith NArith.
Import ListNotations.
From YP Require Import Base.Str Term.Term Term.Fast Unify.Unify Unify.Fast Lang.Ast Comp.IR Comp.CompileBody
  Sem.Res Sem.IRSem Sem.ExecMono Sem.Machine Sem.Native Sem.NativeThms Sem.NativeExc Sem.NativeChain.
From YP Require Engine.Resolve.
Local Open Scope string_scope.
Local Open Scope list_scope.

Inductive cdefE :=
| ENat (f : nfunE)
| EIr (f : func).

Record cworldE := {
  ce_fix : str -> nat -> option (list cdefE);
  ce_var : str -> option nfunE;
  ce_dyn : str -> nat -> list frow
}.

Definition run_defE (call : callE) (d : cdefE) (args : list term) (s : st) : eresT :=
  match d with
  | ENat f => dropE (f args s)
  | EIr f =>
      let '(ys, k) := run_functionE (iterE call) assign (fn_body f) (bind_args 0 args, s) in
      (map snd ys, match k with EErr x => Some x | _ => None end)
  end.

Fixpoint run_chainE (call : callE) (ds : list cdefE) (args : list term) (s : st) : eresT :=
  match ds with
  | [] => ([], None)
  | d :: r =>
      let '(xs, e) := run_defE call d args s in
      match e with
      | Some x => (xs, Some x)
      | None => let '(ys, e') := run_chainE call r args s in (xs ++ ys, e')
      end
  end.

Definition ccall_functionE (call : callE) (w : cworldE) (name : str) (args : list term) (s : st) : eresT :=
  match ce_fix w name (length args) with
  | Some ds => run_chainE call ds args s
  | None =>
      if str_eqb name (s_ "call") then
        match ce_var w name with
        | Some f => dropE (f args s)
        | None => match builtinE call name args s with Some r => r | None => ([], None) end
        end
      else
        match builtinE call name args s with
        | Some r => r
        | None => match ce_var w name with Some f => dropE (f args s) | None => ([], None) end
        end
  end.

Definition cstepE (call : callE) (w : cworldE) (name : str) (args : list term) (s : st) : eresT :=
  let '(ds, de) := match_rowsE (ce_dyn w name (length args)) args s in
  match de with
  | Some x => (ds, Some x)
  | None => if Resolve.reserved name then (ds, None)
            else let '(fs, fe) := ccall_functionE call w name args s in (ds ++ fs, fe)
  end.

Fixpoint cqueryE (n : nat) (w : cworldE) (name : str) (args : list term) (s : st) {struct n} : eresT :=
  match n with
  | O => ([], Some XDepth)
  | S n' => cstepE (cqueryE n' w) w name args s
  end.

(* ------------------------------------------------------------------ erasure *)

Definition erase_def (d : cdefE) : cdef := match d with ENat f => CNat (erf f) | EIr f => CIr f end.
Definition erase_cworld (w : cworldE) : cworld :=
  {| c_fix := fun n k => option_map (map erase_def) (ce_fix w n k);
     c_var := fun n => option_map erf (ce_var w n); c_dyn := ce_dyn w |}.

Section EraseCallC.
Variable cE : callE.
Variable c : callT.
Hypothesis Hc : forall name args s, er (cE name args s) = c name args s.

Lemma run_defE_erase d args s : er (run_defE cE d args s) = run_def c (erase_def d) args s.
Proof.
  destruct d as [f|f]; cbn [run_defE erase_def run_def].
  - unfold erf, dropE, drop, er. reflexivity.
  - rewrite (@run_function_ext cfg assign (iter c) (Jb (iterE cE)) (fun it cf => eq_sym (iterE_erase cE c Hc it cf))).
    rewrite <- run_functionE_erase. destruct (run_functionE (iterE cE) assign (fn_body f) (bind_args 0 args, s)) as [ys k].
    destruct k; reflexivity.
Qed.

Lemma run_chainE_erase ds args s : er (run_chainE cE ds args s) = run_chain c (map erase_def ds) args s.
Proof.
  induction ds as [|d r IH]; [reflexivity|]. cbn [run_chainE map run_chain]. rewrite <- run_defE_erase.
  destruct (run_defE cE d args s) as [xs e]. unfold er at 2. cbn [fst snd]. destruct e as [x|]; cbn [eb]; [reflexivity|].
  rewrite <- IH. destruct (run_chainE cE r args s) as [ys e']. reflexivity.
Qed.

Lemma ccall_functionE_erase w name args s :
  er (ccall_functionE cE w name args s) = ccall_function c (erase_cworld w) name args s.
Proof.
  unfold ccall_functionE, ccall_function. cbn [erase_cworld c_fix c_var].
  destruct (ce_fix w name (length args)) as [ds|]; cbn [option_map]; [apply run_chainE_erase|].
  rewrite <- (builtinE_erase cE c Hc).
  destruct (str_eqb name (s_ "call")).
  - destruct (ce_var w name) as [f|]; cbn [option_map]; [reflexivity|].
    destruct (builtinE cE name args s); reflexivity.
  - destruct (builtinE cE name args s); cbn [option_map]; [reflexivity|].
    destruct (ce_var w name) as [f|]; reflexivity.
Qed.

Lemma cstepE_erase w name args s : er (cstepE cE w name args s) = cstep c (erase_cworld w) name args s.
Proof.
  unfold cstepE, cstep. cbn [erase_cworld c_dyn]. rewrite <- match_rowsE_erase.
  destruct (match_rowsE (ce_dyn w name (length args)) args s) as [ds de]. unfold er at 2. cbn [fst snd].
  destruct de as [x|]; cbn [eb]; [reflexivity|].
  destruct (Resolve.reserved name); [reflexivity|].
  rewrite <- ccall_functionE_erase. destruct (ccall_functionE cE w name args s) as [fs fe]. reflexivity.
Qed.
End EraseCallC.

Theorem erase_cqueryE w : forall n name args s, er (cqueryE n w name args s) = cquery n (erase_cworld w) name args s.
Proof.
  induction n as [|n IH]; intros name args s; [reflexivity|].
  cbn [cqueryE cquery]. apply cstepE_erase. exact IH.
Qed.

(* ------------------------------------------------------------------ provenance *)

Section ProvenanceC.
Variable Q : exn -> Prop.
Hypothesis Qdepth : Q XDepth.
Hypothesis Qunify : Q XUnify.
Hypothesis Qgoal : Q XGoal.
Hypothesis Qcode : Q XCode.
Variable w : cworldE.
Hypothesis Qfix : forall name k ds f args s e, ce_fix w name k = Some ds -> In (ENat f) ds -> snd (f args s) = Some e -> Q e.
Hypothesis Qvar : forall name f args s e, ce_var w name = Some f -> snd (f args s) = Some e -> Q e.

Section OkCallC.
Variable cE : callE.
Hypothesis Hc : forall name args s, okr Q (cE name args s).

Lemma run_defE_ok d args s : (forall f a s0 e, d = ENat f -> snd (f a s0) = Some e -> Q e) -> okr Q (run_defE cE d args s).
Proof.
  intros H. destruct d as [f|f]; cbn [run_defE].
  - intros e E. exact (H f args s e eq_refl E).
  - pose proof (@exec_listE_ok cfg (iterE cE) assign Q (fun it cf e => iterE_ok Q Qunify Qcode cE Hc it cf e) (fn_body f) (bind_args 0 args, s) flags0) as O.
    unfold run_functionE. destruct (exec_listE (iterE cE) assign (fn_body f) (bind_args 0 args, s) flags0) as [[ys k] f1].
    unfold okE in O. cbn [fst snd] in O. intros e E. cbn [snd] in E. destruct k; try discriminate. injection E as <-. exact O.
Qed.

Lemma run_chainE_ok ds args s : (forall f a s0 e, In (ENat f) ds -> snd (f a s0) = Some e -> Q e) -> okr Q (run_chainE cE ds args s).
Proof.
  induction ds as [|d r IH]; intros H; [intros e E; discriminate|]. cbn [run_chainE].
  assert (D : okr Q (run_defE cE d args s)).
  { apply run_defE_ok. intros f a s0 e -> E. apply (H f a s0 e); [left; reflexivity|exact E]. }
  destruct (run_defE cE d args s) as [xs e0]. destruct e0 as [x|].
  - intros e E. cbn in E. injection E as <-. apply D. reflexivity.
  - assert (R : okr Q (run_chainE cE r args s)).
    { apply IH. intros f a s0 e I E. apply (H f a s0 e); [right; exact I|exact E]. }
    destruct (run_chainE cE r args s) as [ys e']. exact R.
Qed.

Lemma ccall_functionE_ok name args s : okr Q (ccall_functionE cE w name args s).
Proof.
  unfold ccall_functionE.
  destruct (ce_fix w name (length args)) as [ds|] eqn:F.
  { apply run_chainE_ok. intros f a s0 e I E. exact (Qfix name (length args) ds f a s0 e F I E). }
  destruct (str_eqb name (s_ "call")).
  - destruct (ce_var w name) as [f|] eqn:V.
    + intros e H. exact (Qvar name f args s e V H).
    + destruct (builtinE cE name args s) as [r|] eqn:B; [exact (builtinE_ok Q Qunify Qgoal cE Hc name args s r B) | intros e H; discriminate].
  - destruct (builtinE cE name args s) as [r|] eqn:B; [exact (builtinE_ok Q Qunify Qgoal cE Hc name args s r B)|].
    destruct (ce_var w name) as [f|] eqn:V; [|intros e H; discriminate].
    intros e H. exact (Qvar name f args s e V H).
Qed.

Lemma cstepE_ok name args s : okr Q (cstepE cE w name args s).
Proof.
  unfold cstepE. pose proof (match_rowsE_ok Q Qunify (ce_dyn w name (length args)) args s) as D.
  destruct (match_rowsE (ce_dyn w name (length args)) args s) as [ds de]. destruct de as [x|].
  - intros e H. cbn in H. injection H as <-. apply D. reflexivity.
  - destruct (Resolve.reserved name); [intros e H; discriminate|].
    pose proof (ccall_functionE_ok name args s) as C. destruct (ccall_functionE cE w name args s) as [fs fe]. exact C.
Qed.
End OkCallC.

Theorem chain_exception_provenance : forall n name args s e, snd (cqueryE n w name args s) = Some e -> Q e.
Proof.
  induction n as [|n IH]; intros name args s e H.
  - injection H as <-. exact Qdepth.
  - cbn [cqueryE] in H. exact (cstepE_ok (cqueryE n w) (fun nm a s0 e0 => IH nm a s0 e0) name args s e H).
Qed.
End ProvenanceC.

(* if the Python predicates raise nothing but the object XPy tag: a query ends normally, by an engine exception, or by that object *)
Corollary chain_exception_unchanged w tag :
  (forall name k ds f args s e, ce_fix w name k = Some ds -> In (ENat f) ds -> snd (f args s) = Some e -> e = XPy tag) ->
  (forall name f args s e, ce_var w name = Some f -> snd (f args s) = Some e -> e = XPy tag) ->
  forall n name args s e, snd (cqueryE n w name args s) = Some e -> engine_exn e \/ e = XPy tag.
Proof.
  intros Hf Hv. apply (chain_exception_provenance (fun e => engine_exn e \/ e = XPy tag)); unfold engine_exn; auto 6.
  - intros name k ds f args s e F I H. right. exact (Hf name k ds f args s e F I H).
  - intros name f args s e F H. right. exact (Hv name f args s e F H).
Qed.

(* ------------------------------------------------------------------ building the engine *)

Inductive opE :=
| EReg (name : str) (k : nat) (f : nfunE)
| ERegVar (name : str) (f : nfunE)
| ELoad (ir : ir_program) (overwrite : bool)
| EAssert (name : str) (row : frow).

Definition apply_opE (w : cworldE) (o : opE) : cworldE :=
  match o with
  | EReg name k f =>
      {| ce_fix := fun n0 k0 => if key_eq (n0, k0) (name, k) then Some [ENat f] else ce_fix w n0 k0; ce_var := ce_var w; ce_dyn := ce_dyn w |}
  | ERegVar name f => {| ce_fix := ce_fix w; ce_var := fun n0 => if str_eqb n0 name then Some f else ce_var w n0; ce_dyn := ce_dyn w |}
  | ELoad ir ow =>
      {| ce_fix := fun n0 k0 =>
           match find_func ir n0 k0 with
           | Some f => if ow then Some [EIr f] else Some (match ce_fix w n0 k0 with Some old => old ++ [EIr f] | None => [EIr f] end)
           | None => ce_fix w n0 k0
           end;
         ce_var := ce_var w; ce_dyn := ce_dyn w |}
  | EAssert name row =>
      {| ce_fix := ce_fix w; ce_var := ce_var w;
         ce_dyn := fun n0 k0 => if key_eq (n0, k0) (name, length (r_vals row)) then ce_dyn w n0 k0 ++ [row] else ce_dyn w n0 k0 |}
  end.

Definition cemptyE : cworldE := {| ce_fix := fun _ _ => None; ce_var := fun _ => None; ce_dyn := fun _ _ => [] |}.
Definition buildE (w : cworldE) (ops : list opE) : cworldE := fold_left apply_opE ops w.

Definition erase_op (o : opE) : op :=
  match o with
  | EReg name k f => OReg name k (erf f)
  | ERegVar name f => ORegVar name (erf f)
  | ELoad ir ow => OLoad ir ow
  | EAssert name row => OAssert name row
  end.

(* the erasure of the built engine is the engine built from the erased operations, pointwise *)
Definition cworld_same (w1 w2 : cworld) : Prop :=
  (forall n k, c_fix w1 n k = c_fix w2 n k) /\ (forall n, c_var w1 n = c_var w2 n) /\ (forall n k, c_dyn w1 n k = c_dyn w2 n k).

Lemma apply_op_same w1 w2 o : cworld_same w1 w2 -> cworld_same (apply_op w1 o) (apply_op w2 o).
Proof.
  intros [Hf [Hv Hd]]. destruct o as [name k f|name f|ir ow|name row]; repeat split; cbn [apply_op c_fix c_var c_dyn]; intros;
    try apply Hf; try apply Hv; try apply Hd.
  - unfold set_fix. rewrite Hf. reflexivity.
  - rewrite Hv. reflexivity.
  - unfold load_fix. rewrite Hf. reflexivity.
  - rewrite Hd. reflexivity.
Qed.

Lemma erase_apply_op w o : cworld_same (erase_cworld (apply_opE w o)) (apply_op (erase_cworld w) (erase_op o)).
Proof.
  destruct o as [name k f|name f|ir ow|name row]; repeat split; cbn [apply_opE apply_op erase_op erase_cworld c_fix c_var c_dyn ce_fix ce_var ce_dyn]; intros n0; try reflexivity.
  - intros k0. unfold set_fix. destruct (key_eq (n0, k0) (name, k)); reflexivity.
  - destruct (str_eqb n0 name); reflexivity.
  - intros k0. unfold load_fix. destruct (find_func ir n0 k0) as [f|]; [|reflexivity]. destruct ow; [reflexivity|].
    destruct (ce_fix w n0 k0) as [old|]; cbn [option_map]; [rewrite map_app|]; reflexivity.
Qed.

Lemma cworld_same_equiv w1 w2 : cworld_same w1 w2 -> cworld_equiv w1 w2.
Proof.
  intros [Hf [Hv Hd]] call name args s. unfold cstep, ccall_function. rewrite Hd, Hf, Hv. reflexivity.
Qed.

Lemma build_same ops : forall a b, cworld_same a b -> cworld_same (build a ops) (build b ops).
Proof.
  induction ops as [|x xs IH]; intros a b Hab; [exact Hab|]. cbn [build fold_left]. apply IH. apply apply_op_same. exact Hab.
Qed.

Lemma cworld_same_trans a b c : cworld_same a b -> cworld_same b c -> cworld_same a c.
Proof.
  intros [Hf [Hv Hd]] [Gf [Gv Gd]]. repeat split; intros; [rewrite Hf; apply Gf|rewrite Hv; apply Gv|rewrite Hd; apply Gd].
Qed.

Lemma erase_build ops : forall w, cworld_same (erase_cworld (buildE w ops)) (build (erase_cworld w) (map erase_op ops)).
Proof.
  induction ops as [|o r IH]; intros w; [repeat split; reflexivity|].
  change (buildE w (o :: r)) with (buildE (apply_opE w o) r).
  change (build (erase_cworld w) (map erase_op (o :: r))) with (build (apply_op (erase_cworld w) (erase_op o)) (map erase_op r)).
  eapply cworld_same_trans; [apply IH|]. apply build_same. apply erase_apply_op.
Qed.

(* the engine with exception objects built by a sequence of operations erases to the chain engine built by the same sequence *)
Theorem erase_built_cqueryE ops n name args s :
  er (cqueryE n (buildE cemptyE ops) name args s) = cquery n (build cempty (map erase_op ops)) name args s.
Proof.
  rewrite erase_cqueryE. apply cworld_equiv_cquery. apply cworld_same_equiv.
  pose proof (erase_build ops cemptyE) as H. exact H.
Qed.
