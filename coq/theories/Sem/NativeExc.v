(* C20, "an exception raised inside the function reaches the consumer of the query unchanged".

   Sem/IRSem.v, Sem/Machine.v and Sem/Native.v record only THAT an enumeration ended by an exception (a bool).  This file
   is the same engine with the exception itself carried along:

       exn = XDepth (RecursionError: call depth exhausted) | XUnify (unification outside the model: fuel, cyclic)
           | XGoal (call/N on a goal that is not callable) | XCode (iterator expression that the compiler never emits)
           | XPy tag (the exception object raised by a registered Python predicate)

   and two theorems:
     erase_nqueryE   forgetting which exception it was gives exactly Sem/Native.nquery (so every theorem about nquery -
                     answers, order, where the enumeration ends - holds of this engine);
     exception_provenance   whatever property Q the engine's own exceptions and the exceptions raised by the registered
                     predicates have, the exception that ends any query has it: nothing in the emitted code, in the builtins
                     or in YP.query creates, wraps or replaces an exception - it is the object that was raised. *)
From Coq Require Import String.
From Coq Require Import List Arith Bool ZArith NArith.
Import ListNotations.
From YP Require Import Base.Str Term.Term Term.Fast Unify.Unify Unify.Fast Lang.Ast Comp.IR Comp.CompileBody
  Sem.Res Sem.IRSem Sem.ExecMono Sem.Machine Sem.Native Sem.NativeThms.
From YP Require Engine.Resolve.
Local Open Scope string_scope.
Local Open Scope list_scope.

Inductive exn := XDepth | XUnify | XGoal | XCode | XPy (tag : nat).

Definition eb (o : option exn) : bool := match o with Some _ => true | None => false end.
Definition er {A} (r : list A * option exn) : list A * bool := (fst r, eb (snd r)).

(* ------------------------------------------------------------------ the emitted code *)

Inductive complE := ENorm | EBrk | ERet | EErr (x : exn).
Definition cer (k : complE) : compl := match k with ENorm => CNorm | EBrk => CBrk | ERet => CRet | EErr _ => CErr end.

Section ExecE.
Variable S : Type.
Variable J : expr -> S -> list S * option exn.
Variable assign : str -> expr -> S -> S.
Definition outE := (list S * complE * flags)%type.
Definition oer (o : outE) : out S := let '(ys, k, f) := o in (ys, cer k, f).

Definition after_loopE (r : outE) : outE :=
  let '(ys, k, f) := r in
  match k with ENorm => (ys, (if doBreak f then EBrk else ENorm), f) | _ => r end.

Section LoopE.
  Variable body : S -> flags -> outE.
  Fixpoint loopE (e : option exn) (xs : list S) (f : flags) : outE :=
    match xs with
    | [] => ([], (match e with Some x => EErr x | None => ENorm end), f)
    | x :: r => let '(ys, k, f1) := body x f in
        match k with
        | ENorm => let '(zs, k2, f2) := loopE e r f1 in (ys ++ zs, k2, f2)
        | EBrk => (ys, ENorm, f1)
        | _ => (ys, k, f1) end
    end.
End LoopE.

Definition end_blockE l (r : outE) : outE :=
  let '(ys, k, f1) := r in
  match k with
  | ENorm | EBrk =>
      let f2 := if lab f1 l then setbrk false f1 else f1 in
      (ys, (if doBreak f2 then EBrk else ENorm), f2)
  | _ => r end.

Fixpoint exec_stmtE (st : stmt) (s : S) (f : flags) {struct st} : outE :=
  let exec_list := fix exec_list (c : list stmt) (s : S) (f : flags) {struct c} : outE :=
      match c with
      | [] => ([], ENorm, f)
      | SAssign x e :: rest => exec_list rest (assign x e s) f
      | st :: rest => let '(ys, k, f1) := exec_stmtE st s f in
          match k with
          | ENorm => let '(zs, k2, f2) := exec_list rest s f1 in (ys ++ zs, k2, f2)
          | _ => (ys, k, f1) end
      end in
  match st with
  | SAssign _ _ => ([], ENorm, f)
  | SYieldFalse | SYieldTrue => ([s], ENorm, f)
  | SReturn => ([], ERet, f)
  | SBreakBlock l => ([], EBrk, setbrk true (setlab l true f))
  | SForeach it body =>
      let '(xs, e) := J it s in after_loopE (loopE (exec_list body) e xs f)
  | SBlock l body => end_blockE l (exec_list body s (setlab l false f))
  end.

Fixpoint exec_listE (c : list stmt) (s : S) (f : flags) {struct c} : outE :=
  match c with
  | [] => ([], ENorm, f)
  | SAssign x e :: rest => exec_listE rest (assign x e s) f
  | st :: rest => let '(ys, k, f1) := exec_stmtE st s f in
      match k with
      | ENorm => let '(zs, k2, f2) := exec_listE rest s f1 in (ys ++ zs, k2, f2)
      | _ => (ys, k, f1) end
  end.

Lemma exec_stmtE_eq st s f : exec_stmtE st s f =
  match st with
  | SAssign _ _ => ([], ENorm, f)
  | SYieldFalse | SYieldTrue => ([s], ENorm, f)
  | SReturn => ([], ERet, f)
  | SBreakBlock l => ([], EBrk, setbrk true (setlab l true f))
  | SForeach it body =>
      let '(xs, e) := J it s in after_loopE (loopE (exec_listE body) e xs f)
  | SBlock l body => end_blockE l (exec_listE body s (setlab l false f))
  end.
Proof. destruct st; reflexivity. Qed.

Lemma exec_listE_step st rest s f :
  exec_listE (st :: rest) s f =
  match st with
  | SAssign x e => exec_listE rest (assign x e s) f
  | _ => let '(ys, k, f1) := exec_stmtE st s f in
         match k with
         | ENorm => let '(zs, k2, f2) := exec_listE rest s f1 in (ys ++ zs, k2, f2)
         | _ => (ys, k, f1) end
  end.
Proof. destruct st; reflexivity. Qed.

Definition run_functionE (code : list stmt) (s : S) : list S * complE :=
  let '(ys, k, _) := exec_listE code s flags0 in (ys, k).

(* ---- erasure *)
Definition Jb (it : expr) (s : S) : list S * bool := er (J it s).

Lemma loopE_erase (bodyE : S -> flags -> outE) (body : S -> flags -> out S) e xs :
  (forall x f, oer (bodyE x f) = body x f) -> forall f, oer (loopE bodyE e xs f) = loop body (eb e) xs f.
Proof.
  intros H. induction xs as [|x r IH]; intros f; cbn [loopE loop].
  - destruct e; reflexivity.
  - rewrite <- H. destruct (bodyE x f) as [[ys k] f1]. cbn [oer cer]. destruct k; cbn [cer]; try reflexivity.
    rewrite <- IH. destruct (loopE bodyE e r f1) as [[zs k2] f2]. reflexivity.
Qed.

Lemma after_loopE_erase o : oer (after_loopE o) = after_loop (oer o).
Proof. destruct o as [[ys k] f]. destruct k; cbn; try reflexivity. destruct (doBreak f); reflexivity. Qed.

Lemma end_blockE_erase l o : oer (end_blockE l o) = end_block l (oer o).
Proof.
  destruct o as [[ys k] f]. destruct k; cbn [end_blockE end_block oer cer]; try reflexivity;
    destruct (lab f l); cbn [doBreak setbrk]; try reflexivity; destruct (doBreak f); reflexivity.
Qed.

Theorem exec_stmtE_erase : forall st s f, oer (exec_stmtE st s f) = exec_stmt Jb assign st s f.
Proof.
  apply (stmt_ind2 (fun st => forall s f, oer (exec_stmtE st s f) = exec_stmt Jb assign st s f)
                   (fun c => forall s f, oer (exec_listE c s f) = exec_list Jb assign c s f)).
  - intros x e s f. rewrite exec_stmtE_eq, exec_stmt_eq. reflexivity.
  - intros it body IH s f. rewrite exec_stmtE_eq, exec_stmt_eq. unfold Jb, er. destruct (J it s) as [xs e]. cbn [fst snd].
    rewrite after_loopE_erase. rewrite (loopE_erase _ _ e xs IH). reflexivity.
  - reflexivity.
  - reflexivity.
  - reflexivity.
  - intros l body IH s f. rewrite exec_stmtE_eq, exec_stmt_eq. rewrite end_blockE_erase, IH. reflexivity.
  - reflexivity.
  - reflexivity.
  - intros st r Hst Hr s f. rewrite exec_listE_step, exec_list_step.
    destruct st; try (rewrite <- Hst; destruct (exec_stmtE _ s f) as [[ys k] f1]; cbn [oer cer]; destruct k; cbn [cer]; try reflexivity;
      rewrite <- Hr; destruct (exec_listE r s f1) as [[zs k2] f2]; reflexivity).
    apply Hr.
Qed.

Theorem exec_listE_erase : forall c s f, oer (exec_listE c s f) = exec_list Jb assign c s f.
Proof.
  induction c as [|st r IH]; intros s f; [reflexivity|].
  rewrite exec_listE_step, exec_list_step.
  destruct st; try (rewrite <- exec_stmtE_erase; destruct (exec_stmtE _ s f) as [[ys k] f1]; cbn [oer cer]; destruct k; cbn [cer]; try reflexivity;
    rewrite <- IH; destruct (exec_listE r s f1) as [[zs k2] f2]; reflexivity).
  apply IH.
Qed.

Lemma run_functionE_erase code s :
  (let '(ys, k) := run_functionE code s in (ys, cer k)) = run_function Jb assign code s.
Proof.
  unfold run_functionE, run_function. rewrite <- exec_listE_erase.
  destruct (exec_listE code s flags0) as [[ys k] f]. reflexivity.
Qed.

(* ---- provenance: an exception that ends a statement list came out of an iterator *)
Variable Q : exn -> Prop.
Hypothesis HJ : forall it s e, snd (J it s) = Some e -> Q e.
Definition okE (o : outE) : Prop := match snd (fst o) with EErr x => Q x | _ => True end.

Lemma loopE_ok (body : S -> flags -> outE) e xs : (forall x f, okE (body x f)) -> (forall x, e = Some x -> Q x) ->
  forall f, okE (loopE body e xs f).
Proof.
  intros Hb He. induction xs as [|x r IH]; intros f; cbn [loopE].
  - unfold okE; cbn. destruct e; [apply He; reflexivity | exact I].
  - specialize (Hb x f). destruct (body x f) as [[ys k] f1]. destruct k; try exact I.
    + specialize (IH f1). destruct (loopE body e r f1) as [[zs k2] f2]. exact IH.
    + exact Hb.
Qed.

Theorem exec_stmtE_ok : forall st s f, okE (exec_stmtE st s f).
Proof.
  apply (stmt_ind2 (fun st => forall s f, okE (exec_stmtE st s f)) (fun c => forall s f, okE (exec_listE c s f))).
  - intros; exact I.
  - intros it body IH s f. rewrite exec_stmtE_eq. pose proof (HJ it s) as H. destruct (J it s) as [xs e]. cbn [snd] in H.
    pose proof (loopE_ok (exec_listE body) e xs IH (fun x E => H x E) f) as L.
    destruct (loopE (exec_listE body) e xs f) as [[ys k] f1]. destruct k; cbn [after_loopE]; try exact I; [destruct (doBreak f1); exact I | exact L].
  - intros; exact I.
  - intros; exact I.
  - intros; exact I.
  - intros l body IH s f. rewrite exec_stmtE_eq. specialize (IH s (setlab l false f)).
    destruct (exec_listE body s (setlab l false f)) as [[ys k] f1].
    destruct k; cbn [end_blockE]; try exact I; try exact IH; destruct (lab f1 l); cbn [doBreak setbrk]; try exact I; destruct (doBreak f1); exact I.
  - intros; exact I.
  - intros; exact I.
  - intros st r Hst Hr s f. rewrite exec_listE_step.
    destruct st; try (specialize (Hst s f); destruct (exec_stmtE _ s f) as [[ys k] f1]; destruct k; try exact I;
      [specialize (Hr s f1); destruct (exec_listE r s f1) as [[zs k2] f2]; exact Hr | exact Hst]).
    apply Hr.
Qed.

Theorem exec_listE_ok : forall c s f, okE (exec_listE c s f).
Proof.
  induction c as [|st r IH]; intros s f; [exact I|]. rewrite exec_listE_step.
  assert (G : okE (let '(ys, k, f1) := exec_stmtE st s f in
                   match k with ENorm => let '(zs, k2, f2) := exec_listE r s f1 in (ys ++ zs, k2, f2) | _ => (ys, k, f1) end)).
  { pose proof (exec_stmtE_ok st s f) as Hst. destruct (exec_stmtE st s f) as [[ys k] f1]. destruct k; try exact I;
      [specialize (IH s f1); destruct (exec_listE r s f1) as [[zs k2] f2]; exact IH | exact Hst]. }
  destruct st; try exact G. apply IH.
Qed.
End ExecE.
Arguments run_functionE {S} J assign code s.
Arguments Jb {S} J it s.
Arguments exec_listE {S} J assign c s f.
Arguments okE {S} Q o.

(* ------------------------------------------------------------------ the engine *)

Definition eresT := (list st * option exn)%type.
Definition callE := str -> list term -> st -> eresT.

Definition unify_stE (s : st) (a b : term) : eresT :=
  match unify_fast ufuel (sto s) a b with
  | UOk s' => ([{| sto := s'; nxt := nxt s |}], None)
  | UFail => ([], None)
  | UOof | UCyc => ([], Some XUnify)
  end.

(* \= : succeeds, binding nothing, iff the terms do not unify *)
Definition neq_stE (s : st) (a b : term) : eresT :=
  match unify_fast ufuel (sto s) a b with
  | UOk _ => ([], None) | UFail => ([s], None) | _ => ([], Some XUnify) end.

Section BuiltinsE.
Variable call : callE.

Definition call_goalE (g : term) (extra : list term) (s : st) : eresT :=
  match den_fast (sto s) g with
  | TAtom a => call a extra s
  | TFun f gargs => call f (gargs ++ extra) s
  | _ => ([], Some XGoal)
  end.

Definition builtinE (name : str) (args : list term) (s : st) : option eresT :=
  if str_eqb name (s_ "=") then
    match args with [a; b] => Some (unify_stE s a b) | _ => None end
  else if str_eqb name (s_ "\=") then
    match args with
    | [a; b] => Some (neq_stE s a b)
    | _ => None end
  else if str_eqb name (s_ "call") then
    match args with g :: extra => Some (call_goalE g extra s) | [] => Some ([], Some XGoal) end
  else if str_eqb name (s_ "once") then
    match args with
    | [g] => Some (match call_goalE g [] s with (x :: _, _) => ([x], None) | ([], e) => ([], e) end)
    | _ => None end
  else if str_eqb name (s_ "findall") then
    match args with
    | [t; g; l] =>
        Some (let '(xs, e) := call_goalE g [] s in
              match e with
              | Some x => ([], Some x)
              | None => let '(es, b) := collect 0 (nxt s) t xs in
                        unify_stE {| sto := sto s; nxt := b |} l (mk_list es)
              end)
    | _ => None end
  else None.
End BuiltinsE.

Definition iterE (call : callE) (it : expr) (c : cfg) : list cfg * option exn :=
  let '(r, s) := c in
  match it with
  | ECall f [a; b] =>
      if str_eqb f (s_ "unify") then
        let '(xs, e) := unify_stE s (eval_expr r a) (eval_expr r b) in (map (fun x => (r, x)) xs, e)
      else if str_eqb f (s_ "query") then
        match a, b with
        | EStr name, EList args =>
            let '(xs, e) := call name (map (eval_expr r) args) s in (map (fun x => (r, x)) xs, e)
        | _, _ => ([], Some XCode)
        end
      else ([], Some XCode)
  | _ => ([], Some XCode)
  end.

Fixpoint match_rowsE (rows : list frow) (args : list term) (s : st) : eresT :=
  match rows with
  | [] => ([], None)
  | r :: rest =>
      match unify_arrays_fast ufuel (sto s) args (row_terms r s) with
      | UOk s' => let '(zs, e) := match_rowsE rest args s in ({| sto := s'; nxt := nxt s + r_nv r |} :: zs, e)
      | UFail => match_rowsE rest args s
      | UOof | UCyc => ([], Some XUnify)
      end
  end.

(* a registered predicate: answers with yielded values, then possibly the exception object it raises *)
Definition nresE := (list (st * bool) * option exn)%type.
Definition nfunE := list term -> st -> nresE.
Definition dropE (r : nresE) : eresT := (map fst (fst r), snd r).

Record worldE := {
  e_ir  : ir_program;
  e_fix : str -> nat -> option nfunE;
  e_var : str -> option nfunE;
  e_dyn : str -> nat -> list frow
}.

Definition call_functionE (call : callE) (w : worldE) (name : str) (args : list term) (s : st) : eresT :=
  match e_fix w name (length args) with
  | Some f => dropE (f args s)
  | None =>
      match find_func (e_ir w) name (length args) with
      | Some f =>
          let '(ys, k) := run_functionE (iterE call) assign (fn_body f) (bind_args 0 args, s) in
          (map snd ys, match k with EErr x => Some x | _ => None end)
      | None =>
          if str_eqb name (s_ "call") then
            match e_var w name with
            | Some f => dropE (f args s)
            | None => match builtinE call name args s with Some r => r | None => ([], None) end
            end
          else
            match builtinE call name args s with
            | Some r => r
            | None => match e_var w name with Some f => dropE (f args s) | None => ([], None) end
            end
      end
  end.

Definition nstepE (call : callE) (w : worldE) (name : str) (args : list term) (s : st) : eresT :=
  let '(ds, de) := match_rowsE (e_dyn w name (length args)) args s in
  match de with
  | Some x => (ds, Some x)
  | None => if Resolve.reserved name then (ds, None)
            else let '(fs, fe) := call_functionE call w name args s in (ds ++ fs, fe)
  end.

Fixpoint nqueryE (n : nat) (w : worldE) (name : str) (args : list term) (s : st) {struct n} : eresT :=
  match n with
  | O => ([], Some XDepth)
  | S n' => nstepE (nqueryE n' w) w name args s
  end.

(* ------------------------------------------------------------------ erasure: forgetting which exception it was *)

Definition erf (f : nfunE) : nfun := fun args s => (fst (f args s), eb (snd (f args s))).
Definition erase_world (w : worldE) : world :=
  {| w_ir := e_ir w; w_fix := fun n k => option_map erf (e_fix w n k);
     w_var := fun n => option_map erf (e_var w n); w_dyn := e_dyn w |}.

Lemma unify_stE_erase s a b : er (unify_stE s a b) = unify_st s a b.
Proof. unfold unify_stE, unify_st. destruct (unify_fast ufuel (sto s) a b); reflexivity. Qed.

Lemma match_rowsE_erase rows args s : er (match_rowsE rows args s) = match_rows rows args s.
Proof.
  induction rows as [|r rest IH]; [reflexivity|]. cbn [match_rowsE match_rows].
  destruct (unify_arrays_fast ufuel (sto s) args (row_terms r s)); try reflexivity; try exact IH.
  rewrite <- IH. destruct (match_rowsE rest args s) as [zs e]. reflexivity.
Qed.

Section EraseCall.
Variable cE : callE.
Variable c : callT.
Hypothesis Hc : forall name args s, er (cE name args s) = c name args s.

Lemma call_goalE_erase g extra s : er (call_goalE cE g extra s) = call_goal c g extra s.
Proof. unfold call_goalE, call_goal. destruct (den_fast (sto s) g); try reflexivity; apply Hc. Qed.

Lemma builtinE_erase name args s : option_map er (builtinE cE name args s) = builtin c name args s.
Proof.
  unfold builtinE, builtin.
  destruct (str_eqb name (s_ "=")).
  { destruct args as [|a [|b [|? ?]]]; try reflexivity. cbn [option_map]. rewrite unify_stE_erase. reflexivity. }
  destruct (str_eqb name (s_ "\=")).
  { destruct args as [|a [|b [|? ?]]]; try reflexivity. cbn [option_map]. unfold neq_stE. destruct (unify_fast ufuel (sto s) a b); reflexivity. }
  destruct (str_eqb name (s_ "call")).
  { destruct args as [|g extra]; [reflexivity|]. cbn [option_map]. rewrite call_goalE_erase. reflexivity. }
  destruct (str_eqb name (s_ "once")).
  { destruct args as [|g [|? ?]]; try reflexivity. cbn [option_map]. rewrite <- call_goalE_erase.
    destruct (call_goalE cE g [] s) as [[|x l] e]; reflexivity. }
  destruct (str_eqb name (s_ "findall")); [|reflexivity].
  destruct args as [|t [|g [|l [|? ?]]]]; try reflexivity. cbn [option_map]. rewrite <- call_goalE_erase.
  destruct (call_goalE cE g [] s) as [xs e]. unfold er at 2. cbn [fst snd]. destruct e as [x|]; cbn [eb]; [reflexivity|].
  destruct (collect 0 (nxt s) t xs) as [es b]. rewrite unify_stE_erase. reflexivity.
Qed.

Lemma iterE_erase it cf : er (iterE cE it cf) = iter c it cf.
Proof.
  destruct cf as [r s]. unfold iterE, iter.
  destruct it as [| | |f args|]; try reflexivity.
  destruct args as [|a [|b [|? ?]]]; try reflexivity.
  destruct (str_eqb f (s_ "unify")).
  { rewrite <- unify_stE_erase. destruct (unify_stE s (eval_expr r a) (eval_expr r b)) as [xs e]. reflexivity. }
  destruct (str_eqb f (s_ "query")); [|reflexivity].
  destruct a; try reflexivity. destruct b; try reflexivity.
  rewrite <- Hc. destruct (cE s0 (map (eval_expr r) items) s) as [xs e]. reflexivity.
Qed.

Lemma call_functionE_erase w name args s :
  er (call_functionE cE w name args s) = call_function c (erase_world w) name args s.
Proof.
  unfold call_functionE, call_function. cbn [erase_world w_fix w_ir w_var].
  destruct (e_fix w name (length args)) as [f|]; cbn [option_map].
  { unfold erf, dropE, drop, er. reflexivity. }
  destruct (find_func (e_ir w) name (length args)) as [f|].
  { rewrite (@run_function_ext cfg assign (iter c) (Jb (iterE cE)) (fun it cf => eq_sym (iterE_erase it cf))).
    rewrite <- run_functionE_erase. destruct (run_functionE (iterE cE) assign (fn_body f) (bind_args 0 args, s)) as [ys k].
    destruct k; reflexivity. }
  rewrite <- builtinE_erase.
  destruct (str_eqb name (s_ "call")).
  - destruct (e_var w name) as [f|]; cbn [option_map]; [reflexivity|].
    destruct (builtinE cE name args s); reflexivity.
  - destruct (builtinE cE name args s); cbn [option_map]; [reflexivity|].
    destruct (e_var w name) as [f|]; reflexivity.
Qed.

Lemma nstepE_erase w name args s : er (nstepE cE w name args s) = nstep c (erase_world w) name args s.
Proof.
  unfold nstepE, nstep. cbn [erase_world w_dyn]. rewrite <- match_rowsE_erase.
  destruct (match_rowsE (e_dyn w name (length args)) args s) as [ds de]. unfold er at 2. cbn [fst snd].
  destruct de as [x|]; cbn [eb]; [reflexivity|].
  destruct (Resolve.reserved name); [reflexivity|].
  rewrite <- call_functionE_erase. destruct (call_functionE cE w name args s) as [fs fe]. reflexivity.
Qed.
End EraseCall.

Theorem erase_nqueryE w : forall n name args s, er (nqueryE n w name args s) = nquery n (erase_world w) name args s.
Proof.
  induction n as [|n IH]; intros name args s; [reflexivity|].
  cbn [nqueryE nquery]. apply nstepE_erase. exact IH.
Qed.

(* ------------------------------------------------------------------ provenance *)

Section Provenance.
Variable Q : exn -> Prop.
Hypothesis Qdepth : Q XDepth.
Hypothesis Qunify : Q XUnify.
Hypothesis Qgoal : Q XGoal.
Hypothesis Qcode : Q XCode.
Variable w : worldE.
Hypothesis Qfix : forall name k f args s e, e_fix w name k = Some f -> snd (f args s) = Some e -> Q e.
Hypothesis Qvar : forall name f args s e, e_var w name = Some f -> snd (f args s) = Some e -> Q e.

Definition okr {A} (r : list A * option exn) : Prop := forall e, snd r = Some e -> Q e.

Lemma unify_stE_ok s a b : okr (unify_stE s a b).
Proof. unfold unify_stE, okr. destruct (unify_fast ufuel (sto s) a b); cbn [snd]; intros e H; try discriminate; injection H as <-; exact Qunify. Qed.

Lemma neq_stE_ok s a b : okr (neq_stE s a b).
Proof. unfold neq_stE, okr. destruct (unify_fast ufuel (sto s) a b); cbn [snd]; intros e H; try discriminate; injection H as <-; exact Qunify. Qed.

Lemma match_rowsE_ok rows args s : okr (match_rowsE rows args s).
Proof.
  induction rows as [|r rest IH]; [intros e H; discriminate|]. cbn [match_rowsE].
  destruct (unify_arrays_fast ufuel (sto s) args (row_terms r s)); try exact IH;
    try (intros e H; cbn in H; injection H as <-; exact Qunify).
  destruct (match_rowsE rest args s) as [zs e0]. exact IH.
Qed.

Section OkCall.
Variable cE : callE.
Hypothesis Hc : forall name args s, okr (cE name args s).

Lemma call_goalE_ok g extra s : okr (call_goalE cE g extra s).
Proof. unfold call_goalE. destruct (den_fast (sto s) g); try apply Hc; intros e H; cbn in H; injection H as <-; exact Qgoal. Qed.

Lemma builtinE_ok name args s r : builtinE cE name args s = Some r -> okr r.
Proof.
  unfold builtinE.
  destruct (str_eqb name (s_ "=")).
  { destruct args as [|a [|b [|? ?]]]; try discriminate. intros H; injection H as <-. apply unify_stE_ok. }
  destruct (str_eqb name (s_ "\=")).
  { destruct args as [|a [|b [|? ?]]]; try discriminate. intros H; injection H as <-. apply neq_stE_ok. }
  destruct (str_eqb name (s_ "call")).
  { destruct args as [|g extra]; intros H; injection H as <-; [intros e H; cbn in H; injection H as <-; exact Qgoal | apply call_goalE_ok]. }
  destruct (str_eqb name (s_ "once")).
  { destruct args as [|g [|? ?]]; try discriminate. intros H; injection H as <-.
    pose proof (call_goalE_ok g [] s) as G. destruct (call_goalE cE g [] s) as [[|x l] e0]; [exact G | intros e H; discriminate]. }
  destruct (str_eqb name (s_ "findall")); [|discriminate].
  destruct args as [|t [|g [|l [|? ?]]]]; try discriminate. intros H; injection H as <-.
  pose proof (call_goalE_ok g [] s) as G. destruct (call_goalE cE g [] s) as [xs e0]. destruct e0 as [x|].
  - intros e H. cbn in H. injection H as <-. apply G. reflexivity.
  - destruct (collect 0 (nxt s) t xs) as [es b]. apply unify_stE_ok.
Qed.

Lemma iterE_ok it cf e : snd (iterE cE it cf) = Some e -> Q e.
Proof.
  destruct cf as [r s]. unfold iterE.
  destruct it as [| | |f args|]; try (intros H; cbn in H; injection H as <-; exact Qcode).
  destruct args as [|a [|b [|? ?]]]; try (intros H; cbn in H; injection H as <-; exact Qcode).
  destruct (str_eqb f (s_ "unify")).
  { pose proof (unify_stE_ok s (eval_expr r a) (eval_expr r b)) as U.
    destruct (unify_stE s (eval_expr r a) (eval_expr r b)) as [xs e0]. intros H. apply U. exact H. }
  destruct (str_eqb f (s_ "query")); [|intros H; cbn in H; injection H as <-; exact Qcode].
  destruct a; try (intros H; cbn in H; injection H as <-; exact Qcode). destruct b; try (intros H; cbn in H; injection H as <-; exact Qcode).
  pose proof (Hc s0 (map (eval_expr r) items) s) as C. destruct (cE s0 (map (eval_expr r) items) s) as [xs e0].
  intros H. apply C. exact H.
Qed.

Lemma call_functionE_ok name args s : okr (call_functionE cE w name args s).
Proof.
  unfold call_functionE.
  destruct (e_fix w name (length args)) as [f|] eqn:F.
  { intros e H. exact (Qfix name (length args) f args s e F H). }
  destruct (find_func (e_ir w) name (length args)) as [f|].
  { pose proof (@exec_listE_ok cfg (iterE cE) assign Q (fun it cf e => iterE_ok it cf e) (fn_body f) (bind_args 0 args, s) flags0) as O.
    unfold run_functionE. destruct (exec_listE (iterE cE) assign (fn_body f) (bind_args 0 args, s) flags0) as [[ys k] f1].
    unfold okE in O. cbn [fst snd] in O. intros e H. cbn [snd] in H. destruct k; try discriminate. injection H as <-. exact O. }
  destruct (str_eqb name (s_ "call")).
  - destruct (e_var w name) as [f|] eqn:V.
    + intros e H. exact (Qvar name f args s e V H).
    + destruct (builtinE cE name args s) as [r|] eqn:B; [exact (builtinE_ok name args s r B) | intros e H; discriminate].
  - destruct (builtinE cE name args s) as [r|] eqn:B; [exact (builtinE_ok name args s r B)|].
    destruct (e_var w name) as [f|] eqn:V; [|intros e H; discriminate].
    intros e H. exact (Qvar name f args s e V H).
Qed.

Lemma nstepE_ok name args s : okr (nstepE cE w name args s).
Proof.
  unfold nstepE. pose proof (match_rowsE_ok (e_dyn w name (length args)) args s) as D.
  destruct (match_rowsE (e_dyn w name (length args)) args s) as [ds de]. destruct de as [x|].
  - intros e H. cbn in H. injection H as <-. apply D. reflexivity.
  - destruct (Resolve.reserved name); [intros e H; discriminate|].
    pose proof (call_functionE_ok name args s) as C. destruct (call_functionE cE w name args s) as [fs fe]. exact C.
Qed.
End OkCall.

(* the exception that ends a query is one of the engine's own or one that a registered predicate raised - the very object *)
Theorem exception_provenance : forall n name args s e, snd (nqueryE n w name args s) = Some e -> Q e.
Proof.
  induction n as [|n IH]; intros name args s e H.
  - injection H as <-. exact Qdepth.
  - cbn [nqueryE] in H. exact (nstepE_ok (nqueryE n w) (fun nm a s0 e0 => IH nm a s0 e0) name args s e H).
Qed.
End Provenance.

(* the predicate of the property: it raises the exception object `XPy tag` instead of delivering its answer number j *)
Definition raisingE (f : nfunE) (j : nat) (tag : nat) : nfunE :=
  fun args s => let '(xs, e) := f args s in if Nat.ltb j (length xs) then (firstn j xs, Some (XPy tag)) else (xs, e).

Definition engine_exn (e : exn) : Prop := e = XDepth \/ e = XUnify \/ e = XGoal \/ e = XCode.

(* if the registered predicates raise nothing but `XPy tag`, then whatever ends a query is the engine's own exception or
   exactly that object *)
Corollary exception_unchanged w tag :
  (forall name k f args s e, e_fix w name k = Some f -> snd (f args s) = Some e -> e = XPy tag) ->
  (forall name f args s e, e_var w name = Some f -> snd (f args s) = Some e -> e = XPy tag) ->
  forall n name args s e, snd (nqueryE n w name args s) = Some e -> engine_exn e \/ e = XPy tag.
Proof.
  intros Hf Hv. apply (exception_provenance (fun e => engine_exn e \/ e = XPy tag)); unfold engine_exn; auto 6.
  - intros name k f args s e F H. right. exact (Hf name k f args s e F H).
  - intros name f args s e F H. right. exact (Hv name f args s e F H).
Qed.
