(* C20, native_equals_compiled_facts: the Python predicate `native_rows rows vals` and the compiled predicate
   p(row_1). ... p(row_k). (ground rows) have the same answers for all arguments, stores and interpretations of
   the calls - and therefore every engine that has the one answers every query as the engine that has the other. *)
From Coq Require Import String.
From Coq Require Import List Arith Bool ZArith NArith Lia.
Import ListNotations.
From YP Require Import Base.Str Term.Term Term.Fast Unify.Unify Unify.Fast Lang.Ast Comp.IR Comp.CompileBody Comp.CompileClause
  Sem.Res Sem.RefSem Sem.SemLemmas Sem.IRSem Sem.ControlCorrect Sem.Machine Sem.ClauseSem Sem.ProgramCorrect Sem.Native Sem.NativeThms.
From YP Require Engine.Keys.
Local Open Scope string_scope.
Local Open Scope list_scope.

(* ------------------------------------------------------------------ ground source terms *)

Fixpoint ground (t : sterm) : bool :=
  let all := fix all (l : list sterm) : bool := match l with [] => true | x :: r => ground x && all r end in
  match t with
  | SVar _ => false
  | SAtom _ | SNum _ => true
  | SFun _ args => all args
  | SList items => all items
  | SPair h t => ground h && ground t
  end.

Definition ground_row (row : list sterm) : bool := forallb ground row.

Lemma ground_all l : (fix all (l : list sterm) : bool := match l with [] => true | x :: r => ground x && all r end) l = forallb ground l.
Proof. induction l as [|x r IH]; [reflexivity|]. cbn [forallb]. rewrite <- IH. reflexivity. Qed.

(* the engine term of a ground source term: no environment needed *)
Definition gterm (t : sterm) : term := instA [] t.

Lemma instA_ground r t : ground t = true -> instA r t = gterm t.
Proof.
  unfold gterm. induction t as [a|n|v|f args IH|items IH|h t IHh IHt] using sterm_ind'; intros G; try reflexivity.
  - discriminate.
  - cbn [ground] in G. rewrite ground_all in G. cbn [instA]. f_equal.
    induction args as [|x l IHl]; [reflexivity|]. cbn [forallb] in G. apply andb_true_iff in G as [G1 G2].
    inversion IH; subst. cbn [map]. f_equal; auto.
  - cbn [ground] in G. rewrite ground_all in G. cbn [instA]. f_equal.
    induction items as [|x l IHl]; [reflexivity|]. cbn [forallb] in G. apply andb_true_iff in G as [G1 G2].
    inversion IH; subst. cbn [map]. f_equal; auto.
  - cbn [ground] in G. apply andb_true_iff in G as [G1 G2]. cbn [instA]. rewrite IHh, IHt by assumption. reflexivity.
Qed.

Lemma tshift_map off l : (fix shifts (l : list term) : list term := match l with [] => [] | x :: r => tshift off x :: shifts r end) l
  = map (tshift off) l.
Proof. induction l as [|x r IH]; [reflexivity|]. cbn [map]. rewrite <- IH. reflexivity. Qed.

Lemma tshift_mk_list off l : tshift off (mk_list l) = mk_list (map (tshift off) l).
Proof. induction l as [|x r IH]; [reflexivity|]. cbn [mk_list map]. unfold cons_term. cbn [tshift]. rewrite IH. reflexivity. Qed.

Lemma tshift_ground off t : ground t = true -> tshift off (gterm t) = gterm t.
Proof.
  unfold gterm. induction t as [a|n|v|f args IH|items IH|h t IHh IHt] using sterm_ind'; intros G; try reflexivity.
  - cbn [ground] in G. rewrite ground_all in G. cbn [instA tshift]. rewrite tshift_map. f_equal.
    induction args as [|x l IHl]; [reflexivity|]. cbn [forallb] in G. apply andb_true_iff in G as [G1 G2].
    inversion IH; subst. cbn [map]. f_equal; auto.
  - cbn [ground] in G. rewrite ground_all in G. cbn [instA]. rewrite tshift_mk_list. f_equal.
    induction items as [|x l IHl]; [reflexivity|]. cbn [forallb] in G. apply andb_true_iff in G as [G1 G2].
    inversion IH; subst. cbn [map]. f_equal; auto.
  - cbn [ground] in G. apply andb_true_iff in G as [G1 G2]. cbn [instA]. unfold cons_term. cbn [tshift].
    rewrite IHh, IHt by assumption. reflexivity.
Qed.

Lemma ground_no_vars t : ground t = true -> sterm_vars t = [].
Proof.
  induction t as [a|n|v|f args IH|items IH|h t IHh IHt] using sterm_ind'; intros G; try reflexivity.
  - discriminate.
  - cbn [ground] in G. rewrite ground_all in G. cbn [sterm_vars].
    induction args as [|x l IHl]; [reflexivity|]. cbn [forallb] in G. apply andb_true_iff in G as [G1 G2].
    inversion IH; subst. cbn [flat_map]. rewrite H1 by exact G1. apply IHl; assumption.
  - cbn [ground] in G. rewrite ground_all in G. cbn [sterm_vars].
    induction items as [|x l IHl]; [reflexivity|]. cbn [forallb] in G. apply andb_true_iff in G as [G1 G2].
    inversion IH; subst. cbn [flat_map]. rewrite H1 by exact G1. apply IHl; assumption.
  - cbn [ground] in G. apply andb_true_iff in G as [G1 G2]. cbn [sterm_vars]. rewrite IHh, IHt by assumption. reflexivity.
Qed.

Lemma ground_top_var t : ground t = true -> top_var t = None.
Proof. destruct t; try reflexivity. discriminate. Qed.

(* ------------------------------------------------------------------ the clause p(row). *)

Definition fact_clause (name : str) (row : list sterm) : clause := {| c_name := name; c_args := row; c_body := BTrue |}.
Definition row_of (row : list sterm) : frow := {| r_vals := map gterm row; r_nv := 0 |}.

Lemma ground_row_vars row : ground_row row = true -> flat_map sterm_vars row = [].
Proof.
  induction row as [|a r IH]; [reflexivity|]. unfold ground_row. cbn [forallb flat_map]. intros G.
  apply andb_true_iff in G as [G1 G2]. rewrite (ground_no_vars a G1). apply IH. exact G2.
Qed.

Lemma ground_row_tops row : ground_row row = true ->
  flat_map (fun t => match top_var t with Some v => [v] | None => [] end) row = [].
Proof.
  induction row as [|a r IH]; [reflexivity|]. unfold ground_row. cbn [forallb flat_map]. intros G.
  apply andb_true_iff in G as [G1 G2]. rewrite (ground_top_var a G1). apply IH. exact G2.
Qed.

Lemma fact_pos name row : ground_row row = true -> clause_pos (fact_clause name row) = map (fun _ => None) row.
Proof.
  intros G. unfold clause_pos, head_args_by_pos. cbn [fact_clause c_args].
  rewrite (ground_row_tops row G). revert G. unfold ground_row.
  induction row as [|a r IH]; [reflexivity|]. cbn [forallb map]. intros G. apply andb_true_iff in G as [G1 G2].
  rewrite (ground_top_var a G1). f_equal. apply IH. exact G2.
Qed.

Lemma some_list_none (row : list sterm) : some_list (map (fun _ => @None str) row) = [].
Proof. induction row as [|a r IH]; [reflexivity|]. exact IH. Qed.

Lemma fact_enter name row cf : ground_row row = true -> clause_enter (fact_clause name row) cf = cf.
Proof.
  intros G. destruct cf as [r s]. unfold clause_enter, clause_fv_head, clause_fv_body.
  rewrite (fact_pos name row G), some_list_none. cbn [fact_clause c_args c_body body_vars].
  rewrite (ground_row_vars row G). cbn. rewrite st_eta. f_equal. clear G.
  generalize 0. induction row as [|a l IH]; intros i; [reflexivity|]. cbn [map alias_env]. apply IH.
Qed.

(* ------------------------------------------------------------------ arguments of the activation *)

Lemma argvar_inj i j : argvar i = argvar j -> i = j.
Proof.
  unfold argvar. intros H. apply app_inv_head in H. apply Engine.Keys.dec_of_nat_inj in H. lia.
Qed.

Lemma argval_bind args : forall i j, argval (i + j) (bind_args i args) = nth j args bad_term.
Proof.
  induction args as [|a r IH]; intros i j.
  - unfold argval. cbn [bind_args env_get]. destruct j; reflexivity.
  - unfold argval. cbn [bind_args env_get]. fold (argvar i).
    destruct (str_eqb_spec (argvar (i + j)) (argvar i)) as [E|NE].
    + apply argvar_inj in E. assert (j = 0) by lia. subst j. reflexivity.
    + destruct j as [|j]; [exfalso; apply NE; f_equal; lia|].
      replace (i + S j) with (S i + j) by lia. specialize (IH (S i) j). unfold argval in IH. rewrite IH. reflexivity.
Qed.

Lemma map_nth_seq0 {A} (l : list A) d : map (fun j => nth j l d) (seq 0 (length l)) = l.
Proof.
  induction l as [|a r IH]; [reflexivity|].
  cbn [length seq map nth]. f_equal. rewrite <- seq_shift, map_map. exact IH.
Qed.

Lemma argvals_bind args : map (fun j => argval j (bind_args 0 args)) (seq 0 (length args)) = args.
Proof.
  rewrite <- (map_nth_seq0 args bad_term) at 2. apply map_ext. intros j. exact (argval_bind args 0 j).
Qed.

(* ------------------------------------------------------------------ head unification of a ground fact = unify_arrays *)

Definition lift (u : ures) (n : nat) : hres :=
  match u with UOk s' => HOk {| sto := s'; nxt := n |} | UFail => HFail | UOof | UCyc => HErr end.

Lemma head_unify_arr row : forall i r s,
  head_unify i (map (fun _ => None) row) row r s =
  lift (arr (unify_fast ufuel) (map (fun j => argval j r) (seq i (length row))) (map (instA r) row) (sto s)) (nxt s).
Proof.
  induction row as [|a l IH]; intros i r s.
  - cbn. rewrite st_eta. reflexivity.
  - cbn [map head_unify length seq arr].
    destruct (unify_fast ufuel (sto s) (argval i r) (instA r a)) as [s'| | |]; try reflexivity.
    rewrite IH. reflexivity.
Qed.

Lemma map_instA_ground r row : ground_row row = true -> map (instA r) row = map gterm row.
Proof.
  unfold ground_row. induction row as [|a l IH]; [reflexivity|]. cbn [forallb map]. intros G.
  apply andb_true_iff in G as [G1 G2]. rewrite (instA_ground r a G1), IH by exact G2. reflexivity.
Qed.

Lemma row_terms_ground row s : ground_row row = true -> row_terms (row_of row) s = map gterm row.
Proof.
  unfold row_terms, row_of. cbn [r_vals]. unfold ground_row. induction row as [|a l IH]; [reflexivity|].
  cbn [forallb map]. intros G. apply andb_true_iff in G as [G1 G2]. rewrite (tshift_ground (nxt s) a G1), IH by exact G2. reflexivity.
Qed.

(* ------------------------------------------------------------------ the clause loop over ground facts = the row loop *)

Section Facts.
Variable call : str -> list term -> st -> list st * bool.
Variable name : str.

Lemma fact_clauses_rows rows : forall args s,
  Forall (fun row => ground_row row = true /\ length row = length args) rows ->
  let r := bind_args 0 args in
  clausesA call (map (fact_clause name) rows) (r, s) =
  (map (fun x => (r, x)) (fst (match_rows (map row_of rows) args s)),
   if snd (match_rows (map row_of rows) args s) then FErr else FNorm).
Proof.
  induction rows as [|row rest IH]; intros args s F r; [reflexivity|].
  inversion F as [|? ? [G L] Fr]; subst.
  cbn [map clausesA match_rows]. rewrite (fact_enter name row (r, s) G).
  unfold clause_res. rewrite (fact_pos name row G). cbn [fact_clause c_args c_body].
  rewrite head_unify_arr, (map_instA_ground r row G), L. unfold r at 1. rewrite argvals_bind.
  rewrite (row_terms_ground row s G).
  unfold unify_arrays_fast. rewrite map_length, L, Nat.eqb_refl.
  destruct (arr (unify_fast ufuel) args (map gterm row) (sto s)) as [s'| | |]; cbn [lift sem].
  - pose proof (IH args s Fr) as E. cbv zeta in E. fold r in E. rewrite E. cbn [row_of r_nv]. rewrite Nat.add_0_r.
    destruct (match_rows (map row_of rest) args s) as [zs e]. cbn [fst snd map app]. reflexivity.
  - pose proof (IH args s Fr) as E. cbv zeta in E. fold r in E. rewrite E.
    destruct (match_rows (map row_of rest) args s) as [zs e]. reflexivity.
  - reflexivity.
  - reflexivity.
Qed.
End Facts.

(* ------------------------------------------------------------------ compilation of facts, and the run of the code *)

Lemma fact_good name row : good_clause (fact_clause name row).
Proof. split; reflexivity. Qed.

Lemma compile_facts name rows : forall cnt, exists code, compile_clauses (map (fact_clause name) rows) cnt = Some (code, cnt).
Proof.
  induction rows as [|row rest IH]; intros cnt; [exists []; reflexivity|].
  cbn [map compile_clauses]. unfold compile_clause at 1. cbn [fact_clause c_body c_args fuel_body comp].
  destruct (IH cnt) as [code E]. rewrite E. eexists. reflexivity.
Qed.

(* the generator function compiled from p(row_1). ... p(row_k). delivers, for all arguments, states and whatever the
   calls mean, exactly the answers of the row loop *)
Theorem compiled_facts_run call name rows cnt code cnt' args s :
  compile_clauses (map (fact_clause name) rows) cnt = Some (code, cnt') ->
  Forall (fun row => ground_row row = true /\ length row = length args) rows ->
  (let '(ys, k) := run_function (iter call) assign code (bind_args 0 args, s) in
   (map snd ys, match k with CErr => true | _ => false end)) = match_rows (map row_of rows) args s.
Proof.
  intros HC F. unfold run_function.
  assert (G : Forall good_clause (map (fact_clause name) rows)).
  { apply Forall_forall. intros c Hc. apply in_map_iff in Hc as [row [<- _]]. apply fact_good. }
  destruct (clauses_ok call (map (fact_clause name) rows) cnt code cnt' (bind_args 0 args, s) flags0 HC G eq_refl) as [f' [E _]].
  rewrite E. rewrite (fact_clauses_rows call name rows args s F). cbn [fst snd].
  destruct (match_rows (map row_of rows) args s) as [zs e]. cbn [fst snd]. rewrite map_map. cbn [snd]. rewrite map_id.
  destruct e; reflexivity.
Qed.

(* native_equals_compiled_facts *)
Theorem native_equals_compiled_facts call name rows vals cnt code cnt' args s :
  compile_clauses (map (fact_clause name) rows) cnt = Some (code, cnt') ->
  Forall (fun row => ground_row row = true /\ length row = length args) rows ->
  drop (native_rows (map row_of rows) vals args s) =
  (let '(ys, k) := run_function (iter call) assign code (bind_args 0 args, s) in
   (map snd ys, match k with CErr => true | _ => false end)).
Proof. intros HC F. rewrite drop_native_rows. symmetry. eapply compiled_facts_run; eassumption. Qed.

(* ------------------------------------------------------------------ engines: a Python predicate swapped for compiled facts *)

Lemma key_eq_true a b : key_eq a b = true -> a = b.
Proof.
  destruct a as [x n], b as [y m]. unfold key_eq. cbn [fst snd]. intros H. apply andb_true_iff in H as [H1 H2].
  apply str_eqb_eq in H1. apply Nat.eqb_eq in H2. subst. reflexivity.
Qed.

(* w has the Python predicate `native_rows rows vals` under the key name_k (registered with inferred or explicit arity);
   w' has the generator function compiled from the facts name(row_1). ... name(row_n). instead; everything else -
   other keys, variadic keys, dynamic facts - is the same *)
Record swapped_fix (w w' : world) (name : str) (k : nat) (rows : list (list sterm)) (vals : list bool) : Prop := {
  sf_rows : Forall (fun row => ground_row row = true /\ length row = k) rows;
  sf_py : w_fix w name k = Some (native_rows (map row_of rows) vals);
  sf_nopy : w_fix w' name k = None;
  sf_code : exists f cnt cnt', find_func (w_ir w') name k = Some f /\
                               compile_clauses (map (fact_clause name) rows) cnt = Some (fn_body f, cnt');
  sf_other : forall n0 k0, key_eq (n0, k0) (name, k) = false ->
               w_fix w' n0 k0 = w_fix w n0 k0 /\ find_func (w_ir w') n0 k0 = find_func (w_ir w) n0 k0;
  sf_var : forall n0, w_var w' n0 = w_var w n0;
  sf_dyn : forall n0 k0, w_dyn w' n0 k0 = w_dyn w n0 k0
}.

Theorem swapped_fix_equiv w w' name k rows vals : swapped_fix w w' name k rows vals -> world_equiv w w'.
Proof.
  intros [Hrows Hpy Hnopy [f [cnt [cnt' [Hf Hc]]]] Hother Hvar Hdyn] call name0 args s.
  unfold nstep. rewrite Hdyn.
  destruct (match_rows (w_dyn w name0 (length args)) args s) as [ds de]. destruct de; [reflexivity|].
  destruct (Resolve.reserved name0); [reflexivity|].
  assert (E : call_function call w name0 args s = call_function call w' name0 args s).
  { unfold call_function. destruct (key_eq (name0, length args) (name, k)) eqn:K.
    - apply key_eq_true in K. injection K as -> <-.
      rewrite Hpy, Hnopy, Hf.
      apply (native_equals_compiled_facts call name rows vals cnt (fn_body f) cnt' args s Hc). exact Hrows.
    - destruct (Hother _ _ K) as [H1 H2]. rewrite H1, H2, Hvar. reflexivity. }
  rewrite E. reflexivity.
Qed.

(* any number of swaps, in either direction *)
Inductive swaps : world -> world -> Prop :=
| swaps_refl w : swaps w w
| swaps_py_to_compiled w w' w'' name k rows vals : swapped_fix w w' name k rows vals -> swaps w' w'' -> swaps w w''
| swaps_compiled_to_py w w' w'' name k rows vals : swapped_fix w' w name k rows vals -> swaps w' w'' -> swaps w w''.

(* replacing any subset of the fact predicates of a program by Python predicates changes no answer of any query *)
Theorem subset_interchangeable w w' : swaps w w' ->
  forall n name args s, nquery n w name args s = nquery n w' name args s.
Proof.
  intros H. apply world_equiv_nquery. induction H as [w|w w' w'' name k rows vals S1 _ IH|w w' w'' name k rows vals S1 _ IH].
  - apply world_equiv_refl.
  - eapply world_equiv_trans; [eapply swapped_fix_equiv; exact S1|exact IH].
  - eapply world_equiv_trans; [apply world_equiv_sym; eapply swapped_fix_equiv; exact S1|exact IH].
Qed.

(* ------------------------------------------------------------------ arguments *)

(* a goal g(a_1, ..., a_n) of a compiled clause calls the Python predicate registered for g/n with exactly the list
   [a_1; ...; a_n] instantiated in the activation - engine terms, in call order - and delivers its answers in order *)
Theorem args_in_call_order call w g sargs r s f :
  w_fix w g (length sargs) = Some f -> Resolve.reserved g = false -> w_dyn w g (length sargs) = [] ->
  iter (nstep call w) (query_expr g sargs) (r, s) =
  (map (fun x => (r, x)) (map fst (fst (f (map (instA r) sargs) s))), snd (f (map (instA r) sargs) s)).
Proof.
  intros Hf Hr Hd. rewrite (HJ (nstep call w) g sargs (r, s)). unfold leafA, nstep.
  rewrite map_length, Hd, Hr. cbn [match_rows]. unfold call_function. rewrite map_length, Hf. unfold drop.
  destruct (f (map (instA r) sargs) s) as [xs e]. reflexivity.
Qed.

(* the same for a function registered with variable arity, when no other entry has the key g_n' *)
Theorem args_in_call_order_variadic call w g sargs r s f :
  w_var w g = Some f -> w_fix w g (length sargs) = None -> find_func (w_ir w) g (length sargs) = None ->
  (forall c a s0, builtin c g a s0 = None) -> str_eqb g (s_ "call") = false ->
  Resolve.reserved g = false -> w_dyn w g (length sargs) = [] ->
  iter (nstep call w) (query_expr g sargs) (r, s) =
  (map (fun x => (r, x)) (map fst (fst (f (map (instA r) sargs) s))), snd (f (map (instA r) sargs) s)).
Proof.
  intros Hv Hf Hff Hb Hc Hr Hd. rewrite (HJ (nstep call w) g sargs (r, s)). unfold leafA, nstep.
  rewrite map_length, Hd, Hr. cbn [match_rows]. unfold call_function. rewrite map_length, Hf, Hff, Hc, Hb, Hv. unfold drop.
  destruct (f (map (instA r) sargs) s) as [xs e]. reflexivity.
Qed.

(* ------------------------------------------------------------------ without Python predicates and dynamic facts: Sem/Machine.v *)

Lemma reserved_not_builtin call name args s : Resolve.reserved name = true -> builtin call name args s = None.
Proof.
  intros R. unfold builtin.
  destruct (str_eqb_spec name (s_ "=")) as [->|_]; [vm_compute in R; discriminate|].
  destruct (str_eqb_spec name (s_ "\=")) as [->|_]; [vm_compute in R; discriminate|].
  destruct (str_eqb_spec name (s_ "call")) as [->|_]; [vm_compute in R; discriminate|].
  destruct (str_eqb_spec name (s_ "once")) as [->|_]; [vm_compute in R; discriminate|].
  destruct (str_eqb_spec name (s_ "findall")) as [->|_]; [vm_compute in R; discriminate|].
  reflexivity.
Qed.

Lemma find_func_name p : forall name k f, find_func p name k = Some f -> In f p /\ fn_name f = name.
Proof.
  induction p as [|g r IH]; intros name k f H; [discriminate|]. cbn [find_func] in H.
  destruct (str_eqb (fn_name g) name && Nat.eqb (fn_arity g) k) eqn:E.
  - injection H as <-. apply andb_true_iff in E as [E _]. apply str_eqb_eq in E. split; [left; reflexivity|exact E].
  - destruct (IH _ _ _ H) as [A B]. split; [right; exact A|exact B].
Qed.

(* the engine of Sem/Machine.v (for which Sem/ProgramCorrect.v proves the clause-level semantics) is the special case
   without Python predicates and dynamic facts, for programs that do not define a predicate with an API name (those are
   never callable: C08) *)
Theorem plain_is_machine ir : (forall f, In f ir -> Resolve.reserved (fn_name f) = false) ->
  forall n name args s, nquery n (plain ir) name args s = query n ir name args s.
Proof.
  intros NR. induction n as [|n IH]; intros name args s; [reflexivity|].
  cbn [nquery query]. unfold nstep, plain at 2. cbn [w_dyn match_rows].
  destruct (Resolve.reserved name) eqn:R.
  - destruct (find_func ir name (length args)) as [f|] eqn:F.
    + destruct (find_func_name ir _ _ _ F) as [A B]. rewrite <- B, (NR f A) in R. discriminate.
    + rewrite (reserved_not_builtin (query n ir) name args s R). reflexivity.
  - unfold call_function. cbn [plain w_fix w_ir w_var].
    destruct (find_func ir name (length args)) as [f|].
    + rewrite (@run_function_ext cfg assign (iter (nquery n (plain ir))) (iter (query n ir)) (iter_ext _ _ IH)).
      destruct (run_function (iter (query n ir)) assign (fn_body f) (bind_args 0 args, s)) as [ys k]. reflexivity.
    + rewrite (ProgramCorrect.builtin_ext _ _ IH).
      destruct (str_eqb name (s_ "call")); destruct (builtin (query n ir) name args s) as [[xs e]|]; reflexivity.
Qed.

(* ------------------------------------------------------------------ Python predicate = the same rows as dynamic facts *)

(* For ARBITRARY rows (variables, repeated variables, nested terms): a Python predicate over the rows, registered for
   name/k, answers every call exactly as the same rows stored as dynamic facts of name/k do (assert_fact): both are the
   loop `for row: for _ in unify_arrays(args, fresh copy of row)`.  w: the Python predicate, no stored facts of name/k;
   w': the stored facts, no function for name/k; everything else the same.  (The name must not be an API name - those are
   never called as functions but their stored facts are answered - nor a builtin's.) *)
Record python_vs_dynamic (w w' : world) (name : str) (k : nat) (rows : list frow) (vals : list bool) : Prop := {
  pd_res : Resolve.reserved name = false;
  pd_nb : forall c a s0, builtin c name a s0 = None;
  pd_nc : str_eqb name (s_ "call") = false;
  pd_py : w_fix w name k = Some (native_rows rows vals);
  pd_nodyn : w_dyn w name k = [];
  pd_nofix : w_fix w' name k = None;
  pd_nofun : find_func (w_ir w') name k = None;
  pd_novar : w_var w' name = None;
  pd_dyn : w_dyn w' name k = rows;
  pd_other : forall n0 k0, key_eq (n0, k0) (name, k) = false ->
               w_fix w' n0 k0 = w_fix w n0 k0 /\ find_func (w_ir w') n0 k0 = find_func (w_ir w) n0 k0 /\
               w_dyn w' n0 k0 = w_dyn w n0 k0;
  pd_var : forall n0, str_eqb n0 name = false -> w_var w' n0 = w_var w n0;
  pd_novar0 : w_var w name = None
}.

Theorem python_equals_dynamic_facts w w' name k rows vals : python_vs_dynamic w w' name k rows vals -> world_equiv w w'.
Proof.
  intros [Hres Hnb Hnc Hpy Hnodyn Hnofix Hnofun Hnovar Hdyn Hother Hvar Hvs] call name0 args s.
  destruct (key_eq (name0, length args) (name, k)) eqn:K.
  - apply key_eq_true in K. injection K as -> <-. unfold nstep. rewrite Hnodyn, Hdyn, Hres. cbn [match_rows].
    unfold call_function. rewrite Hpy, Hnofix, Hnofun, Hnc, Hnb, Hnovar. rewrite drop_native_rows.
    destruct (match_rows rows args s) as [zs e]. cbn [app]. destruct e; [reflexivity|]. rewrite app_nil_r. reflexivity.
  - destruct (Hother _ _ K) as [H1 [H2 H3]]. unfold nstep. rewrite H3.
    destruct (match_rows (w_dyn w name0 (length args)) args s) as [ds de]. destruct de; [reflexivity|].
    destruct (Resolve.reserved name0); [reflexivity|].
    assert (E : call_function call w name0 args s = call_function call w' name0 args s).
    { unfold call_function. rewrite H1, H2.
      destruct (str_eqb_spec name0 name) as [->|NE].
      - rewrite Hvs, Hnovar. reflexivity.
      - rewrite (Hvar name0 (proj2 (str_eqb_neq name0 name) NE)). reflexivity. }
    rewrite E. reflexivity.
Qed.

Corollary python_equals_dynamic_facts_nquery w w' name k rows vals : python_vs_dynamic w w' name k rows vals ->
  forall n qname args s, nquery n w qname args s = nquery n w' qname args s.
Proof. intros H. apply world_equiv_nquery. exact (python_equals_dynamic_facts w w' name k rows vals H). Qed.
