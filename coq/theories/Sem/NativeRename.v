(* C20 for rows WITH VARIABLES: a Python predicate over rows with variables creates fresh variables for the row at each
   use (Native.row_terms: cells nxt .. nxt+nv-1), the compiled fact creates fresh cells for the clause's variables
   (ClauseSem.clause_enter; the cells of the earlier clauses of the function stay allocated).  The two engines therefore
   number their cells differently and their answers can only be equal up to an injective renaming of the cells created
   during the query - the relation rel_st / ans_rel / same_answer of Sem/RenameSim.v.

   * row_of_src: the row of a Python predicate for a source row (variables numbered by first occurrence).
   * row_rel, match_rows_rel: the row loop from related states gives related answers (dynamic facts on both sides).
   * facts_rows_rel, native_equals_compiled_facts_rel: the row loop of the Python predicate and the clause loop of the
     compiled facts give related answers, for all rows in which no head argument is "aliased" by the compiler
     (noalias: no argument is a plain variable occurring once among the top-level arguments).
   * native_equals_compiled_facts_same_answer_refuted: for an aliased row - p(X). - the statement is FALSE for
     same_answer: the compiled code only names the goal argument (V_X = arg1, nothing is bound), the Python predicate
     unifies the goal argument with its fresh variable, and unify(arg, X') binds the unbound goal variable to X'.
     The answers are variants of each other, but not by a renaming that fixes the query's own variables.
   * source_call_rel / program_with_python_predicates_rel: lifted through programs (call_rel between the engine with
     Python predicates and the all-compiled engine, at every depth, next to dynamic facts). *)
From Coq Require Import String.
From Coq Require Import List Arith Bool ZArith NArith Lia.
Import ListNotations.
From YP Require Import Base.Str Term.Term Term.Fast Unify.Unify Unify.Fast Unify.Bounded Unify.Rename
  Lang.Ast Comp.IR Comp.CompileBody Comp.CompileClause
  Sem.Res Sem.RefSem Sem.SemLemmas Sem.SemRel Sem.IRSem Sem.ControlCorrect Sem.Machine Sem.ClauseSem Sem.ProgramCorrect
  Sem.Fresh Sem.RenameSim Sem.Native Sem.NativeThms Sem.NativeFacts Sem.NativeSource.
From YP Require Comp.EmitShape Engine.Resolve.
Local Open Scope string_scope.
Local Open Scope list_scope.

(* ------------------------------------------------------------------ shifting a row to fresh cells *)

Lemma tshift_fun off f args : tshift off (TFun f args) = TFun f (map (tshift off) args).
Proof. cbn [tshift]. rewrite tshift_map. reflexivity. Qed.

Lemma tshift_bounded off nv t : bounded nv t -> bounded (off + nv) (tshift off t).
Proof.
  induction t as [a|z|x|v|f args IH] using term_ind'; intros B; try (intros w Hw; discriminate).
  - cbn [tshift]. apply bounded_var. assert (v < nv) by (apply B; simpl; apply Nat.eqb_refl). lia.
  - rewrite tshift_fun. apply bounded_fun. apply bounded_fun in B.
    apply Forall_forall. intros y Hy. apply in_map_iff in Hy as [x0 [<- Hx]].
    apply (proj1 (Forall_forall _ _) IH x0 Hx). exact (proj1 (Forall_forall _ _) B x0 Hx).
Qed.

Lemma tshift_low off t w : occurs w (tshift off t) = true -> off <= w.
Proof.
  induction t as [a|z|x|v|f args IH] using term_ind'; intros Hw; try discriminate.
  - cbn [tshift] in Hw. simpl in Hw. apply Nat.eqb_eq in Hw. lia.
  - rewrite tshift_fun in Hw. simpl in Hw. rewrite existsb_exists in Hw. destruct Hw as [y [Hy Ho]].
    apply in_map_iff in Hy as [x0 [<- Hx]]. exact (proj1 (Forall_forall _ _) IH x0 Hx Ho).
Qed.

Lemma ren_tshift p offA offR nv t : (forall i, i < nv -> p (i + offA) = i + offR) -> bounded nv t ->
  ren p (tshift offA t) = tshift offR t.
Proof.
  intros Hp. induction t as [a|z|x|v|f args IH] using term_ind'; intros B; try reflexivity.
  - cbn [tshift ren]. rewrite Hp; [reflexivity|]. apply B. simpl. apply Nat.eqb_refl.
  - rewrite !tshift_fun. cbn [ren]. f_equal. rewrite map_map. apply map_ext_in. intros y Hy.
    apply (proj1 (Forall_forall _ _) IH y Hy). apply bounded_fun in B. exact (proj1 (Forall_forall _ _) B y Hy).
Qed.

Lemma tshift_den_id k s off t : store_bounded k s -> k <= off -> den s (tshift off t) = tshift off t.
Proof.
  intros SB L. apply den_id. intros w Hw. apply (lookup_bounded_none k); [exact SB|].
  pose proof (tshift_low _ _ _ Hw). lia.
Qed.

(* ------------------------------------------------------------------ one row, from related states *)

Definition frow_ok (r : frow) : Prop := Forall (bounded (r_nv r)) (r_vals r).

Lemma rel_st_growR p sA sR k : rel_st p sA sR -> nxt sR <= k -> rel_st p sA {| sto := sto sR; nxt := k |}.
Proof.
  intros R L. constructor; cbn [sto nxt].
  - apply (r_inj R).
  - intros a La. pose proof (r_img R a La). lia.
  - apply (r_wfA R).
  - apply (r_wfR R).
  - apply (r_invA R).
  - unfold inv; cbn [sto nxt]. eapply store_bounded_mono; [exact L|apply (r_invR R)].
  - apply (r_den R).
  - apply (r_free R).
Qed.

Lemma rel_vals_mono p sA sR p' sA' sR' la lb :
  rel_st p sA sR -> rel_st p' sA' sR' -> agree (nxt sA) p p' -> grows sA sA' -> grows sR sR' ->
  Forall2 (rel_val p sA sR) la lb -> Forall2 (rel_val p' sA' sR') la lb.
Proof.
  intros R R' A GA GR H. induction H as [|a b la lb V H IH]; constructor; [|exact IH].
  exact (rel_val_mono _ _ _ _ _ _ _ _ R R' A GA GR V).
Qed.

Lemma arr_rel : forall xsA xsR ysA ysR p sA sR, rel_st p sA sR ->
  Forall2 (rel_val p sA sR) xsA xsR -> Forall2 (rel_val p sA sR) ysA ysR ->
  match arr (unify_fast ufuel) xsA ysA (sto sA) with
  | UOk s1 => exists s1R, arr (unify_fast ufuel) xsR ysR (sto sR) = UOk s1R /\
                rel_st p {| sto := s1; nxt := nxt sA |} {| sto := s1R; nxt := nxt sR |} /\
                ext (sto sA) s1 /\ ext (sto sR) s1R
  | r => arr (unify_fast ufuel) xsR ysR (sto sR) = r
  end.
Proof.
  induction xsA as [|a la IH]; intros xsR ysA ysR p sA sR R X Y.
  - inversion X; subst. inversion Y; subst; cbn [arr]; [|reflexivity].
    exists (sto sR). rewrite !st_eta_. split; [reflexivity|]. split; [exact R|split; apply ext_refl].
  - inversion X as [|? aR ? lR Va X']; subst. inversion Y as [|b bR lb lbR Vb Y']; subst; cbn [arr]; [reflexivity|].
    pose proof (unify_fast_rel p sA sR a b aR bR ufuel R Va Vb) as H.
    destruct (unify_fast ufuel (sto sA) a b) as [s1| | |]; try (rewrite H; reflexivity).
    destruct H as [s1R [U [R1 [XA XR]]]]. rewrite U.
    set (xA := {| sto := s1; nxt := nxt sA |}) in *. set (xR := {| sto := s1R; nxt := nxt sR |}) in *.
    assert (GA: grows sA xA) by (split; cbn; [lia|exact XA]).
    assert (GR: grows sR xR) by (split; cbn; [lia|exact XR]).
    pose proof (IH lR lb lbR p xA xR R1
      (rel_vals_mono _ _ _ _ _ _ _ _ R R1 (agree_refl _ _) GA GR X')
      (rel_vals_mono _ _ _ _ _ _ _ _ R R1 (agree_refl _ _) GA GR Y')) as H2.
    cbn [sto nxt xA xR] in H2.
    destruct (arr (unify_fast ufuel) la lb s1) as [s2| | |]; try exact H2.
    destruct H2 as [s2R [U2 [R2 [XA2 XR2]]]]. exists s2R. split; [exact U2|]. split; [exact R2|].
    split; [eapply ext_trans; eauto|eapply ext_trans; eauto].
Qed.

(* the row r unified with related goal arguments: on the left its variables are the cells nxt sA .., on the right the
   cells kR .. for any kR >= nxt sR *)
Lemma row_rel r p sA sR kR argsA argsR :
  frow_ok r -> rel_st p sA sR -> nxt sR <= kR -> Forall2 (rel_val p sA sR) argsA argsR ->
  match arr (unify_fast ufuel) argsA (row_terms r sA) (sto sA) with
  | UOk s1 => exists s1R, arr (unify_fast ufuel) argsR (map (tshift kR) (r_vals r)) (sto sR) = UOk s1R /\
                ans_rel p sA sR {| sto := s1; nxt := nxt sA + r_nv r |} {| sto := s1R; nxt := kR + r_nv r |}
  | x => arr (unify_fast ufuel) argsR (map (tshift kR) (r_vals r)) (sto sR) = x
  end.
Proof.
  intros OK R L E. unfold row_terms.
  pose proof (rel_st_growR p sA sR kR R L) as R0.
  set (sRk := {| sto := sto sR; nxt := kR |}) in *.
  set (nv := r_nv r) in *.
  set (q := fun a => kR + (a - nxt sA)).
  assert (Qinj: forall a b, nxt sA <= a -> a < nxt sA + nv -> nxt sA <= b -> b < nxt sA + nv -> q a = q b -> a = b)
    by (intros a b L1 L2 L3 L4 Eq; unfold q in Eq; lia).
  assert (Qimg: forall a, nxt sA <= a -> a < nxt sA + nv -> nxt sRk <= q a /\ q a < nxt sRk + nv)
    by (intros a L1 L2; unfold q; cbn [nxt sRk]; lia).
  destruct (block_rel p sA sRk q nv nv R0 Qinj Qimg) as [R1 A1]. cbn zeta in R1, A1. cbn [sto nxt sRk] in R1.
  set (p' := fun a => if Nat.ltb a (nxt sA) then p a else q a) in *.
  set (SA1 := {| sto := sto sA; nxt := nxt sA + nv |}) in *. set (SR1 := {| sto := sto sR; nxt := kR + nv |}) in *.
  assert (GA: grows sA SA1) by (split; cbn; [lia|apply ext_refl]).
  assert (GR: grows sR SR1) by (split; cbn; [lia|apply ext_refl]).
  assert (Pn: forall i, i < nv -> p' (i + nxt sA) = i + kR).
  { intros i Li. unfold p', q. destruct (Nat.ltb_spec (i + nxt sA) (nxt sA)); lia. }
  assert (Y: Forall2 (rel_val p' SA1 SR1) (map (tshift (nxt sA)) (r_vals r)) (map (tshift kR) (r_vals r))).
  { unfold frow_ok in OK. fold nv in OK. induction OK as [|t l Bt Bl IHl]; cbn [map]; constructor; [|exact IHl].
    split; [cbn [nxt SA1]; apply tshift_bounded; exact Bt|]. split; [cbn [nxt SR1]; apply tshift_bounded; exact Bt|].
    cbn [sto SA1 SR1].
    rewrite (tshift_den_id (nxt sR) (sto sR) kR t (r_invR R) L).
    rewrite (tshift_den_id (nxt sA) (sto sA) (nxt sA) t (r_invA R) (le_n _)).
    symmetry. apply (ren_tshift p' (nxt sA) kR nv t Pn Bt). }
  pose proof (arr_rel argsA argsR _ _ p' SA1 SR1 R1 (rel_vals_mono _ _ _ _ _ _ _ _ R R1 A1 GA GR E) Y) as H.
  cbn [sto nxt SA1 SR1] in H.
  destruct (arr (unify_fast ufuel) argsA (map (tshift (nxt sA)) (r_vals r)) (sto sA)) as [s1| | |]; try exact H.
  destruct H as [s1R [U [R2 [XA XR]]]]. exists s1R. split; [exact U|].
  exists p'. split; [exact R2|]. split; [exact A1|].
  split; [split; cbn [sto nxt]; [lia|exact XA]|]. split; [split; cbn [sto nxt]; [lia|exact XR]|].
  intros a L1 L2. cbn [nxt] in L2. unfold p', q. destruct (Nat.ltb_spec a (nxt sA)); lia.
Qed.

(* the row loop (stored facts; Python predicate over rows) from related states *)
Lemma match_rows_rel rows : Forall frow_ok rows -> forall p sA sR argsA argsR,
  rel_st p sA sR -> Forall2 (rel_val p sA sR) argsA argsR ->
  res_rel p sA sR (match_rows rows argsA sA) (match_rows rows argsR sR).
Proof.
  induction 1 as [|r rest OK F IH]; intros p sA sR argsA argsR R E; cbn [match_rows].
  - split; [constructor|reflexivity].
  - unfold unify_arrays_fast, row_terms. rewrite !map_length, <- (Forall2_length_eq _ _ _ E).
    destruct (Nat.eqb (length argsA) (length (r_vals r))); [|apply IH; assumption].
    pose proof (row_rel r p sA sR (nxt sR) argsA argsR OK R (le_n _) E) as H. unfold row_terms in H.
    destruct (IH p sA sR argsA argsR R E) as [Q1 Q2].
    destruct (arr (unify_fast ufuel) argsA (map (tshift (nxt sA)) (r_vals r)) (sto sA)) as [s1| | |].
    + destruct H as [s1R [U HA]]. rewrite U.
      destruct (match_rows rest argsA sA) as [zsA eA], (match_rows rest argsR sR) as [zsR eR]. cbn [fst snd] in *.
      split; [constructor; assumption|exact Q2].
    + rewrite H. split; assumption.
    + rewrite H. split; [constructor|reflexivity].
    + rewrite H. split; [constructor|reflexivity].
Qed.

(* ------------------------------------------------------------------ the row of a source fact *)

(* the variables of a row in order of first occurrence - what the compiler declares for a clause without aliased
   arguments, and how the Python predicate of the check numbers them *)
Definition row_vars (row : list sterm) : list str := filter_free [] (flat_map sterm_vars row).
Definition row_env (vs : list str) (off : nat) : env := fst (fresh_env vs [] off).
Definition row_of_src (row : list sterm) : frow :=
  {| r_vals := map (instA (row_env (row_vars row) 0)) row; r_nv := length (row_vars row) |}.

Lemma env_get_app x a b : env_get x (a ++ b) = match env_get x a with Some t => Some t | None => env_get x b end.
Proof. induction a as [|[k t] r IH]; cbn [app env_get]; [reflexivity|]. destruct (str_eqb x k); [reflexivity|exact IH]. Qed.

Lemma fresh_env_fst vs r k : fst (fresh_env vs r k) = row_env vs k ++ r.
Proof. unfold row_env. rewrite !fresh_env_cells. cbn [fst]. rewrite app_nil_r. reflexivity. Qed.

Lemma fresh_env_snd vs r k : snd (fresh_env vs r k) = k + length vs.
Proof. rewrite fresh_env_cells. reflexivity. Qed.

Lemma fresh_env_shift off vs : forall r0 r1 k,
  (forall x, env_get x r1 = option_map (tshift off) (env_get x r0)) ->
  forall x, env_get x (fst (fresh_env vs r1 (k + off))) = option_map (tshift off) (env_get x (fst (fresh_env vs r0 k))).
Proof.
  induction vs as [|v l IH]; intros r0 r1 k H x; cbn [fresh_env]; [apply H|].
  apply (IH ((pyvar v, TVar k) :: r0) ((pyvar v, TVar (k + off)) :: r1) (S k)).
  intros y. cbn [env_get]. destruct (str_eqb y (pyvar v)); [reflexivity|apply H].
Qed.

Lemma row_env_shift vs off x : env_get x (row_env vs off) = option_map (tshift off) (env_get x (row_env vs 0)).
Proof. unfold row_env. apply (fresh_env_shift off vs [] [] 0). intros y. reflexivity. Qed.

Lemma instA_tshift off r0 r1 : (forall x, env_get x r1 = option_map (tshift off) (env_get x r0)) ->
  forall t, instA r1 t = tshift off (instA r0 t).
Proof.
  intros H t. induction t as [a|n|v|f args IH|items IH|h t IHh IHt] using sterm_ind'; cbn [instA].
  - reflexivity.
  - reflexivity.
  - rewrite H. destruct (env_get (pyvar v) r0); reflexivity.
  - rewrite tshift_fun, map_map. f_equal. apply map_ext_in. intros y Hy. exact (proj1 (Forall_forall _ _) IH y Hy).
  - rewrite tshift_mk_list, map_map. f_equal. apply map_ext_in. intros y Hy. exact (proj1 (Forall_forall _ _) IH y Hy).
  - unfold cons_term. cbn [tshift]. rewrite IHh, IHt. reflexivity.
Qed.

Lemma instA_ext_on r r' t : (forall v, In v (sterm_vars t) -> env_get (pyvar v) r = env_get (pyvar v) r') ->
  instA r t = instA r' t.
Proof.
  induction t as [a|n|v|f args IH|items IH|h t IHh IHt] using sterm_ind'; intros H; cbn [instA].
  - reflexivity.
  - reflexivity.
  - rewrite (H v); [reflexivity|left; reflexivity].
  - f_equal. apply map_ext_in. intros y Hy. apply (proj1 (Forall_forall _ _) IH y Hy).
    intros v Hv. apply H. cbn [sterm_vars]. apply in_flat_map. exists y. split; assumption.
  - f_equal. apply map_ext_in. intros y Hy. apply (proj1 (Forall_forall _ _) IH y Hy).
    intros v Hv. apply H. cbn [sterm_vars]. apply in_flat_map. exists y. split; assumption.
  - rewrite IHh, IHt; [reflexivity| |]; intros v Hv; apply H; cbn [sterm_vars]; apply in_or_app; auto.
Qed.

Lemma fresh_env_has v vs : forall r k, In v vs \/ env_get (pyvar v) r <> None ->
  env_get (pyvar v) (fst (fresh_env vs r k)) <> None.
Proof.
  induction vs as [|v0 l IH]; intros r k H; cbn [fresh_env].
  - destruct H as [[]|H]; exact H.
  - apply IH. destruct H as [[->|Hin]|Hr].
    + right. cbn [env_get]. rewrite str_eqb_refl. discriminate.
    + left. exact Hin.
    + right. cbn [env_get]. destruct (str_eqb (pyvar v) (pyvar v0)); [discriminate|exact Hr].
Qed.

Lemma argvar_not_pyvar j v : str_eqb (argvar j) (pyvar v) = false.
Proof. reflexivity. Qed.

Lemma fresh_env_argvar j vs : forall r k, env_get (argvar j) (fst (fresh_env vs r k)) = env_get (argvar j) r.
Proof.
  induction vs as [|v0 l IH]; intros r k; cbn [fresh_env]; [reflexivity|].
  rewrite IH. cbn [env_get]. rewrite argvar_not_pyvar. reflexivity.
Qed.

Lemma row_of_src_ok row : frow_ok (row_of_src row).
Proof.
  unfold frow_ok, row_of_src. cbn [r_vals r_nv]. apply Forall_forall. intros t Ht. apply in_map_iff in Ht as [a [<- _]].
  apply instA_bounded. unfold row_env.
  destruct (fresh_env (row_vars row) [] 0) as [r2 k2] eqn:E. destruct (fresh_env_spec _ _ _ _ _ E) as [Ek B].
  cbn [fst]. subst k2. cbn in B. apply B. intros x t [].
Qed.

(* ------------------------------------------------------------------ the clause p(row). without aliased arguments *)

Definition noalias (row : list sterm) : Prop := head_args_by_pos row = map (fun _ => None) row.

Lemma ground_noalias row : ground_row row = true -> noalias row.
Proof. intros G. exact (fact_pos (s_ "p") row G). Qed.

Lemma alias_none (row : list sterm) r : forall i, alias_env i (map (fun _ => None) row) r = r.
Proof. induction row as [|a l IH]; intros i; [reflexivity|]. cbn [map alias_env]. apply IH. Qed.

Lemma noalias_enter name row rR s : noalias row ->
  clause_enter (fact_clause name row) (rR, s) =
  (row_env (row_vars row) (nxt s) ++ rR, {| sto := sto s; nxt := nxt s + length (row_vars row) |}).
Proof.
  intros NA. unfold clause_enter, clause_fv_head, clause_fv_body, clause_pos. cbn [fact_clause c_args c_body body_vars].
  rewrite NA, some_list_none, alias_none. cbn [app]. fold (row_vars row).
  change (filter_free (row_vars row) []) with (@nil str). rewrite app_nil_r.
  destruct (fresh_env (row_vars row) rR (nxt s)) as [r2 k] eqn:E.
  pose proof (fresh_env_fst (row_vars row) rR (nxt s)) as E1. pose proof (fresh_env_snd (row_vars row) rR (nxt s)) as E2.
  rewrite E in E1, E2. cbn [fst snd] in E1, E2. subst. reflexivity.
Qed.

Lemma noalias_head_terms row rR k : map (instA (row_env (row_vars row) k ++ rR)) row = map (tshift k) (r_vals (row_of_src row)).
Proof.
  cbn [row_of_src r_vals]. rewrite map_map. apply map_ext_in. intros a Ha.
  rewrite <- (instA_tshift k (row_env (row_vars row) 0) (row_env (row_vars row) k) (row_env_shift _ k) a).
  apply instA_ext_on. intros v Hv. rewrite env_get_app.
  assert (In v (row_vars row)) as Hin.
  { destruct (EmitShape.filter_free_cover [] (flat_map sterm_vars row) v) as [[]|H]; [|exact H].
    apply in_flat_map. exists a. split; assumption. }
  pose proof (fresh_env_has v (row_vars row) [] k (or_introl Hin)) as NN. fold (row_env (row_vars row) k) in NN.
  destruct (env_get (pyvar v) (row_env (row_vars row) k)); [reflexivity|congruence].
Qed.

Lemma noalias_argval row rR k j : argval j (row_env (row_vars row) k ++ rR) = argval j rR.
Proof. unfold argval. rewrite <- fresh_env_fst, fresh_env_argvar. reflexivity. Qed.

(* the Python predicate's row loop (left) and the clause loop of the compiled facts (right; entered with the cells of
   the earlier clauses already allocated: sRk) from related states *)
Section FactsRows.
Variable call : str -> list term -> st -> list st * bool.
Variable name : str.

Lemma facts_rows_rel rows : forall p sA sR argsA argsR rR sRk,
  rel_st p sA sR -> Forall2 (rel_val p sA sR) argsA argsR ->
  Forall (fun row => noalias row /\ length row = length argsA) rows ->
  sto sRk = sto sR -> nxt sR <= nxt sRk -> (forall j, argval j rR = argval j (bind_args 0 argsR)) ->
  Forall2 (ans_rel p sA sR) (fst (match_rows (map row_of_src rows) argsA sA))
                            (map snd (fst (clausesA call (map (fact_clause name) rows) (rR, sRk)))) /\
  snd (match_rows (map row_of_src rows) argsA sA) =
  match snd (clausesA call (map (fact_clause name) rows) (rR, sRk)) with FErr => true | _ => false end.
Proof.
  induction rows as [|row rest IH]; intros p sA sR argsA argsR rR sRk R E F ES LS AV.
  - cbn. split; [constructor|reflexivity].
  - inversion F as [|? ? [NA L] Fr]; subst.
    cbn [map clausesA match_rows]. rewrite (noalias_enter name row rR sRk NA).
    set (r2 := row_env (row_vars row) (nxt sRk) ++ rR).
    set (s2 := {| sto := sto sRk; nxt := nxt sRk + length (row_vars row) |}).
    unfold clause_res, clause_pos. cbn [fact_clause c_args c_body]. rewrite NA.
    rewrite head_unify_arr. cbn [sto nxt s2]. replace (map (instA r2) row) with (map (tshift (nxt sRk)) (r_vals (row_of_src row))) by (symmetry; apply noalias_head_terms).
    assert (EA: map (fun j => argval j r2) (seq 0 (length row)) = argsR).
    { rewrite L, (Forall2_length_eq _ _ _ E). rewrite <- (argvals_bind argsR) at 2. apply map_ext. intros j.
      unfold r2. rewrite noalias_argval. apply AV. }
    rewrite EA, ES.
    unfold unify_arrays_fast, row_terms. rewrite !map_length. cbn [row_of_src r_vals]. rewrite map_length, L, Nat.eqb_refl.
    pose proof (row_rel (row_of_src row) p sA sR (nxt sRk) argsA argsR (row_of_src_ok row) R LS E) as H.
    unfold row_terms in H. cbn [row_of_src r_vals r_nv] in H.
    assert (IH': Forall2 (ans_rel p sA sR) (fst (match_rows (map row_of_src rest) argsA sA))
                   (map snd (fst (clausesA call (map (fact_clause name) rest) (r2, s2)))) /\
                 snd (match_rows (map row_of_src rest) argsA sA) =
                 match snd (clausesA call (map (fact_clause name) rest) (r2, s2)) with FErr => true | _ => false end).
    { apply (IH p sA sR argsA argsR r2 s2 R E Fr); cbn [sto nxt s2]; [exact ES|lia|].
      intros j. unfold r2. rewrite noalias_argval. apply AV. }
    destruct IH' as [Q1 Q2].
    destruct (arr (unify_fast ufuel) argsA (map (tshift (nxt sA)) (map (instA (row_env (row_vars row) 0)) row)) (sto sA)) as [s1| | |].
    + destruct H as [s1R [U HA]]. rewrite U. cbn [NativeFacts.lift sem].
      destruct (match_rows (map row_of_src rest) argsA sA) as [zsA eA].
      destruct (clausesA call (map (fact_clause name) rest) (r2, s2)) as [zsR gR]. cbn [fst snd map app] in *.
      split; [constructor; [exact HA|exact Q1]|exact Q2].
    + rewrite H. cbn [NativeFacts.lift].
      destruct (match_rows (map row_of_src rest) argsA sA) as [zsA eA].
      destruct (clausesA call (map (fact_clause name) rest) (r2, s2)) as [zsR gR]. cbn [fst snd map app] in *.
      split; assumption.
    + rewrite H. cbn [NativeFacts.lift fst snd map]. split; [constructor|reflexivity].
    + rewrite H. cbn [NativeFacts.lift fst snd map]. split; [constructor|reflexivity].
Qed.
End FactsRows.

(* ------------------------------------------------------------------ native_equals_compiled_facts, rows with variables *)

(* the generator function compiled from name(row_1). ... name(row_n). and the Python predicate over the same rows, called
   from related states with related arguments (in particular: from the same state with the same arguments), deliver the
   same number of answers, in the same order, ending the same way, the k-th answers related by an injective renaming of
   the cells created by the call *)
Theorem native_equals_compiled_facts_rel call name rows vals cnt code cnt' p sA sR argsA argsR :
  compile_clauses (map (fact_clause name) rows) cnt = Some (code, cnt') ->
  Forall (fun row => noalias row /\ length row = length argsA) rows ->
  rel_st p sA sR -> Forall2 (rel_val p sA sR) argsA argsR ->
  res_rel p sA sR (drop (native_rows (map row_of_src rows) vals argsA sA))
    (let '(ys, k) := run_function (iter call) assign code (bind_args 0 argsR, sR) in
     (map snd ys, match k with CErr => true | _ => false end)).
Proof.
  intros HC F R E. rewrite drop_native_rows. unfold run_function.
  assert (G : Forall good_clause (map (fact_clause name) rows)).
  { apply Forall_forall. intros c Hc. apply in_map_iff in Hc as [row [<- _]]. apply fact_good. }
  destruct (clauses_ok call (map (fact_clause name) rows) cnt code cnt' (bind_args 0 argsR, sR) flags0 HC G eq_refl) as [f' [EQ _]].
  rewrite EQ.
  destruct (facts_rows_rel call name rows p sA sR argsA argsR (bind_args 0 argsR) sR R E F eq_refl (le_n _) (fun j => eq_refl))
    as [Q1 Q2].
  destruct (clausesA call (map (fact_clause name) rows) (bind_args 0 argsR, sR)) as [ys g]. cbn [fst snd] in *.
  unfold res_rel. destruct g; cbn [fst snd]; split; assumption.
Qed.

Lemma res_rel_same_answer s rA rR : res_rel id_ren s s rA rR ->
  Forall2 (same_answer s) (fst rA) (fst rR) /\ snd rA = snd rR.
Proof.
  intros [H1 H2]. split; [|exact H2].
  induction H1 as [|xA xR lA lR [p' [R' [A' [GA [GR F']]]]] H IH]; constructor; [|exact IH].
  exists p'. split; [apply (r_inj R')|]. split; [intros a La; symmetry; apply (A' a La)|].
  intros q Lq. assert (Lq': q < nxt xA) by (destruct GA as [GA _]; lia).
  pose proof (r_den R' q Lq') as D. rewrite <- (A' q Lq) in D. exact D.
Qed.

Lemma rel_vals_id s args : wf (sto s) -> inv s -> Forall (bounded (nxt s)) args -> Forall2 (rel_val id_ren s s) args args.
Proof.
  intros W I B. induction B as [|a l Ba Bl IH]; constructor; [|exact IH].
  split; [exact Ba|]. split; [exact Ba|]. rewrite ren_id. reflexivity.
Qed.

Theorem native_equals_compiled_facts_renaming call name rows vals cnt code cnt' args s :
  compile_clauses (map (fact_clause name) rows) cnt = Some (code, cnt') ->
  Forall (fun row => noalias row /\ length row = length args) rows ->
  wf (sto s) -> inv s -> Forall (bounded (nxt s)) args ->
  let rN := drop (native_rows (map row_of_src rows) vals args s) in
  let rC := (let '(ys, k) := run_function (iter call) assign code (bind_args 0 args, s) in
             (map snd ys, match k with CErr => true | _ => false end)) in
  Forall2 (same_answer s) (fst rN) (fst rC) /\ snd rN = snd rC.
Proof.
  intros HC F W I B. cbv zeta. apply res_rel_same_answer.
  apply (native_equals_compiled_facts_rel call name rows vals cnt code cnt' id_ren s s args args HC F (rel_st_id s W I)
           (rel_vals_id s args W I B)).
Qed.

(* ground rows: the old statement is the special case *)
Lemma row_of_src_ground row : ground_row row = true -> row_of_src row = row_of row.
Proof.
  intros G. unfold row_of_src, row_of, row_vars. rewrite (ground_row_vars row G). cbn. f_equal.
Qed.

(* ------------------------------------------------------------------ the aliased row p(X).: refuted for same_answer *)

Definition cx_rows : list (list sterm) := [[SVar (s_ "X")]].
Definition cx_code : list stmt :=
  match compile_clauses (map (fact_clause (s_ "p")) cx_rows) 0 with Some (c, _) => c | None => [] end.
Definition cx_s : st := {| sto := []; nxt := 1 |}.
Definition cx_call : str -> list term -> st -> list st * bool := fun _ _ _ => ([], false).
Definition cx_native : st := {| sto := [(0, TVar 1)]; nxt := 2 |}.     (* the query's variable is bound to the row's fresh one *)
Definition cx_compiled : st := {| sto := []; nxt := 1 |}.              (* nothing is bound *)

Theorem native_equals_compiled_facts_same_answer_refuted :
  compile_clauses (map (fact_clause (s_ "p")) cx_rows) 0 = Some (cx_code, 0) /\
  wf (sto cx_s) /\ inv cx_s /\ Forall (bounded (nxt cx_s)) [TVar 0] /\
  drop (native_rows (map row_of_src cx_rows) [] [TVar 0] cx_s) = ([cx_native], false) /\
  (let '(ys, k) := run_function (iter cx_call) assign cx_code (bind_args 0 [TVar 0], cx_s) in
   (map snd ys, match k with CErr => true | _ => false end)) = ([cx_compiled], false) /\
  ~ same_answer cx_s cx_native cx_compiled /\ ~ same_answer cx_s cx_compiled cx_native.
Proof.
  split; [reflexivity|]. split; [constructor|]. split; [intros v t []|].
  split; [constructor; [apply bounded_var; cbn; lia|constructor]|].
  split; [vm_compute; reflexivity|]. split; [vm_compute; reflexivity|]. split.
  - intros [p' [Inj [Id D]]]. specialize (D 0 (le_n 1)). specialize (Id 0 (le_n 1)). cbn in D, Id.
    injection D as D. assert (1 = 0) as X by (apply Inj; cbn; lia). discriminate.
  - intros [p' [Inj [Id D]]]. specialize (D 0 (le_n 1)). specialize (Id 0 (le_n 1)). cbn in D, Id.
    injection D as D. lia.
Qed.

(* ------------------------------------------------------------------ the clauses of the program, on both sides *)

Lemma alias_env_rel p sA sR pos : forall i rA rR, rel_env p sA sR rA rR ->
  rel_env p sA sR (alias_env i pos rA) (alias_env i pos rR).
Proof.
  induction pos as [|[v|] pr IH]; intros i rA rR E; cbn [alias_env]; auto.
  apply IH. constructor; [|exact E]. split; [reflexivity|]. cbn [snd]. apply argval_rel. exact E.
Qed.

Lemma enter_relAA c p sA sR rA rR : rel_st p sA sR -> rel_env p sA sR rA rR ->
  exists p', rel_st p' (snd (clause_enter c (rA, sA))) (snd (clause_enter c (rR, sR))) /\ agree (nxt sA) p p' /\
    grows sA (snd (clause_enter c (rA, sA))) /\ grows sR (snd (clause_enter c (rR, sR))) /\
    rel_env p' (snd (clause_enter c (rA, sA))) (snd (clause_enter c (rR, sR)))
               (fst (clause_enter c (rA, sA))) (fst (clause_enter c (rR, sR))) /\
    (forall a, nxt sA <= a -> a < nxt (snd (clause_enter c (rA, sA))) -> nxt sR <= p' a).
Proof.
  intros R E. unfold clause_enter.
  pose proof (alias_env_rel p sA sR (clause_pos c) 0 rA rR E) as E1.
  destruct (fresh_rel (clause_fv_head c ++ clause_fv_body c) p sA sR _ _ R E1) as [p' [R' [A' [E' F']]]].
  pose proof (fresh_env_snd (clause_fv_head c ++ clause_fv_body c) (alias_env 0 (clause_pos c) rA) (nxt sA)) as LA.
  pose proof (fresh_env_snd (clause_fv_head c ++ clause_fv_body c) (alias_env 0 (clause_pos c) rR) (nxt sR)) as LR.
  destruct (fresh_env (clause_fv_head c ++ clause_fv_body c) (alias_env 0 (clause_pos c) rA) (nxt sA)) as [rA2 kA].
  destruct (fresh_env (clause_fv_head c ++ clause_fv_body c) (alias_env 0 (clause_pos c) rR) (nxt sR)) as [rR2 kR].
  cbn [fst snd] in *. exists p'.
  split; [exact R'|]. split; [exact A'|].
  split; [split; cbn [sto nxt]; [lia|apply ext_refl]|]. split; [split; cbn [sto nxt]; [lia|apply ext_refl]|].
  split; [exact E'|exact F'].
Qed.

Section ActivationAA.
Variables cA cR : str -> list term -> st -> list st * bool.
Hypothesis Hcall : call_rel cA cR.
Variable p0 : nat -> nat.
Variables sA0 sR0 : st.

Lemma clausesAA_rel cs : forall c1 c2, cfg_rel0 p0 sA0 sR0 c1 c2 ->
  Forall2 (cfg_rel0 p0 sA0 sR0) (fst (clausesA cA cs c1)) (fst (clausesA cR cs c2)) /\
  snd (clausesA cA cs c1) = snd (clausesA cR cs c2).
Proof.
  induction cs as [|c rest IH]; intros c1 c2 H; cbn [clausesA]; [split; [constructor|reflexivity]|].
  destruct c1 as [rA sA], c2 as [rR sR]. destruct H as [p1 [R1 [E1 [A1 [GA [GR F1]]]]]]. cbn [fst snd] in *.
  destruct (enter_relAA c p1 sA sR rA rR R1 E1) as [p2 [R2 [A2 [GA2 [GR2 [E2 F2]]]]]].
  assert (H1: cfg_rel0 p0 sA0 sR0 (clause_enter c (rA, sA)) (clause_enter c (rR, sR))).
  { exists p2. split; [exact R2|]. split; [exact E2|].
    split; [eapply agree_trans; [apply GA|exact A1|exact A2]|].
    split; [exact (grows_trans _ _ _ GA GA2)|]. split; [exact (grows_trans _ _ _ GR GR2)|].
    intros a L1 L2. destruct (Nat.lt_ge_cases a (nxt sA)) as [L|L].
    - rewrite <- (A2 a L). apply F1; assumption.
    - pose proof (F2 a L L2) as H. destruct GR as [GR _]. lia. }
  destruct (clause_res_rel cA cR Hcall p0 sA0 sR0 c _ _ H1) as [Q1 Q2].
  destruct (clause_res cA c (clause_enter c (rA, sA))) as [ysA fA], (clause_res cR c (clause_enter c (rR, sR))) as [ysR fR].
  cbn [fst snd] in *. subst fR.
  destruct fA; try (split; [exact Q1|reflexivity]).
  destruct (IH _ _ H1) as [Q3 Q4].
  destruct (clausesA cA rest (clause_enter c (rA, sA))) as [zsA gA], (clausesA cR rest (clause_enter c (rR, sR))) as [zsR gR].
  cbn [fst snd] in *. split; [apply Forall2_app; assumption|exact Q4].
Qed.
End ActivationAA.

(* ------------------------------------------------------------------ programs: Python predicates vs compiled facts *)

Definition py_fun_src (x : list (list sterm) * list bool) : nfun := native_rows (map row_of_src (fst x)) (snd x).
Definition py_table_src (l : list pyspec) : list (str * nat * nfun) := map (fun e => (fst e, py_fun_src (snd e))) l.

(* stored facts are closed rows: their variables are 0 .. r_nv-1 (what assert_fact's copy produces) *)
Definition dyn_ok (dynl : list (str * nat * list frow)) : Prop := Forall (fun e => Forall frow_ok (snd e)) dynl.

Lemma dyn_ok_lookup dynl name k : dyn_ok dynl ->
  Forall frow_ok (match lookup_fix dynl name k with Some rows => rows | None => [] end).
Proof.
  induction dynl as [|[[n0 k0] rows] r IH]; intros H; cbn [lookup_fix]; [constructor|].
  inversion H; subst. destruct (key_eq (n0, k0) (name, k)); [assumption|apply IH; assumption].
Qed.

Section SourceRel.
Variables rules P : program.
Variables ir irf : ir_program.
Variable specs : list pyspec.
Variable dynl : list (str * nat * list frow).
Hypothesis Hrules : compile_program rules = Some ir.
Hypothesis HP : compile_program P = Some irf.
Hypothesis Grules : good_program rules.
Hypothesis GP : good_program P.
Hypothesis Hdyn : dyn_ok dynl.
(* P = rules + the facts of the replaced predicates; rows with variables allowed, no aliased head argument *)
Hypothesis Hsplit : forall name k,
  match lookup_fix specs name k with
  | Some (rows, vals) => rows <> [] /\ Forall (fun row => noalias row /\ length row = k) rows /\
                         clauses_for P name k = map (fact_clause name) rows
  | None => clauses_for P name k = clauses_for rules name k
  end.

Definition w_python_src : world := mk_world ir (py_table_src specs) [] dynl.

Lemma call_function_rel cA cR : call_rel cA cR -> forall p sA sR name argsA argsR,
  rel_st p sA sR -> Forall2 (rel_val p sA sR) argsA argsR ->
  res_rel p sA sR (call_function cA w_python_src name argsA sA) (call_function cR (w_compiled irf dynl) name argsR sR).
Proof.
  intros Hc p sA sR name argsA argsR R E.
  pose proof (Forall2_length_eq _ _ _ E) as EL.
  unfold call_function. cbn [w_python_src w_compiled mk_world w_fix w_ir w_var lookup_fix lookup_var].
  unfold py_table_src. rewrite lookup_fix_map. rewrite <- EL.
  pose proof (Hsplit name (length argsA)) as Hs.
  pose proof (compiled_key_run P irf cR name argsR sR HP GP) as RP. rewrite <- EL in RP.
  destruct (lookup_fix specs name (length argsA)) as [[rows vals]|]; cbn [option_map].
  - destruct Hs as [NE [Fr EC]]. rewrite EC in RP.
    destruct (map (fact_clause name) rows) as [|c0 cs0] eqn:EM; [destruct rows; [congruence|discriminate]|].
    destruct RP as [f [HF RUN]]. rewrite HF, RUN. rewrite <- EM.
    unfold py_fun_src. cbn [fst snd]. rewrite drop_native_rows.
    destruct (facts_rows_rel cR name rows p sA sR argsA argsR (bind_args 0 argsR) sR R E Fr eq_refl (le_n _) (fun j => eq_refl))
      as [Q1 Q2].
    split; cbn [fst snd]; assumption.
  - pose proof (compiled_key_run rules ir cA name argsA sA Hrules Grules) as RR. rewrite Hs in RP.
    destruct (clauses_for rules name (length argsA)) as [|c cs].
    + rewrite RR, RP.
      pose proof (builtin_rel cA cR Hc p sA sR name argsA argsR R E) as HB.
      destruct (str_eqb name (s_ "call")); destruct (builtin cA name argsA sA) as [rA|], (builtin cR name argsR sR) as [rR|];
        try contradiction; try exact HB; (split; [apply Forall2_nil|reflexivity]).
    + destruct RR as [f1 [HF1 RUN1]]. destruct RP as [f2 [HF2 RUN2]]. rewrite HF1, HF2, RUN1, RUN2.
      assert (H0: cfg_rel0 p sA sR (bind_args 0 argsA, sA) (bind_args 0 argsR, sR)).
      { exists p. cbn [fst snd]. split; [exact R|]. split; [apply bind_args_rel; exact E|].
        split; [apply agree_refl|]. split; [apply grows_refl|]. split; [apply grows_refl|]. intros a L1 L2; lia. }
      destruct (clausesAA_rel cA cR Hc p sA sR (c :: cs) _ _ H0) as [Q1 Q2].
      destruct (clausesA cA (c :: cs) (bind_args 0 argsA, sA)) as [ysA fA].
      destruct (clausesA cR (c :: cs) (bind_args 0 argsR, sR)) as [ysR fR]. cbn [fst snd] in *. subst fR.
      split; [|reflexivity]. cbn [fst]. clear RUN1 RUN2.
      induction Q1 as [|[rA xA] [rR xR] lA lR [p' [R' [_ [A' [GA [GR F']]]]]] Q IHQ]; cbn [map]; [constructor|].
      constructor; [|exact IHQ]. exists p'. cbn [fst snd] in *. auto.
Qed.

(* one level of YP.query *)
Lemma nstep_rel cA cR : call_rel cA cR -> call_rel (nstep cA w_python_src) (nstep cR (w_compiled irf dynl)).
Proof.
  intros Hc p sA sR name argsA argsR R E. unfold nstep. cbn [w_python_src w_compiled mk_world w_dyn].
  rewrite <- (Forall2_length_eq _ _ _ E).
  destruct (match_rows_rel _ (dyn_ok_lookup dynl name (length argsA) Hdyn) p sA sR argsA argsR R E) as [D1 D2].
  destruct (match_rows match lookup_fix dynl name (length argsA) with Some rows => rows | None => [] end argsA sA) as [dsA deA].
  destruct (match_rows match lookup_fix dynl name (length argsA) with Some rows => rows | None => [] end argsR sR) as [dsR deR].
  cbn [fst snd] in *. subst deR.
  destruct deA; [split; [exact D1|reflexivity]|].
  destruct (Resolve.reserved name); [split; [exact D1|reflexivity]|].
  destruct (call_function_rel cA cR Hc p sA sR name argsA argsR R E) as [Q1 Q2].
  destruct (call_function cA w_python_src name argsA sA) as [fsA feA].
  destruct (call_function cR (w_compiled irf dynl) name argsR sR) as [fsR feR]. cbn [fst snd] in *.
  split; [apply Forall2_app; assumption|exact Q2].
Qed.

(* subset_interchangeable for rows with variables: the engine with Python predicates and the all-compiled engine are in
   the relation call_rel of Sem/RenameSim.v at every depth *)
Theorem source_call_rel : forall n, call_rel (nquery n w_python_src) (nquery n (w_compiled irf dynl)).
Proof.
  induction n as [|n IH]; intros p sA sR f argsA argsR R E; [split; [constructor|reflexivity]|].
  cbn [nquery]. exact (nstep_rel _ _ IH p sA sR f argsA argsR R E).
Qed.

Theorem source_subset_interchangeable_renaming : forall n name args s,
  wf (sto s) -> inv s -> Forall (bounded (nxt s)) args ->
  Forall2 (same_answer s) (fst (nquery n w_python_src name args s)) (fst (nquery n (w_compiled irf dynl) name args s)) /\
  snd (nquery n w_python_src name args s) = snd (nquery n (w_compiled irf dynl) name args s).
Proof.
  intros n name args s W I B. apply res_rel_same_answer. unfold res_rel.
  apply (source_call_rel n id_ren s s name args args (rel_st_id s W I) (rel_vals_id s args W I B)).
Qed.
End SourceRel.

(* ------------------------------------------------------------------ P = rules ++ the facts, concretely *)

Definition spec_len (e : pyspec) : Prop := Forall (fun row : list sterm => length row = snd (fst e)) (fst (snd e)).
Definition spec_ok_src (e : pyspec) : Prop :=
  fst (snd e) <> [] /\ Forall (fun row => noalias row /\ length row = snd (fst e)) (fst (snd e)).

Lemma spec_ok_src_len e : spec_ok_src e -> spec_len e.
Proof. intros [_ F]. eapply Forall_impl; [|exact F]. intros row [_ L]. exact L. Qed.

Lemma clauses_for_py_len specs : Forall spec_len specs -> NoDup (map fst specs) -> forall name k,
  clauses_for (py_clauses specs) name k =
  match lookup_fix specs name k with Some x => map (fact_clause name) (fst x) | None => [] end.
Proof.
  induction specs as [|[[n0 k0] x] r IH]; intros Ok ND name k; [reflexivity|].
  inversion Ok as [|? ? Oe Or]; subst. inversion ND as [|? ? NI NDr]; subst.
  cbn [py_clauses flat_map fst snd lookup_fix]. fold (py_clauses r). rewrite clauses_for_app.
  pose proof Oe as Len. unfold spec_len in Len. cbn [fst snd] in Len.
  destruct (key_eq (n0, k0) (name, k)) eqn:K.
  - apply key_eq_true in K. injection K as -> ->.
    rewrite (clauses_for_facts_same name (fst x) k Len), (IH Or NDr name k).
    destruct (lookup_fix r name k) as [y|] eqn:Lk; [|apply app_nil_r].
    exfalso. apply NI. clear -Lk. induction r as [|[[n1 k1] z] r IH]; [discriminate|]. cbn [lookup_fix] in Lk. cbn [map fst].
    destruct (key_eq (n1, k1) (name, k)) eqn:K; [left; apply key_eq_true in K; exact K | right; apply IH; exact Lk].
  - rewrite (clauses_for_facts_other n0 k0 (fst x) name k Len K). apply IH; assumption.
Qed.

Lemma split_src rules specs : Forall spec_ok_src specs -> NoDup (map fst specs) ->
  (forall c, In c rules -> lookup_fix specs (c_name c) (length (c_args c)) = None) ->
  forall name k,
  match lookup_fix specs name k with
  | Some (rows, vals) => rows <> [] /\ Forall (fun row => noalias row /\ length row = k) rows /\
                         clauses_for (rules ++ py_clauses specs) name k = map (fact_clause name) rows
  | None => clauses_for (rules ++ py_clauses specs) name k = clauses_for rules name k
  end.
Proof.
  intros Ok ND Dis name k.
  assert (OkL: Forall spec_len specs) by (eapply Forall_impl; [|exact Ok]; apply spec_ok_src_len).
  rewrite clauses_for_app, (clauses_for_py_len specs OkL ND name k).
  destruct (lookup_fix specs name k) as [[rows vals]|] eqn:Lk.
  - assert (In ((name, k), (rows, vals)) specs) as Hin.
    { clear -Lk. induction specs as [|[[n1 k1] z] r IH]; [discriminate|]. cbn [lookup_fix] in Lk.
      destruct (key_eq (n1, k1) (name, k)) eqn:K.
      - apply key_eq_true in K. injection K as -> ->. injection Lk as ->. left; reflexivity.
      - right. apply IH. exact Lk. }
    pose proof (proj1 (Forall_forall _ _) Ok _ Hin) as [NE F]. cbn [fst snd] in NE, F.
    split; [exact NE|]. split; [exact F|].
    assert (clauses_for rules name k = []) as ->; [|reflexivity].
    apply clauses_for_none. intros c Hc. destruct (key_eqb (clause_key c) (name, k)) eqn:K; [|reflexivity].
    exfalso. rewrite key_eqb_key_eq in K. apply key_eq_true in K. unfold clause_key in K. injection K as E1 E2.
    pose proof (Dis c Hc) as D. rewrite E1, E2, Lk in D. discriminate.
  - apply app_nil_r.
Qed.

(* rules compiled alone + Python predicates over rows with variables (no aliased head argument) vs the compiled program
   rules ++ facts: related answers for related calls, at every depth, next to any (closed) dynamic facts *)
Theorem program_with_python_predicates_rel rules specs dynl ir irf :
  compile_program rules = Some ir -> compile_program (rules ++ py_clauses specs) = Some irf ->
  good_program rules -> Forall spec_ok_src specs -> NoDup (map fst specs) -> dyn_ok dynl ->
  (forall c, In c rules -> lookup_fix specs (c_name c) (length (c_args c)) = None) ->
  forall n, call_rel (nquery n (mk_world ir (py_table_src specs) [] dynl)) (nquery n (mk_world irf [] [] dynl)).
Proof.
  intros Hr HP Gr Ok ND Hd Dis.
  apply (source_call_rel rules (rules ++ py_clauses specs) ir irf specs dynl Hr HP Gr).
  - apply Forall_app. split; [exact Gr | apply py_clauses_good].
  - exact Hd.
  - apply split_src; assumption.
Qed.

Theorem program_with_python_predicates_renaming rules specs dynl ir irf :
  compile_program rules = Some ir -> compile_program (rules ++ py_clauses specs) = Some irf ->
  good_program rules -> Forall spec_ok_src specs -> NoDup (map fst specs) -> dyn_ok dynl ->
  (forall c, In c rules -> lookup_fix specs (c_name c) (length (c_args c)) = None) ->
  forall n name args s, wf (sto s) -> inv s -> Forall (bounded (nxt s)) args ->
    Forall2 (same_answer s) (fst (nquery n (mk_world ir (py_table_src specs) [] dynl) name args s))
                            (fst (nquery n (mk_world irf [] [] dynl) name args s)) /\
    snd (nquery n (mk_world ir (py_table_src specs) [] dynl) name args s) =
    snd (nquery n (mk_world irf [] [] dynl) name args s).
Proof.
  intros Hr HP Gr Ok ND Hd Dis n name args s W I B. apply res_rel_same_answer. unfold res_rel.
  apply (program_with_python_predicates_rel rules specs dynl ir irf Hr HP Gr Ok ND Hd Dis n id_ren s s name args args
           (rel_st_id s W I) (rel_vals_id s args W I B)).
Qed.
