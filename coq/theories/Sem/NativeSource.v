(* C20 at the level of SOURCE programs and the real model compiler: take a program P, take any set of its fact
   predicates (ground facts), compile P without them and register Python predicates over the same rows instead - in
   any registration order, yielding anything: every query has the same answers as against the compiled P, at every
   call depth, next to any dynamic facts.  (The two compilations number their if-then-else labels differently; both
   compute the clause-level semantics, ProgramCorrect.clauses_ok.) *)
From Coq Require Import String.
From Coq Require Import List Arith Bool ZArith NArith Lia.
Import ListNotations.
From YP Require Import Base.Str Term.Term Term.Fast Unify.Unify Unify.Fast Lang.Ast Comp.IR Comp.CompileBody Comp.CompileClause
  Sem.Res Sem.RefSem Sem.SemLemmas Sem.IRSem Sem.ControlCorrect Sem.Machine Sem.ClauseSem Sem.ProgramCorrect
  Sem.Native Sem.NativeThms Sem.NativeFacts.
Local Open Scope string_scope.
Local Open Scope list_scope.

(* a replaced fact predicate: name, arity, its rows (source terms), the values the Python function yields *)
Definition pyspec := (str * nat * (list (list sterm) * list bool))%type.

Definition py_fun (x : list (list sterm) * list bool) : nfun := native_rows (map row_of (fst x)) (snd x).
Definition py_table (l : list pyspec) : list (str * nat * nfun) := map (fun e => (fst e, py_fun (snd e))) l.

Lemma lookup_fix_map {A B} (g : A -> B) (l : list (str * nat * A)) name k :
  lookup_fix (map (fun e => (fst e, g (snd e))) l) name k = option_map g (lookup_fix l name k).
Proof.
  induction l as [|[[n0 k0] a] r IH]; [reflexivity|]. cbn [map lookup_fix fst snd].
  destruct (key_eq (n0, k0) (name, k)); [reflexivity|exact IH].
Qed.

(* the function of a compiled program for a key: what its clauses compute *)
Lemma compiled_key_run p ir call name args s : compile_program p = Some ir -> good_program p ->
  match clauses_for p name (length args) with
  | [] => find_func ir name (length args) = None
  | cs => exists f, find_func ir name (length args) = Some f /\
          (let '(ys, k) := run_function (iter call) assign (fn_body f) (bind_args 0 args, s) in
           (map snd ys, match k with CErr => true | _ => false end)) =
          (map snd (fst (clausesA call cs (bind_args 0 args, s))),
           match snd (clausesA call cs (bind_args 0 args, s)) with FErr => true | _ => false end)
  end.
Proof.
  intros HC G.
  assert (HG: exists cnt', compile_groups (group_program p) 0 = Some (ir, cnt')).
  { unfold compile_program in HC. destruct (compile_groups (group_program p) 0) as [[fs c]|]; [|discriminate].
    inversion HC; subst. exists c; reflexivity. }
  destruct HG as [cnt' HG].
  pose proof (find_func_groups _ _ _ _ HG name (length args)) as HF.
  rewrite lookup_program in HF.
  pose proof (good_filter p (fun c => key_eqb (clause_key c) (name, length args)) G) as GF.
  fold (clauses_for p name (length args)) in GF.
  destruct (clauses_for p name (length args)) as [|c cs] eqn:EC; [exact HF|].
  destruct HF as [f [c0 [c1 [HF HB]]]]. exists f. split; [exact HF|].
  unfold run_function.
  destruct (clauses_ok call (c :: cs) c0 (fn_body f) c1 (bind_args 0 args, s) flags0 HB GF eq_refl) as [f' [E X]].
  rewrite E. destruct (clausesA call (c :: cs) (bind_args 0 args, s)) as [ys g]. cbn [fst snd] in *.
  destruct g; reflexivity.
Qed.

Section Source.
Variables rules P : program.
Variables ir irf : ir_program.
Variable specs : list pyspec.
Variable dynl : list (str * nat * list frow).
Hypothesis Hrules : compile_program rules = Some ir.
Hypothesis HP : compile_program P = Some irf.
Hypothesis Grules : good_program rules.
Hypothesis GP : good_program P.
(* P = rules + the facts of the replaced predicates (in any order of the predicates) *)
Hypothesis Hsplit : forall name k,
  match lookup_fix specs name k with
  | Some (rows, vals) => rows <> [] /\ Forall (fun row => ground_row row = true /\ length row = k) rows /\
                         clauses_for P name k = map (fact_clause name) rows
  | None => clauses_for P name k = clauses_for rules name k
  end.

Definition w_python : world := mk_world ir (py_table specs) [] dynl.
Definition w_compiled : world := mk_world irf [] [] dynl.

Lemma source_equiv : world_equiv w_python w_compiled.
Proof.
  intros call name args s. unfold nstep. cbn [w_python w_compiled mk_world w_dyn].
  destruct (match_rows match lookup_fix dynl name (length args) with Some rows => rows | None => [] end args s) as [ds de].
  destruct de; [reflexivity|]. destruct (Resolve.reserved name); [reflexivity|].
  assert (E : call_function call w_python name args s = call_function call w_compiled name args s).
  { unfold call_function. cbn [w_python w_compiled mk_world w_fix w_ir w_var lookup_fix lookup_var].
    unfold py_table. rewrite lookup_fix_map.
    pose proof (Hsplit name (length args)) as Hs.
    pose proof (compiled_key_run P irf call name args s HP GP) as RP.
    destruct (lookup_fix specs name (length args)) as [[rows vals]|]; cbn [option_map].
    - destruct Hs as [NE [Fr EC]]. rewrite EC in RP.
      destruct (map (fact_clause name) rows) as [|c0 cs0] eqn:EM; [destruct rows; [congruence|discriminate]|].
      destruct RP as [f [HF RUN]]. rewrite HF, RUN. rewrite <- EM.
      rewrite (fact_clauses_rows call name rows args s Fr). cbn [fst snd]. unfold py_fun. cbn [fst snd].
      rewrite drop_native_rows. destruct (match_rows (map row_of rows) args s) as [zs e]. cbn [fst snd].
      rewrite map_map. cbn [snd]. rewrite map_id. destruct e; reflexivity.
    - pose proof (compiled_key_run rules ir call name args s Hrules Grules) as RR. rewrite Hs in RP.
      destruct (clauses_for rules name (length args)) as [|c cs].
      + rewrite RR, RP. reflexivity.
      + destruct RR as [f1 [HF1 RUN1]]. destruct RP as [f2 [HF2 RUN2]]. rewrite HF1, HF2, RUN1, RUN2. reflexivity. }
  rewrite E. reflexivity.
Qed.

Theorem source_subset_interchangeable : forall n name args s,
  nquery n w_python name args s = nquery n w_compiled name args s.
Proof. apply world_equiv_nquery. exact source_equiv. Qed.

(* and the all-compiled engine is the engine of Sem/Machine.v when there are no dynamic facts *)
End Source.

(* ------------------------------------------------------------------ P = rules ++ the facts, concretely *)

Definition py_clauses (l : list pyspec) : program :=
  flat_map (fun e => map (fact_clause (fst (fst e))) (fst (snd e))) l.

Definition spec_ok (e : pyspec) : Prop :=
  fst (snd e) <> [] /\ Forall (fun row => ground_row row = true /\ length row = snd (fst e)) (fst (snd e)).

Lemma key_eq_refl a : key_eq a a = true.
Proof. destruct a as [x n]. unfold key_eq. cbn [fst snd]. rewrite str_eqb_refl, Nat.eqb_refl. reflexivity. Qed.

Lemma key_eq_false a b : key_eq a b = false -> a <> b.
Proof. intros H E. subst. rewrite key_eq_refl in H. discriminate. Qed.

Lemma key_eqb_key_eq a b : key_eqb a b = key_eq a b.
Proof. reflexivity. Qed.

Lemma clauses_for_app p q name k : clauses_for (p ++ q) name k = clauses_for p name k ++ clauses_for q name k.
Proof. unfold clauses_for. apply filter_app. Qed.

Lemma clauses_for_facts_same name rows k : Forall (fun row : list sterm => length row = k) rows ->
  clauses_for (map (fact_clause name) rows) name k = map (fact_clause name) rows.
Proof.
  unfold clauses_for. induction rows as [|row r IH]; intros F; [reflexivity|]. inversion F; subst.
  cbn [map filter]. unfold clause_key at 1. cbn [fact_clause c_name c_args]. rewrite key_eqb_key_eq, key_eq_refl.
  f_equal. apply IH. assumption.
Qed.

Lemma clauses_for_facts_other name0 k0 rows name k : Forall (fun row : list sterm => length row = k0) rows ->
  key_eq (name0, k0) (name, k) = false -> clauses_for (map (fact_clause name0) rows) name k = [].
Proof.
  unfold clauses_for. induction rows as [|row r IH]; intros F K; [reflexivity|]. inversion F; subst.
  cbn [map filter]. unfold clause_key at 1. cbn [fact_clause c_name c_args]. rewrite key_eqb_key_eq, K. apply IH; assumption.
Qed.

Lemma spec_ok_len e : spec_ok e -> Forall (fun row : list sterm => length row = snd (fst e)) (fst (snd e)).
Proof. intros [_ F]. eapply Forall_impl; [|exact F]. intros row [_ L]. exact L. Qed.

Lemma clauses_for_py specs : Forall spec_ok specs -> NoDup (map fst specs) -> forall name k,
  clauses_for (py_clauses specs) name k =
  match lookup_fix specs name k with Some x => map (fact_clause name) (fst x) | None => [] end.
Proof.
  induction specs as [|[[n0 k0] x] r IH]; intros Ok ND name k; [reflexivity|].
  inversion Ok as [|? ? Oe Or]; subst. inversion ND as [|? ? NI NDr]; subst.
  cbn [py_clauses flat_map fst snd lookup_fix]. fold (py_clauses r). rewrite clauses_for_app.
  pose proof (spec_ok_len _ Oe) as Len. cbn [fst snd] in Len.
  destruct (key_eq (n0, k0) (name, k)) eqn:K.
  - apply key_eq_true in K. injection K as -> ->.
    rewrite (clauses_for_facts_same name (fst x) k Len), (IH Or NDr name k).
    destruct (lookup_fix r name k) as [y|] eqn:Lk; [|apply app_nil_r].
    exfalso. apply NI. clear -Lk. induction r as [|[[n1 k1] z] r IH]; [discriminate|]. cbn [lookup_fix] in Lk. cbn [map fst].
    destruct (key_eq (n1, k1) (name, k)) eqn:K; [left; apply key_eq_true in K; exact K | right; apply IH; exact Lk].
  - rewrite (clauses_for_facts_other n0 k0 (fst x) name k Len K). apply IH; assumption.
Qed.

Lemma py_clauses_good specs : good_program (py_clauses specs).
Proof.
  apply Forall_forall. intros c Hc. unfold py_clauses in Hc. apply in_flat_map in Hc as [e [_ Hc]].
  apply in_map_iff in Hc as [row [<- _]]. apply fact_good.
Qed.

Lemma clauses_for_none p name k : (forall c, In c p -> key_eqb (clause_key c) (name, k) = false) -> clauses_for p name k = [].
Proof.
  unfold clauses_for. induction p as [|c r IH]; intros H; [reflexivity|]. cbn [filter].
  rewrite (H c (or_introl eq_refl)). apply IH. intros c' Hc'. apply H. right. exact Hc'.
Qed.

(* the theorem for P = rules ++ facts *)
Theorem program_with_python_predicates rules specs dynl ir irf :
  compile_program rules = Some ir -> compile_program (rules ++ py_clauses specs) = Some irf ->
  good_program rules -> Forall spec_ok specs -> NoDup (map fst specs) ->
  (forall c, In c rules -> lookup_fix specs (c_name c) (length (c_args c)) = None) ->
  forall n name args s,
    nquery n (mk_world ir (py_table specs) [] dynl) name args s = nquery n (mk_world irf [] [] dynl) name args s.
Proof.
  intros Hr HP Gr Ok ND Dis.
  apply (source_subset_interchangeable rules (rules ++ py_clauses specs) ir irf specs dynl Hr HP Gr).
  - apply Forall_app. split; [exact Gr | apply py_clauses_good].
  - intros name k. rewrite clauses_for_app, (clauses_for_py specs Ok ND name k).
    destruct (lookup_fix specs name k) as [[rows vals]|] eqn:Lk.
    + assert (In ((name, k), (rows, vals)) specs) as Hin.
      { clear -Lk. induction specs as [|[[n1 k1] z] r IH]; [discriminate|]. cbn [lookup_fix] in Lk.
        destruct (key_eq (n1, k1) (name, k)) eqn:K.
        - apply key_eq_true in K. injection K as -> ->. injection Lk as ->. left; reflexivity.
        - right. apply IH. exact Lk. }
      pose proof (proj1 (Forall_forall _ _) Ok _ Hin) as [NE F]. cbn [fst snd] in NE, F.
      split; [exact NE|]. split; [exact F|].
      assert (clauses_for rules name k = []) as ->; [|reflexivity].
      apply clauses_for_none. intros c Hc. destruct (key_eqb (clause_key c) (name, k)) eqn:K; [|reflexivity].
      exfalso. rewrite key_eqb_key_eq in K. apply key_eq_true in K. unfold clause_key in K. injection K as E1 E2.
      pose proof (Dis c Hc) as D. rewrite E1, E2, Lk in D. discriminate.
    + apply app_nil_r.
Qed.

(* ------------------------------------------------------------------ all registration styles *)

(* a predicate registered with arity=-1 (key name_n) is called for every arity of its name: with rows of arity kv it
   answers like the compiled facts for arity kv and has no answer for any other arity - as the compiled program, which
   has no function for those.  The name must not be the name of a builtin (their keys would be found first / instead). *)
Definition pyvspec := (str * (nat * list (list sterm) * list bool))%type.
Definition pyv_fun (x : nat * list (list sterm) * list bool) : nfun := native_rows (map row_of (snd (fst x))) (snd x).
Definition pyv_table (l : list pyvspec) : list (str * nfun) := map (fun e => (fst e, pyv_fun (snd e))) l.

Lemma lookup_var_map {A B} (g : A -> B) (l : list (str * A)) name :
  lookup_var (map (fun e => (fst e, g (snd e))) l) name = option_map g (lookup_var l name).
Proof.
  induction l as [|[n0 a] r IH]; [reflexivity|]. cbn [map lookup_var fst snd].
  destruct (str_eqb n0 name); [reflexivity|exact IH].
Qed.

Lemma match_rows_arity rows args s : Forall (fun r => length (r_vals r) <> length args) rows -> match_rows rows args s = ([], false).
Proof.
  induction rows as [|r rest IH]; intros F; [reflexivity|]. inversion F as [|? ? NL Fr]; subst.
  cbn [match_rows]. unfold unify_arrays_fast, row_terms. rewrite map_length.
  destruct (Nat.eqb_spec (length args) (length (r_vals r))) as [E|_]; [congruence|]. apply IH. exact Fr.
Qed.

Section SourceStyles.
Variables rules P : program.
Variables ir irf : ir_program.
Variable specs : list pyspec.
Variable vspecs : list pyvspec.
Variable dynl : list (str * nat * list frow).
Hypothesis Hrules : compile_program rules = Some ir.
Hypothesis HP : compile_program P = Some irf.
Hypothesis Grules : good_program rules.
Hypothesis GP : good_program P.
Hypothesis Hsplit : forall name k,
  match lookup_fix specs name k with
  | Some (rows, vals) => rows <> [] /\ Forall (fun row => ground_row row = true /\ length row = k) rows /\
                         clauses_for P name k = map (fact_clause name) rows
  | None =>
      match lookup_var vspecs name with
      | Some (kv, rows, vals) =>
          (forall c a s0, builtin c name a s0 = None) /\ str_eqb name (s_ "call") = false /\
          clauses_for rules name k = [] /\ rows <> [] /\
          Forall (fun row => ground_row row = true /\ length row = kv) rows /\
          clauses_for P name k = (if Nat.eqb k kv then map (fact_clause name) rows else [])
      | None => clauses_for P name k = clauses_for rules name k
      end
  end.

Definition w_python_styles : world := mk_world ir (py_table specs) (pyv_table vspecs) dynl.

Lemma source_styles_equiv : world_equiv w_python_styles (w_compiled irf dynl).
Proof.
  intros call name args s. unfold nstep. cbn [w_python_styles w_compiled mk_world w_dyn].
  destruct (match_rows match lookup_fix dynl name (length args) with Some rows => rows | None => [] end args s) as [ds de].
  destruct de; [reflexivity|]. destruct (Resolve.reserved name); [reflexivity|].
  assert (E : call_function call w_python_styles name args s = call_function call (w_compiled irf dynl) name args s).
  { unfold call_function. cbn [w_python_styles w_compiled mk_world w_fix w_ir w_var lookup_fix lookup_var].
    unfold py_table, pyv_table. rewrite lookup_fix_map, lookup_var_map.
    pose proof (Hsplit name (length args)) as Hs.
    pose proof (compiled_key_run P irf call name args s HP GP) as RP.
    destruct (lookup_fix specs name (length args)) as [[rows vals]|]; cbn [option_map].
    - destruct Hs as [NE [Fr EC]]. rewrite EC in RP.
      destruct (map (fact_clause name) rows) as [|c0 cs0] eqn:EM; [destruct rows; [congruence|discriminate]|].
      destruct RP as [f [HF RUN]]. rewrite HF, RUN. rewrite <- EM.
      rewrite (fact_clauses_rows call name rows args s Fr). cbn [fst snd]. unfold py_fun. cbn [fst snd].
      rewrite drop_native_rows. destruct (match_rows (map row_of rows) args s) as [zs e]. cbn [fst snd].
      rewrite map_map. cbn [snd]. rewrite map_id. destruct e; reflexivity.
    - pose proof (compiled_key_run rules ir call name args s Hrules Grules) as RR.
      destruct (lookup_var vspecs name) as [[[kv rows] vals]|]; cbn [option_map].
      + destruct Hs as [NB [NC [ER [NE [Fr EC]]]]]. rewrite ER in RR. rewrite RR, NC, NB.
        unfold pyv_fun. cbn [fst snd]. rewrite drop_native_rows. rewrite EC in RP.
        destruct (Nat.eqb_spec (length args) kv) as [EK|NK].
        * subst kv. destruct (map (fact_clause name) rows) as [|c0 cs0] eqn:EM; [destruct rows; [congruence|discriminate]|].
          destruct RP as [f [HF RUN]]. rewrite HF, RUN. rewrite <- EM.
          rewrite (fact_clauses_rows call name rows args s Fr). cbn [fst snd].
          destruct (match_rows (map row_of rows) args s) as [zs e]. cbn [fst snd].
          rewrite map_map. cbn [snd]. rewrite map_id. destruct e; reflexivity.
        * rewrite RP. apply match_rows_arity. apply Forall_forall. intros r Hr. apply in_map_iff in Hr as [row [<- Hrow]].
          cbn [row_of r_vals]. rewrite map_length. destruct (proj1 (Forall_forall _ _) Fr row Hrow) as [_ L]. congruence.
      + rewrite Hs in RP. destruct (clauses_for rules name (length args)) as [|c cs].
        * rewrite RR, RP. reflexivity.
        * destruct RR as [f1 [HF1 RUN1]]. destruct RP as [f2 [HF2 RUN2]]. rewrite HF1, HF2, RUN1, RUN2. reflexivity. }
  rewrite E. reflexivity.
Qed.

Theorem source_interchangeable_all_styles : forall n name args s,
  nquery n w_python_styles name args s = nquery n (w_compiled irf dynl) name args s.
Proof. apply world_equiv_nquery. exact source_styles_equiv. Qed.
End SourceStyles.

(* ------------------------------------------------------------------ ... and the clause-level semantics of the whole program *)

Lemma mk_world_plain ir : world_equiv (mk_world ir [] [] []) (plain ir).
Proof. intros call name args s. reflexivity. Qed.

(* rules compiled alone + Python predicates for the fact predicates of specs compute, for every query, exactly the
   clause-level reference semantics (Sem/ClauseSem.solveA: clauses in source order, head unification, RefSem control) of the
   WHOLE Prolog program rules ++ facts - the semantics that C01 proves for compiled programs *)
Theorem python_predicates_compute_clause_semantics rules specs ir irf :
  compile_program rules = Some ir -> compile_program (rules ++ py_clauses specs) = Some irf ->
  good_program rules -> Forall spec_ok specs -> NoDup (map fst specs) ->
  (forall c, In c rules -> lookup_fix specs (c_name c) (length (c_args c)) = None) ->
  (forall f, In f irf -> Resolve.reserved (fn_name f) = false) ->
  forall n name args s,
    nquery n (mk_world ir (py_table specs) [] []) name args s = solveA n (rules ++ py_clauses specs) name args s.
Proof.
  intros Hr HP Gr Ok ND Dis NR n name args s.
  rewrite (program_with_python_predicates rules specs [] ir irf Hr HP Gr Ok ND Dis n name args s).
  rewrite (world_equiv_nquery _ _ (mk_world_plain irf) n name args s).
  rewrite (plain_is_machine irf NR n name args s).
  apply machine_computes_clause_semantics; [exact HP|].
  apply Forall_app. split; [exact Gr | apply py_clauses_good].
Qed.
