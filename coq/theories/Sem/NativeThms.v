(* Theorems of C20 about the engine model of Sem/Native.v. *)
From Coq Require Import String.
From Coq Require Import List Arith Bool ZArith NArith Lia.
Import ListNotations.
From YP Require Import Base.Str Term.Term Term.Fast Unify.Unify Unify.Fast Lang.Ast Comp.IR Comp.CompileBody Comp.CompileClause
  Sem.Res Sem.RefSem Sem.SemLemmas Sem.IRSem Sem.ExecMono Sem.Machine Sem.ClauseSem Sem.ProgramCorrect Sem.Native.
Local Open Scope string_scope.
Local Open Scope list_scope.

(* ------------------------------------------------------------------ the yielded values *)

(* what a consumer that ignores the yielded values sees of `native_rows rows vals` does not depend on vals:
   it is the loop over stored facts *)
Lemma drop_native_rows rows : forall vals args s, drop (native_rows rows vals args s) = match_rows rows args s.
Proof.
  induction rows as [|r rest IH]; intros vals args s; cbn [native_rows match_rows]; [reflexivity|].
  destruct (unify_arrays_fast ufuel (sto s) args (row_terms r s)); try reflexivity.
  - specialize (IH (tl vals) args s). unfold drop in *.
    destruct (native_rows rest (tl vals) args s) as [zs e]. destruct (match_rows rest args s) as [zs' e'].
    cbn [fst snd map] in *. injection IH as -> ->. reflexivity.
  - apply IH.
Qed.

(* ------------------------------------------------------------------ extensionality *)

(* the emitted code: pointwise-equal iterators give equal runs, for every statement list *)
Section ExecExt.
Variable S : Type.
Variable assign : str -> expr -> S -> S.
Variables J1 J2 : expr -> S -> list S * bool.
Hypothesis HJ : forall it s, J1 it s = J2 it s.

Lemma loop_ext (b1 b2 : S -> flags -> out S) e xs : (forall x f, b1 x f = b2 x f) ->
  forall f, loop b1 e xs f = loop b2 e xs f.
Proof.
  intros H. induction xs as [|x r IH]; intros f; cbn [loop]; [reflexivity|].
  rewrite H. destruct (b2 x f) as [[ys k] f1]. destruct k; try reflexivity. rewrite IH. reflexivity.
Qed.

Theorem exec_stmt_ext : forall st s f, exec_stmt J1 assign st s f = exec_stmt J2 assign st s f.
Proof.
  apply (stmt_ind2 (fun st => forall s f, exec_stmt J1 assign st s f = exec_stmt J2 assign st s f)
                   (fun c => forall s f, exec_list J1 assign c s f = exec_list J2 assign c s f)).
  - intros x e s f. rewrite !exec_stmt_eq. reflexivity.
  - intros it body IH s f. rewrite !exec_stmt_eq. rewrite HJ. destruct (J2 it s) as [xs e].
    rewrite (loop_ext _ _ e xs IH). reflexivity.
  - reflexivity.
  - reflexivity.
  - reflexivity.
  - intros l body IH s f. rewrite !exec_stmt_eq. rewrite IH. reflexivity.
  - reflexivity.
  - reflexivity.
  - intros st r Hst Hr s f. rewrite !exec_list_step. destruct st; try (rewrite Hst; destruct (exec_stmt J2 assign _ s f) as [[ys k] f1];
      destruct k; try reflexivity; rewrite Hr; reflexivity).
    apply Hr.
Qed.

Theorem exec_list_ext : forall c s f, exec_list J1 assign c s f = exec_list J2 assign c s f.
Proof.
  induction c as [|st r IH]; intros s f; [reflexivity|].
  rewrite !exec_list_step. destruct st; try (rewrite exec_stmt_ext; destruct (exec_stmt J2 assign _ s f) as [[ys k] f1];
    destruct k; try reflexivity; rewrite IH; reflexivity).
  apply IH.
Qed.

Theorem run_function_ext code s : run_function J1 assign code s = run_function J2 assign code s.
Proof. unfold run_function. rewrite exec_list_ext. reflexivity. Qed.
End ExecExt.

(* one level of YP.query: equal interpretations of the calls one level down give equal answers *)
Section CallExt.
Variables c1 c2 : callT.
Hypothesis Hc : forall name args s, c1 name args s = c2 name args s.

Lemma iter_ext it c : iter c1 it c = iter c2 it c.
Proof.
  destruct c as [r s]. unfold iter.
  destruct it as [| | |f args|]; try reflexivity.
  destruct args as [|a [|b [|? ?]]]; try reflexivity.
  destruct (str_eqb f (s_ "unify")); [reflexivity|].
  destruct (str_eqb f (s_ "query")); [|reflexivity].
  destruct a; try reflexivity. destruct b; try reflexivity. rewrite Hc. reflexivity.
Qed.

Lemma call_function_ext w name args s : call_function c1 w name args s = call_function c2 w name args s.
Proof.
  unfold call_function. destruct (w_fix w name (length args)); [reflexivity|].
  destruct (find_func (w_ir w) name (length args)) as [f|].
  - rewrite (@run_function_ext cfg assign (iter c1) (iter c2) iter_ext). reflexivity.
  - rewrite (ProgramCorrect.builtin_ext c1 c2 Hc). reflexivity.
Qed.

Lemma nstep_ext w name args s : nstep c1 w name args s = nstep c2 w name args s.
Proof. unfold nstep. rewrite call_function_ext. reflexivity. Qed.
End CallExt.

(* two engines that answer every single call in the same way, whatever the calls one level down do *)
Definition world_equiv (w1 w2 : world) : Prop :=
  forall call name args s, nstep call w1 name args s = nstep call w2 name args s.

Lemma world_equiv_refl w : world_equiv w w.
Proof. intros call name args s. reflexivity. Qed.
Lemma world_equiv_sym w1 w2 : world_equiv w1 w2 -> world_equiv w2 w1.
Proof. intros H call name args s. symmetry. apply H. Qed.
Lemma world_equiv_trans w1 w2 w3 : world_equiv w1 w2 -> world_equiv w2 w3 -> world_equiv w1 w3.
Proof. intros H1 H2 call name args s. rewrite H1. apply H2. Qed.

(* ... answer every query in the same way, at every call depth: induction on the depth *)
Theorem world_equiv_nquery w1 w2 : world_equiv w1 w2 ->
  forall n name args s, nquery n w1 name args s = nquery n w2 name args s.
Proof.
  intros H. induction n as [|n IH]; intros name args s; [reflexivity|].
  cbn [nquery]. rewrite (nstep_ext (nquery n w1) (nquery n w2) IH). apply H.
Qed.

(* the engine depends on a registered predicate only through the answers a value-ignoring consumer sees *)
Definition ofun_eq (o1 o2 : option nfun) : Prop :=
  match o1, o2 with
  | Some f1, Some f2 => forall args s, drop (f1 args s) = drop (f2 args s)
  | None, None => True
  | _, _ => False
  end.

Definition same_answers (w1 w2 : world) : Prop :=
  w_ir w1 = w_ir w2 /\ (forall name k, w_dyn w1 name k = w_dyn w2 name k) /\
  (forall name k, ofun_eq (w_fix w1 name k) (w_fix w2 name k)) /\ (forall name, ofun_eq (w_var w1 name) (w_var w2 name)).

Lemma same_answers_equiv w1 w2 : same_answers w1 w2 -> world_equiv w1 w2.
Proof.
  intros [Hir [Hd [Hf Hv]]] call name args s. unfold nstep. rewrite Hd.
  destruct (match_rows (w_dyn w2 name (length args)) args s) as [ds de]. destruct de; [reflexivity|].
  destruct (Resolve.reserved name); [reflexivity|].
  assert (E : call_function call w1 name args s = call_function call w2 name args s).
  { unfold call_function. rewrite Hir. specialize (Hf name (length args)). specialize (Hv name).
    destruct (w_fix w1 name (length args)) as [f1|], (w_fix w2 name (length args)) as [f2|]; cbn [ofun_eq] in Hf; try contradiction.
    - apply Hf.
    - destruct (find_func (w_ir w2) name (length args)); [reflexivity|].
      destruct (w_var w1 name) as [g1|], (w_var w2 name) as [g2|]; cbn [ofun_eq] in Hv; try contradiction.
      + rewrite Hv. reflexivity.
      + reflexivity. }
  rewrite E. reflexivity.
Qed.

Theorem sem_extensional_program w1 w2 : same_answers w1 w2 ->
  forall n name args s, nquery n w1 name args s = nquery n w2 name args s.
Proof. intros H. apply world_equiv_nquery. apply same_answers_equiv. exact H. Qed.

Lemma ofun_eq_refl o : ofun_eq o o.
Proof. destruct o; simpl; [reflexivity | exact I]. Qed.

(* changing only the values that a registered predicate yields changes no answer of any query *)
Theorem yield_value_irrelevant_world ir fixl varl dynl name k rows vals1 vals2 n qname args s :
  nquery n (mk_world ir ((name, k, native_rows rows vals1) :: fixl) varl dynl) qname args s =
  nquery n (mk_world ir ((name, k, native_rows rows vals2) :: fixl) varl dynl) qname args s.
Proof.
  apply sem_extensional_program. repeat split; cbn [mk_world w_ir w_dyn w_fix w_var]; intros.
  - cbn [lookup_fix]. destruct (key_eq (name, k) (name0, k0)); [|apply ofun_eq_refl].
    cbn [ofun_eq]. intros a s0. rewrite !drop_native_rows. reflexivity.
  - apply ofun_eq_refl.
Qed.

(* "next to dynamic facts": the answers of a call are the answers of the stored facts name/arity, in order, followed by the
   answers of the function found for it (compiled, builtin or Python); an exception in either ends the enumeration there *)
Theorem dynamic_facts_first call w name args s :
  Resolve.reserved name = false ->
  nstep call w name args s =
  (let d := match_rows (w_dyn w name (length args)) args s in
   if snd d then (fst d, true)
   else (fst d ++ fst (call_function call w name args s), snd (call_function call w name args s))).
Proof.
  intros R. unfold nstep. rewrite R. destruct (match_rows (w_dyn w name (length args)) args s) as [ds de]. cbn [fst snd].
  destruct de; [reflexivity|]. destruct (call_function call w name args s) as [fs fe]. reflexivity.
Qed.
