(* Theorems of C20 about the engine model of Sem/Native.v. *)
From Coq Require Import String.
From Coq Require Import List Arith Bool ZArith NArith Lia.
Import ListNotations.
From YP Require Import Base.Str Term.Term Term.Fast Unify.Unify Unify.Fast Lang.Ast Comp.IR Comp.CompileBody Comp.CompileClause
  Sem.Res Sem.RefSem Sem.SemLemmas Sem.IRSem Sem.ExecMono Sem.Machine Sem.Native.
Local Open Scope string_scope.
Local Open Scope list_scope.

(* ------------------------------------------------------------------ the yielded values *)

(* what a consumer that ignores the yielded values sees of `native_rows rows vals` does not depend on vals:
   it is the loop over stored facts *)
Lemma drop_native_rows rows : forall vals args s, drop (native_rows rows vals args s) = match_rows rows args s.
Proof.
  induction rows as [|r rest IH]; intros vals args s; cbn [native_rows match_rows]; [reflexivity|].
  destruct (unify_arrays_fast ufuel (sto s) args (row_terms r s)); try reflexivity.
  - specialize (IH (tl vals) args s). unfold drop in *.
    destruct (native_rows rest (tl vals) args s) as [zs e]. destruct (match_rows rest args s) as [zs' e'].
    cbn [fst snd map] in *. injection IH as -> ->. reflexivity.
  - apply IH.
Qed.
