(* Round 4 (C06): negation applied directly to a builtin test.  `\+ G` is not "the complementary goal": it delivers the state it
   was entered with.  Two readable consequences of RefSem.sem:
     not_not_spec          \+ \+ G  succeeds exactly when G has an answer and delivers the unchanged state
     neg_neq_spec          \+ (A \= B)  succeeds exactly when A and B unify and delivers the UNCHANGED state, whereas
     eq_goal_spec          A = B  delivers the state extended by the unifier - so rewriting the former to the latter is wrong
                           exactly when the unifier binds something (neg_neq_differs_from_eq). *)
From Coq Require Import String.
From Coq Require Import List Arith Bool ZArith NArith.
Import ListNotations.
From YP Require Import Base.Str Term.Term Term.Fast Unify.Unify Unify.Fast Lang.Ast Comp.IR Comp.CompileBody
  Sem.Res Sem.RefSem Sem.Machine Sem.ClauseSem Sem.SpecLemmas.
Local Open Scope string_scope.
Local Open Scope list_scope.

Section Control.
Variable S : Type.
Variable I : str -> list sterm -> S -> list S * bool.
Notation sem := (sem I).

Lemma not_not_spec G s :
  sem (BNot (BNot G)) s = match opaque (sem G s) with
                          | (_ :: _, _) => ([s], FNorm)
                          | ([], FNorm) => ([], FNorm)
                          | ([], f) => ([], f)
                          end.
Proof.
  cbn [RefSem.sem]. destruct (RefSem.sem I G s) as [[|x xs] f]; destruct f; reflexivity.
Qed.
End Control.

Section Leaves.
Variable call : str -> list term -> st -> list st * bool.

(* the builtin \= as the engine defines it (SpecLemmas.neq_spec: this is what `builtin` computes) *)
Definition neq_result (s : st) (a b : term) : list st * bool :=
  match unify_fast ufuel (sto s) a b with UOk _ => ([], false) | UFail => ([s], false) | _ => ([], true) end.

Theorem neg_neq_spec : forall r s a b,
  call (s_ "\=") [instA r a; instA r b] s = neq_result s (instA r a) (instA r b) ->
  RefSem.sem (leafA call) (BNot (BCall (s_ "\=") [a; b])) (r, s) =
  match unify_fast ufuel (sto s) (instA r a) (instA r b) with
  | UOk _ => ([(r, s)], FNorm)          (* unifiable: one answer, the state it was entered with *)
  | UFail => ([], FNorm)
  | _ => ([], FErr)
  end.
Proof.
  intros r s a b H. cbn [RefSem.sem leafA map]. rewrite H. unfold neq_result.
  destruct (unify_fast ufuel (sto s) (instA r a) (instA r b)); reflexivity.
Qed.

Theorem eq_goal_spec : forall r s a b,
  call (s_ "=") [instA r a; instA r b] s = unify_st s (instA r a) (instA r b) ->
  RefSem.sem (leafA call) (BCall (s_ "=") [a; b]) (r, s) =
  match unify_fast ufuel (sto s) (instA r a) (instA r b) with
  | UOk s' => ([(r, {| sto := s'; nxt := nxt s |})], FNorm)      (* the state extended by the unifier *)
  | UFail => ([], FNorm)
  | _ => ([], FErr)
  end.
Proof.
  intros r s a b H. cbn [RefSem.sem leafA map]. rewrite H. unfold unify_st.
  destruct (unify_fast ufuel (sto s) (instA r a) (instA r b)); reflexivity.
Qed.

(* the two goals have the same answers only if the unifier is empty *)
Theorem neg_neq_differs_from_eq : forall r s a b s',
  call (s_ "\=") [instA r a; instA r b] s = neq_result s (instA r a) (instA r b) ->
  call (s_ "=") [instA r a; instA r b] s = unify_st s (instA r a) (instA r b) ->
  unify_fast ufuel (sto s) (instA r a) (instA r b) = UOk s' -> s' <> sto s ->
  RefSem.sem (leafA call) (BNot (BCall (s_ "\=") [a; b])) (r, s) <> RefSem.sem (leafA call) (BCall (s_ "=") [a; b]) (r, s).
Proof.
  intros r s a b s' Hn He Hu Hd. rewrite (neg_neq_spec r s a b Hn), (eq_goal_spec r s a b He), Hu.
  intros E. injection E as E. apply Hd. destruct s as [st0 k]. cbn in E. injection E as E. symmetry. exact E.
Qed.
End Leaves.

(* non-vacuity: X \= a with X (cell 0) unbound: \+ X \= a answers with the empty store, X = a with X bound *)
Example neg_neq_nonvacuous :
  let r := [(pyvar (d "X"), TVar 0)] in
  let s := {| sto := []; nxt := 1 |} in
  unify_fast ufuel (sto s) (instA r (SVar (d "X"))) (instA r (SAtom (d "a"))) = UOk [(0, TAtom (d "a"))]
  /\ [(0, TAtom (d "a"))] <> sto s.
Proof. split; [reflexivity | discriminate]. Qed.
