(* Round 4 (C01): a numeral denotes its VALUE, however it is spelled.  The grammar's NUMERAL is DIGIT+, so `007`, `07` and `7`
   are three spellings of the integer 7; the emitted code is str(int(text)) for all of them (IR: ENum digits, evaluated by
   Machine.eval_expr to TInt (digits_value digits)).  Consequently the goals  007 = 7  and  007 \= 7  behave as  7 = 7  and
   7 \= 7 : the first succeeds exactly once and leaves the state as it is, the second fails.  (A compiler that decides such a
   goal at compile time by comparing the TEXTS of the two numerals is wrong exactly here.) *)
From Coq Require Import String.
From Coq Require Import List Arith Bool ZArith NArith.
Import ListNotations.
From YP Require Import Base.Str Term.Term Term.Fast Unify.Unify Unify.Fast Lang.Ast Lang.Literals Comp.IR Comp.CompileBody
  Sem.Machine Sem.ClauseSem Sem.SpecLemmas.
Local Open Scope list_scope.

(* a string of characters `0` *)
Definition zeros (z : str) : Prop := forallb (N.eqb 48) z = true.

Lemma digits_value_leading_zeros z w : zeros z -> digits_value (z ++ w) = digits_value w.
Proof.
  intros H. unfold digits_value. f_equal. exact (num_value_leading_zeros z w H).
Qed.

(* the emitted expression of a numeral evaluates to the same term whatever the number of leading zeros *)
Theorem numeral_code_value : forall r z w, zeros z ->
  eval_expr r (compile_expression (SNum (z ++ w))) = eval_expr r (compile_expression (SNum w)).
Proof.
  intros r z w H. cbn [compile_expression eval_expr]. rewrite (digits_value_leading_zeros z w H). reflexivity.
Qed.

Lemma den_fast_int s v : den_fast s (TInt v) = TInt v.
Proof. rewrite den_fast_eq. apply den_int. Qed.

Lemma unify_int_same s v : unify_fast ufuel s (TInt v) (TInt v) = UOk s.
Proof.
  unfold ufuel. cbn [unify_fast]. rewrite !den_fast_int. rewrite Z.eqb_refl. reflexivity.
Qed.

(* L = R between two spellings of the same number: exactly one answer, the state unchanged, no error *)
Theorem numeral_eq_any_spelling : forall call r z w s, zeros z ->
  builtin call (s_ "=") [eval_expr r (compile_expression (SNum (z ++ w))); eval_expr r (compile_expression (SNum w))] s
  = Some ([s], false).
Proof.
  intros call r z w s H. rewrite numeral_code_value by exact H. rewrite eq_spec.
  cbn [compile_expression eval_expr]. unfold unify_st. rewrite unify_int_same. destruct s; reflexivity.
Qed.

(* L \= R between two spellings of the same number: no answer, no error *)
Theorem numeral_neq_any_spelling : forall call r z w s, zeros z ->
  builtin call (s_ "\=") [eval_expr r (compile_expression (SNum (z ++ w))); eval_expr r (compile_expression (SNum w))] s
  = Some ([], false).
Proof.
  intros call r z w s H. rewrite numeral_code_value by exact H. rewrite neq_spec.
  cbn [compile_expression eval_expr]. rewrite unify_int_same. reflexivity.
Qed.

(* non-vacuity: 007 against 7 *)
Example numeral_spelling_nonvacuous :
  zeros (d "00") /\
  eval_expr [] (compile_expression (SNum (d "00" ++ d "7"))) = TInt 7 /\
  eval_expr [] (compile_expression (SNum (d "7"))) = TInt 7.
Proof. repeat split. Qed.
