(* The compiled program computes the clause-level reference semantics:
     query n (compile_program P) name args st = solveA n P name args st
   for every program (a cut inside a condition or under \+ is local to it), every call depth n, every predicate name, argument list and state. *)
From Coq Require Import String.
From Coq Require Import List Arith Bool ZArith NArith Lia.
Import ListNotations.
From YP Require Import Base.Str Term.Term Term.Fast Unify.Unify Unify.Fast Lang.Ast Comp.IR Comp.CompileBody Comp.CompileClause
  Sem.Res Sem.RefSem Sem.SemLemmas Sem.IRSem Sem.ControlCorrect Sem.Machine Sem.ClauseSem.
Local Open Scope string_scope.
Local Open Scope list_scope.

(* ---------------------------------------------------------------- expressions *)

Lemma evals_map r xs :
  (fix evals (l : list expr) : list term :=
     match l with [] => [] | x :: t => eval_expr r x :: evals t end) xs = map (eval_expr r) xs.
Proof. induction xs as [|x l IH]; simpl; [reflexivity|]. try (f_equal; exact IH); auto. Qed.

Lemma eval_atom r a : eval_expr r (ECall (s_ "atom") [EStr a]) = TAtom a.
Proof. reflexivity. Qed.
Lemma eval_functor r g xs : eval_expr r (ECall (s_ "functor") [EStr g; EList xs]) = TFun g (map (eval_expr r) xs).
Proof. change (eval_expr r (ECall (s_ "functor") [EStr g; EList xs])) with
  (TFun g ((fix evals (l : list expr) : list term :=
     match l with [] => [] | x :: t => eval_expr r x :: evals t end) xs)). rewrite evals_map. reflexivity. Qed.
Lemma eval_makelist r xs : eval_expr r (ECall (s_ "makelist") [EList xs]) = mk_list (map (eval_expr r) xs).
Proof. change (eval_expr r (ECall (s_ "makelist") [EList xs])) with
  (mk_list ((fix evals (l : list expr) : list term :=
     match l with [] => [] | x :: t => eval_expr r x :: evals t end) xs)). rewrite evals_map. reflexivity. Qed.
Lemma eval_listpair r h t : eval_expr r (ECall (s_ "listpair") [h; t]) = cons_term (eval_expr r h) (eval_expr r t).
Proof. reflexivity. Qed.
Lemma eval_pyvar r v : eval_expr r (EVar (pyvar v)) = match env_get (pyvar v) r with Some t => t | None => bad_term end.
Proof. reflexivity. Qed.
Lemma eval_argvar r i : eval_expr r (EVar (argvar i)) = argval i r.
Proof. reflexivity. Qed.

Lemma eval_compile r t : eval_expr r (compile_expression t) = instA r t.
Proof.
  induction t as [a|n|v|f args IH|items IH|h t IHh IHt] using sterm_ind'.
  - apply eval_atom.
  - reflexivity.
  - apply eval_pyvar.
  - cbn [compile_expression instA]. rewrite eval_functor, map_map. f_equal.
    induction args as [|x l IHl]; simpl; [reflexivity|]. inversion IH; subst. f_equal; auto.
  - destruct items as [|x l]; [reflexivity|].
    cbn [compile_expression instA]. rewrite eval_makelist, map_map. f_equal.
    remember (x :: l) as xs eqn:E. clear E. induction xs as [|y q IHq]; simpl; [reflexivity|]. inversion IH; subst. f_equal; auto.
  - cbn [compile_expression instA]. rewrite eval_listpair, IHh, IHt. reflexivity.
Qed.

(* ---------------------------------------------------------------- one function body *)

Section Body.
Variable call : str -> list term -> st -> list st * bool.
Notation J := (iter call).
Notation I := (leafA call).
Notation exec_list := (@exec_list cfg J assign).
Notation exec_stmt := (@exec_stmt cfg J assign).

Lemma HJ f args c : J (query_expr f args) c = I f args c.
Proof.
  destruct c as [r s]. unfold query_expr, leafA.
  change (iter call (ECall (s_ "query") [EStr f; EList (map compile_expression args)]) (r, s))
    with (let '(xs, e) := call f (map (eval_expr r) (map compile_expression args)) s in (map (fun x => (r, x)) xs, e)).
  rewrite map_map. rewrite (map_ext _ _ (eval_compile r)). reflexivity.
Qed.

Lemma iter_unify a b r s : J (ECall (s_ "unify") [a; b]) (r, s) =
  let '(xs, e) := unify_st s (eval_expr r a) (eval_expr r b) in (map (fun x => (r, x)) xs, e).
Proof. reflexivity. Qed.

(* what it means for a piece of code (without assignments) to compute R *)
Definition computes (R : cfg -> res cfg) (code : list stmt) : Prop :=
  noasg code = true /\
  forall c f, doBreak f = false ->
    exists f', exec_list code c f = (fst (R c), cof (snd (R c)), f') /\
               (snd (R c) = FNorm -> doBreak f' = false) /\
               (forall l, snd (R c) <> FExit l).

Lemma computes_body n b cnt code cnt' :
  comp n b cnt = Some (code, cnt') -> nomark b = true -> computes (sem I b) code.
Proof.
  intros H M. destruct (@control_correct cfg I J assign HJ n b cnt code cnt' H M) as [NA O].
  split; [exact NA|]. exact O.
Qed.

(* the head-unification loop around a piece of code *)
Definition after_unify (i : nat) (a : sterm) (R : cfg -> res cfg) (c : cfg) : res cfg :=
  let '(r, s) := c in
  match unify_fast ufuel (sto s) (argval i r) (instA r a) with
  | UOk s' => R (r, {| sto := s'; nxt := nxt s |})
  | UFail => ([], FNorm)
  | UOof | UCyc => ([], FErr)
  end.

Lemma computes_unify i a R code : computes R code ->
  computes (after_unify i a R) [SForeach (ECall (s_ "unify") [EVar (argvar i); compile_expression a]) code].
Proof.
  intros [NA H]. split; [reflexivity|]. intros [r s] f Hf.
  rewrite exec_list_single by reflexivity. rewrite exec_stmt_eq, iter_unify, eval_argvar, eval_compile.
  unfold after_unify, unify_st.
  destruct (unify_fast ufuel (sto s) (argval i r) (instA r a)) as [s'| | |].
  - cbn [map loop]. destruct (H (r, {| sto := s'; nxt := nxt s |}) f Hf) as [f' [E [D X]]].
    change (IRSem.exec_list J assign code) with (exec_list code). rewrite E.
    destruct (R (r, {| sto := s'; nxt := nxt s |})) as [ys g]. cbn [fst snd] in *.
    destruct g; cbn [cof].
    + exists f'. cbn [loop after_loop]. rewrite (D eq_refl), app_nil_r. repeat split; auto; try (intros; discriminate).
    + exists f'. cbn [after_loop]. repeat split; auto; try (intros; discriminate).
    + exists f'. cbn [after_loop]. repeat split; auto; try (intros; discriminate).
    + exfalso. exact (X l eq_refl).
  - exists f. cbn [map loop after_loop]. rewrite Hf. repeat split; auto; try (intros; discriminate).
  - exists f. cbn [map loop after_loop]. repeat split; auto; try (intros; discriminate).
  - exists f. cbn [map loop after_loop]. repeat split; auto; try (intros; discriminate).
Qed.

Definition after_head (i : nat) (pos : list (option str)) (args : list sterm) (R : cfg -> res cfg) (c : cfg) : res cfg :=
  let '(r, s) := c in
  match head_unify i pos args r s with
  | HOk s' => R (r, s')
  | HFail => ([], FNorm)
  | HErr => ([], FErr)
  end.

Lemma after_head_step i pr a ar R c :
  after_head i (None :: pr) (a :: ar) R c = after_unify i a (after_head (S i) pr ar R) c.
Proof.
  destruct c as [r s]. unfold after_head, after_unify. cbn [head_unify].
  destruct (unify_fast ufuel (sto s) (argval i r) (instA r a)); reflexivity.
Qed.

Lemma computes_ext R R' code : (forall c, R c = R' c) -> computes R' code -> computes R code.
Proof.
  intros E [NA H]. split; [exact NA|]. intros c f Hf. rewrite E. exact (H c f Hf).
Qed.

Lemma st_eta (s : st) : {| sto := sto s; nxt := nxt s |} = s.
Proof. destruct s; reflexivity. Qed.

Lemma computes_head pos : forall i args R code, computes R code ->
  computes (after_head i pos args R) (arg_unifications i pos args code).
Proof.
  induction pos as [|o pr IH]; intros i args R code H.
  - cbn [arg_unifications]. eapply computes_ext; [|exact H]. intros [r s]. reflexivity.
  - destruct o as [v|]; destruct args as [|a ar].
    + cbn [arg_unifications]. eapply computes_ext; [|exact H]. intros [r s]. reflexivity.
    + cbn [arg_unifications]. eapply computes_ext; [|apply IH; exact H]. intros [r s]. reflexivity.
    + cbn [arg_unifications]. eapply computes_ext; [|exact H]. intros [r s]. reflexivity.
    + cbn [arg_unifications]. eapply computes_ext; [intros c; apply after_head_step|].
      apply computes_unify. apply IH. exact H.
Qed.

(* the assignments at the start of a clause *)
Lemma exec_aliases pos : forall i rest r s f,
  exec_list (head_aliases i pos ++ rest) (r, s) f = exec_list rest (alias_env i pos r, s) f.
Proof.
  induction pos as [|o pr IH]; intros i rest r s f; [reflexivity|].
  destruct o as [v|]; cbn [head_aliases alias_env].
  - rewrite <- app_comm_cons.
    change (exec_list (SAssign (pyvar v) (EVar (argvar i)) :: head_aliases (S i) pr ++ rest) (r, s) f)
      with (exec_list (head_aliases (S i) pr ++ rest) ((pyvar v, argval i r) :: r, s) f).
    apply IH.
  - apply IH.
Qed.

Lemma exec_declares vars : forall rest r s f,
  exec_list (map declare vars ++ rest) (r, s) f =
  exec_list rest (let '(r2, k) := fresh_env vars r (nxt s) in (r2, {| sto := sto s; nxt := k |})) f.
Proof.
  induction vars as [|v l IH]; intros rest r s f.
  - cbn [map app fresh_env]. rewrite st_eta. reflexivity.
  - cbn [map fresh_env]. rewrite <- app_comm_cons.
    change (exec_list (declare v :: map declare l ++ rest) (r, s) f)
      with (exec_list (map declare l ++ rest) ((pyvar v, TVar (nxt s)) :: r, {| sto := sto s; nxt := S (nxt s) |}) f).
    rewrite IH. reflexivity.
Qed.

(* a clause that can come from source text: no $CUTIF marker in its body *)
Definition good_clause (c : clause) : Prop := nomark (c_body c) = true.

Lemma clause_code c cnt code cnt' : compile_clause c cnt = Some (code, cnt') ->
  exists bcode, comp (fuel_body (c_body c)) (c_body c) cnt = Some (bcode, cnt') /\
    code = head_aliases 0 (clause_pos c) ++ map declare (clause_fv_head c ++ clause_fv_body c)
           ++ arg_unifications 0 (clause_pos c) (c_args c) bcode.
Proof.
  unfold compile_clause. destruct (comp (fuel_body (c_body c)) (c_body c) cnt) as [[bcode k]|]; [|discriminate].
  intros H. inversion H; subst. exists bcode. split; [reflexivity|].
  rewrite map_app, <- !app_assoc. reflexivity.
Qed.

Lemma clause_ok c cnt code cnt' rest cf f :
  compile_clause c cnt = Some (code, cnt') -> good_clause c -> doBreak f = false ->
  let cf1 := clause_enter c cf in
  let R := clause_res call c cf1 in
  exists f',
    exec_list (code ++ rest) cf f =
      match snd R with
      | FNorm => let '(zs, k, f2) := exec_list rest cf1 f' in (fst R ++ zs, k, f2)
      | g => (fst R, cof g, f')
      end /\
    (snd R = FNorm -> doBreak f' = false) /\ (forall l, snd R <> FExit l).
Proof.
  intros HC M Hf cf1 R.
  destruct (clause_code _ _ _ _ HC) as [bcode [HB ->]].
  pose proof (computes_head (clause_pos c) 0 (c_args c) _ _ (computes_body _ _ _ _ _ HB M)) as [NA H].
  destruct cf as [r s].
  rewrite <- !app_assoc, exec_aliases, exec_declares.
  match goal with |- context [IRSem.exec_list _ _ (arg_unifications _ _ _ _ ++ _) ?X f] => change X with cf1 end.
  rewrite exec_list_app by exact NA.
  destruct (H cf1 f Hf) as [f' [E [D X]]].
  change (after_head 0 (clause_pos c) (c_args c) (sem I (c_body c)) cf1) with R in *.
  change (IRSem.exec_list J assign (arg_unifications 0 (clause_pos c) (c_args c) bcode)) with
    (exec_list (arg_unifications 0 (clause_pos c) (c_args c) bcode)).
  rewrite E. exists f'. split; [|split; assumption].
  destruct (snd R); reflexivity.
Qed.

Lemma clauses_ok cs : forall cnt code cnt' cf f,
  compile_clauses cs cnt = Some (code, cnt') -> Forall good_clause cs -> doBreak f = false ->
  exists f', exec_list code cf f = (fst (clausesA call cs cf), cof (snd (clausesA call cs cf)), f') /\
             (forall l, snd (clausesA call cs cf) <> FExit l).
Proof.
  induction cs as [|c rest IH]; intros cnt code cnt' cf f HC G Hf.
  - inversion HC; subst. exists f. split; [reflexivity|]. intros l; discriminate.
  - cbn [compile_clauses] in HC.
    destruct (compile_clause c cnt) as [[code1 cnt1]|] eqn:E1; [|discriminate].
    destruct (compile_clauses rest cnt1) as [[code2 cnt2]|] eqn:E2; [|discriminate].
    inversion HC; subst. inversion G as [|? ? Gc Gr]; subst.
    destruct (clause_ok c cnt code1 cnt1 code2 cf f E1 Gc Hf) as [f' [E [D X]]].
    cbn zeta in E, D, X. rewrite E. cbn [clausesA].
    destruct (clause_res call c (clause_enter c cf)) as [ys g]. cbn [fst snd] in *.
    destruct g.
    + destruct (IH _ _ _ (clause_enter c cf) f' E2 Gr (D eq_refl)) as [f2 [E3 X3]]. rewrite E3.
      destruct (clausesA call rest (clause_enter c cf)) as [zs h]. cbn [fst snd] in *.
      exists f2. split; [reflexivity|exact X3].
    + exists f'. split; [reflexivity|]. intros l; discriminate.
    + exists f'. split; [reflexivity|]. intros l; discriminate.
    + exfalso. exact (X l eq_refl).
Qed.
End Body.

(* ---------------------------------------------------------------- extensionality in the callee *)

Lemma seqr_ext_in S (f g : S -> res S) xs e : (forall x, f x = g x) -> seqr f xs e = seqr g xs e.
Proof. intros H. induction xs as [|x r IH]; simpl; [reflexivity|]. rewrite H, IH. reflexivity. Qed.

Lemma ite_ext_all S (rc rc' : res S) (t t' : S -> res S) e e' :
  rc = rc' -> (forall x, t x = t' x) -> e = e' -> ite rc t e = ite rc' t' e'.
Proof. intros -> Ht ->. destruct rc' as [[|x r] g]; simpl; auto. Qed.

Lemma sem_ext S (I I' : str -> list sterm -> S -> list S * bool) :
  (forall f a s, I f a s = I' f a s) -> forall b s, sem I b s = sem I' b s.
Proof.
  intros H b. induction b as [f a| | | |l|a b IHa IHb|a b Hif IHa IHb|c t e IHc IHt IHe|c t IHc IHt|a IHa] using body_ind'; intros s.
  - cbn [sem]. rewrite H. reflexivity.
  - reflexivity.
  - reflexivity.
  - reflexivity.
  - reflexivity.
  - cbn [sem]. rewrite IHa. destruct (sem I' a s) as [xs e]. apply seqr_ext_in. exact IHb.
  - rewrite !sem_or_plain by exact Hif. rewrite IHa, IHb. reflexivity.
  - rewrite !sem_or_if. apply ite_ext_all; [rewrite IHc; reflexivity|exact IHt|apply IHe].
  - cbn [sem]. apply ite_ext_all; [rewrite IHc; reflexivity|exact IHt|reflexivity].
  - cbn [sem]. apply ite_ext_all; [rewrite IHa; reflexivity|reflexivity|reflexivity].
Qed.

Section Ext.
Variables call call' : str -> list term -> st -> list st * bool.
Hypothesis Hcall : forall f a s, call f a s = call' f a s.

Lemma leafA_ext f a c : leafA call f a c = leafA call' f a c.
Proof. destruct c as [r s]. unfold leafA. rewrite Hcall. reflexivity. Qed.

Lemma clause_res_ext c cf : clause_res call c cf = clause_res call' c cf.
Proof.
  destruct cf as [r s]. unfold clause_res. destruct (head_unify 0 (clause_pos c) (c_args c) r s); try reflexivity.
  apply sem_ext. exact leafA_ext.
Qed.

Lemma clausesA_ext cs : forall cf, clausesA call cs cf = clausesA call' cs cf.
Proof.
  induction cs as [|c rest IH]; intros cf; cbn [clausesA]; [reflexivity|].
  rewrite clause_res_ext, IH. reflexivity.
Qed.

Lemma call_goal_ext g extra s : call_goal call g extra s = call_goal call' g extra s.
Proof. unfold call_goal. destruct (den_fast (sto s) g); auto. Qed.

Lemma builtin_ext name args s : builtin call name args s = builtin call' name args s.
Proof.
  unfold builtin.
  destruct (str_eqb name (s_ "=")); [reflexivity|].
  destruct (str_eqb name (s_ "\=")); [reflexivity|].
  destruct (str_eqb name (s_ "call")); [destruct args; rewrite ?call_goal_ext; reflexivity|].
  destruct (str_eqb name (s_ "once")).
  { destruct args as [|g [|? ?]]; try reflexivity. rewrite call_goal_ext. reflexivity. }
  destruct (str_eqb name (s_ "findall")); [|reflexivity].
  destruct args as [|t [|g [|l [|? ?]]]]; try reflexivity. rewrite call_goal_ext. reflexivity.
Qed.
End Ext.

(* ---------------------------------------------------------------- grouping of clauses *)

Lemma key_eqb_spec (a b : key) : reflect (a = b) (key_eqb a b).
Proof.
  destruct a as [x n], b as [y m]. unfold key_eqb. cbn [fst snd].
  destruct (str_eqb_spec x y) as [->|Hn]; cbn [andb].
  - destruct (Nat.eqb_spec n m) as [->|Hm]; constructor; congruence.
  - constructor; congruence.
Qed.

Fixpoint lookup_group (gs : list (key * list clause)) (k : key) : option (list clause) :=
  match gs with
  | [] => None
  | (k', cs) :: r => if key_eqb k' k then Some cs else lookup_group r k
  end.

Definition addg (o : option (list clause)) (cs : list clause) : option (list clause) :=
  match cs with
  | [] => o
  | _ => Some (match o with Some c0 => c0 ++ cs | None => cs end)
  end.

Lemma lookup_insert c gs k :
  lookup_group (group_insert c gs) k =
  if key_eqb (clause_key c) k then addg (lookup_group gs k) [c] else lookup_group gs k.
Proof.
  induction gs as [|[k' cs] r IH]; cbn [group_insert lookup_group].
  - destruct (key_eqb (clause_key c) k); reflexivity.
  - destruct (key_eqb_spec k' (clause_key c)) as [E|NE]; cbn [lookup_group].
    + subst k'. destruct (key_eqb (clause_key c) k); reflexivity.
    + destruct (key_eqb_spec k' k) as [E2|NE2].
      * subst k'. destruct (key_eqb_spec (clause_key c) k) as [E3|_]; [congruence|reflexivity].
      * exact IH.
Qed.

Lemma lookup_fold p : forall gs k,
  lookup_group (fold_left (fun g c => group_insert c g) p gs) k =
  addg (lookup_group gs k) (filter (fun c => key_eqb (clause_key c) k) p).
Proof.
  induction p as [|c r IH]; intros gs k; cbn [fold_left filter]; [reflexivity|].
  rewrite IH, lookup_insert. destruct (key_eqb (clause_key c) k); [|reflexivity].
  destruct (lookup_group gs k) as [c0|]; destruct (filter (fun c1 => key_eqb (clause_key c1) k) r) as [|y q];
    cbn [addg]; try reflexivity.
  rewrite <- app_assoc. reflexivity.
Qed.

Lemma lookup_program p name ar :
  lookup_group (group_program p) (name, ar) = match clauses_for p name ar with [] => None | cs => Some cs end.
Proof.
  unfold group_program, clauses_for. rewrite lookup_fold. cbn [lookup_group].
  destruct (filter (fun c => key_eqb (clause_key c) (name, ar)) p); reflexivity.
Qed.

Lemma find_func_groups gs : forall cnt fs cnt', compile_groups gs cnt = Some (fs, cnt') ->
  forall name ar,
  match lookup_group gs (name, ar) with
  | None => find_func fs name ar = None
  | Some cs => exists f c0 c1, find_func fs name ar = Some f /\ compile_clauses cs c0 = Some (fn_body f, c1)
  end.
Proof.
  induction gs as [|[k cs] r IH]; intros cnt fs cnt' H name ar.
  - inversion H; subst. reflexivity.
  - cbn [compile_groups] in H.
    destruct (compile_clauses cs cnt) as [[code cnt1]|] eqn:E1; [|discriminate].
    destruct (compile_groups r cnt1) as [[fs' cnt2]|] eqn:E2; [|discriminate].
    inversion H; subst. cbn [lookup_group find_func fn_name fn_arity].
    change (str_eqb (fst k) name && Nat.eqb (snd k) ar) with (key_eqb k (name, ar)).
    destruct (key_eqb k (name, ar)).
    + eexists _, cnt, cnt1. split; [reflexivity|exact E1].
    + exact (IH _ _ _ E2 name ar).
Qed.

(* ---------------------------------------------------------------- the theorem *)

Definition good_program (p : program) : Prop := Forall good_clause p.

Lemma good_filter p q : good_program p -> Forall good_clause (filter q p).
Proof.
  intros G. apply Forall_forall. intros c Hc. apply filter_In in Hc as [Hc _].
  exact (proj1 (Forall_forall _ _) G c Hc).
Qed.

Theorem machine_computes_clause_semantics : forall n p ir,
  compile_program p = Some ir -> good_program p ->
  forall name args s, query n ir name args s = solveA n p name args s.
Proof.
  induction n as [|n IH]; intros p ir HC G name args s; [reflexivity|].
  cbn [query solveA].
  assert (HG: exists cnt', compile_groups (group_program p) 0 = Some (ir, cnt')).
  { unfold compile_program in HC. destruct (compile_groups (group_program p) 0) as [[fs c]|]; [|discriminate].
    inversion HC; subst. exists c; reflexivity. }
  destruct HG as [cnt' HG].
  pose proof (find_func_groups _ _ _ _ HG name (length args)) as HF.
  rewrite lookup_program in HF.
  pose proof (good_filter p (fun c => key_eqb (clause_key c) (name, length args)) G) as GF.
  fold (clauses_for p name (length args)) in GF.
  destruct (clauses_for p name (length args)) as [|c cs] eqn:EC.
  - rewrite HF. rewrite (builtin_ext _ _ (IH p ir HC G)). reflexivity.
  - destruct HF as [f [c0 [c1 [HF HB]]]]. rewrite HF.
    unfold run_function.
    destruct (clauses_ok (query n ir) (c :: cs) c0 (fn_body f) c1 (bind_args 0 args, s) flags0 HB GF eq_refl) as [f' [E X]].
    rewrite E.
    rewrite (clausesA_ext _ _ (IH p ir HC G)).
    destruct (clausesA (solveA n p) (c :: cs) (bind_args 0 args, s)) as [ys g]. cbn [fst snd] in *.
    destruct g; reflexivity.
Qed.
