(* Reference semantics of clause bodies: depth-first, left-to-right evaluation with cut,
   over an arbitrary state type S (the binding store) and an arbitrary interpretation I of the
   atomic goals: I f args s = (answers of the call f(args) from s in order, true iff the
   enumeration ends with an error after them).

     true    one answer, the unchanged state          fail   no answer
     !       one answer, then the clause is cut       A , B  for each answer of A in order, B
     A ; B   A's answers, then (unless A cut) B's
     C -> T ; E    T continued from the FIRST answer of C if there is one, else E
     C -> T        as (C -> T ; fail)                 \+ G   the unchanged state iff G has no answer
   A cut inside C or G is local to it (opaque). *)
From Coq Require Import List Arith Bool.
Import ListNotations.
From YP Require Import Base.Str Lang.Ast Sem.Res.
Set Implicit Arguments.

Section Sem.
Variable S : Type.
Variable I : str -> list sterm -> S -> list S * bool.

Fixpoint sem (b:body) (s:S) : res S :=
  match b with
  | BCall f args => let '(xs,e) := I f args s in (xs, if e then FErr else FNorm)
  | BTrue => ([s],FNorm) | BFail => ([],FNorm) | BCut => ([s],FCut)
  | BMark l => ([s],FExit l)
  | BAnd a b => let '(xs,e) := sem a s in seqr (sem b) xs e
  | BOr a b =>
     match a with
     | BIf c t => ite (opaque (sem c s)) (sem t) (sem b s)
     | _ => por (sem a s) (sem b s)
     end
  | BIf c t => ite (opaque (sem c s)) (sem t) ([],FNorm)
  | BNot a => ite (opaque (sem a s)) (fun _ => ([],FNorm)) ([s],FNorm)
  end.
End Sem.
