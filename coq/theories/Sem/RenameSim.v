(* The clause-level semantics with naming (ClauseSem.solveA = what the compiled code computes) and
   SLD resolution with all clause variables renamed apart (SldR.solveR) give the same answers up to an
   injective renaming of the cells created during the query. *)
From Coq Require Import String.
From Coq Require Import List Arith Bool ZArith NArith Lia.
Import ListNotations.
From YP Require Import Base.Str Term.Term Term.Fast Unify.Unify Unify.Fast Unify.Mgu Unify.Bounded Unify.Rename Unify.Base
  Lang.Ast Comp.IR Comp.CompileBody Comp.CompileClause
  Sem.Res Sem.RefSem Sem.SemLemmas Sem.SemRel Sem.IRSem Sem.Machine Sem.ClauseSem Sem.SldR Sem.Fresh.
Local Open Scope string_scope.
Local Open Scope list_scope.

(* ---------------------------------------------------------------- renamings *)
Definition agree (k : nat) (p q : nat -> nat) : Prop := forall a, a < k -> p a = q a.

Lemma agree_refl k p : agree k p p. Proof. intros a _; reflexivity. Qed.
Lemma agree_trans k k' p q r : k <= k' -> agree k p q -> agree k' q r -> agree k p r.
Proof. intros L A B a La. rewrite (A a La). apply B. lia. Qed.
Lemma agree_mono k k' p q : k <= k' -> agree k' p q -> agree k p q.
Proof. intros L A a La. apply A. lia. Qed.

Lemma ren_agree k p q t : agree k p q -> bounded k t -> ren p t = ren q t.
Proof.
  intros A. induction t as [a|z|x|w|f args IH] using term_ind'; intros B; simpl; auto.
  - rewrite (A w); auto. apply B. simpl. apply Nat.eqb_refl.
  - f_equal. apply map_ext_in. intros y Hy. apply (proj1 (Forall_forall _ _) IH y Hy).
    apply bounded_fun in B. exact (proj1 (Forall_forall _ _) B y Hy).
Qed.

Lemma occurs_ren p w t : occurs w (ren p t) = true -> exists a, w = p a /\ occurs a t = true.
Proof.
  induction t as [a|z|x|v|f args IH] using term_ind'; simpl; intros H; try discriminate.
  - apply Nat.eqb_eq in H. exists v. split; [symmetry; exact H|apply Nat.eqb_refl].
  - rewrite existsb_exists in H. destruct H as [y [Hy Ho]]. apply in_map_iff in Hy as [x [<- Hx]].
    destruct (proj1 (Forall_forall _ _) IH x Hx Ho) as [a [E O]]. exists a. split; [exact E|].
    apply existsb_exists. exists x; auto.
Qed.

Lemma bounded_ren k k' p t : bounded k t -> (forall a, a < k -> p a < k') -> bounded k' (ren p t).
Proof. intros B Hp w Hw. destruct (occurs_ren _ _ _ Hw) as [a [-> O]]. apply Hp. apply B. exact O. Qed.

Lemma lookup_app v a b : lookup v (a ++ b) = match lookup v a with Some t => Some t | None => lookup v b end.
Proof. induction a as [|[w t] r IH]; simpl; [reflexivity|]. destruct (Nat.eqb v w); auto. Qed.

Lemma lookup_ren k p : inj_on k p -> forall s a, a < k -> store_bounded k s ->
  lookup (p a) (ren_store p s) = match lookup a s with Some t => Some (ren p t) | None => None end.
Proof.
  intros Hp. induction s as [|[v t] s IH]; intros a La B; simpl; [reflexivity|].
  destruct (B v t (or_introl eq_refl)) as [Lv _].
  rewrite (eqb_ren_b Hp La Lv). destruct (Nat.eqb a v); [reflexivity|].
  apply IH; auto. intros w x H. apply B. right; exact H.
Qed.

Lemma den_var_unbound s x : lookup x s = None -> den s (TVar x) = TVar x.
Proof. intros L. apply den_id. intros w Hw. simpl in Hw. apply Nat.eqb_eq in Hw. subst. exact L. Qed.

Lemma lookup_bounded_none k s x : store_bounded k s -> k <= x -> lookup x s = None.
Proof.
  induction s as [|[v t] s IH]; intros B L; simpl; [reflexivity|].
  destruct (B v t (or_introl eq_refl)) as [Lv _].
  destruct (Nat.eqb_spec x v) as [->|_]; [lia|]. apply IH; auto. intros w u H; apply B; right; exact H.
Qed.

(* den distributes over the structure of a term *)
Lemma den_struct s t : den s t = app (sub_of s) t.
Proof. symmetry. apply app_sub_of. Qed.

(* ---------------------------------------------------------------- the relation between the two states *)
Record rel_st (p : nat -> nat) (sA sR : st) : Prop := {
  r_inj : inj_on (nxt sA) p;
  r_img : forall a, a < nxt sA -> p a < nxt sR;
  r_wfA : wf (sto sA);
  r_wfR : wf (sto sR);
  r_invA : inv sA;
  r_invR : inv sR;
  r_den : forall a, a < nxt sA -> den (sto sR) (TVar (p a)) = ren p (den (sto sA) (TVar a));
  r_free : forall a, a < nxt sA -> lookup a (sto sA) = None -> lookup (p a) (sto sR) = None
}.

Arguments r_inj {p sA sR}. Arguments r_img {p sA sR}. Arguments r_wfA {p sA sR}. Arguments r_wfR {p sA sR}.
Arguments r_invA {p sA sR}. Arguments r_invR {p sA sR}. Arguments r_den {p sA sR}. Arguments r_free {p sA sR}.

Lemma rel_den p sA sR : rel_st p sA sR -> forall t, bounded (nxt sA) t ->
  den (sto sR) (ren p t) = ren p (den (sto sA) t).
Proof.
  intros R. induction t as [a|z|x|w|f args IH] using term_ind'; intros B; cbn [ren].
  - rewrite !den_atom. reflexivity.
  - rewrite !den_int. reflexivity.
  - rewrite !den_str. reflexivity.
  - apply (r_den R). apply B. simpl. apply Nat.eqb_refl.
  - rewrite !den_fun. cbn [ren]. f_equal. rewrite !map_map. apply map_ext_in. intros y Hy.
    apply (proj1 (Forall_forall _ _) IH y Hy). apply bounded_fun in B. exact (proj1 (Forall_forall _ _) B y Hy).
Qed.

Lemma rel_free_term p sA sR t : rel_st p sA sR -> bounded (nxt sA) t -> free_in (sto sA) t -> free_in (sto sR) (ren p t).
Proof.
  intros R B F w Hw. destruct (occurs_ren _ _ _ Hw) as [a [-> O]].
  apply (r_free R); [apply B; exact O|apply F; exact O].
Qed.

Definition rel_val (p : nat -> nat) (sA sR : st) (tA tR : term) : Prop :=
  bounded (nxt sA) tA /\ bounded (nxt sR) tR /\ den (sto sR) tR = ren p (den (sto sA) tA).

Definition rel_env (p : nat -> nat) (sA sR : st) (rA rR : env) : Prop :=
  Forall2 (fun eA eR => fst eA = fst eR /\ rel_val p sA sR (snd eA) (snd eR)) rA rR.

Lemma rel_val_ren p sA sR t : rel_st p sA sR -> bounded (nxt sA) t -> rel_val p sA sR t (ren p t).
Proof.
  intros R B. split; [exact B|]. split; [eapply bounded_ren; [exact B|apply (r_img R)]|]. apply rel_den; assumption.
Qed.

(* related values stay related when both states move on *)
Lemma rel_val_mono p sA sR p' sA' sR' tA tR :
  rel_st p sA sR -> rel_st p' sA' sR' -> agree (nxt sA) p p' -> grows sA sA' -> grows sR sR' ->
  rel_val p sA sR tA tR -> rel_val p' sA' sR' tA tR.
Proof.
  intros R R' A [LA [nA EA]] [LR [nR ER]] [BA [BR D]].
  split; [eapply bounded_mono; eauto|]. split; [eapply bounded_mono; eauto|].
  assert (BD: bounded (nxt sA) (den (sto sA) tA)) by (apply bounded_den; [apply (r_invA R)|exact BA]).
  rewrite ER, <- (den_ext_den nR tR (r_wfR R)), D, <- ER.
  rewrite (ren_agree _ _ _ _ A BD).
  rewrite (rel_den _ _ _ R' _ (bounded_mono _ _ _ LA BD)).
  rewrite EA, (den_ext_den nA tA (r_wfA R)). reflexivity.
Qed.

Lemma rel_env_mono p sA sR p' sA' sR' rA rR :
  rel_st p sA sR -> rel_st p' sA' sR' -> agree (nxt sA) p p' -> grows sA sA' -> grows sR sR' ->
  rel_env p sA sR rA rR -> rel_env p' sA' sR' rA rR.
Proof.
  intros R R' A GA GR H. induction H as [|eA eR rA rR [K V] H IH]; constructor; auto.
  split; [exact K|]. exact (rel_val_mono _ _ _ _ _ _ _ _ R R' A GA GR V).
Qed.

Lemma env_get_rel p sA sR rA rR x : rel_env p sA sR rA rR ->
  match env_get x rA, env_get x rR with
  | Some tA, Some tR => rel_val p sA sR tA tR
  | None, None => True
  | _, _ => False
  end.
Proof.
  induction 1 as [|[kA tA] [kR tR] rA rR [K V] H IH]; simpl; [exact Logic.I|].
  simpl in K. subst kR. destruct (str_eqb x kA); [exact V|exact IH].
Qed.

(* ---------------------------------------------------------------- unification from related states *)
Lemma store_bounded_app k a b : store_bounded k a -> store_bounded k b -> store_bounded k (a ++ b).
Proof. intros A B v t H. apply in_app_or in H as [H|H]; [apply A|apply B]; exact H. Qed.

Lemma store_bounded_ren k k' p s : store_bounded k s -> (forall a, a < k -> p a < k') -> store_bounded k' (ren_store p s).
Proof.
  intros B Hp v t H. unfold ren_store in H. apply in_map_iff in H as [[v0 t0] [E H]]. cbn [fst snd] in E. inversion E; subst.
  destruct (B v0 t0 H) as [Lv Bt]. split; [apply Hp; exact Lv|eapply bounded_ren; eauto].
Qed.

Lemma store_bounded_nil k : store_bounded k []. Proof. intros v t []. Qed.

Definition same_shape (rA rR : ures) : Prop :=
  match rA, rR with UOk _, UOk _ | UFail, UFail | UOof, UOof | UCyc, UCyc => True | _, _ => False end.

Lemma unify_rel p sA sR a b aR bR n :
  rel_st p sA sR -> rel_val p sA sR a aR -> rel_val p sA sR b bR ->
  match unify n (sto sA) a b with
  | UOk s1 => exists s1R, unify n (sto sR) aR bR = UOk s1R /\
                rel_st p {| sto := s1; nxt := nxt sA |} {| sto := s1R; nxt := nxt sR |} /\
                ext (sto sA) s1 /\ ext (sto sR) s1R
  | r => unify n (sto sR) aR bR = r
  end.
Proof.
  intros R [Ba [BaR Da]] [Bb [BbR Db]].
  pose proof (r_wfA R) as WA. pose proof (r_wfR R) as WR.
  assert (IA: store_bounded (nxt sA) (sto sA)) by apply (r_invA R).
  assert (IR: store_bounded (nxt sR) (sto sR)) by apply (r_invR R).
  pose proof (unify_increment n a b WA) as EA. pose proof (unify_increment n aR bR WR) as ER.
  rewrite Da, Db in ER.
  set (dA := den (sto sA) a) in *. set (dB := den (sto sA) b) in *.
  assert (BdA: bounded (nxt sA) dA) by (apply bounded_den; assumption).
  assert (BdB: bounded (nxt sA) dB) by (apply bounded_den; assumption).
  pose proof (@unify_equivariant_b _ _ (r_inj R) n [] dA dB (store_bounded_nil _) BdA BdB) as EQ.
  change (ren_store p []) with (@nil (nat * term)) in EQ. rewrite EQ in ER. clear EQ.
  destruct (unify n [] dA dB) as [nw| | |] eqn:E; cbn [lift ren_res] in EA, ER; rewrite EA; try exact ER.
  exists (ren_store p nw ++ sto sR). split; [exact ER|].
  assert (Bnw: store_bounded (nxt sA) nw) by (eapply unify_bounded; [apply store_bounded_nil|exact BdA|exact BdB|exact E]).
  assert (VF: vals_free (sto sA) nw).
  { eapply unify_vals_free; [| | |exact E]; [intros v t []|apply den_free; exact WA|apply den_free; exact WA]. }
  assert (VFR: vals_free (sto sR) (ren_store p nw)).
  { intros v t H. unfold ren_store in H. apply in_map_iff in H as [[v0 t0] [E0 H]]. cbn [fst snd] in E0. inversion E0; subst.
    apply (rel_free_term p sA sR); [exact R|apply (Bnw v0 t0 H)|apply (VF v0 t0 H)]. }
  destruct (unify_sound _ _ _ WA EA) as [WA' [XA _]]. destruct (unify_sound _ _ _ WR ER) as [WR' [XR _]].
  split; [|split; assumption].
  constructor; cbn [sto nxt].
  - apply (r_inj R).
  - apply (r_img R).
  - exact WA'.
  - exact WR'.
  - unfold inv; cbn [sto nxt]. apply store_bounded_app; assumption.
  - unfold inv; cbn [sto nxt]. apply store_bounded_app; [|exact IR]. eapply store_bounded_ren; [exact Bnw|apply (r_img R)].
  - intros a0 La. rewrite (den_split VFR), (r_den R a0 La).
    rewrite (ren_den_b (r_inj R) Bnw) by (apply bounded_den; [exact IA|apply bounded_var; exact La]).
    rewrite <- (den_split VF). reflexivity.
  - intros a0 La L0. rewrite lookup_app in L0. rewrite lookup_app.
    rewrite (lookup_ren _ _ (r_inj R) nw _ La Bnw).
    destruct (lookup a0 nw); [discriminate|]. apply (r_free R); assumption.
Qed.

Lemma unify_fast_rel p sA sR a b aR bR n :
  rel_st p sA sR -> rel_val p sA sR a aR -> rel_val p sA sR b bR ->
  match unify_fast n (sto sA) a b with
  | UOk s1 => exists s1R, unify_fast n (sto sR) aR bR = UOk s1R /\
                rel_st p {| sto := s1; nxt := nxt sA |} {| sto := s1R; nxt := nxt sR |} /\
                ext (sto sA) s1 /\ ext (sto sR) s1R
  | r => unify_fast n (sto sR) aR bR = r
  end.
Proof. rewrite !unify_fast_eq. apply unify_rel. Qed.

(* ---------------------------------------------------------------- terms built from related environments *)
Lemma rel_env_boundedA p sA sR rA rR : rel_env p sA sR rA rR -> env_bounded (nxt sA) rA.
Proof.
  induction 1 as [|[kA tA] [kR tR] rA rR [K V] H IH]; intros x t Hx; [contradiction|].
  destruct Hx as [Hx|Hx]; [inversion Hx; subst; apply V|eapply IH; eauto].
Qed.
Lemma rel_env_boundedR p sA sR rA rR : rel_env p sA sR rA rR -> env_bounded (nxt sR) rR.
Proof.
  induction 1 as [|[kA tA] [kR tR] rA rR [K V] H IH]; intros x t Hx; [contradiction|].
  destruct Hx as [Hx|Hx]; [inversion Hx; subst; apply V|eapply IH; eauto].
Qed.

Definition dr (p : nat -> nat) (sA sR : st) (tA tR : term) : Prop := den (sto sR) tR = ren p (den (sto sA) tA).

Lemma dr_fun p sA sR f xsA xsR : Forall2 (dr p sA sR) xsA xsR -> dr p sA sR (TFun f xsA) (TFun f xsR).
Proof.
  intros H. unfold dr. rewrite !den_fun. cbn [ren]. f_equal. rewrite map_map.
  induction H as [|a b la lb Hab H IH]; simpl; [reflexivity|]. f_equal; [exact Hab|exact IH].
Qed.
Lemma dr_atom p sA sR a : dr p sA sR (TAtom a) (TAtom a).
Proof. unfold dr. rewrite !den_atom. reflexivity. Qed.
Lemma dr_int p sA sR a : dr p sA sR (TInt a) (TInt a).
Proof. unfold dr. rewrite !den_int. reflexivity. Qed.
Lemma dr_mk_list p sA sR xsA xsR : Forall2 (dr p sA sR) xsA xsR -> dr p sA sR (mk_list xsA) (mk_list xsR).
Proof.
  induction 1 as [|a b la lb Hab H IH]; cbn [mk_list]; [apply dr_atom|].
  apply dr_fun. repeat constructor; assumption.
Qed.

Lemma instA_dr p sA sR rA rR : rel_env p sA sR rA rR -> forall t, dr p sA sR (instA rA t) (instA rR t).
Proof.
  intros E t. induction t as [a|n|v|f args IH|items IH|h t IHh IHt] using sterm_ind'; cbn [instA].
  - apply dr_atom.
  - apply dr_int.
  - pose proof (env_get_rel p sA sR rA rR (pyvar v) E) as H.
    destruct (env_get (pyvar v) rA), (env_get (pyvar v) rR); try contradiction; [apply H|apply dr_atom].
  - apply dr_fun. induction args as [|x l IHl]; simpl; constructor; inversion IH; subst; auto.
  - apply dr_mk_list. induction items as [|x l IHl]; simpl; constructor; inversion IH; subst; auto.
  - apply dr_fun. repeat constructor; assumption.
Qed.

Lemma instA_rel p sA sR rA rR t : rel_env p sA sR rA rR -> rel_val p sA sR (instA rA t) (instA rR t).
Proof.
  intros E. split; [apply instA_bounded; eapply rel_env_boundedA; eauto|].
  split; [apply instA_bounded; eapply rel_env_boundedR; eauto|apply instA_dr; exact E].
Qed.

Lemma argval_rel p sA sR rA rR i : rel_env p sA sR rA rR -> rel_val p sA sR (argval i rA) (argval i rR).
Proof.
  intros E. unfold argval. pose proof (env_get_rel p sA sR rA rR (argvar i) E) as H.
  destruct (env_get (argvar i) rA), (env_get (argvar i) rR); try contradiction; [exact H|].
  split; [apply bad_bounded|]. split; [apply bad_bounded|apply dr_atom].
Qed.

(* ---------------------------------------------------------------- allocation of a cell on both sides *)
Definition upd (p : nat -> nat) (a b : nat) : nat -> nat := fun x => if Nat.eqb x a then b else p x.

Lemma alloc_rel p sA sR : rel_st p sA sR ->
  let p' := upd p (nxt sA) (nxt sR) in
  rel_st p' {| sto := sto sA; nxt := S (nxt sA) |} {| sto := sto sR; nxt := S (nxt sR) |} /\ agree (nxt sA) p p' /\
  p' (nxt sA) = nxt sR.
Proof.
  intros R p'.
  assert (A: agree (nxt sA) p p').
  { intros a La. unfold p', upd. destruct (Nat.eqb_spec a (nxt sA)); [lia|reflexivity]. }
  assert (Pk: p' (nxt sA) = nxt sR) by (unfold p', upd; rewrite Nat.eqb_refl; reflexivity).
  split; [|split; [exact A|exact Pk]]. constructor; cbn [sto nxt].
  - intros a b La Lb E. unfold p', upd in E.
    destruct (Nat.eqb_spec a (nxt sA)) as [->|Na]; destruct (Nat.eqb_spec b (nxt sA)) as [->|Nb]; auto.
    + assert (b < nxt sA) by lia. pose proof (r_img R b H). lia.
    + assert (a < nxt sA) by lia. pose proof (r_img R a H). lia.
    + apply (r_inj R); auto; lia.
  - intros a La. unfold p', upd. destruct (Nat.eqb_spec a (nxt sA)); [lia|].
    assert (a < nxt sA) by lia. pose proof (r_img R a H). lia.
  - apply (r_wfA R).
  - apply (r_wfR R).
  - unfold inv; cbn [sto nxt]. eapply store_bounded_mono; [|apply (r_invA R)]. lia.
  - unfold inv; cbn [sto nxt]. eapply store_bounded_mono; [|apply (r_invR R)]. lia.
  - intros a La. destruct (Nat.eq_dec a (nxt sA)) as [->|Na].
    + rewrite Pk. rewrite (den_var_unbound _ _ (lookup_bounded_none _ _ _ (r_invR R) (le_n _))).
      rewrite (den_var_unbound _ _ (lookup_bounded_none _ _ _ (r_invA R) (le_n _))). cbn [ren]. rewrite Pk. reflexivity.
    + assert (L: a < nxt sA) by lia. rewrite <- (A a L), (r_den R a L).
      apply ren_agree with (k := nxt sA); [exact A|]. apply bounded_den; [apply (r_invA R)|apply bounded_var; exact L].
  - intros a La L0. destruct (Nat.eq_dec a (nxt sA)) as [->|Na].
    + rewrite Pk. apply (lookup_bounded_none _ _ _ (r_invR R) (le_n _)).
    + assert (L: a < nxt sA) by lia. rewrite <- (A a L). apply (r_free R); assumption.
Qed.

Lemma st_eta_ (s : st) : {| sto := sto s; nxt := nxt s |} = s.
Proof. destruct s; reflexivity. Qed.

Lemma fresh_rel vars : forall p sA sR rA rR, rel_st p sA sR -> rel_env p sA sR rA rR ->
  exists p', rel_st p' {| sto := sto sA; nxt := snd (fresh_env vars rA (nxt sA)) |}
                       {| sto := sto sR; nxt := snd (fresh_env vars rR (nxt sR)) |} /\
             agree (nxt sA) p p' /\
             rel_env p' {| sto := sto sA; nxt := snd (fresh_env vars rA (nxt sA)) |}
                        {| sto := sto sR; nxt := snd (fresh_env vars rR (nxt sR)) |}
                        (fst (fresh_env vars rA (nxt sA))) (fst (fresh_env vars rR (nxt sR))) /\
             (forall a, nxt sA <= a -> a < snd (fresh_env vars rA (nxt sA)) -> nxt sR <= p' a).
Proof.
  induction vars as [|v l IH]; intros p sA sR rA rR R E; cbn [fresh_env fst snd].
  - exists p. rewrite !st_eta_. split; [exact R|]. split; [apply agree_refl|]. split; [exact E|]. intros a L1 L2; lia.
  - destruct (alloc_rel p sA sR R) as [R1 [A1 Pk]]. cbn zeta in R1, A1, Pk.
    set (p1 := upd p (nxt sA) (nxt sR)) in *.
    set (sA1 := {| sto := sto sA; nxt := S (nxt sA) |}) in *. set (sR1 := {| sto := sto sR; nxt := S (nxt sR) |}) in *.
    assert (GA: grows sA sA1) by (split; cbn; [lia|apply ext_refl]).
    assert (GR: grows sR sR1) by (split; cbn; [lia|apply ext_refl]).
    assert (E1: rel_env p1 sA1 sR1 ((pyvar v, TVar (nxt sA)) :: rA) ((pyvar v, TVar (nxt sR)) :: rR)).
    { constructor; [|exact (rel_env_mono _ _ _ _ _ _ _ _ R R1 A1 GA GR E)]. split; [reflexivity|]. cbn [snd].
      split; [apply bounded_var; cbn; lia|]. split; [apply bounded_var; cbn; lia|].
      unfold sA1, sR1; cbn [sto].
      rewrite (den_var_unbound _ _ (lookup_bounded_none _ _ _ (r_invR R) (le_n _))).
      rewrite (den_var_unbound _ _ (lookup_bounded_none _ _ _ (r_invA R) (le_n _))). cbn [ren].
      unfold p1, upd. rewrite Nat.eqb_refl. reflexivity. }
    destruct (IH p1 sA1 sR1 _ _ R1 E1) as [p' [R' [A' [E' F']]]]. exists p'.
    split; [exact R'|]. split; [eapply agree_trans with (k' := nxt sA1); [cbn; lia|exact A1|exact A']|].
    split; [exact E'|].
    intros a L1 L2. destruct (Nat.eq_dec a (nxt sA)) as [->|Na].
    + rewrite <- (A' (nxt sA)) by (cbn; lia). fold p1. rewrite Pk. lia.
    + assert (L3: nxt sA1 <= a) by (cbn; lia). pose proof (F' a L3 L2) as H. cbn in H. lia.
Qed.

(* ---------------------------------------------------------------- a fresh variable unified with a goal argument *)
Lemma fresh_var_unify n s x a : lookup x s = None -> occurs x (den s a) = false ->
  unify (S n) s (TVar x) a = UOk ((x, den s a) :: s).
Proof.
  intros L O. cbn [unify]. rewrite (den_var_unbound s x L).
  destruct (den s a) as [c|z|q|w|f args] eqn:D; try (unfold bind; rewrite O; reflexivity); try reflexivity.
  simpl in O. rewrite Nat.eqb_sym in O. rewrite O. reflexivity.
Qed.

Lemma bounded_not_occurs k x t : bounded k t -> k <= x -> occurs x t = false.
Proof. intros B L. destruct (occurs x t) eqn:O; [|reflexivity]. specialize (B x O). lia. Qed.

(* the step of SldR.alias_envR for one variable, seen from a related state of the naming semantics *)
Lemma alias_step p sA sR rA rR i v :
  rel_st p sA sR -> rel_env p sA sR rA rR ->
  let x := nxt sR in
  let d := den (sto sR) (argval i rR) in
  let sR' := {| sto := (x, d) :: sto sR; nxt := S x |} in
  unify_fast ufuel (sto sR) (TVar x) (argval i rR) = UOk ((x, d) :: sto sR) /\
  rel_st p sA sR' /\ grows sR sR' /\
  rel_env p sA sR' ((pyvar v, argval i rA) :: rA) ((pyvar v, TVar x) :: rR).
Proof.
  intros R E x d sR'.
  destruct (argval_rel p sA sR rA rR i E) as [BA [BR D]].
  assert (IR: store_bounded (nxt sR) (sto sR)) by apply (r_invR R).
  assert (Lx: lookup x (sto sR) = None) by (apply (lookup_bounded_none _ _ _ IR (le_n _))).
  assert (Bd: bounded (nxt sR) d) by (apply bounded_den; assumption).
  assert (Od: occurs x d = false) by (apply (bounded_not_occurs _ _ _ Bd (le_n _))).
  assert (Dd: den (sto sR) d = d) by (apply den_idem; apply (r_wfR R)).
  assert (GR: grows sR sR') by (split; unfold sR', x; cbn [sto nxt]; [lia|apply ext_cons]).
  assert (R': rel_st p sA sR').
  { constructor; unfold sR'; cbn [sto nxt].
    - apply (r_inj R).
    - intros a La. pose proof (r_img R a La). unfold x. lia.
    - apply (r_wfA R).
    - constructor; [apply (r_wfR R)|exact Lx|rewrite Dd; exact Od].
    - apply (r_invA R).
    - unfold inv; cbn [sto nxt]. apply store_bounded_cons; [unfold x; lia|eapply bounded_mono; [|exact Bd]; unfold x; lia|].
      eapply store_bounded_mono; [|exact IR]. unfold x; lia.
    - intros a La. cbn [den]. rewrite (r_den R a La). apply subst1_noocc.
      rewrite <- (r_den R a La). apply (bounded_not_occurs (nxt sR)); [|unfold x; lia].
      apply bounded_den; [exact IR|apply bounded_var; apply (r_img R a La)].
    - intros a La L0. cbn [lookup]. pose proof (r_img R a La) as Li.
      destruct (Nat.eqb_spec (p a) x) as [Ex|_]; [unfold x in Ex; lia|]. apply (r_free R); assumption. }
  split.
  - rewrite unify_fast_eq. change ufuel with (S 399). unfold d. apply fresh_var_unify; [exact Lx|exact Od].
  - split; [exact R'|]. split; [exact GR|].
    constructor.
    + split; [reflexivity|]. cbn [snd]. split; [exact BA|]. split; [apply bounded_var; cbn; lia|].
      cbn [sto sR' den]. rewrite (den_var_unbound _ _ Lx). cbn [subst1]. rewrite Nat.eqb_refl. rewrite Dd. exact D.
    + exact (rel_env_mono _ _ _ _ _ _ _ _ R R' (agree_refl _ _) (grows_refl _) GR E).
Qed.

Lemma alias_rel pos : forall i p sA sR rA rR, rel_st p sA sR -> rel_env p sA sR rA rR ->
  exists rR1 sR1, alias_envR i pos rR sR = EOk (rR1, sR1) /\
    rel_st p sA sR1 /\ grows sR sR1 /\ rel_env p sA sR1 (alias_env i pos rA) rR1.
Proof.
  induction pos as [|o pr IH]; intros i p sA sR rA rR R E; cbn [alias_envR alias_env].
  - exists rR, sR. split; [reflexivity|]. split; [exact R|]. split; [apply grows_refl|exact E].
  - destruct o as [v|]; [|apply IH; assumption].
    destruct (alias_step p sA sR rA rR i v R E) as [U [R' [G' E']]]. cbn zeta in U, R', G', E'.
    rewrite U. destruct (IH (S i) p sA _ _ _ R' E') as [rR1 [sR1 [H1 [R1 [G1 E1]]]]].
    exists rR1, sR1. split; [exact H1|]. split; [exact R1|]. split; [eapply grows_trans; eauto|exact E1].
Qed.

(* entering a clause on both sides *)
Lemma enter_rel c p sA sR rA rR : rel_st p sA sR -> rel_env p sA sR rA rR ->
  exists cfR p', clause_enterR c (rR, sR) = EOk cfR /\
    rel_st p' (snd (clause_enter c (rA, sA))) (snd cfR) /\ agree (nxt sA) p p' /\
    grows sA (snd (clause_enter c (rA, sA))) /\ grows sR (snd cfR) /\
    rel_env p' (snd (clause_enter c (rA, sA))) (snd cfR) (fst (clause_enter c (rA, sA))) (fst cfR) /\
    (forall a, nxt sA <= a -> a < nxt (snd (clause_enter c (rA, sA))) -> nxt sR <= p' a).
Proof.
  intros R E. unfold clause_enterR, clause_enter.
  destruct (alias_rel (clause_pos c) 0 p sA sR rA rR R E) as [rR1 [sR1 [H1 [R1 [G1 E1]]]]]. rewrite H1.
  destruct (fresh_rel (clause_fv_head c ++ clause_fv_body c) p sA sR1 _ _ R1 E1) as [p' [R' [A' [E' F']]]].
  destruct (fresh_env (clause_fv_head c ++ clause_fv_body c) (alias_env 0 (clause_pos c) rA) (nxt sA)) as [rA2 kA] eqn:FA.
  destruct (fresh_env (clause_fv_head c ++ clause_fv_body c) rR1 (nxt sR1)) as [rR2 kR] eqn:FR.
  cbn [fst snd] in *.
  exists (rR2, {| sto := sto sR1; nxt := kR |}), p'. cbn [fst snd].
  assert (LA: nxt sA <= kA).
  { pose proof (fresh_env_cells (clause_fv_head c ++ clause_fv_body c) (alias_env 0 (clause_pos c) rA) (nxt sA)) as H. rewrite FA in H. inversion H. lia. }
  assert (LR: nxt sR1 <= kR).
  { pose proof (fresh_env_cells (clause_fv_head c ++ clause_fv_body c) rR1 (nxt sR1)) as H. rewrite FR in H. inversion H. lia. }
  split; [reflexivity|]. split; [exact R'|]. split; [exact A'|].
  split; [split; cbn [sto nxt]; [exact LA|apply ext_refl]|].
  split; [eapply grows_trans; [exact G1|]; split; cbn [sto nxt]; [exact LR|apply ext_refl]|].
  split; [exact E'|]. intros a L1 L2. pose proof (F' a L1 L2) as H. destruct G1 as [G1 _]. lia.
Qed.

(* the remaining head arguments (the same function on both sides) *)
Inductive hrel (p : nat -> nat) (sA sR : st) : hres -> hres -> Prop :=
| hrel_ok xA xR : rel_st p xA xR -> nxt xA = nxt sA -> nxt xR = nxt sR -> ext (sto sA) (sto xA) -> ext (sto sR) (sto xR) ->
                  hrel p sA sR (HOk xA) (HOk xR)
| hrel_fail : hrel p sA sR HFail HFail
| hrel_err : hrel p sA sR HErr HErr.

Lemma head_unify_rel pos : forall i args p sA sR rA rR, rel_st p sA sR -> rel_env p sA sR rA rR ->
  hrel p sA sR (head_unify i pos args rA sA) (head_unify i pos args rR sR).
Proof.
  induction pos as [|o pr IH]; intros i args p sA sR rA rR R E.
  - cbn [head_unify]. constructor; auto using ext_refl.
  - destruct o as [v|]; destruct args as [|a ar]; cbn [head_unify]; try (constructor; auto using ext_refl; fail).
    + apply IH; assumption.
    + pose proof (unify_fast_rel p sA sR _ _ _ _ ufuel R (argval_rel p sA sR rA rR i E) (instA_rel p sA sR rA rR a E)) as H.
      destruct (unify_fast ufuel (sto sA) (argval i rA) (instA rA a)) as [s1| | |].
      * destruct H as [s1R [U [R1 [XA XR]]]]. rewrite U.
        set (xA := {| sto := s1; nxt := nxt sA |}) in *. set (xR := {| sto := s1R; nxt := nxt sR |}) in *.
        assert (GA: grows sA xA) by (split; cbn; [lia|exact XA]).
        assert (GR: grows sR xR) by (split; cbn; [lia|exact XR]).
        pose proof (IH (S i) ar p xA xR rA rR R1 (rel_env_mono _ _ _ _ _ _ _ _ R R1 (agree_refl _ _) GA GR E)) as H2.
        destruct H2 as [yA yR Ry NA NR EA ER| |]; constructor; auto.
        { eapply ext_trans; [exact XA|exact EA]. } { eapply ext_trans; [exact XR|exact ER]. }
      * rewrite H. constructor.
      * rewrite H. constructor.
      * rewrite H. constructor.
Qed.

(* ---------------------------------------------------------------- calls, bodies, clauses *)
(* cells created after (sA, sR) are mapped to cells created after sR *)
Definition fresh_to_fresh (sA sR xA : st) (p' : nat -> nat) : Prop := forall a, nxt sA <= a -> a < nxt xA -> nxt sR <= p' a.

Definition ans_rel (p : nat -> nat) (sA sR xA xR : st) : Prop :=
  exists p', rel_st p' xA xR /\ agree (nxt sA) p p' /\ grows sA xA /\ grows sR xR /\ fresh_to_fresh sA sR xA p'.

Definition call_rel (cA cR : str -> list term -> st -> list st * bool) : Prop :=
  forall p sA sR f argsA argsR, rel_st p sA sR -> Forall2 (rel_val p sA sR) argsA argsR ->
  Forall2 (ans_rel p sA sR) (fst (cA f argsA sA)) (fst (cR f argsR sR)) /\ snd (cA f argsA sA) = snd (cR f argsR sR).

Lemma ans_rel_refl p sA sR : rel_st p sA sR -> ans_rel p sA sR sA sR.
Proof.
  intros R. exists p. split; [exact R|]. split; [apply agree_refl|]. split; [apply grows_refl|]. split; [apply grows_refl|].
  intros a L1 L2; lia.
Qed.

Lemma ans_rel_trans p sA sR p1 xA xR yA yR :
  rel_st p1 xA xR -> agree (nxt sA) p p1 -> grows sA xA -> grows sR xR -> fresh_to_fresh sA sR xA p1 ->
  ans_rel p1 xA xR yA yR -> ans_rel p sA sR yA yR.
Proof.
  intros R1 A1 GA GR F1 [p2 [R2 [A2 [GA2 [GR2 F2]]]]]. exists p2.
  split; [exact R2|]. split; [eapply agree_trans; [apply GA|exact A1|exact A2]|].
  split; [exact (grows_trans _ _ _ GA GA2)|]. split; [exact (grows_trans _ _ _ GR GR2)|].
  intros a L1 L2. destruct (Nat.lt_ge_cases a (nxt xA)) as [L|L].
  - rewrite <- (A2 a L). apply F1; assumption.
  - pose proof (F2 a L L2). destruct GR as [GR _]. lia.
Qed.

Section Activation.
Variables cA cR : str -> list term -> st -> list st * bool.
Hypothesis Hcall : call_rel cA cR.
Variable p0 : nat -> nat.
Variables sA0 sR0 : st.

Definition cfg_rel0 (c1 c2 : cfg) : Prop :=
  exists p', rel_st p' (snd c1) (snd c2) /\ rel_env p' (snd c1) (snd c2) (fst c1) (fst c2) /\
             agree (nxt sA0) p0 p' /\ grows sA0 (snd c1) /\ grows sR0 (snd c2) /\ fresh_to_fresh sA0 sR0 (snd c1) p'.

Lemma map_instA_rel p sA sR rA rR a : rel_env p sA sR rA rR ->
  Forall2 (rel_val p sA sR) (map (instA rA) a) (map (instA rR) a).
Proof. intros E. induction a as [|t l IH]; simpl; constructor; auto. apply instA_rel; exact E. Qed.

Lemma leaf_rel f a c1 c2 : cfg_rel0 c1 c2 ->
  Forall2 cfg_rel0 (fst (leafA cA f a c1)) (fst (leafA cR f a c2)) /\ snd (leafA cA f a c1) = snd (leafA cR f a c2).
Proof.
  destruct c1 as [rA sA], c2 as [rR sR]. intros [p1 [R1 [E1 [A1 [GA [GR F1]]]]]]. cbn [fst snd] in *.
  unfold leafA.
  destruct (Hcall p1 sA sR f _ _ R1 (map_instA_rel p1 sA sR rA rR a E1)) as [H1 H2].
  destruct (cA f (map (instA rA) a) sA) as [xsA eA], (cR f (map (instA rR) a) sR) as [xsR eR]. cbn [fst snd] in *.
  split; [|exact H2]. clear H2.
  induction H1 as [|xA xR lA lR Hx H IH]; simpl; constructor; [|exact IH].
  destruct (ans_rel_trans p0 sA0 sR0 p1 sA sR xA xR R1 A1 GA GR F1 Hx) as [p2 [R2 [A2 [GA2 [GR2 F2]]]]].
  destruct Hx as [p2' [R2' [A2' [GA2' [GR2' F2']]]]].
  exists p2'. cbn [fst snd].
  split; [exact R2'|]. split; [exact (rel_env_mono _ _ _ _ _ _ _ _ R1 R2' A2' GA2' GR2' E1)|].
  split; [eapply agree_trans; [apply GA|exact A1|exact A2']|].
  split; [exact (grows_trans _ _ _ GA GA2')|]. split; [exact (grows_trans _ _ _ GR GR2')|].
  intros a0 L1 L2. destruct (Nat.lt_ge_cases a0 (nxt sA)) as [L|L].
  - rewrite <- (A2' a0 L). apply F1; assumption.
  - pose proof (F2' a0 L L2). destruct GR as [GR _]. lia.
Qed.

Lemma body_rel b c1 c2 : cfg_rel0 c1 c2 ->
  Forall2 cfg_rel0 (fst (sem (leafA cA) b c1)) (fst (sem (leafA cR) b c2)) /\
  snd (sem (leafA cA) b c1) = snd (sem (leafA cR) b c2).
Proof. intros H. apply (sem_rel cfg cfg cfg_rel0 (leafA cA) (leafA cR) leaf_rel b c1 c2 H). Qed.

Lemma clause_res_rel c c1 c2 : cfg_rel0 c1 c2 ->
  Forall2 cfg_rel0 (fst (clause_res cA c c1)) (fst (clause_res cR c c2)) /\
  snd (clause_res cA c c1) = snd (clause_res cR c c2).
Proof.
  destruct c1 as [rA sA], c2 as [rR sR]. intros [p1 [R1 [E1 [A1 [GA [GR F1]]]]]]. cbn [fst snd] in *.
  unfold clause_res.
  destruct (head_unify_rel (clause_pos c) 0 (c_args c) p1 sA sR rA rR R1 E1) as [xA xR Rx NA NR XA XR| |].
  - apply body_rel. exists p1. cbn [fst snd].
    assert (GxA: grows sA xA) by (split; [lia|exact XA]). assert (GxR: grows sR xR) by (split; [lia|exact XR]).
    split; [exact Rx|]. split; [exact (rel_env_mono _ _ _ _ _ _ _ _ R1 Rx (agree_refl _ _) GxA GxR E1)|].
    split; [exact A1|]. split; [exact (grows_trans _ _ _ GA GxA)|]. split; [exact (grows_trans _ _ _ GR GxR)|].
    intros a L1 L2. apply F1; [exact L1|lia].
  - split; [constructor|reflexivity].
  - split; [constructor|reflexivity].
Qed.

Lemma clauses_rel cs : forall c1 c2, cfg_rel0 c1 c2 ->
  Forall2 cfg_rel0 (fst (clausesA cA cs c1)) (fst (clausesR cR cs c2)) /\
  snd (clausesA cA cs c1) = snd (clausesR cR cs c2).
Proof.
  induction cs as [|c rest IH]; intros c1 c2 H; cbn [clausesA clausesR]; [split; [constructor|reflexivity]|].
  destruct c1 as [rA sA], c2 as [rR sR]. destruct H as [p1 [R1 [E1 [A1 [GA [GR F1]]]]]]. cbn [fst snd] in *.
  destruct (enter_rel c p1 sA sR rA rR R1 E1) as [cfR [p2 [HE [R2 [A2 [GA2 [GR2 [E2 F2]]]]]]]]. rewrite HE.
  assert (H1: cfg_rel0 (clause_enter c (rA, sA)) cfR).
  { exists p2. split; [exact R2|]. split; [exact E2|].
    split; [eapply agree_trans; [apply GA|exact A1|exact A2]|].
    split; [exact (grows_trans _ _ _ GA GA2)|]. split; [exact (grows_trans _ _ _ GR GR2)|].
    intros a L1 L2. destruct (Nat.lt_ge_cases a (nxt sA)) as [L|L].
    - rewrite <- (A2 a L). apply F1; assumption.
    - pose proof (F2 a L L2) as H. destruct GR as [GR _]. lia. }
  destruct (clause_res_rel c _ _ H1) as [Q1 Q2].
  destruct (clause_res cA c (clause_enter c (rA, sA))) as [ysA fA], (clause_res cR c cfR) as [ysR fR]. cbn [fst snd] in *. subst fR.
  destruct fA; try (split; [exact Q1|reflexivity]).
  destruct (IH _ _ H1) as [Q3 Q4].
  destruct (clausesA cA rest (clause_enter c (rA, sA))) as [zsA gA], (clausesR cR rest cfR) as [zsR gR]. cbn [fst snd] in *.
  split; [apply Forall2_app; assumption|exact Q4].
Qed.
End Activation.

(* ---------------------------------------------------------------- a block of fresh cells on both sides *)
Lemma block_rel p sA sR (q : nat -> nat) mA mR :
  rel_st p sA sR ->
  (forall a b, nxt sA <= a -> a < nxt sA + mA -> nxt sA <= b -> b < nxt sA + mA -> q a = q b -> a = b) ->
  (forall a, nxt sA <= a -> a < nxt sA + mA -> nxt sR <= q a /\ q a < nxt sR + mR) ->
  let p' := fun a => if Nat.ltb a (nxt sA) then p a else q a in
  rel_st p' {| sto := sto sA; nxt := nxt sA + mA |} {| sto := sto sR; nxt := nxt sR + mR |} /\ agree (nxt sA) p p'.
Proof.
  intros R Qinj Qimg p'.
  assert (A: agree (nxt sA) p p').
  { intros a La. unfold p'. destruct (Nat.ltb_spec a (nxt sA)); [reflexivity|lia]. }
  assert (Pn: forall a, nxt sA <= a -> p' a = q a).
  { intros a La. unfold p'. destruct (Nat.ltb_spec a (nxt sA)); [lia|reflexivity]. }
  split; [|exact A]. constructor; cbn [sto nxt].
  - intros a b La Lb E.
    destruct (Nat.lt_ge_cases a (nxt sA)) as [L1|L1]; destruct (Nat.lt_ge_cases b (nxt sA)) as [L2|L2].
    + rewrite <- (A a L1), <- (A b L2) in E. apply (r_inj R); assumption.
    + rewrite <- (A a L1), (Pn b L2) in E. pose proof (r_img R a L1). destruct (Qimg b L2 Lb). lia.
    + rewrite (Pn a L1), <- (A b L2) in E. pose proof (r_img R b L2). destruct (Qimg a L1 La). lia.
    + rewrite (Pn a L1), (Pn b L2) in E. apply Qinj; assumption.
  - intros a La. destruct (Nat.lt_ge_cases a (nxt sA)) as [L1|L1].
    + rewrite <- (A a L1). pose proof (r_img R a L1). lia.
    + rewrite (Pn a L1). destruct (Qimg a L1 La). lia.
  - apply (r_wfA R).
  - apply (r_wfR R).
  - unfold inv; cbn [sto nxt]. eapply store_bounded_mono; [|apply (r_invA R)]. lia.
  - unfold inv; cbn [sto nxt]. eapply store_bounded_mono; [|apply (r_invR R)]. lia.
  - intros a La. destruct (Nat.lt_ge_cases a (nxt sA)) as [L1|L1].
    + rewrite <- (A a L1), (r_den R a L1).
      apply ren_agree with (k := nxt sA); [exact A|]. apply bounded_den; [apply (r_invA R)|apply bounded_var; exact L1].
    + rewrite (Pn a L1). destruct (Qimg a L1 La) as [Q1 Q2].
      rewrite (den_var_unbound _ _ (lookup_bounded_none _ _ _ (r_invR R) Q1)).
      rewrite (den_var_unbound _ _ (lookup_bounded_none _ _ _ (r_invA R) L1)). cbn [ren]. rewrite (Pn a L1). reflexivity.
  - intros a La L0. destruct (Nat.lt_ge_cases a (nxt sA)) as [L1|L1].
    + rewrite <- (A a L1). apply (r_free R); assumption.
    + rewrite (Pn a L1). destruct (Qimg a L1 La) as [Q1 Q2]. apply (lookup_bounded_none _ _ _ (r_invR R) Q1).
Qed.

(* shifting the new cells of an answer on both sides *)
Lemma shift_ren loA loR dA dR (px p2 : nat -> nat) kx u :
  bounded kx u ->
  (forall c, c < loA -> c < kx -> px c < loR /\ p2 c = px c) ->
  (forall c, loA <= c -> c < kx -> loR <= px c /\ p2 (c + dA) = px c + dR) ->
  shift_term loR dR (ren px u) = ren p2 (shift_term loA dA u).
Proof.
  intros B Hlo Hhi. induction u as [a|z|x|c|f args IH] using term_ind'; cbn [ren shift_term]; try reflexivity.
  - assert (Lc: c < kx) by (apply B; simpl; apply Nat.eqb_refl).
    destruct (Nat.leb_spec loA c) as [L|L].
    + destruct (Hhi c L Lc) as [H1 H2]. destruct (Nat.leb_spec loR (px c)); [|lia]. cbn [ren]. rewrite H2. reflexivity.
    + destruct (Hlo c L Lc) as [H1 H2]. destruct (Nat.leb_spec loR (px c)); [lia|]. cbn [ren]. rewrite H2. reflexivity.
  - f_equal. rewrite !map_map. apply map_ext_in. intros y Hy.
    apply (proj1 (Forall_forall _ _) IH y Hy). apply bounded_fun in B. exact (proj1 (Forall_forall _ _) B y Hy).
Qed.

Lemma shift_free lo d s u k : store_bounded lo s -> free_in s u -> lo <= k ->
  free_in s (shift_term lo d u).
Proof.
  intros SB F L w Hw. induction u as [a|z|x|c|f args IH] using term_ind'; cbn [shift_term] in Hw; try discriminate.
  - destruct (Nat.leb_spec lo c) as [Lc|Lc]; simpl in Hw; apply Nat.eqb_eq in Hw; subst w.
    + apply (lookup_bounded_none lo); [exact SB|lia].
    + apply F. simpl. apply Nat.eqb_refl.
  - simpl in Hw. rewrite existsb_exists in Hw. destruct Hw as [y [Hy Ho]]. apply in_map_iff in Hy as [x0 [<- Hx]].
    apply (proj1 (Forall_forall _ _) IH x0 Hx); [|exact Ho].
    intros v Hv. apply F. simpl. apply existsb_exists. exists x0; auto.
Qed.

Lemma free_of_ext s s' t : wf s' -> ext s s' -> free_in s (den s' t).
Proof. intros W [nw E]. subst s'. eapply free_app_r. apply den_free. exact W. Qed.

(* the copies: every cell of an instance is moved past everything that exists (lo = 0) *)
Lemma shift0_free k d s u : store_bounded k s -> k <= d -> free_in s (shift_term 0 d u).
Proof.
  intros SB L w Hw. induction u as [a|z|x|c|f args IH] using term_ind'; cbn [shift_term] in Hw; try discriminate.
  - cbn [Nat.leb] in Hw. simpl in Hw. apply Nat.eqb_eq in Hw. subst w. apply (lookup_bounded_none k); [exact SB|lia].
  - simpl in Hw. rewrite existsb_exists in Hw. destruct Hw as [y [Hy Ho]]. apply in_map_iff in Hy as [x0 [<- Hx]].
    exact (proj1 (Forall_forall _ _) IH x0 Hx Ho).
Qed.

Lemma collect_rel p sA sR tA tR xsA xsR :
  rel_st p sA sR -> rel_val p sA sR tA tR -> Forall2 (ans_rel p sA sR) xsA xsR ->
  forall p1 bA bR,
  rel_st p1 {| sto := sto sA; nxt := bA |} {| sto := sto sR; nxt := bR |} -> agree (nxt sA) p p1 ->
  nxt sA <= bA -> nxt sR <= bR ->
  exists p2,
    rel_st p2 {| sto := sto sA; nxt := snd (collect 0 bA tA xsA) |} {| sto := sto sR; nxt := snd (collect 0 bR tR xsR) |} /\
    agree bA p1 p2 /\ bA <= snd (collect 0 bA tA xsA) /\ bR <= snd (collect 0 bR tR xsR) /\
    (forall a, bA <= a -> a < snd (collect 0 bA tA xsA) -> bR <= p2 a) /\
    Forall2 (rel_val p2 {| sto := sto sA; nxt := snd (collect 0 bA tA xsA) |} {| sto := sto sR; nxt := snd (collect 0 bR tR xsR) |})
            (fst (collect 0 bA tA xsA)) (fst (collect 0 bR tR xsR)).
Proof.
  intros R V H. induction H as [|xA xR lA lR Hx H IH]; intros p1 bA bR R1 A1 LbA LbR; cbn [collect].
  - exists p1. cbn [fst snd]. split; [exact R1|]. split; [apply agree_refl|]. split; [lia|]. split; [lia|]. split; [intros a L1 L2; lia|constructor].
  - destruct Hx as [px [Rx [Ax [GA [GR Fx]]]]].
    rewrite !Nat.sub_0_r.
    set (nA := nxt sA) in *. set (nR := nxt sR) in *.
    set (mA := nxt xA). set (mR := nxt xR).
    assert (LxA: nA <= nxt xA) by apply GA. assert (LxR: nR <= nxt xR) by apply GR.
    set (q := fun a => bR + px (a - bA)).
    set (SA1 := {| sto := sto sA; nxt := bA |}) in *. set (SR1 := {| sto := sto sR; nxt := bR |}) in *.
    assert (Qinj: forall a b, nxt SA1 <= a -> a < nxt SA1 + mA -> nxt SA1 <= b -> b < nxt SA1 + mA -> q a = q b -> a = b).
    { cbn [nxt SA1]. intros a b L1 L2 L3 L4 E. unfold q in E.
      assert (Ha: a - bA < nxt xA) by (unfold mA in *; lia).
      assert (Hb: b - bA < nxt xA) by (unfold mA in *; lia).
      assert (E2: px (a - bA) = px (b - bA)) by lia.
      apply (r_inj Rx) in E2; [lia|exact Ha|exact Hb]. }
    assert (Qimg: forall a, nxt SA1 <= a -> a < nxt SA1 + mA -> nxt SR1 <= q a /\ q a < nxt SR1 + mR).
    { cbn [nxt SA1 SR1]. intros a L1 L2. unfold q.
      assert (Ha: a - bA < nxt xA) by (unfold mA in *; lia).
      pose proof (r_img Rx _ Ha). unfold mR. lia. }
    destruct (block_rel p1 SA1 SR1 q mA mR R1 Qinj Qimg) as [R2 A2]. cbn zeta in R2, A2. cbn [nxt sto SA1 SR1] in R2, A2.
    set (p2 := fun a => if Nat.ltb a bA then p1 a else q a) in *.
    assert (Ap2: agree nA p p2) by (eapply agree_trans; [exact LbA|exact A1|exact A2]).
    destruct (IH p2 (bA + mA) (bR + mR) R2 Ap2 ltac:(lia) ltac:(lia)) as [p3 [R3 [A3 [L3A [L3R [G3 F3]]]]]].
    unfold mA, mR in *.
    destruct (collect 0 (bA + nxt xA) tA lA) as [esA fA]. destruct (collect 0 (bR + nxt xR) tR lR) as [esR fR].
    cbn [fst snd] in *.
    exists p3. split; [exact R3|]. split; [eapply agree_trans; [|exact A2|exact A3]; lia|]. split; [lia|]. split; [lia|].
    split.
    { intros a L1 L2. destruct (Nat.lt_ge_cases a (bA + nxt xA)) as [L|L].
      - rewrite <- (A3 a L). unfold p2. destruct (Nat.ltb_spec a bA); [lia|]. unfold q. lia.
      - pose proof (G3 a L L2). lia. }
    constructor; [|exact F3].
    (* the copy of the instance of this answer *)
    set (SA2 := {| sto := sto sA; nxt := bA + nxt xA |}) in *. set (SR2 := {| sto := sto sR; nxt := bR + nxt xR |}) in *.
    apply (rel_val_mono p2 SA2 SR2 p3 _ _ _ _ R2 R3 A3); [split; cbn [sto nxt]; [exact L3A|apply ext_refl]|split; cbn [sto nxt]; [exact L3R|apply ext_refl]|].
    destruct V as [BtA [BtR Dt]].
    destruct (rel_val_mono p sA sR px xA xR tA tR R Rx Ax GA GR (conj BtA (conj BtR Dt))) as [_ [_ Dx]].
    rewrite !den_fast_eq.
    set (dA := den (sto xA) tA) in *.
    assert (BdA: bounded (nxt xA) dA) by (apply bounded_den; [apply (r_invA Rx)|eapply bounded_mono; [exact LxA|exact BtA]]).
    assert (BdR: bounded (nxt xR) (den (sto xR) tR)) by (apply bounded_den; [apply (r_invR Rx)|eapply bounded_mono; [exact LxR|exact BtR]]).
    assert (FA: free_in (sto sA) (shift_term 0 bA dA)) by (apply (shift0_free nA); [apply (r_invA R)|exact LbA]).
    assert (FR: free_in (sto sR) (shift_term 0 bR (den (sto xR) tR))) by (apply (shift0_free nR); [apply (r_invR R)|exact LbR]).
    split; [|split].
    + cbn [nxt SA2]. eapply bounded_mono; [|apply (shift_bounded 0 bA (nxt xA)); [exact BdA|lia]]. lia.
    + cbn [nxt SR2]. eapply bounded_mono; [|apply (shift_bounded 0 bR (nxt xR)); [exact BdR|lia]]. lia.
    + cbn [sto SA2 SR2]. rewrite (den_id FA), (den_id FR), Dx.
      apply (shift_ren 0 0 bA bR px p2 (nxt xA) dA BdA).
      * intros c L1 L2. lia.
      * intros c L1 L2. split; [lia|].
        unfold p2. destruct (Nat.ltb_spec (c + bA) bA); [lia|]. unfold q.
        replace (c + bA - bA) with c by lia. lia.
Qed.

Lemma rel_vals_boundedA p sA sR la lb : Forall2 (rel_val p sA sR) la lb -> Forall (bounded (nxt sA)) la.
Proof. induction 1 as [|a b la lb [B _] F IH]; constructor; auto. Qed.
Lemma rel_vals_boundedR p sA sR la lb : Forall2 (rel_val p sA sR) la lb -> Forall (bounded (nxt sR)) lb.
Proof. induction 1 as [|a b la lb [_ [B _]] F IH]; constructor; auto. Qed.
Lemma rel_vals_dr p sA sR la lb : Forall2 (rel_val p sA sR) la lb -> Forall2 (dr p sA sR) la lb.
Proof. induction 1 as [|a b la lb [_ [_ D]] F IH]; constructor; auto. Qed.

(* ---------------------------------------------------------------- the builtin predicates *)
Section BuiltinRel.
Variables cA cR : str -> list term -> st -> list st * bool.
Hypothesis Hcall : call_rel cA cR.

Definition res_rel (p : nat -> nat) (sA sR : st) (rA rR : list st * bool) : Prop :=
  Forall2 (ans_rel p sA sR) (fst rA) (fst rR) /\ snd rA = snd rR.

Lemma unify_st_rel p sA sR a b aR bR : rel_st p sA sR -> rel_val p sA sR a aR -> rel_val p sA sR b bR ->
  res_rel p sA sR (unify_st sA a b) (unify_st sR aR bR).
Proof.
  intros R Va Vb. unfold unify_st. pose proof (unify_fast_rel p sA sR a b aR bR ufuel R Va Vb) as H.
  destruct (unify_fast ufuel (sto sA) a b) as [s1| | |].
  - destruct H as [s1R [U [R1 [XA XR]]]]. rewrite U. split; [|reflexivity]. cbn [fst]. constructor; [|constructor].
    exists p. split; [exact R1|]. split; [apply agree_refl|]. split; [split; cbn; [lia|exact XA]|]. split; [split; cbn; [lia|exact XR]|].
    intros a0 L1 L2. cbn in L2. lia.
  - rewrite H. split; [constructor|reflexivity].
  - rewrite H. split; [constructor|reflexivity].
  - rewrite H. split; [constructor|reflexivity].
Qed.

Lemma call_goal_rel p sA sR g gR extra extraR : rel_st p sA sR -> rel_val p sA sR g gR ->
  Forall2 (rel_val p sA sR) extra extraR -> res_rel p sA sR (call_goal cA g extra sA) (call_goal cR gR extraR sR).
Proof.
  intros R [Bg [BgR Dg]] E. unfold call_goal. rewrite !den_fast_eq, Dg.
  pose proof (bounded_den _ _ (r_invA R) g Bg) as Bd.
  destruct (den (sto sA) g) as [a|z|x|v|f gargs]; cbn [ren]; try (split; [constructor|reflexivity]).
  - apply Hcall; assumption.
  - apply Hcall; [exact R|]. apply Forall2_app; [|exact E].
    apply bounded_fun in Bd. clear -R Bd. induction Bd as [|y l By Bl IH]; simpl; constructor; [|exact IH].
    apply rel_val_ren; assumption.
Qed.

Lemma builtin_rel p sA sR name argsA argsR : rel_st p sA sR -> Forall2 (rel_val p sA sR) argsA argsR ->
  match builtin cA name argsA sA, builtin cR name argsR sR with
  | Some rA, Some rR => res_rel p sA sR rA rR
  | None, None => True
  | _, _ => False
  end.
Proof.
  intros R E. unfold builtin.
  destruct (str_eqb name (s_ "=")).
  { destruct E as [|a aR l lR Va E]; [exact Logic.I|]. destruct E as [|b bR l lR Vb E]; [exact Logic.I|].
    destruct E; [|exact Logic.I]. apply unify_st_rel; assumption. }
  destruct (str_eqb name (s_ "\=")).
  { destruct E as [|a aR l lR Va E]; [exact Logic.I|]. destruct E as [|b bR l lR Vb E]; [exact Logic.I|].
    destruct E; [|exact Logic.I].
    pose proof (unify_fast_rel p sA sR a b aR bR ufuel R Va Vb) as H.
    destruct (unify_fast ufuel (sto sA) a b) as [s1| | |].
    - destruct H as [s1R [U _]]. rewrite U. split; [constructor|reflexivity].
    - rewrite H. split; [|reflexivity]. cbn [fst]. constructor; [apply ans_rel_refl; exact R|constructor].
    - rewrite H. split; [constructor|reflexivity].
    - rewrite H. split; [constructor|reflexivity]. }
  destruct (str_eqb name (s_ "call")).
  { destruct E as [|g gR l lR Vg E]; [split; [constructor|reflexivity]|]. apply call_goal_rel; assumption. }
  destruct (str_eqb name (s_ "once")).
  { destruct E as [|g gR l lR Vg E]; [exact Logic.I|]. destruct E; [|exact Logic.I].
    destruct (call_goal_rel p sA sR g gR [] [] R Vg (Forall2_nil _)) as [H1 H2].
    destruct (call_goal cA g [] sA) as [xsA eA], (call_goal cR gR [] sR) as [xsR eR]. cbn [fst snd] in *. subst eR.
    destruct H1 as [|xA xR lA lR Hx H1]; split; cbn [fst snd]; try reflexivity; repeat constructor. exact Hx. }
  destruct (str_eqb name (s_ "findall")); [|exact Logic.I].
  destruct E as [|t tR l0 l0R Vt E]; [exact Logic.I|]. destruct E as [|g gR l1 l1R Vg E]; [exact Logic.I|].
  destruct E as [|l lR l2 l2R Vl E]; [exact Logic.I|]. destruct E; [|exact Logic.I].
  destruct (call_goal_rel p sA sR g gR [] [] R Vg (Forall2_nil _)) as [H1 H2].
  destruct (call_goal cA g [] sA) as [xsA eA], (call_goal cR gR [] sR) as [xsR eR]. cbn [fst snd] in *. subst eR.
  destruct eA; [split; [constructor|reflexivity]|].
  assert (R0: rel_st p {| sto := sto sA; nxt := nxt sA |} {| sto := sto sR; nxt := nxt sR |}) by (rewrite !st_eta_; exact R).
  destruct (collect_rel p sA sR t tR xsA xsR R Vt H1 p (nxt sA) (nxt sR) R0 (agree_refl _ _) (le_n _) (le_n _))
    as [p2 [R2 [A2 [LA [LR [G2 F2]]]]]].
  destruct (collect 0 (nxt sA) t xsA) as [esA bA], (collect 0 (nxt sR) tR xsR) as [esR bR]. cbn [fst snd] in *.
  set (SA := {| sto := sto sA; nxt := bA |}) in *. set (SR := {| sto := sto sR; nxt := bR |}) in *.
  assert (GA: grows sA SA) by (split; cbn; [exact LA|apply ext_refl]).
  assert (GR: grows sR SR) by (split; cbn; [exact LR|apply ext_refl]).
  assert (VL: rel_val p2 SA SR (mk_list esA) (mk_list esR)).
  { split; [apply mk_list_bounded; exact (rel_vals_boundedA _ _ _ _ _ F2)|].
    split; [apply mk_list_bounded; exact (rel_vals_boundedR _ _ _ _ _ F2)|].
    apply dr_mk_list. exact (rel_vals_dr _ _ _ _ _ F2). }
  destruct (unify_st_rel p2 SA SR l _ lR _ R2 (rel_val_mono _ _ _ _ _ _ _ _ R R2 A2 GA GR Vl) VL) as [Q1 Q2].
  split; [|exact Q2].
  clear -Q1 R R2 A2 GA GR LA LR G2. induction Q1 as [|yA yR mA mR Hy Q IH]; constructor; [|exact IH].
  apply (ans_rel_trans p sA sR p2 SA SR yA yR R2 A2 GA GR); [|exact Hy].
  intros a L1 L2. cbn in L2. apply G2; assumption.
Qed.
End BuiltinRel.

(* ---------------------------------------------------------------- programs *)
Lemma bind_args_rel p sA sR argsA argsR : Forall2 (rel_val p sA sR) argsA argsR ->
  forall i, rel_env p sA sR (bind_args i argsA) (bind_args i argsR).
Proof.
  induction 1 as [|a b la lb V F IH]; intros i; cbn [bind_args]; constructor; [|apply IH].
  split; [reflexivity|exact V].
Qed.

Lemma Forall2_length_eq {A B} (R : A -> B -> Prop) la lb : Forall2 R la lb -> length la = length lb.
Proof. induction 1; simpl; auto. Qed.

Theorem solve_rel : forall n prog, call_rel (solveA n prog) (solveR n prog).
Proof.
  induction n as [|n IH]; intros prog p sA sR f argsA argsR R E; [split; [constructor|reflexivity]|].
  cbn [solveA solveR]. rewrite <- (Forall2_length_eq _ _ _ E).
  destruct (clauses_for prog f (length argsA)) as [|c cs].
  - pose proof (builtin_rel _ _ (IH prog) p sA sR f argsA argsR R E) as H.
    destruct (builtin (solveA n prog) f argsA sA) as [rA|], (builtin (solveR n prog) f argsR sR) as [rR|]; try contradiction.
    + exact H.
    + split; [constructor|reflexivity].
  - assert (H0: cfg_rel0 p sA sR (bind_args 0 argsA, sA) (bind_args 0 argsR, sR)).
    { exists p. cbn [fst snd]. split; [exact R|]. split; [apply bind_args_rel; exact E|].
      split; [apply agree_refl|]. split; [apply grows_refl|]. split; [apply grows_refl|]. intros a L1 L2; lia. }
    destruct (clauses_rel _ _ (IH prog) p sA sR (c :: cs) _ _ H0) as [Q1 Q2].
    destruct (clausesA (solveA n prog) (c :: cs) (bind_args 0 argsA, sA)) as [ysA fA].
    destruct (clausesR (solveR n prog) (c :: cs) (bind_args 0 argsR, sR)) as [ysR fR]. cbn [fst snd] in *. subst fR.
    split; [|reflexivity].
    induction Q1 as [|[rA xA] [rR xR] lA lR [p' [R' [_ [A' [GA [GR F']]]]]] Q IHQ]; cbn [map]; constructor; [|exact IHQ].
    exists p'. cbn [fst snd] in *. auto.
Qed.

(* The observable form: a query started from the same state in both semantics (cells 0 .. nxt s - 1 are the
   query's variables and whatever they are bound to) gives answer sequences of the same length, ending the
   same way, and the k-th answers agree on every cell that existed before the query up to an injective
   renaming p' of the cells created during the query (p' is the identity on the old cells). *)
Definition id_ren : nat -> nat := fun a => a.

Lemma ren_id t : ren id_ren t = t.
Proof.
  induction t as [a|z|x|c|f args IH] using term_ind'; simpl; auto.
  f_equal. rewrite <- (map_id args) at 2. apply map_ext_in. intros y Hy. exact (proj1 (Forall_forall _ _) IH y Hy).
Qed.

Lemma rel_st_id s : wf (sto s) -> inv s -> rel_st id_ren s s.
Proof.
  intros W I. constructor; auto.
  - intros a b _ _ E. exact E.
  - intros a _. rewrite ren_id. reflexivity.
Qed.

Definition same_answer (s xA xR : st) : Prop :=
  exists p', inj_on (nxt xA) p' /\ (forall a, a < nxt s -> p' a = a) /\
             forall q, q < nxt s -> den (sto xR) (TVar q) = ren p' (den (sto xA) (TVar q)).

Theorem naming_equals_renaming_apart : forall n prog name args s,
  wf (sto s) -> inv s -> Forall (bounded (nxt s)) args ->
  Forall2 (same_answer s) (fst (solveA n prog name args s)) (fst (solveR n prog name args s)) /\
  snd (solveA n prog name args s) = snd (solveR n prog name args s).
Proof.
  intros n prog name args s W I B.
  assert (E: Forall2 (rel_val id_ren s s) args args).
  { clear -B W I. induction B as [|a l Ba Bl IH]; constructor; [|exact IH].
    split; [exact Ba|]. split; [exact Ba|]. rewrite ren_id. reflexivity. }
  destruct (solve_rel n prog id_ren s s name args args (rel_st_id s W I) E) as [H1 H2].
  split; [|exact H2].
  induction H1 as [|xA xR lA lR [p' [R' [A' [GA [GR F']]]]] H IH]; constructor; [|exact IH].
  exists p'. split; [apply (r_inj R')|]. split; [intros a La; symmetry; apply (A' a La)|].
  intros q Lq. assert (Lq': q < nxt xA) by (destruct GA as [GA _]; lia).
  pose proof (r_den R' q Lq') as D. rewrite <- (A' q Lq) in D. exact D.
Qed.
