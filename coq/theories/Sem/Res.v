(* Partial answer lists: the answers produced, in order, and how production ended.
   FNorm  exhausted normally
   FCut   ended by a cut (the clause loop of the enclosing predicate must stop)
   FErr   ended by an exception (in the model: call depth / fuel exhausted); sticky
   FExit l  ended by the commit of the if-then-else with label l (only inside bodies that
            contain $CUTIF markers, i.e. only during compilation) *)
From Coq Require Import List Arith Bool.
Import ListNotations.
Set Implicit Arguments.

Inductive fin := FNorm | FCut | FErr | FExit (l:nat).
Definition res (S:Type) := (list S * fin)%type.

Section Res.
Variable S : Type.

Fixpoint seqr (f:S -> res S) (xs:list S) (e:fin) : res S :=
  match xs with
  | [] => ([],e)
  | x::r => let '(ys,g) := f x in
      match g with
      | FNorm => let '(zs,h) := seqr f r e in (ys++zs,h)
      | _ => (ys,g) end
  end.

Definition opaque (r:res S) : res S := match r with (xs,FCut) => (xs,FNorm) | _ => r end.

Definition ite (rc:res S) (t:S -> res S) (e:res S) : res S :=
  match rc with
  | (x::_,_) => t x
  | ([],FNorm) => e
  | ([],f) => ([],f)
  end.

Definition por (ra rb:res S) : res S :=
  match ra with (xs,FNorm) => let '(ys,g) := rb in (xs++ys,g) | r => r end.

Definition bindr (r:res S) (f:S -> res S) : res S := seqr f (fst r) (snd r).
End Res.
