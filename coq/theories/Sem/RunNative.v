(* Executable entry point of the C20 correspondence check: a program (compiled by the model compiler), a table of
   registered Python predicates, dynamic facts and queries; answered by the engine model of Sem/Native.v, and - for
   the interchangeability claim - also by the same engine without Python predicates on the program that contains
   the replaced fact predicates as clauses. *)
From Coq Require Import String.
From Coq Require Import List Arith Bool ZArith NArith.
Import ListNotations.
From YP Require Import Base.Str Term.Term Term.Show Term.Fast Unify.Unify Lang.Ast Comp.IR Comp.CompileClause
  Sem.Machine Sem.RunSem Sem.ClauseSem Sem.Native Sem.NativeExc Sem.NativeRename.
Local Open Scope string_scope.
Local Open Scope list_scope.

Inductive nstyle := NFixed (k : nat) | NVariadic.

(* registered function: name, key style, rows, the value yielded per row, "raises instead of answer j" *)
Record nspec := { n_name : str; n_style : nstyle; n_rows : list frow; n_vals : list bool; n_raise : option nat }.

(* the engine with exception objects (Sem/NativeExc.v; its erasure is Sem/Native.nquery, erase_nqueryE): the predicate
   number i of the case raises the object XPy i *)
Definition liftE (f : nfun) : nfunE := fun args s => (fst (f args s), if snd (f args s) then Some XUnify else None).

Definition nspec_fun (tag : nat) (x : nspec) : nfunE :=
  let f := liftE (native_rows (n_rows x) (n_vals x)) in
  match n_raise x with Some j => raisingE f j tag | None => f end.

Fixpoint fix_table (i : nat) (l : list nspec) : list (str * nat * nfunE) :=
  match l with
  | [] => []
  | x :: r => match n_style x with NFixed k => [(n_name x, k, nspec_fun i x)] | NVariadic => [] end ++ fix_table (S i) r
  end.
Fixpoint var_table (i : nat) (l : list nspec) : list (str * nfunE) :=
  match l with
  | [] => []
  | x :: r => match n_style x with NVariadic => [(n_name x, nspec_fun i x)] | NFixed _ => [] end ++ var_table (S i) r
  end.

Definition mk_worldE (ir : ir_program) (fixl : list (str * nat * nfunE)) (varl : list (str * nfunE))
    (dynl : list (str * nat * list frow)) : worldE :=
  {| e_ir := ir; e_fix := lookup_fix fixl; e_var := lookup_var varl;
     e_dyn := fun name k => match lookup_fix dynl name k with Some rows => rows | None => [] end |}.

Definition exn_obs (o : option exn) : obs :=
  match o with
  | None => otag "none" []
  | Some XDepth => otag "depth" [] | Some XUnify => otag "unify" [] | Some XGoal => otag "goal" [] | Some XCode => otag "code" []
  | Some (XPy t) => otag "py" [onat t]
  end.

Definition answersE_obs (nq : nat) (r : list st * option exn) (limit : nat) : obs :=
  OL [OL (map (fun x => OL (map (fun v => term_obs (den_fast (sto x) (TVar v))) (seq 0 nq))) (firstn limit (fst r)));
      onat (length (fst r)); exn_obs (snd r)].

Definition top_valuesE (w : worldE) (name : str) (args : list term) (s : st) : option (list bool) :=
  match e_fix w name (length args) with
  | Some f => Some (map snd (fst (f args s)))
  | None => None
  end.

Definition values_obs (o : option (list bool)) : obs :=
  match o with None => OL [] | Some l => OL [OL (map obool l)] end.

(* the rows handed to the model for a Python predicate, next to NativeRename.row_of_src of the facts of the full program
   (the rows the theorems about rows with variables speak about): the check requires them to be equal *)
Definition frow_obs (r : frow) : obs := OL [onat (r_nv r); OL (map term_obs (r_vals r))].
Definition rows_check (p_full : program) (nats : list nspec) : obs :=
  OL (map (fun x =>
        let k := match n_style x with
                 | NFixed k => k
                 | NVariadic => match n_rows x with r :: _ => length (r_vals r) | [] => 0 end
                 end in
        OL [OL (map frow_obs (n_rows x));
            OL (map (fun c => frow_obs (row_of_src (c_args c))) (clauses_for p_full (n_name x) k))]) nats).

Definition run_native (depth : nat) (p_rest p_full : program) (nats : list nspec)
    (dyn : list (str * nat * list frow)) (qs : list (str * list term * nat)) (limit : nat) : obs :=
  match compile_program p_rest, compile_program p_full with
  | Some ir, Some ir_full =>
      let w := mk_worldE ir (fix_table 0 nats) (var_table 0 nats) dyn in
      let wc := mk_worldE ir_full [] [] dyn in
      let nats0 := map (fun x => {| n_name := n_name x; n_style := n_style x; n_rows := n_rows x; n_vals := n_vals x; n_raise := None |}) nats in
      let w0 := mk_worldE ir (fix_table 0 nats0) (var_table 0 nats0) dyn in
      OL (map (fun q => let '(name, args, nq) := q in
                OL [ answersE_obs nq (nqueryE depth w name args (st0 nq)) limit;
                     answersE_obs nq (nqueryE depth wc name args (st0 nq)) limit;
                     values_obs (top_valuesE w name args (st0 nq));
                     (* the same world with no predicate raising: an error there is not the predicate's exception *)
                     answersE_obs nq (nqueryE depth w0 name args (st0 nq)) limit ]) qs
          ++ [OL [rows_check p_full nats]])
  | _, _ => otag "stuck" []
  end.
