(* Executable entry point of the C20 correspondence check: a program (compiled by the model compiler), a table of
   registered Python predicates, dynamic facts and queries; answered by the engine model of Sem/Native.v, and - for
   the interchangeability claim - also by the same engine without Python predicates on the program that contains
   the replaced fact predicates as clauses. *)
From Coq Require Import String.
From Coq Require Import List Arith Bool ZArith NArith.
Import ListNotations.
From YP Require Import Base.Str Term.Term Term.Show Term.Fast Unify.Unify Lang.Ast Comp.IR Comp.CompileClause
  Sem.Machine Sem.RunSem Sem.Native.
Local Open Scope string_scope.
Local Open Scope list_scope.

Inductive nstyle := NFixed (k : nat) | NVariadic.

(* registered function: name, key style, rows, the value yielded per row, "raises instead of answer j" *)
Record nspec := { n_name : str; n_style : nstyle; n_rows : list frow; n_vals : list bool; n_raise : option nat }.

Definition nspec_fun (x : nspec) : nfun :=
  let f := native_rows (n_rows x) (n_vals x) in
  match n_raise x with Some j => raising f j | None => f end.

Definition fix_table (l : list nspec) : list (str * nat * nfun) :=
  flat_map (fun x => match n_style x with NFixed k => [(n_name x, k, nspec_fun x)] | NVariadic => [] end) l.
Definition var_table (l : list nspec) : list (str * nfun) :=
  flat_map (fun x => match n_style x with NVariadic => [(n_name x, nspec_fun x)] | NFixed _ => [] end) l.

Definition values_obs (o : option (list bool)) : obs :=
  match o with None => OL [] | Some l => OL [OL (map obool l)] end.

Definition run_native (depth : nat) (p_rest p_full : program) (nats : list nspec)
    (dyn : list (str * nat * list frow)) (qs : list (str * list term * nat)) (limit : nat) : obs :=
  match compile_program p_rest, compile_program p_full with
  | Some ir, Some ir_full =>
      let w := mk_world ir (fix_table nats) (var_table nats) dyn in
      let wc := mk_world ir_full [] [] dyn in
      let nats0 := map (fun x => {| n_name := n_name x; n_style := n_style x; n_rows := n_rows x; n_vals := n_vals x; n_raise := None |}) nats in
      let w0 := mk_world ir (fix_table nats0) (var_table nats0) dyn in
      OL (map (fun q => let '(name, args, nq) := q in
                OL [ answers_obs nq (nquery depth w name args (st0 nq)) limit;
                     answers_obs nq (nquery depth wc name args (st0 nq)) limit;
                     values_obs (top_values w name args (st0 nq));
                     (* the same world with no predicate raising: an error there is not the predicate's exception *)
                     answers_obs nq (nquery depth w0 name args (st0 nq)) limit ]) qs)
  | _, _ => otag "stuck" []
  end.
