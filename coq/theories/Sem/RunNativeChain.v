(* Executable entry point of the C20 check for predicates defined from MIXED SOURCES (Sem/NativeChain.v, Sem/NativeChainExc.v): the
   engine is built by a sequence of register_function / load_script_from_string(.., overwrite) / assert_fact operations (each
   script compiled separately by the model compiler), queries are answered by cqueryE (the chain engine with exception objects;
   its erasure is cquery of the same operations: erase_built_cqueryE).  The check hands over two sequences: the one with the Python
   predicates and its all-compiled twin (every fixed-arity register_function replaced by load_script(the facts, overwrite=True)).
   The Python predicate of `MReg i x` raises the object XPy i. *)
From Coq Require Import String.
From Coq Require Import List Arith Bool ZArith NArith.
Import ListNotations.
From YP Require Import Base.Str Term.Term Term.Show Term.Fast Unify.Unify Lang.Ast Comp.IR Comp.CompileClause
  Sem.Machine Sem.RunSem Sem.ClauseSem Sem.Native Sem.NativeExc Sem.NativeRename Sem.NativeChain Sem.NativeChainExc Sem.RunNative.
Local Open Scope string_scope.
Local Open Scope list_scope.

Inductive mop :=
| MReg (tag : nat) (x : nspec)
| MLoad (p : program) (ow : bool)
| MAssert (name : str) (row : frow).

Definition mspec_fun (keep_raise : bool) (tag : nat) (x : nspec) : nfunE :=
  let f := liftE (native_rows (n_rows x) (n_vals x)) in
  match n_raise x with Some j => if keep_raise then raisingE f j tag else f | None => f end.

Definition to_op (keep_raise : bool) (m : mop) : option opE :=
  match m with
  | MReg tag x => Some (match n_style x with
                        | NFixed k => EReg (n_name x) k (mspec_fun keep_raise tag x)
                        | NVariadic => ERegVar (n_name x) (mspec_fun keep_raise tag x)
                        end)
  | MLoad p ow => match compile_program p with Some ir => Some (ELoad ir ow) | None => None end
  | MAssert name row => Some (EAssert name row)
  end.

Fixpoint to_ops (keep_raise : bool) (ms : list mop) : option (list opE) :=
  match ms with
  | [] => Some []
  | m :: r => match to_op keep_raise m, to_ops keep_raise r with Some o, Some l => Some (o :: l) | _, _ => None end
  end.

(* the values a top-level consumer sees for a chain of Python predicates only (dynamic facts yield False) *)
Fixpoint chain_valuesE (ds : list cdefE) (args : list term) (s : st) : option (list bool) :=
  match ds with
  | [] => Some []
  | ENat f :: r =>
      match snd (f args s) with
      | Some _ => Some (map snd (fst (f args s)))
      | None => match chain_valuesE r args s with Some l => Some (map snd (fst (f args s)) ++ l) | None => None end
      end
  | EIr _ :: _ => None
  end.

Definition ctop_values (w : cworldE) (name : str) (args : list term) (s : st) : option (list bool) :=
  match ce_fix w name (length args) with
  | Some ds =>
      let '(xs, e) := match_rows (ce_dyn w name (length args)) args s in
      if e then None
      else match chain_valuesE ds args s with Some l => Some (map (fun _ => false) xs ++ l) | None => None end
  | None => None
  end.

(* the rows handed over for a Python predicate next to row_of_src of the facts that its twin loads *)
Fixpoint twin_rows (ms mt : list mop) : list obs :=
  match ms, mt with
  | MReg _ x :: r, MLoad p _ :: rt =>
      OL [OL (map frow_obs (n_rows x)); OL (map (fun c => frow_obs (row_of_src (c_args c))) p)] :: twin_rows r rt
  | _ :: r, _ :: rt => twin_rows r rt
  | _, _ => []
  end.

Definition run_mixed (depth : nat) (ops_py ops_tw : list mop) (qs : list (str * list term * nat)) (limit : nat) : obs :=
  match to_ops true ops_py, to_ops false ops_py, to_ops false ops_tw with
  | Some o1, Some o0, Some o2 =>
      let w := buildE cemptyE o1 in
      let w0 := buildE cemptyE o0 in
      let wt := buildE cemptyE o2 in
      OL (map (fun q => let '(name, args, nq) := q in
                OL [ answersE_obs nq (cqueryE depth w name args (st0 nq)) limit;
                     answersE_obs nq (cqueryE depth wt name args (st0 nq)) limit;
                     values_obs (ctop_values w name args (st0 nq));
                     answersE_obs nq (cqueryE depth w0 name args (st0 nq)) limit ]) qs
          ++ [OL (twin_rows ops_py ops_tw)])
  | _, _, _ => otag "stuck" []
  end.
