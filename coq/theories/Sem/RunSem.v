(* Executable entry points for the correspondence harness: answers of a query against
   (a) the compiled program under the IR semantics, (b) the SLD reference semantics. *)
From Coq Require Import String.
From Coq Require Import List Arith Bool ZArith NArith.
Import ListNotations.
From YP Require Import Base.Str Term.Term Term.Show Term.Fast Unify.Unify Unify.Fast Lang.Ast Lang.Front Comp.IR Comp.CompileClause Comp.Limits Sem.Machine Sem.Sld Sem.SldR.
Local Open Scope string_scope.
Local Open Scope list_scope.

Definition st0 (nq : nat) : st := {| sto := []; nxt := nq |}.

Definition answers_obs (nq : nat) (r : list st * bool) (limit : nat) : obs :=
  let '(xs, e) := r in
  OL [OL (map (fun x => OL (map (fun v => term_obs (den_fast (sto x) (TVar v))) (seq 0 nq))) (firstn limit xs));
      onat (length xs); obool e].

Definition run_ir (depth : nat) (p : program) (name : str) (args : list term) (nq limit : nat) : obs :=
  match compile_program p with
  | Some ir => answers_obs nq (query depth ir name args (st0 nq)) limit
  | None => otag "stuck" []
  end.

Definition run_sld (depth : nat) (p : program) (name : str) (args : list term) (nq limit : nat) : obs :=
  answers_obs nq (solve depth p name args (st0 nq)) limit.

(* evaluating solveR is slow on bushy searches (every clause attempt leaves its trivial head bindings in the
   store that is threaded to the later clauses), so the harness does not run it: its agreement with the other two
   is a theorem (Sem/RenameSim.v), not something to test *)
Definition run_sldr (depth : nat) (p : program) (name : str) (args : list term) (nq limit : nat) : obs :=
  answers_obs nq (solveR depth p name args (st0 nq)) limit.

Definition run_both (depth : nat) (p : program) (qs : list (str * list term * nat)) (limit : nat) : obs :=
  OL (map (fun q => let '(name, args, nq) := q in
                    OL [run_ir depth p name args nq limit; run_sld depth p name args nq limit]) qs).

(* the same from source TEXT: the program is what the model front end (Lang/Front.v: lexer, parser, visitor) reads *)
Definition run_both_src (depth : nat) (src : str) (qs : list (str * list term * nat)) (limit : nat) : obs :=
  match front src with
  | Some p => run_both depth p qs limit
  | None => otag "front-rejects" []
  end.

(* all three: the compiled program, Sld.solve and the renamed-apart reference SldR.solveR (used by the C09 check on small
   programs in which findall/3 is given a non-variable bag: there Sld.solve, which binds the caller's variable to the clause's
   variable instead of the other way round, is no reference for the identity of the variables inside collected instances) *)
Definition run_three (depth : nat) (p : program) (qs : list (str * list term * nat)) (limit : nat) : obs :=
  OL (map (fun q => let '(name, args, nq) := q in
                    OL [run_ir depth p name args nq limit; run_sld depth p name args nq limit; run_sldr depth p name args nq limit]) qs).

Definition run_three_src (depth : nat) (src : str) (qs : list (str * list term * nat)) (limit : nat) : obs :=
  match front src with
  | Some p => run_three depth p qs limit
  | None => otag "front-rejects" []
  end.

(* round 4: the same with the compiler's verdict "program too large for Python" (D13; Comp/Limits.v: more than 20 statically
   nested blocks in an emitted function).  The harness compares accept / refuse with the implementation: a compiler that
   accepts a body the model refuses (or the other way round) differs, whatever code it emits. *)
Definition within_limits (p : program) : bool :=
  match compile_program p with
  | Some ir => py_limits ir
  | None => true
  end.

Definition run_both_src_lim (depth : nat) (src : str) (qs : list (str * list term * nat)) (limit : nat) : obs :=
  match front src with
  | Some p => if within_limits p then run_both depth p qs limit else otag "too-large" []
  | None => otag "front-rejects" []
  end.

Definition run_three_src_lim (depth : nat) (src : str) (qs : list (str * list term * nat)) (limit : nat) : obs :=
  match front src with
  | Some p => if within_limits p then run_three depth p qs limit else otag "too-large" []
  | None => otag "front-rejects" []
  end.
