(* Bindings live in the answers only.  The reference semantics passes states along answers, so whatever a goal A binds
   (A may be X = T, the first occurrence of X or not) is visible to the goals that run on A's answers and to nothing else:
   when the goals after A in the same scope fail for every answer of A, the construct around the scope continues from the
   state in which it was ENTERED - the else branch of an if-then-else, the goals after a negation, the other branch of a
   disjunction see none of A's bindings.  (Compiled code: `for l in unify(X, T): ...` - the binding is undone when the loop
   is left; an emitted assignment `X = T` instead would survive, which is what these statements exclude.) *)
From Coq Require Import List Arith Bool.
Import ListNotations.
From YP Require Import Base.Str Lang.Ast Sem.Res Sem.RefSem Sem.SemLemmas.

Section Scope.
Variable S : Type.
Variable I : str -> list sterm -> S -> list S * bool.
Notation sem := (RefSem.sem I).

Lemma seqr_all_fail (f : S -> res S) xs : (forall x, In x xs -> f x = ([], FNorm)) -> seqr f xs FNorm = ([], FNorm).
Proof.
  induction xs as [|x r IH]; intros H; [reflexivity|].
  cbn [seqr]. rewrite (H x (or_introl eq_refl)). rewrite IH by (intros y Hy; apply H; right; exact Hy). reflexivity.
Qed.

Lemma scope_fails A G s xs :
  sem A s = (xs, FNorm) -> (forall x, In x xs -> sem G x = ([], FNorm)) -> sem (BAnd A G) s = ([], FNorm).
Proof. intros HA HG. cbn [RefSem.sem]. rewrite HA. apply seqr_all_fail. exact HG. Qed.

(* ( A, G -> T ; E ) with G failing on every answer of A  =  E from the entry state *)
Lemma condition_failure_discards_bindings A G T E s xs :
  sem A s = (xs, FNorm) -> (forall x, In x xs -> sem G x = ([], FNorm)) ->
  sem (BOr (BIf (BAnd A G) T) E) s = sem E s.
Proof. intros HA HG. rewrite sem_or_if. rewrite (scope_fails A G s xs HA HG). reflexivity. Qed.

(* \+ ( A, G ) then succeeds once, with the entry state *)
Lemma negation_discards_bindings A G s xs :
  sem A s = (xs, FNorm) -> (forall x, In x xs -> sem G x = ([], FNorm)) ->
  sem (BNot (BAnd A G)) s = ([s], FNorm).
Proof.
  intros HA HG.
  change (sem (BNot (BAnd A G)) s) with (ite (opaque (sem (BAnd A G) s)) (fun _ => ([], FNorm)) ([s], FNorm)).
  rewrite (scope_fails A G s xs HA HG). reflexivity.
Qed.

(* \+ G never passes a binding on, whatever G does *)
Lemma negation_answers_entry_state G s x : In x (fst (sem (BNot G) s)) -> x = s.
Proof.
  cbn [RefSem.sem]. destruct (opaque (RefSem.sem I G s)) as [[|y r] f]; [destruct f|]; cbn [ite fst In]; intros H; try contradiction.
  destruct H as [H|H]; [symmetry; exact H|contradiction].
Qed.

(* ( A, G ; B ) with G failing on every answer of A  =  B from the entry state *)
Lemma branch_failure_discards_bindings A G B s xs :
  sem A s = (xs, FNorm) -> (forall x, In x xs -> sem G x = ([], FNorm)) ->
  sem (BOr (BAnd A G) B) s = sem B s.
Proof.
  intros HA HG. rewrite sem_or_plain by reflexivity. rewrite (scope_fails A G s xs HA HG).
  unfold por. destruct (RefSem.sem I B s); reflexivity.
Qed.

(* the goals after an if-then-else whose condition failed run from the state the else branch leaves - not from one of A's *)
Lemma after_failed_condition A G T E K s xs :
  sem A s = (xs, FNorm) -> (forall x, In x xs -> sem G x = ([], FNorm)) ->
  sem (BAnd (BOr (BIf (BAnd A G) T) E) K) s = sem (BAnd E K) s.
Proof.
  intros HA HG.
  change (sem (BAnd (BOr (BIf (BAnd A G) T) E) K) s) with (let '(ys, e) := sem (BOr (BIf (BAnd A G) T) E) s in seqr (sem K) ys e).
  rewrite (condition_failure_discards_bindings A G T E s xs HA HG). reflexivity.
Qed.
End Scope.
