(* Algebra of the reference semantics: one lemma per rewrite case of compile_body
   (sem lhs = sem rhs), valid in the presence of cut because seqr stops at a cut. *)
From Coq Require Import List Arith Bool Lia.
Import ListNotations.
From YP Require Import Base.Str Lang.Ast Sem.Res Sem.RefSem.
Set Implicit Arguments.

Section L.
Variable S : Type.
Variable I : str -> list sterm -> S -> list S * bool.
Notation sem := (sem I).

Lemma seqr_nonnorm (f:S->res S) xs e : e <> FNorm -> snd (seqr f xs e) <> FNorm.
Proof.
  induction xs as [|x r IH]; simpl; intros He; [exact He|].
  destruct (f x) as [ys g]; destruct g; simpl; try discriminate.
  specialize (IH He). destruct (seqr f r e); simpl in *; exact IH.
Qed.

Lemma seqr_app (f:S->res S) xs ys e :
  seqr f (xs++ys) e =
  let '(a,fa) := seqr f xs FNorm in
  match fa with FNorm => let '(b,fb) := seqr f ys e in (a++b,fb) | _ => (a,fa) end.
Proof.
  induction xs as [|x r IH]; simpl.
  - destruct (seqr f ys e); reflexivity.
  - destruct (f x) as [zs g]; destruct g; try reflexivity.
    rewrite IH. destruct (seqr f r FNorm) as [a fa]; destruct fa; try reflexivity.
    destruct (seqr f ys e). rewrite app_assoc. reflexivity.
Qed.

Lemma seqr_unit xs e : seqr (fun x:S => ([x],FNorm)) xs e = (xs,e).
Proof. induction xs as [|x r IH]; simpl; [reflexivity|]. rewrite IH. reflexivity. Qed.

Lemma seqr_single (f:S->res S) x e :
  seqr f [x] e = let '(ys,g) := f x in match g with FNorm => (ys,e) | _ => (ys,g) end.
Proof. simpl. destruct (f x) as [ys g]; destruct g; try reflexivity. rewrite app_nil_r. reflexivity. Qed.

Lemma seqr_assoc (f g:S->res S) xs e :
  bindr (seqr f xs e) g = seqr (fun x => bindr (f x) g) xs e.
Proof.
  induction xs as [|x r IH]; simpl; [reflexivity|].
  destruct (f x) as [ys h] eqn:Hf. unfold bindr at 2. simpl.
  destruct h.
  - destruct (seqr f r e) as [zs k] eqn:Hr. unfold bindr in *. simpl in *.
    rewrite seqr_app. destruct (seqr g ys FNorm) as [a fa]; destruct fa; try reflexivity.
    rewrite IH. destruct (seqr _ r e). reflexivity.
  - unfold bindr; simpl. pose proof (@seqr_nonnorm g ys FCut ltac:(discriminate)) as H.
    destruct (seqr g ys FCut) as [a fa]; simpl in *; destruct fa; try reflexivity; congruence.
  - unfold bindr; simpl. pose proof (@seqr_nonnorm g ys FErr ltac:(discriminate)) as H.
    destruct (seqr g ys FErr) as [a fa]; simpl in *; destruct fa; try reflexivity; congruence.
  - unfold bindr; simpl. pose proof (@seqr_nonnorm g ys (FExit l) ltac:(discriminate)) as H.
    destruct (seqr g ys (FExit l)) as [a fa]; simpl in *; destruct fa; try reflexivity; congruence.
Qed.

Lemma sem_and b K s : sem (BAnd b K) s = bindr (sem b s) (sem K).
Proof. simpl. destruct (sem b s); reflexivity. Qed.

Lemma seqr_ext (f g:S->res S) xs e : (forall x, f x = g x) -> seqr f xs e = seqr g xs e.
Proof. intros H; induction xs as [|x r IH]; simpl; [reflexivity|]. rewrite H, IH. reflexivity. Qed.

Lemma sem_and_assoc x y K s : sem (BAnd (BAnd x y) K) s = sem (BAnd x (BAnd y K)) s.
Proof.
  rewrite (sem_and (BAnd x y) K), (sem_and x y), (sem_and x (BAnd y K)).
  unfold bindr at 2. unfold bindr at 1.
  fold (bindr (seqr (sem y) (fst (sem x s)) (snd (sem x s))) (sem K)).
  rewrite seqr_assoc. unfold bindr at 2. apply seqr_ext. intros z. symmetry. apply sem_and.
Qed.


Lemma sem_or_plain a b s : isif a = false -> sem (BOr a b) s = por (sem a s) (sem b s).
Proof. destruct a; simpl; intros H; try discriminate; reflexivity. Qed.

Lemma sem_or_if c t e s : sem (BOr (BIf c t) e) s = ite (opaque (sem c s)) (sem t) (sem e s).
Proof. reflexivity. Qed.

Lemma bindr_por ra rb (K:S->res S) : bindr (por ra rb) K = por (bindr ra K) (bindr rb K).
Proof.
  destruct ra as [xs fa]. destruct rb as [ys g]. unfold bindr. simpl.
  destruct fa; simpl.
  - rewrite seqr_app. destruct (seqr K xs FNorm) as [a fa]; destruct fa; simpl; try reflexivity.
  - pose proof (@seqr_nonnorm K xs FCut ltac:(discriminate)) as H.
    destruct (seqr K xs FCut) as [a fa]; simpl in *; destruct fa; try reflexivity; congruence.
  - pose proof (@seqr_nonnorm K xs FErr ltac:(discriminate)) as H.
    destruct (seqr K xs FErr) as [a fa]; simpl in *; destruct fa; try reflexivity; congruence.
  - pose proof (@seqr_nonnorm K xs (FExit l) ltac:(discriminate)) as H.
    destruct (seqr K xs (FExit l)) as [a fa]; simpl in *; destruct fa; try reflexivity; congruence.
Qed.

Lemma bindr_ite rc (t:S->res S) e (K:S->res S) :
  bindr (ite rc t e) K = ite rc (fun x => bindr (t x) K) (bindr e K).
Proof. destruct rc as [[|x r] f]; simpl; [destruct f|]; reflexivity. Qed.

Lemma ite_ext rc (t t':S->res S) e : (forall x, t x = t' x) -> ite rc t e = ite rc t' e.
Proof. intros H. destruct rc as [[|x r] f]; simpl; [reflexivity|apply H]. Qed.

Lemma sem_true_and K s : sem (BAnd BTrue K) s = sem K s.
Proof. rewrite sem_and. unfold bindr. simpl fst. simpl snd. rewrite seqr_single.
  destruct (sem K s) as [ys g]; destruct g; reflexivity. Qed.

Lemma sem_and_true b s : sem (BAnd b BTrue) s = sem b s.
Proof. rewrite sem_and. unfold bindr. rewrite (seqr_ext _ (fun x => ([x],FNorm))) by reflexivity.
  rewrite seqr_unit. destruct (sem b s); reflexivity. Qed.

Lemma sem_or_distr x y K s : isif x = false ->
  sem (BAnd (BOr x y) K) s = sem (BOr (BAnd x K) (BAnd y K)) s.
Proof.
  intros Hx. rewrite sem_and, (@sem_or_plain x y s Hx), (@sem_or_plain (BAnd x K) (BAnd y K) s eq_refl).
  rewrite bindr_por, !sem_and. reflexivity.
Qed.

Lemma sem_ite_distr c t e K s :
  sem (BAnd (BOr (BIf c t) e) K) s = sem (BOr (BIf c (BAnd t K)) (BAnd e K)) s.
Proof.
  rewrite sem_and, !sem_or_if, bindr_ite, sem_and. apply ite_ext. intros z. symmetry. apply sem_and.
Qed.

Lemma sem_if_and c t K s : sem (BAnd (BIf c t) K) s = sem (BAnd (BOr (BIf c t) BFail) K) s.
Proof. rewrite !sem_and. reflexivity. Qed.

Lemma sem_not_and x K s : sem (BAnd (BNot x) K) s = sem (BAnd (BOr (BIf x BFail) BTrue) K) s.
Proof. rewrite !sem_and. reflexivity. Qed.
End L.
