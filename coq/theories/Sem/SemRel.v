(* Relational parametricity of the reference control semantics: if two interpretations of the calls
   take related states to pairwise related answers (same number, same order, same way of ending), then so
   does every body.  With R = equality this is extensionality (the answers of a body depend on the called
   predicates only through their answer sequences); with other relations it transports a simulation
   between two engines / two representations of the binding store through all control constructs. *)
From Coq Require Import List Arith Bool.
Import ListNotations.
From YP Require Import Base.Str Lang.Ast Sem.Res Sem.RefSem Sem.SemLemmas.

Section Rel.
Variables S1 S2 : Type.
Variable R : S1 -> S2 -> Prop.
Variable I1 : str -> list sterm -> S1 -> list S1 * bool.
Variable I2 : str -> list sterm -> S2 -> list S2 * bool.

Definition rel_res (r1 : res S1) (r2 : res S2) : Prop := Forall2 R (fst r1) (fst r2) /\ snd r1 = snd r2.

Hypothesis Hleaf : forall f a s1 s2, R s1 s2 ->
  Forall2 R (fst (I1 f a s1)) (fst (I2 f a s2)) /\ snd (I1 f a s1) = snd (I2 f a s2).

Lemma seqr_rel (f1 : S1 -> res S1) (f2 : S2 -> res S2) xs1 xs2 e :
  Forall2 R xs1 xs2 -> (forall x1 x2, R x1 x2 -> rel_res (f1 x1) (f2 x2)) -> rel_res (seqr f1 xs1 e) (seqr f2 xs2 e).
Proof.
  intros HX Hf. induction HX as [|x1 x2 r1 r2 Hx Hr IH]; [split; [constructor|reflexivity]|].
  cbn [seqr]. destruct (Hf x1 x2 Hx) as [A B]. destruct (f1 x1) as [ys1 g1], (f2 x2) as [ys2 g2]. cbn [fst snd] in *. subst g2.
  destruct g1; try (split; [exact A|reflexivity]).
  destruct IH as [C D]. destruct (seqr f1 r1 e) as [zs1 h1], (seqr f2 r2 e) as [zs2 h2]. cbn [fst snd] in *.
  split; [apply Forall2_app; assumption|exact D].
Qed.

Lemma opaque_rel r1 r2 : rel_res r1 r2 -> rel_res (opaque r1) (opaque r2).
Proof. destruct r1 as [xs1 g1], r2 as [xs2 g2]. intros [A B]. cbn [fst snd] in *. subst g2. destruct g1; split; auto. Qed.

Lemma ite_rel rc1 rc2 (t1 : S1 -> res S1) (t2 : S2 -> res S2) e1 e2 :
  rel_res rc1 rc2 -> (forall x1 x2, R x1 x2 -> rel_res (t1 x1) (t2 x2)) -> rel_res e1 e2 -> rel_res (ite rc1 t1 e1) (ite rc2 t2 e2).
Proof.
  destruct rc1 as [xs1 g1], rc2 as [xs2 g2]. intros [A B] Ht He. cbn [fst snd] in *. subst g2.
  destruct A as [|x1 x2 r1 r2 Hx Hr]; cbn [ite].
  - destruct g1; auto; split; cbn [fst snd]; solve [apply Forall2_nil|reflexivity].
  - apply Ht; exact Hx.
Qed.

Lemma por_rel ra1 ra2 rb1 rb2 : rel_res ra1 ra2 -> rel_res rb1 rb2 -> rel_res (por ra1 rb1) (por ra2 rb2).
Proof.
  destruct ra1 as [xs1 g1], ra2 as [xs2 g2], rb1 as [ys1 h1], rb2 as [ys2 h2]. intros [A B] [C D]. cbn [fst snd] in *. subst g2 h2.
  destruct g1; cbn [por]; try (split; [exact A|reflexivity]).
  split; [apply Forall2_app; assumption|reflexivity].
Qed.

Theorem sem_rel : forall b s1 s2, R s1 s2 -> rel_res (sem I1 b s1) (sem I2 b s2).
Proof.
  induction b as [f a| | | |l|a b IHa IHb|a b Hif IHa IHb|c t e IHc IHt IHe|c t IHc IHt|a IHa] using body_ind'; intros s1 s2 Hs.
  - cbn [sem]. destruct (Hleaf f a s1 s2 Hs) as [A B]. destruct (I1 f a s1) as [xs1 e1], (I2 f a s2) as [xs2 e2].
    cbn [fst snd] in *. subst e2. split; [exact A|reflexivity].
  - split; [repeat constructor; exact Hs|reflexivity].
  - split; [constructor|reflexivity].
  - split; [repeat constructor; exact Hs|reflexivity].
  - split; [repeat constructor; exact Hs|reflexivity].
  - cbn [sem]. destruct (IHa s1 s2 Hs) as [A B]. destruct (sem I1 a s1) as [xs1 e1], (sem I2 a s2) as [xs2 e2].
    cbn [fst snd] in *. subst e2. apply seqr_rel; [exact A|exact IHb].
  - rewrite !sem_or_plain by exact Hif. apply por_rel; auto.
  - rewrite !sem_or_if. apply ite_rel; [apply opaque_rel; auto|exact IHt|auto].
  - cbn [sem]. apply ite_rel; [apply opaque_rel; auto|exact IHt|split; [constructor|reflexivity]].
  - cbn [sem]. apply ite_rel; [apply opaque_rel; auto|intros; split; [constructor|reflexivity]|split; [repeat constructor; exact Hs|reflexivity]].
Qed.
End Rel.
