(* Reference semantics of a program: depth-first, left-to-right SLD resolution with cut.

   solve n P name args st: the clauses of name/arity are tried in source order; each is renamed apart
   (every variable of the clause gets a fresh cell), its head is unified with the goal - by the
   engine's unification, which computes a most general unifier (C02) - and its body is run by the
   reference body semantics RefSem.sem with calls interpreted by solve one level down.  A cut ends the
   clause loop and is not propagated to the caller.  A name without clauses is a builtin or fails.
   n is the step index (nesting depth of calls); 0 = "too deep" = error. *)
From Coq Require Import String.
From Coq Require Import List Arith Bool ZArith NArith.
Import ListNotations.
From YP Require Import Base.Str Term.Term Term.Fast Unify.Unify Unify.Fast Lang.Ast Comp.CompileBody Comp.CompileClause Sem.Res Sem.RefSem Sem.Machine.
Local Open Scope string_scope.
Local Open Scope list_scope.

Fixpoint inst (r : env) (t : sterm) : term :=
  let insts := fix insts (l : list sterm) : list term :=
      match l with [] => [] | x :: q => inst r x :: insts q end in
  match t with
  | SAtom a => TAtom a
  | SNum ds => TInt (digits_value ds)
  | SVar v => match env_get v r with Some x => x | None => bad_term end
  | SFun f args => TFun f (insts args)
  | SList items => mk_list (insts items)
  | SPair h t => cons_term (inst r h) (inst r t)
  end.

Definition clause_vars (c : clause) : list str :=
  dedup (flat_map sterm_vars (c_args c) ++ body_vars (c_body c)).

Fixpoint rename_apart (vars : list str) (k : nat) : env :=
  match vars with [] => [] | v :: r => (v, TVar k) :: rename_apart r (S k) end.

Section Clauses.
Variable call : str -> list term -> st -> list st * bool.

Definition leaf (f : str) (sargs : list sterm) (c : cfg) : list cfg * bool :=
  let '(r, s) := c in
  let '(xs, e) := call f (map (inst r) sargs) s in (map (fun x => (r, x)) xs, e).

Definition try_clause (c : clause) (args : list term) (s : st) : res st :=
  let vars := clause_vars c in
  let r := rename_apart vars (nxt s) in
  let n1 := nxt s + length vars in
  match unify_arrays_fast ufuel (sto s) args (map (inst r) (c_args c)) with
  | UOk s' => let '(ys, f) := sem leaf (c_body c) (r, {| sto := s'; nxt := n1 |}) in (map snd ys, f)
  | UFail => ([], FNorm)
  | UOof | UCyc => ([], FErr)
  end.

Fixpoint try_clauses (cs : list clause) (args : list term) (s : st) : list st * bool :=
  match cs with
  | [] => ([], false)
  | c :: r =>
      let '(ys, f) := try_clause c args s in
      match f with
      | FNorm => let '(zs, e) := try_clauses r args s in (ys ++ zs, e)
      | FErr => (ys, true)
      | _ => (ys, false)
      end
  end.
End Clauses.

Definition clauses_of (p : program) (name : str) (ar : nat) : list clause :=
  filter (fun c => str_eqb (c_name c) name && Nat.eqb (length (c_args c)) ar) p.

Fixpoint solve (n : nat) (p : program) (name : str) (args : list term) (s : st) {struct n} : list st * bool :=
  match n with
  | O => ([], true)
  | S n' =>
      match clauses_of p name (length args) with
      | [] => match builtin (solve n' p) name args s with Some r => r | None => ([], false) end
      | cs => try_clauses (solve n' p) cs args s
      end
  end.
