(* SLD resolution with every clause variable renamed apart (the reference for C01 in its plainest form):

   solveR n P name args st : the clauses of name/arity are tried in source order; for each clause
     1. every variable of the clause gets a FRESH cell (all of them: the clause is renamed apart);
     2. the equations  head argument = goal argument  are solved by the engine's unification (C02: it
        computes a most general unifier), first those whose head side is a plain variable occurring once
        among the top-level head arguments (they cannot fail: the variable is fresh), then the others
        from left to right;
     3. the body runs under the reference control semantics RefSem.sem, calls being resolved by solveR
        one level down; a cut ends the clause loop and is not propagated to the caller.
   Fresh cells are taken from a counter that only grows along the search path and across the clause
   alternatives.  n is the step index (nesting depth of calls).

   Sem/RenameSim.v proves that ClauseSem.solveA - hence, by Sem/ProgramCorrect.v, the compiled program -
   computes the same answers as solveR up to an injective renaming of the cells created during the
   query. *)
From Coq Require Import String.
From Coq Require Import List Arith Bool ZArith NArith.
Import ListNotations.
From YP Require Import Base.Str Term.Term Term.Fast Unify.Unify Unify.Fast Lang.Ast Comp.IR Comp.CompileBody Comp.CompileClause
  Sem.Res Sem.RefSem Sem.IRSem Sem.Machine Sem.ClauseSem.
Local Open Scope string_scope.
Local Open Scope list_scope.

Inductive eres := EOk (c : cfg) | EErr.

(* steps 1 and 2a for the once-occurring plain head variables: a fresh cell, unified with the goal argument *)
Fixpoint alias_envR (i : nat) (pos : list (option str)) (r : env) (s : st) : eres :=
  match pos with
  | [] => EOk (r, s)
  | Some v :: rest =>
      let x := nxt s in
      match unify_fast ufuel (sto s) (TVar x) (argval i r) with
      | UOk s' => alias_envR (S i) rest ((pyvar v, TVar x) :: r) {| sto := s'; nxt := S x |}
      | _ => EErr
      end
  | None :: rest => alias_envR (S i) rest r s
  end.

Definition clause_enterR (c : clause) (cf : cfg) : eres :=
  let '(r, s) := cf in
  match alias_envR 0 (clause_pos c) r s with
  | EOk (r1, s1) =>
      let '(r2, k) := fresh_env (clause_fv_head c ++ clause_fv_body c) r1 (nxt s1) in
      EOk (r2, {| sto := sto s1; nxt := k |})
  | EErr => EErr
  end.

Section Clauses.
Variable call : str -> list term -> st -> list st * bool.

Fixpoint clausesR (cs : list clause) (cf : cfg) : res cfg :=
  match cs with
  | [] => ([], FNorm)
  | c :: rest =>
      match clause_enterR c cf with
      | EErr => ([], FErr)
      | EOk cf1 =>
          let '(ys, f) := clause_res call c cf1 in     (* step 2b (remaining head arguments) and step 3 *)
          match f with
          | FNorm => let '(zs, g) := clausesR rest cf1 in (ys ++ zs, g)
          | _ => (ys, f)
          end
      end
  end.
End Clauses.

Fixpoint solveR (n : nat) (p : program) (name : str) (args : list term) (s : st) {struct n} : list st * bool :=
  match n with
  | O => ([], true)
  | S n' =>
      match clauses_for p name (length args) with
      | [] => match builtin (solveR n' p) name args s with Some r => r | None => ([], false) end
      | cs => let '(ys, f) := clausesR (solveR n' p) cs (bind_args 0 args, s) in
              (map snd ys, match f with FErr => true | _ => false end)
      end
  end.
