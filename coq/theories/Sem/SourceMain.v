(* From source TEXT to answers: whatever text the model compiler accepts (lexer, parser, visitor, compiler,
   static limits) is a program P whose emitted code computes, for every query, the answers of SLD
   resolution of P with all clause variables renamed apart (up to renaming of the cells created during the
   query).  The only side condition of Sem/Main.v - no internal $CUTIF marker in a body - holds for every
   program the front end produces. *)
From Coq Require Import List Arith Bool NArith.
Import ListNotations.
From YP Require Import Base.Str Term.Term Unify.Unify Unify.Bounded Unify.Rename Lang.Ast Lang.Cst Lang.Unquote Lang.Front
  Comp.IR Comp.CompileBody Comp.CompileClause Comp.Emit Comp.PyRepr Comp.Limits Comp.CompileText
  Sem.ControlCorrect Sem.Machine Sem.ClauseSem Sem.SldR Sem.ProgramCorrect Sem.Fresh Sem.RenameSim Sem.Main.

Lemma v_goal_nomark sp k b k' : v_goal sp k = Some (b, k') -> nomark b = true.
Proof.
  destruct sp as [| | |t]; simpl; intros H; try (injection H as <- _; reflexivity).
  destruct (v_callable t k) as [[[f args] k1]|]; [|discriminate]. injection H as <- _. reflexivity.
Qed.

Lemma v_pe_nomark p : forall k b k', v_pe p k = Some (b, k') -> nomark b = true.
Proof.
  induction p as [sp|a IHa|a IHa b0 IHb|a IHa b0 IHb|a IHa b0 IHb|a IHa]; intros k b k' H; cbn [v_pe] in H.
  - eapply v_goal_nomark; eauto.
  - destruct (v_pe a k) as [[a' k1]|] eqn:E; [|discriminate]. injection H as <- _. cbn [nomark]. eapply IHa; eauto.
  - destruct (v_pe a k) as [[a' k1]|] eqn:E; [|discriminate]. cbn in H.
    destruct (v_pe b0 k1) as [[b' k2]|] eqn:E2; [|discriminate]. injection H as <- _.
    cbn [nomark]. rewrite (IHa _ _ _ E), (IHb _ _ _ E2). reflexivity.
  - destruct (v_pe a k) as [[a' k1]|] eqn:E; [|discriminate]. cbn in H.
    destruct (v_pe b0 k1) as [[b' k2]|] eqn:E2; [|discriminate]. injection H as <- _.
    cbn [nomark]. rewrite (IHa _ _ _ E), (IHb _ _ _ E2). reflexivity.
  - destruct (v_pe a k) as [[a' k1]|] eqn:E; [|discriminate]. cbn in H.
    destruct (v_pe b0 k1) as [[b' k2]|] eqn:E2; [|discriminate]. injection H as <- _.
    cbn [nomark]. rewrite (IHa _ _ _ E), (IHb _ _ _ E2). reflexivity.
  - eapply IHa; eauto.
Qed.

Lemma v_clause_good c k cl k' : v_clause c k = Some (cl, k') -> good_clause cl.
Proof.
  destruct c as [h|h b]; cbn [v_clause]; intros H.
  - destruct (v_head h k) as [[[f args] k1]|]; [|discriminate]. injection H as <- _. reflexivity.
  - destruct (v_head h k) as [[[f args] k1]|]; [|discriminate]. cbn in H.
    destruct (v_pe b k1) as [[b' k2]|] eqn:E; [|discriminate]. injection H as <- _.
    unfold good_clause. cbn [c_body]. eapply v_pe_nomark; eauto.
Qed.

Lemma v_program_good cst : forall k p k', v_program cst k = Some (p, k') -> good_program p.
Proof.
  induction cst as [|c cst IH]; intros k p k' H; cbn [v_program] in H.
  - injection H as <- _. constructor.
  - destruct c as [cc|sp].
    + destruct (v_clause cc k) as [[cl k1]|] eqn:E; [|discriminate]. cbn in H.
      destruct (v_program cst k1) as [[l k2]|] eqn:E1; [|discriminate]. injection H as <- _.
      constructor; [eapply v_clause_good; eauto|eapply IH; eauto].
    + destruct (v_directive sp k) as [k1|]; [|discriminate]. cbn in H. eapply IH; eauto.
Qed.

Theorem front_good s p : front s = Some p -> good_program p.
Proof.
  unfold front. destruct (Lexer.lex s) as [ts|]; [|discriminate]. cbn.
  destruct (Parser.parse ts) as [cst|]; [|discriminate]. cbn.
  destruct (v_program cst 0) as [[p0 k]|] eqn:E; [|discriminate]. cbn. intros H. injection H as <-.
  eapply v_program_good; eauto.
Qed.

Theorem source_text_is_sld : forall printable s text,
  compile_text printable s = CText text ->
  exists p ir, front s = Some p /\ compile_program p = Some ir /\ text = emit_program (py_repr printable) ir /\
    forall n name args st, wf (sto st) -> inv st -> Forall (bounded (nxt st)) args ->
      Forall2 (same_answer st) (fst (query n ir name args st)) (fst (solveR n p name args st)) /\
      snd (query n ir name args st) = snd (solveR n p name args st).
Proof.
  intros printable s text H. unfold compile_text in H.
  destruct (front s) as [p|] eqn:F; [|discriminate]. unfold compile_ast in H.
  destruct (compile_program p) as [ir|] eqn:C; [|discriminate].
  destruct (NumeralName.ir_bad ir); [discriminate|]. unfold finish in H.
  destruct (negb (ir_nums_ok ir)); [discriminate|]. destruct (py_limits ir); [|discriminate].
  injection H as <-. exists p, ir. repeat split; auto.
  - destruct (compiled_program_is_sld n p ir C (front_good s p F) name args st H H0 H1) as [A _]. exact A.
  - destruct (compiled_program_is_sld n p ir C (front_good s p F) name args st H H0 H1) as [_ B]. exact B.
Qed.
