(* Readable consequences of the reference semantics (RefSem.sem, ClauseSem.solveA): sanity
   theorems showing that the specification is the textbook one, and the spec-level statements
   of the builtin predicates. *)
From Coq Require Import String.
From Coq Require Import List Arith Bool ZArith NArith Lia.
Import ListNotations.
From YP Require Import Base.Str Term.Term Term.Fast Unify.Unify Unify.Fast Unify.Mgu Unify.Base Unify.Rename Lang.Ast Comp.IR Comp.CompileBody Comp.CompileClause
  Sem.Res Sem.RefSem Sem.SemLemmas Sem.IRSem Sem.ControlCorrect Sem.Machine Sem.ClauseSem.
Local Open Scope string_scope.
Local Open Scope list_scope.

Section Control.
Variable S : Type.
Variable I : str -> list sterm -> S -> list S * bool.
Notation sem := (sem I).

(* (A, !), B : the first answer of A, continued with all answers of B; then the clause is cut.
   Goals to the right of the cut backtrack normally (all answers of B are delivered). *)
Lemma cut_spec_readable A B s :
  sem (BAnd (BAnd A BCut) B) s =
  match sem A s with
  | (x :: _, _) => let '(ys, g) := sem B x in (ys, match g with FNorm => FCut | _ => g end)
  | ([], g) => ([], g)
  end.
Proof.
  cbn [RefSem.sem]. destruct (RefSem.sem I A s) as [[|x r] e]; [reflexivity|].
  cbn [seqr RefSem.sem]. destruct (RefSem.sem I B x) as [ys g]. destruct g; try reflexivity.
  rewrite app_nil_r. reflexivity.
Qed.

(* a cut as the first goal: the body behaves like the rest, and the clause is cut afterwards *)
Lemma cut_first B s : sem (BAnd BCut B) s = let '(ys, g) := sem B s in (ys, match g with FNorm => FCut | _ => g end).
Proof. cbn [RefSem.sem seqr]. destruct (RefSem.sem I B s) as [ys g]. destruct g; try reflexivity. rewrite app_nil_r. reflexivity. Qed.

(* A ; B : A's answers, then (unless A ended by cut or error) B's *)
Lemma or_spec A B s : isif A = false ->
  sem (BOr A B) s = match sem A s with (xs, FNorm) => let '(ys, g) := sem B s in (xs ++ ys, g) | r => r end.
Proof. intros H. rewrite sem_or_plain by exact H. unfold por. destruct (RefSem.sem I A s) as [xs f]. destruct f; reflexivity. Qed.

(* C -> T ; E : commit to the first answer of C, else E; a cut inside C is local to C *)
Lemma ite_spec C T E s :
  sem (BOr (BIf C T) E) s =
  match opaque (sem C s) with
  | (x :: _, _) => sem T x
  | ([], FNorm) => sem E s
  | ([], f) => ([], f)
  end.
Proof. rewrite sem_or_if. reflexivity. Qed.

(* C -> T without else fails when C fails *)
Lemma if_no_else_spec C T s : sem (BIf C T) s = sem (BOr (BIf C T) BFail) s.
Proof. reflexivity. Qed.

(* \+ G : the unchanged state iff G has no answer; never any other state, never a cut *)
Lemma not_spec G s :
  sem (BNot G) s = match opaque (sem G s) with
                   | (_ :: _, _) => ([], FNorm)
                   | ([], FNorm) => ([s], FNorm)
                   | ([], f) => ([], f)
                   end.
Proof. reflexivity. Qed.

Lemma neg_binds_nothing G s x : In x (fst (sem (BNot G) s)) -> x = s.
Proof.
  rewrite not_spec. destruct (opaque (RefSem.sem I G s)) as [[|y r] f]; [destruct f|]; cbn [fst In]; intros H; try contradiction.
  destruct H as [H|H]; [symmetry; exact H|contradiction].
Qed.

(* conjunction: for each answer of A in order, the answers of B *)
Lemma and_spec A B s : sem (BAnd A B) s = let '(xs, e) := sem A s in seqr (sem B) xs e.
Proof. reflexivity. Qed.
End Control.

(* ---------------------------------------------------------------- clauses and cut *)
Section ClauseLevel.
Variable call : str -> list term -> st -> list st * bool.

(* a cut reached in clause c discards the later clauses; the answers produced so far stay *)
Lemma cut_prunes_later_clauses c rest cf ys :
  clause_res call c (clause_enter c cf) = (ys, FCut) -> clausesA call (c :: rest) cf = (ys, FCut).
Proof. intros H. cbn [clausesA]. rewrite H. reflexivity. Qed.

(* without a cut (or error) the later clauses are tried, from the state in which the clause was entered *)
Lemma no_cut_continues c rest cf ys :
  clause_res call c (clause_enter c cf) = (ys, FNorm) ->
  clausesA call (c :: rest) cf = (ys ++ fst (clausesA call rest (clause_enter c cf)), snd (clausesA call rest (clause_enter c cf))).
Proof. intros H. cbn [clausesA]. rewrite H. destruct (clausesA call rest (clause_enter c cf)); reflexivity. Qed.

(* the caller never sees the callee's cut: a call ends normally or by an error *)
Lemma call_never_cuts f args c : snd (sem (leafA call) (BCall f args) c) = FNorm \/ snd (sem (leafA call) (BCall f args) c) = FErr.
Proof.
  cbn [sem]. destruct (leafA call f args c) as [xs e]. destruct e; cbn [snd]; auto.
Qed.
End ClauseLevel.

Lemma solveA_cut_local n p name args s c cs ys :
  clauses_for p name (length args) = c :: cs ->
  clausesA (solveA n p) (c :: cs) (bind_args 0 args, s) = (ys, FCut) ->
  solveA (S n) p name args s = (map snd ys, false).
Proof. intros E H. cbn [solveA]. rewrite E, H. reflexivity. Qed.

(* ---------------------------------------------------------------- the builtin predicates *)
(* ---- unifying through a fresh variable (used for findall below) *)
Lemma den_var_unbound s v : lookup v s = None -> den s (TVar v) = TVar v.
Proof. intros L. apply den_id. intros w Hw. simpl in Hw. apply Nat.eqb_eq in Hw. subst w. exact L. Qed.

Lemma mk_list_not_var es : forall s v, den s (mk_list es) <> TVar v.
Proof.
  intros s v. destruct es as [|x r]; cbn [mk_list].
  - unfold nil_atom. rewrite den_atom. discriminate.
  - unfold cons_term. rewrite den_fun. discriminate.
Qed.

(* unifying l with m directly, and going through a fresh variable v (v := m first, then l = v), compute the same
   new bindings from the same resolved terms *)
Lemma unify_through_fresh n s l m v :
  wf s -> lookup v s = None -> occurs v (den s l) = false -> occurs v (den s m) = false ->
  (forall w, den s m <> TVar w) ->
  unify (S n) s (TVar v) m = UOk ((v, den s m) :: s) /\
  forall k, unify k s l m = lift s (unify k [] (den s l) (den s m)) /\
            unify k ((v, den s m) :: s) l (TVar v) = lift ((v, den s m) :: s) (unify k [] (den s l) (den s m)).
Proof.
  intros W L Ol Om NV. split.
  - cbn [unify]. rewrite (den_var_unbound _ _ L).
    destruct (den s m) as [a|z|q|w|f args] eqn:E; try (unfold bind; rewrite Om; reflexivity).
    exfalso. exact (NV w eq_refl).
  - intros k. split; [apply unify_increment; exact W|].
    assert (W2: wf ((v, den s m) :: s)).
    { constructor; [exact W|exact L|]. rewrite den_idem by exact W. exact Om. }
    rewrite (unify_increment k l (TVar v) W2). f_equal. f_equal.
    + cbn [den]. apply subst1_noocc. exact Ol.
    + cbn [den]. rewrite (den_var_unbound _ _ L). cbn [subst1]. rewrite Nat.eqb_refl. apply den_idem. exact W.
Qed.


Section BuiltinSpec.
Variable call : str -> list term -> st -> list st * bool.

(* X = Y has the answers of unification *)
Lemma eq_spec a b s : builtin call (s_ "=") [a; b] s = Some (unify_st s a b).
Proof. reflexivity. Qed.

(* X \= Y succeeds, binding nothing, exactly when X and Y do not unify *)
Lemma neq_spec a b s :
  builtin call (s_ "\=") [a; b] s =
  Some (match unify_fast ufuel (sto s) a b with UOk _ => ([], false) | UFail => ([s], false) | _ => ([], true) end).
Proof. reflexivity. Qed.

(* call(G, A1..An): the goal is dereferenced; its answers are those of G with A1..An appended *)
Lemma call_spec_fun g extra s f gargs : den_fast (sto s) g = TFun f gargs ->
  builtin call (s_ "call") (g :: extra) s = Some (call f (gargs ++ extra) s).
Proof. intros H. change (builtin call (s_ "call") (g :: extra) s) with (Some (call_goal call g extra s)). unfold call_goal. rewrite H. reflexivity. Qed.
Lemma call_spec_atom g extra s a : den_fast (sto s) g = TAtom a ->
  builtin call (s_ "call") (g :: extra) s = Some (call a extra s).
Proof. intros H. change (builtin call (s_ "call") (g :: extra) s) with (Some (call_goal call g extra s)). unfold call_goal. rewrite H. reflexivity. Qed.

(* once(G): G's first answer only; fails - no error - when G has none *)
Lemma once_spec g s :
  builtin call (s_ "once") [g] s =
  Some (match call_goal call g [] s with (x :: _, _) => ([x], false) | ([], e) => ([], e) end).
Proof. reflexivity. Qed.

(* findall(T, G, L): exactly the answers of unifying L with the list of the instances of T (one per
   answer of G, in order), computed from the store of the CALL (sto s): no binding made by G survives.
   The instances are copies: every variable of an instance is a new one (collect with lo = 0, collect_copies). *)
Lemma findall_spec t g l s xs :
  call_goal call g [] s = (xs, false) ->
  builtin call (s_ "findall") [t; g; l] s =
  Some (let '(es, b) := collect 0 (nxt s) t xs in unify_st {| sto := sto s; nxt := b |} l (mk_list es)).
Proof. intros H. change (builtin call (s_ "findall") [t; g; l] s) with
  (Some (let '(xs, e) := call_goal call g [] s in
         if e then ([], true) else
         let '(es, b) := collect 0 (nxt s) t xs in unify_st {| sto := sto s; nxt := b |} l (mk_list es))).
  rewrite H. reflexivity. Qed.

Lemma shift_id lo d u : (forall v, occurs v u = true -> v < lo) -> shift_term lo d u = u.
Proof.
  induction u as [a|z|q|w|f args IH] using term_ind'; intros B; cbn [shift_term]; auto.
  - assert (L: w < lo) by (apply B; simpl; apply Nat.eqb_refl).
    destruct (Nat.leb_spec lo w); [lia|reflexivity].
  - f_equal. induction args as [|y r IHr]; simpl; auto. inversion IH; subst. f_equal.
    + apply H1. intros v Hv. apply B. simpl. rewrite Hv. reflexivity.
    + apply IHr; auto. intros v Hv. apply B. simpl in *. rewrite Hv. apply orb_true_r.
Qed.

(* one element per answer, in order *)
Lemma collect_length lo t xs : forall base, length (fst (collect lo base t xs)) = length xs.
Proof.
  induction xs as [|x r IH]; intros base; cbn [collect]; [reflexivity|].
  specialize (IH (base + (nxt x - lo))). destruct (collect lo (base + (nxt x - lo)) t r) as [es b]. cbn [fst length] in *. lia.
Qed.

(* when the instances contain no variable created inside G they are collected unchanged *)
Lemma collect_older lo t xs : forall base,
  (forall x, In x xs -> forall v, occurs v (den_fast (sto x) t) = true -> v < lo) ->
  fst (collect lo base t xs) = map (fun x => den_fast (sto x) t) xs.
Proof.
  induction xs as [|x r IH]; intros base H; cbn [collect map]; [reflexivity|].
  specialize (IH (base + (nxt x - lo)) (fun y Hy => H y (or_intror Hy))).
  destruct (collect lo (base + (nxt x - lo)) t r) as [es b]. cbn [fst] in *. rewrite IH. f_equal.
  apply shift_id. apply H. left; reflexivity.
Qed.

(* findall collects COPIES (lo = 0): the instance of answer x_j is the dereferenced template with every variable c
   renamed to base_j + c - an injective renaming, the same for all occurrences within one instance - where
   base_1 = base and base_(j+1) = base_j + nxt x_j *)
Definition shift_by (d : nat) (t : term) : term := Rename.ren (fun c => c + d) t.

Lemma shift0_ren d u : shift_term 0 d u = shift_by d u.
Proof.
  unfold shift_by. induction u as [a|z|q|w|f args IH] using term_ind'; cbn [shift_term Rename.ren]; auto.
  f_equal. apply map_ext_in. intros y Hy. exact (proj1 (Forall_forall _ _) IH y Hy).
Qed.

Fixpoint copy_bases (base : nat) (xs : list st) : list nat :=
  match xs with [] => [] | x :: r => base :: copy_bases (base + nxt x) r end.

Lemma collect_copies t xs : forall base,
  fst (collect 0 base t xs) = map (fun bx => shift_by (fst bx) (den_fast (sto (snd bx)) t)) (combine (copy_bases base xs) xs) /\
  snd (collect 0 base t xs) = fold_left (fun b x => b + nxt x) xs base.
Proof.
  induction xs as [|x r IH]; intros base; cbn [collect copy_bases combine map fold_left]; [split; reflexivity|].
  rewrite !Nat.sub_0_r. destruct (IH (base + nxt x)) as [A B].
  destruct (collect 0 (base + nxt x) t r) as [es b]. cbn [fst snd] in *. subst es b. rewrite shift0_ren. split; reflexivity.
Qed.

(* no variable of a collected instance existed before: all of them are >= base, the counter at the call, so an
   instance shares no variable with the caller, the goal, the template or the bag; and the variables of instance j
   lie in [base_j, base_j + nxt x_j), ranges that are pairwise disjoint: different instances share no variable *)
Lemma shift_by_occurs d u v : occurs v (shift_by d u) = true -> d <= v /\ occurs (v - d) u = true.
Proof.
  unfold shift_by. induction u as [a|z|q|w|f args IH] using term_ind'; cbn [Rename.ren occurs]; try discriminate.
  - intros H. apply Nat.eqb_eq in H. subst v. split; [lia|]. replace (w + d - d) with w by lia. apply Nat.eqb_refl.
  - intros H. apply existsb_exists in H. destruct H as [y [Hy Ho]]. apply in_map_iff in Hy. destruct Hy as [x0 [<- Hx]].
    destruct (proj1 (Forall_forall _ _) IH x0 Hx Ho) as [L O]. split; [exact L|]. apply existsb_exists. exists x0. split; assumption.
Qed.

Lemma copy_bases_ge xs : forall base b, In b (copy_bases base xs) -> base <= b.
Proof.
  induction xs as [|x r IH]; intros base b H; cbn [copy_bases In] in H; [contradiction|].
  destruct H as [<-|H]; [lia|]. specialize (IH _ _ H). lia.
Qed.

Lemma collect_copies_fresh t xs base e v :
  In e (fst (collect 0 base t xs)) -> occurs v e = true -> base <= v.
Proof.
  intros He Hv. rewrite (proj1 (collect_copies t xs base)) in He. apply in_map_iff in He. destruct He as [[b x] [<- Hb]].
  cbn [fst snd] in Hv. apply shift_by_occurs in Hv. destruct Hv as [L _].
  apply in_combine_l in Hb. apply copy_bases_ge in Hb. lia.
Qed.

Lemma collect_copies_disjoint t xs : forall base i j ei ej v,
  (forall x, In x xs -> forall w, occurs w (den_fast (sto x) t) = true -> w < nxt x) ->
  nth_error (fst (collect 0 base t xs)) i = Some ei -> nth_error (fst (collect 0 base t xs)) j = Some ej ->
  occurs v ei = true -> occurs v ej = true -> i = j.
Proof.
  induction xs as [|x r IH]; intros base i j ei ej v B Hi Hj Vi Vj.
  - cbn [collect fst] in Hi. destruct i; discriminate.
  - pose proof (collect_copies t (x :: r) base) as [E _]. cbn [copy_bases combine map] in E.
    pose proof (collect_copies t r (base + nxt x)) as [Er _].
    rewrite E in Hi, Hj. rewrite <- Er in Hi, Hj.
    assert (Hd: forall e w, In e (fst (collect 0 (base + nxt x) t r)) -> occurs w e = true -> base + nxt x <= w)
      by (intros e w; apply collect_copies_fresh).
    assert (H0: forall w, occurs w (shift_by base (den_fast (sto x) t)) = true -> w < base + nxt x).
    { intros w Hw. apply shift_by_occurs in Hw. destruct Hw as [L O]. pose proof (B x (or_introl eq_refl) _ O). lia. }
    destruct i as [|i], j as [|j]; cbn [nth_error fst snd] in Hi, Hj.
    + reflexivity.
    + injection Hi as <-. pose proof (H0 _ Vi). pose proof (Hd _ _ (nth_error_In _ _ Hj) Vj). lia.
    + injection Hj as <-. pose proof (H0 _ Vj). pose proof (Hd _ _ (nth_error_In _ _ Hi) Vi). lia.
    + f_equal. apply (IH (base + nxt x) i j ei ej v); auto. intros y Hy. apply B. right; exact Hy.
Qed.

Lemma findall_at_most_once t g l s r : builtin call (s_ "findall") [t; g; l] s = Some r -> length (fst r) <= 1.
Proof.
  change (builtin call (s_ "findall") [t; g; l] s) with
  (Some (let '(xs, e) := call_goal call g [] s in
         if e then ([], true) else
         let '(es, b) := collect 0 (nxt s) t xs in unify_st {| sto := sto s; nxt := b |} l (mk_list es))).
  intros H. inversion H; subst. destruct (call_goal call g [] s) as [xs [|]]; cbn [fst length]; [lia|].
  destruct (collect 0 (nxt s) t xs) as [es b].
  unfold unify_st. destruct (unify_fast _ _ _ _); cbn [fst length]; lia.
Qed.

(* findall unifies the bag only AFTER the enumeration of G is complete: what is collected (the list of instances and
   the variable counter, or the fact that G ended in an error) is determined by the call, the template, the goal and the
   state of the call alone - it is chosen BEFORE the bag l is looked at - and the bag is then unified with that list in
   the store of the call.  In particular G runs in the state of the call whatever the bag is (unbound, a closed or a
   partial list, sharing variables with G or not): no binding flows from the bag into the enumeration of G. *)
Definition findall_collected (t g : term) (s : st) : option (list term * nat) :=
  let '(xs, e) := call_goal call g [] s in if e then None else Some (collect 0 (nxt s) t xs).

Lemma findall_bag_after_enumeration t g s :
  exists r : option (list term * nat),
    r = findall_collected t g s /\ forall l, builtin call (s_ "findall") [t; g; l] s =
              Some (match r with
                    | None => ([], true)
                    | Some (es, b) => unify_st {| sto := sto s; nxt := b |} l (mk_list es)
                    end).
Proof.
  exists (findall_collected t g s). split; [reflexivity|]. intros l.
  change (builtin call (s_ "findall") [t; g; l] s) with
  (Some (let '(xs, e) := call_goal call g [] s in
         if e then ([], true) else
         let '(es, b) := collect 0 (nxt s) t xs in unify_st {| sto := sto s; nxt := b |} l (mk_list es))).
  unfold findall_collected. destruct (call_goal call g [] s) as [xs [|]]; [reflexivity|].
  destruct (collect 0 (nxt s) t xs) as [es b]. reflexivity.
Qed.

(* consequence: two calls that differ only in the bag see the same collected list; whether each succeeds is the
   unifiability of its own bag with that list *)
Lemma findall_bags_same_list t g s l1 l2 :
  exists r, (forall es b, r = Some (es, b) ->
               builtin call (s_ "findall") [t; g; l1] s = Some (unify_st {| sto := sto s; nxt := b |} l1 (mk_list es)) /\ builtin call (s_ "findall") [t; g; l2] s = Some (unify_st {| sto := sto s; nxt := b |} l2 (mk_list es))) /\ (r = None -> builtin call (s_ "findall") [t; g; l1] s = Some ([], true) /\ builtin call (s_ "findall") [t; g; l2] s = Some ([], true)).
Proof.
  destruct (findall_bag_after_enumeration t g s) as [r [_ H]]. exists r. split.
  - intros es b E. rewrite !H, E. split; reflexivity.
  - intros E. rewrite !H, E. split; reflexivity.
Qed.

(* findall(T,G,L) is findall(T,G,V), L = V for a new variable V - the standard reading "collect, then match": with V
   unbound, not occurring in L nor in the collected list, the first step succeeds exactly once binding only V (to the
   resolved list), and matching L against V afterwards ends exactly as the direct call does (success / failure /
   error) with the SAME new bindings nw, computed from the resolved bag and the resolved list alone; the two final
   stores differ only by the binding of the auxiliary variable V. *)
Lemma findall_as_fresh_bag_then_unify t g l s v es b :
  wf (sto s) -> lookup v (sto s) = None ->
  occurs v (den (sto s) l) = false ->
  findall_collected t g s = Some (es, b) ->
  occurs v (den (sto s) (mk_list es)) = false ->
  let m := den (sto s) (mk_list es) in
  let s1 := {| sto := (v, m) :: sto s; nxt := b |} in
  builtin call (s_ "findall") [t; g; TVar v] s = Some ([s1], false) /\
  match unify ufuel [] (den (sto s) l) m with
  | UOk nw => builtin call (s_ "findall") [t; g; l] s = Some ([{| sto := nw ++ sto s; nxt := b |}], false) /\
              unify_st s1 l (TVar v) = ([{| sto := nw ++ (v, m) :: sto s; nxt := b |}], false)
  | UFail => builtin call (s_ "findall") [t; g; l] s = Some ([], false) /\ unify_st s1 l (TVar v) = ([], false)
  | _ => builtin call (s_ "findall") [t; g; l] s = Some ([], true) /\ unify_st s1 l (TVar v) = ([], true)
  end.
Proof.
  intros W L Ol C Om m s1.
  destruct (findall_bag_after_enumeration t g s) as [r [Er H]]. rewrite C in Er. subst r.
  destruct (unify_through_fresh (Nat.pred ufuel) (sto s) l (mk_list es) v W L Ol Om (mk_list_not_var es (sto s))) as [U1 U2].
  split.
  - rewrite H. unfold unify_st. rewrite unify_fast_eq. cbn [sto nxt]. change ufuel with (S (Nat.pred ufuel)) at 1. rewrite U1. reflexivity.
  - destruct (U2 ufuel) as [Ud Uv]. rewrite H. unfold unify_st. rewrite !unify_fast_eq. cbn [sto nxt].
    subst s1. cbn [sto nxt]. fold m in Uv. rewrite Ud, Uv. fold m.
    destruct (unify ufuel [] (den (sto s) l) m) as [nw| | |]; cbn [lift]; split; reflexivity.
Qed.
End BuiltinSpec.

(* ---------------------------------------------------------------- naming instead of unifying *)
(* Step 1 of the clause semantics names a goal argument instead of unifying it with a fresh variable.
   This is what the unification would have done: unifying a goal argument a with a fresh variable x
   (unbound, not occurring in the argument) never fails, binds only x (or, when the argument is itself
   an unbound variable v, binds v to x), and afterwards x and a denote the same term. *)
Lemma fresh_head_variable n s a x :
  wf s -> lookup x s = None -> occurs x (den s a) = false ->
  exists s', unify (S n) s a (TVar x) = UOk s' /\ wf s' /\ den s' (TVar x) = den s' a /\
             (s' = (x, den s a) :: s \/ exists v, den s a = TVar v /\ s' = (v, TVar x) :: s).
Proof.
  intros W L O.
  assert (Dx: den s (TVar x) = TVar x).
  { apply den_id. intros w Hw. simpl in Hw. apply Nat.eqb_eq in Hw. subst w. exact L. }
  assert (R: forall s', unify (S n) s a (TVar x) = UOk s' -> wf s' /\ den s' (TVar x) = den s' a).
  { intros s' H. destruct (unify_sound _ _ _ W H) as [W' [_ D]]. split; [exact W'|symmetry; exact D]. }
  cbn [unify] in *. rewrite Dx in *.
  destruct (den s a) as [c|z|q|v|f args] eqn:Da.
  - unfold bind in *. cbn [occurs] in *. eexists; split; [reflexivity|]. destruct (R _ eq_refl). auto.
  - unfold bind in *. cbn [occurs] in *. eexists; split; [reflexivity|]. destruct (R _ eq_refl). auto.
  - unfold bind in *. cbn [occurs] in *. eexists; split; [reflexivity|]. destruct (R _ eq_refl). auto.
  - cbn [occurs] in O. rewrite O in *. eexists; split; [reflexivity|]. destruct (R _ eq_refl). eauto 6.
  - unfold bind in *. rewrite O in *. eexists; split; [reflexivity|]. destruct (R _ eq_refl). auto.
Qed.
