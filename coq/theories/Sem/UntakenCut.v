(* Round 5: a cut that stands in the text but is NOT reached on a particular call commits nothing.

   Two classes of edit reason statically about a cut ("after this, nothing can follow"): dropping the alternative B of
   ( .. ; B ) when the code to its left ends in the cut's `return`, and dropping the clauses behind a clause that starts
   with a cut.  Both are wrong exactly when the cut is not executed: its branch is not taken, a goal to its left fails,
   or the clause is never entered.  The statements below are consequences of the reference semantics RefSem.sem (the
   semantics the compiled code is PROVED to compute: ControlCorrect.control_correct, ProgramCorrect) that say what must
   then still happen. *)
From Coq Require Import List Arith Bool.
Import ListNotations.
From YP Require Import Base.Str Lang.Ast Sem.Res Sem.RefSem Sem.SemLemmas.

Section UntakenCut.
Variable S : Type.
Variable I : str -> list sterm -> S -> list S * bool.
Notation sem := (RefSem.sem I).

(* ( (C -> T ; !, E) ; B ): when C has an answer the cut of the else branch is not reached - T runs on C's first answer
   and, if T ends normally, B IS tried; when C has none the cut is reached: E runs, B is not tried, the clause is cut. *)
Lemma untaken_else_cut C T E B s :
  sem (BOr (BOr (BIf C T) (BAnd BCut E)) B) s =
  match opaque (sem C s) with
  | (x :: _, _) => por (sem T x) (sem B s)
  | ([], FNorm) => seqr (sem E) [s] FCut
  | ([], f) => ([], f)
  end.
Proof.
  rewrite sem_or_plain by reflexivity. rewrite sem_or_if.
  destruct (opaque (RefSem.sem I C s)) as [[|x r] e]; cbn [ite].
  - destruct e; cbn [RefSem.sem]; try reflexivity.
    (* the cut is reached: whatever E does, the result does not end normally, so B is not tried *)
    cbn [seqr]. destruct (RefSem.sem I E s) as [ys g]. destruct g; reflexivity.
  - reflexivity.
Qed.

(* in particular: if T ends normally on the first answer of C, every answer of B follows T's *)
Lemma untaken_else_cut_alternative_tried C T E B s x r e ts :
  opaque (sem C s) = (x :: r, e) -> sem T x = (ts, FNorm) ->
  sem (BOr (BOr (BIf C T) (BAnd BCut E)) B) s = (ts ++ fst (sem B s), snd (sem B s)).
Proof.
  intros HC HT. rewrite untaken_else_cut, HC, HT. unfold por. destruct (RefSem.sem I B s); reflexivity.
Qed.

(* ( (C -> !, T ; E) ; B ): the mirror image - the cut is reached iff C has an answer; otherwise E runs and, if it ends
   normally, B is tried *)
Lemma untaken_then_cut C T E B s :
  sem (BOr (BOr (BIf C (BAnd BCut T)) E) B) s =
  match opaque (sem C s) with
  | (x :: _, _) => seqr (sem T) [x] FCut
  | ([], FNorm) => por (sem E s) (sem B s)
  | ([], f) => ([], f)
  end.
Proof.
  rewrite sem_or_plain by reflexivity. rewrite sem_or_if.
  destruct (opaque (RefSem.sem I C s)) as [[|x r] e]; cbn [ite].
  - destruct e; reflexivity.
  - cbn [RefSem.sem seqr]. destruct (RefSem.sem I T x) as [ys g]. destruct g; reflexivity.
Qed.

(* ( (G, !, E) ; B ): a goal G that fails to the left of the cut - B is tried; G with an answer - B is not *)
Lemma guarded_cut_alternative G E B s :
  sem (BOr (BAnd G (BAnd BCut E)) B) s =
  match sem G s with
  | ([], FNorm) => sem B s
  | ([], g) => ([], g)
  | (x :: _, _) => seqr (sem E) [x] FCut
  end.
Proof.
  rewrite sem_or_plain by reflexivity. cbn [RefSem.sem].
  destruct (RefSem.sem I G s) as [[|x r] e].
  - cbn [seqr]. unfold por. destruct e; try reflexivity. destruct (RefSem.sem I B s); reflexivity.
  - cbn [seqr]. destruct (RefSem.sem I E x) as [ys g]. destruct g; reflexivity.
Qed.

(* a continuation K behind the construct is run on the answers of whichever side was taken; it cannot bring back an
   alternative the cut removed, nor remove one the cut never touched: with C answered and T, K ending normally the
   answers are those of (T, K) followed by those of (B, K) *)
Lemma sem_and_bindr a b s : sem (BAnd a b) s = bindr (sem a s) (sem b).
Proof. cbn [RefSem.sem]. unfold bindr. destruct (RefSem.sem I a s); reflexivity. Qed.

Lemma untaken_else_cut_with_continuation C T E B K s x r e :
  opaque (sem C s) = (x :: r, e) ->
  sem (BAnd (BOr (BOr (BIf C T) (BAnd BCut E)) B) K) s = bindr (por (sem T x) (sem B s)) (sem K).
Proof. intros HC. rewrite sem_and_bindr, untaken_else_cut, HC. reflexivity. Qed.
End UntakenCut.

(* ---------------------------------------------------------------- clause level: a clause that is not entered commits nothing.
   "The head consists of variables only" does NOT mean "the clause matches every call": a variable that occurs twice makes the head
   unification fail for arguments that do not unify with each other (head_args_by_pos gives None for such positions, so the compiled
   code unifies them).  When the head does not match, the body - whether or not it starts with a cut - is never looked at and the
   later clauses are tried, from the state in which the clause was entered. *)
From Coq Require Import String ZArith NArith.
From YP Require Import Term.Term Term.Fast Unify.Unify Unify.Fast Comp.IR Comp.CompileBody Comp.CompileClause Sem.Machine Sem.ClauseSem.

Section ClauseNotEntered.
Variable call : str -> list term -> st -> list st * bool.

Lemma head_mismatch_skips_clause c rest cf :
  head_unify 0 (clause_pos c) (c_args c) (fst (clause_enter c cf)) (snd (clause_enter c cf)) = HFail ->
  clausesA call (c :: rest) cf = clausesA call rest (clause_enter c cf).
Proof.
  intros H. cbn [clausesA]. unfold clause_res.
  destruct (clause_enter c cf) as [r s]. cbn [fst snd] in H. rewrite H.
  destruct (clausesA call rest (r, s)); reflexivity.
Qed.

(* the same clause with ANY other body behaves alike on such a call: the cut in `d(X,X) :- !, ...` is irrelevant to it *)
Lemma head_mismatch_body_irrelevant name args b1 b2 rest cf :
  let c1 := {| c_name := name; c_args := args; c_body := b1 |} in
  let c2 := {| c_name := name; c_args := args; c_body := b2 |} in
  clause_fv_body c1 = clause_fv_body c2 ->
  head_unify 0 (clause_pos c1) (c_args c1) (fst (clause_enter c1 cf)) (snd (clause_enter c1 cf)) = HFail ->
  clausesA call (c1 :: rest) cf = clausesA call (c2 :: rest) cf.
Proof.
  intros c1 c2 Hfv H.
  assert (He : clause_enter c2 cf = clause_enter c1 cf).
  { unfold clause_enter, clause_fv_head, clause_pos in *. cbn [c_args] in *. rewrite <- Hfv. reflexivity. }
  rewrite (head_mismatch_skips_clause c1 rest cf H).
  rewrite (head_mismatch_skips_clause c2 rest cf); [rewrite He; reflexivity|].
  rewrite He. exact H.
Qed.
End ClauseNotEntered.
