(* A polynomial-time way to evaluate den.  den ((v,t)::s) u = subst1 v (den s t) (den s u) makes two
   recursive calls per binding; den_fast (Term/Fast.v) avoids the second one only when v does not
   occur, so both are exponential in the length of a CHAIN of bindings (X1 = [a|X2], X2 = [b|X3], ...),
   which is what list-building Prolog programs produce.  Here the store is first turned, oldest
   binding first, into the list of its RESOLVED bindings (rstore), each value being resolved with the
   resolved bindings older than it; den is then one pass of substitutions.  Equal to den for every
   store and term, without side conditions. *)
From Coq Require Import List Arith Bool.
Import ListNotations.
From YP Require Import Base.Str Term.Term.

Fixpoint aseq (r : store) (u : term) : term :=
  match r with
  | [] => u
  | (v, x) :: r' => let u' := aseq r' u in if occurs v u' then subst1 v x u' else u'
  end.

Fixpoint rstore (s : store) : store :=
  match s with
  | [] => []
  | (v, t) :: s' => let r := rstore s' in (v, aseq r t) :: r
  end.

Definition dfast (s : store) (u : term) : term := aseq (rstore s) u.

Lemma aseq_rstore s : forall u, aseq (rstore s) u = den s u.
Proof.
  induction s as [|[v t] s IH]; intros u; cbn [rstore aseq den]; [reflexivity|].
  rewrite !IH. destruct (occurs v (den s u)) eqn:O; [reflexivity|].
  symmetry. apply subst1_noocc. exact O.
Qed.

Lemma dfast_eq s u : dfast s u = den s u.
Proof. apply aseq_rstore. Qed.
