(* An evaluation-friendly version of den.  den ((v,t)::s) u = subst1 v (den s t) (den s u) makes two
   recursive calls per binding, which is exponential in the length of the store when evaluated; den_fast
   resolves the value of a binding only when its variable actually occurs.  The two are equal for
   every store and term, so theorems are stated with den and the executable model runs den_fast. *)
From Coq Require Import List Arith Bool.
Import ListNotations.
From YP Require Import Base.Str Term.Term.

Fixpoint den_fast (s:store) (u:term) : term :=
  match s with
  | [] => u
  | (v,t)::s' => let u' := den_fast s' u in
                 if occurs v u' then subst1 v (den_fast s' t) u' else u'
  end.

Lemma den_fast_eq s : forall u, den_fast s u = den s u.
Proof.
  induction s as [|[v t] s IH]; intros u; simpl; [reflexivity|].
  rewrite !IH. destruct (occurs v (den s u)) eqn:O; [reflexivity|].
  symmetry. apply subst1_noocc. exact O.
Qed.
