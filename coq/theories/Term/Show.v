(* Observation of terms for the correspondence harness (harness/lib/terms.py: term_obs). *)
From Coq Require Import List ZArith.
Import ListNotations.
From YP Require Import Base.Str Term.Term.

Fixpoint term_obs (t : term) : obs :=
  match t with
  | TAtom a => OL [OZ 0; OS a]
  | TInt z => OL [OZ 1; OZ z]
  | TStr s => OL [OZ 2; OS s]
  | TVar v => OL [OZ 3; OZ (Z.of_nat v)]
  | TFun f args => OL [OZ 4; OS f; OL (map term_obs args)]
  end.
