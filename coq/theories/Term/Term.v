(* Terms, triangular binding stores (newest binding first) and their fuel-free
   denotation.  [den s t] is what the engine's deep get_value returns for t when the
   active bindings are s (engine.py: get_value / Variable.get_value / Functor.get_value). *)
From Coq Require Import List Arith Bool Lia ZArith NArith.
Import ListNotations.
From YP Require Import Base.Str.
Set Implicit Arguments.

(* TAtom: engine Atom; TInt / TStr: raw Python constants (int, str); TVar: a Variable cell;
   TFun: engine Functor (lists are TFun "." [h;t] ending in TAtom "[]") *)
Inductive term := TAtom (a:str) | TInt (z:Z) | TStr (s:str) | TVar (v:nat) | TFun (f:str) (args:list term).

Section TermInd.
  Variable P : term -> Prop.
  Hypothesis Ha : forall a, P (TAtom a).
  Hypothesis Hi : forall z, P (TInt z).
  Hypothesis Hs : forall s, P (TStr s).
  Hypothesis Hv : forall v, P (TVar v).
  Hypothesis Hf : forall f args, Forall P args -> P (TFun f args).
  Fixpoint term_ind' (t:term) : P t :=
    match t with
    | TAtom a => Ha a | TInt z => Hi z | TStr s => Hs s | TVar v => Hv v
    | TFun f args => Hf f ((fix go (l:list term) : Forall P l :=
         match l with [] => Forall_nil P | x::r => Forall_cons x (term_ind' x) (go r) end) args)
    end.
End TermInd.

Fixpoint subst1 (v:nat) (r:term) (t:term) : term :=
  match t with
  | TVar w => if Nat.eqb w v then r else t
  | TFun f args => TFun f (map (subst1 v r) args)
  | _ => t end.

Fixpoint occurs (v:nat) (t:term) : bool :=
  match t with
  | TVar w => Nat.eqb w v
  | TFun _ args => existsb (occurs v) args
  | _ => false end.

Definition store := list (nat * term).
Fixpoint lookup (v:nat) (s:store) : option term :=
  match s with [] => None | (w,t)::r => if Nat.eqb v w then Some t else lookup v r end.

(* denotation of a store built by successive bindings (newest first) *)
Fixpoint den (s:store) (u:term) : term :=
  match s with
  | [] => u
  | (v,t)::s' => subst1 v (den s' t) (den s' u)
  end.

Inductive wf : store -> Prop :=
| wf_nil : wf []
| wf_cons v t s : wf s -> lookup v s = None -> occurs v (den s t) = false -> wf ((v,t)::s).

(* all variables of t are unbound in s *)
Definition free_in (s:store) (t:term) : Prop := forall w, occurs w t = true -> lookup w s = None.

Lemma subst1_noocc v r t : occurs v t = false -> subst1 v r t = t.
Proof.
  induction t as [a|z|q|w|f args IHa] using term_ind'; simpl; intros Ho; auto.
  - rewrite Ho. reflexivity.
  - f_equal. induction args as [|x l IH]; simpl in *; auto.
    apply orb_false_iff in Ho as [H1 H2]. inversion IHa; subst. rewrite H3, IH; auto.
Qed.

Lemma occurs_subst1 w v r t : occurs w (subst1 v r t) = true ->
  (occurs w t = true /\ w <> v) \/ occurs w r = true.
Proof.
  induction t as [a|z|q|u|f args IHa] using term_ind'; simpl; intros Ho; try discriminate.
  - destruct (Nat.eqb u v) eqn:E; [right; exact Ho|]. simpl in Ho. left. split; auto.
    apply Nat.eqb_eq in Ho. subst. apply Nat.eqb_neq in E. exact E.
  - induction args as [|x l IH]; simpl in *; try discriminate.
    inversion IHa; subst. apply orb_true_iff in Ho as [Ho|Ho].
    + destruct (H1 Ho) as [[A B]|A]; [left; split; auto; rewrite A; reflexivity|right; exact A].
    + destruct (IH H2 Ho) as [[A B]|A]; [left; split; auto; rewrite A; apply orb_true_r|right; exact A].
Qed.

Lemma den_free s : wf s -> forall t, free_in s (den s t).
Proof.
  induction 1 as [|v t0 s W IH L O]; intros t w Hw; simpl in *; auto.
  destruct (occurs_subst1 _ _ _ _ Hw) as [[A B]|A].
  - apply Nat.eqb_neq in B. rewrite B. apply (IH t); exact A.
  - destruct (Nat.eqb w v) eqn:E.
    + apply Nat.eqb_eq in E; subst. congruence.
    + apply (IH t0); exact A.
Qed.

Lemma den_id s : forall t, free_in s t -> den s t = t.
Proof.
  induction s as [|[v t0] s IH]; intros t F; simpl; auto.
  assert (F': free_in s t).
  { intros w Hw. specialize (F w Hw). simpl in F. destruct (Nat.eqb w v); [discriminate|exact F]. }
  rewrite (IH t F'). apply subst1_noocc.
  destruct (occurs v t) eqn:E; auto. specialize (F v E). simpl in F. rewrite Nat.eqb_refl in F. discriminate.
Qed.

Lemma free_subst1 s v r x : free_in s x -> free_in s r -> free_in s (subst1 v r x).
Proof. intros Fx Fr w Hw. destruct (occurs_subst1 _ _ _ _ Hw) as [[A _]|A]; auto. Qed.

Lemma den_idem s : wf s -> forall t, den s (den s t) = den s t.
Proof. intros W t. apply den_id. apply den_free; exact W. Qed.

(* extension by newer bindings *)
Fixpoint den_ext (nw:store) (s:store) (x:term) : term :=
  match nw with [] => x | (v,t)::r => subst1 v (den (r++s) t) (den_ext r s x) end.
Lemma den_app nw s u : den (nw++s) u = den_ext nw s (den s u).
Proof. induction nw as [|[v t] r IH]; simpl; auto. rewrite IH. reflexivity. Qed.

Lemma den_ext_den nw s t : wf s -> den (nw++s) (den s t) = den (nw++s) t.
Proof. intros W. rewrite !den_app, den_idem; auto. Qed.

Lemma den_fun s f args : den s (TFun f args) = TFun f (map (den s) args).
Proof.
  induction s as [|[v t] s IH]; simpl.
  - rewrite map_id. reflexivity.
  - rewrite IH. simpl. rewrite map_map. reflexivity.
Qed.
Lemma den_atom s a : den s (TAtom a) = TAtom a.
Proof. induction s as [|[v t] s IH]; simpl; auto. rewrite IH. reflexivity. Qed.
Lemma den_int s z : den s (TInt z) = TInt z.
Proof. induction s as [|[v t] s IH]; simpl; auto. rewrite IH. reflexivity. Qed.
Lemma den_str s z : den s (TStr z) = TStr z.
Proof. induction s as [|[v t] s IH]; simpl; auto. rewrite IH. reflexivity. Qed.
