(* Unification depends on the active bindings only through the dereferenced values of its arguments:
   running it on top of a store s (under further bindings nw made since) gives the same new bindings as
   running it, from nw alone, on the s-resolved terms. *)
From Coq Require Import List Arith Bool Lia ZArith.
Import ListNotations.
From YP Require Import Base.Str Term.Term Unify.Unify.
Set Implicit Arguments.

Definition vals_free (s nw : store) : Prop := forall v t, In (v, t) nw -> free_in s t.
Definition lift (s : store) (r : ures) : ures := match r with UOk nw => UOk (nw ++ s) | x => x end.

Lemma vals_free_cons s v a nw : free_in s a -> vals_free s nw -> vals_free s ((v, a) :: nw).
Proof. intros Fa F w t [H|H]; [inversion H; subst; exact Fa|exact (F w t H)]. Qed.

Lemma den_split nw : forall s, vals_free s nw -> forall u, den (nw ++ s) u = den nw (den s u).
Proof.
  induction nw as [|[v t] r IH]; intros s F u; simpl; [reflexivity|].
  assert (Fr: vals_free s r) by (intros w x H; apply (F w x); right; exact H).
  rewrite !(IH s Fr). rewrite (den_id (F v t (or_introl eq_refl))). reflexivity.
Qed.

Lemma free_den s nw : vals_free s nw -> forall x, free_in s x -> free_in s (den nw x).
Proof.
  induction nw as [|[v t] r IH]; intros F x Fx; simpl; [exact Fx|].
  assert (Fr: vals_free s r) by (intros w y H; apply (F w y); right; exact H).
  apply free_subst1; apply IH; auto. exact (F v t (or_introl eq_refl)).
Qed.

Lemma free_fun_args s f args x : free_in s (TFun f args) -> In x args -> free_in s x.
Proof. intros F Hx w Hw. apply F. simpl. apply existsb_exists. exists x; auto. Qed.

Lemma free_app_r nw s x : free_in (nw ++ s) x -> free_in s x.
Proof.
  intros F w Hw. specialize (F w Hw). induction nw as [|[v t] r IH]; simpl in *; [exact F|].
  destruct (Nat.eqb w v); [discriminate|auto].
Qed.

(* the values bound by a base-free run stay resolved with respect to the base *)
Lemma arr_vals_free s (U : store -> term -> term -> ures) :
  (forall nw a b nw', vals_free s nw -> free_in s a -> free_in s b -> U nw a b = UOk nw' -> vals_free s nw') ->
  forall xs ys nw nw', vals_free s nw -> (forall x, In x xs -> free_in s x) -> (forall y, In y ys -> free_in s y) ->
  arr U xs ys nw = UOk nw' -> vals_free s nw'.
Proof.
  intros HU. induction xs as [|a ar IH]; intros [|b br] nw nw' F Fx Fy H; simpl in H; try discriminate.
  - inversion H; subst; exact F.
  - destruct (U nw a b) as [n1| | |] eqn:E; try discriminate.
    apply (IH br n1 nw'); auto.
    + apply (HU nw a b n1); auto; [apply Fx|apply Fy]; left; reflexivity.
    + intros x Hx; apply Fx; right; exact Hx.
    + intros y Hy; apply Fy; right; exact Hy.
Qed.

Lemma unify_vals_free s n : forall nw a b nw', vals_free s nw -> free_in s a -> free_in s b ->
  unify n nw a b = UOk nw' -> vals_free s nw'.
Proof.
  induction n as [|n IH]; intros nw a b nw' F Fa Fb H; [discriminate|].
  cbn [unify] in H.
  pose proof (free_den F Fa) as D1. pose proof (free_den F Fb) as D2.
  destruct (den nw a) as [x|x|x|v|f xs] eqn:E1; destruct (den nw b) as [y|y|y|w|g ys] eqn:E2; try discriminate;
    try (unfold bind in H; match type of H with (if ?c then _ else _) = _ => destruct c end; try discriminate;
         inversion H; subst; apply vals_free_cons; auto; fail).
  - destruct (str_eqb x y); inversion H; subst; exact F.
  - destruct (Z.eqb x y); inversion H; subst; exact F.
  - destruct (str_eqb x y); inversion H; subst; exact F.
  - destruct (Nat.eqb v w); inversion H; subst; [exact F|]. apply vals_free_cons; auto.
  - destruct (str_eqb f g); [|discriminate]. destruct (Nat.eqb (length xs) (length ys)); [|discriminate].
    apply (@arr_vals_free s (unify n) IH xs ys nw nw' F); auto; intros z Hz; [exact (@free_fun_args _ _ _ _ D1 Hz)|exact (@free_fun_args _ _ _ _ D2 Hz)].
Qed.

Definition base_at (s : store) (U : store -> term -> term -> ures) : Prop :=
  forall nw a b, wf (nw ++ s) -> vals_free s nw -> U (nw ++ s) a b = lift s (U nw (den s a) (den s b)).

Lemma arr_base s n : base_at s (unify n) ->
  forall xs ys nw, wf (nw ++ s) -> vals_free s nw ->
  (forall x, In x xs -> free_in s x) -> (forall y, In y ys -> free_in s y) ->
  arr (unify n) xs ys (nw ++ s) = lift s (arr (unify n) xs ys nw).
Proof.
  intros HB. induction xs as [|a ar IH]; intros [|b br] nw W F Fx Fy; simpl; try reflexivity.
  assert (Fa: free_in s a) by (apply Fx; left; reflexivity).
  assert (Fb: free_in s b) by (apply Fy; left; reflexivity).
  rewrite (HB nw a b W F), (den_id Fa), (den_id Fb).
  destruct (unify n nw a b) as [n1| | |] eqn:E; cbn [lift]; try reflexivity.
  apply IH.
  - assert (E': unify n (nw ++ s) a b = UOk (n1 ++ s)).
    { rewrite (HB nw a b W F), (den_id Fa), (den_id Fb), E. reflexivity. }
    destruct (unify_sound _ _ _ W E') as [W1 _]. exact W1.
  - exact (@unify_vals_free s n nw a b n1 F Fa Fb E).
  - intros x Hx; apply Fx; right; exact Hx.
  - intros y Hy; apply Fy; right; exact Hy.
Qed.

Theorem unify_base s n : base_at s (unify n).
Proof.
  induction n as [|n IH]; intros nw a b W F; [reflexivity|].
  cbn [unify]. rewrite !(den_split F).
  pose proof (den_free W a) as Fa. pose proof (den_free W b) as Fb.
  rewrite !(den_split F) in Fa, Fb.
  destruct (den nw (den s a)) as [x|x|x|v|f xs] eqn:E1; destruct (den nw (den s b)) as [y|y|y|w|g ys] eqn:E2;
    cbn [lift]; try reflexivity;
    try (unfold bind; match goal with |- context [if ?c then _ else _] => destruct c end; reflexivity).
  destruct (str_eqb f g); [|reflexivity]. destruct (Nat.eqb (length xs) (length ys)); [|reflexivity].
    apply arr_base; auto; intros z Hz; apply free_app_r with (nw := nw); [exact (@free_fun_args _ _ _ _ Fa Hz)|exact (@free_fun_args _ _ _ _ Fb Hz)].
Qed.

(* the form used most: from a well-formed store, the result is the store plus the bindings computed
   from the resolved arguments alone *)
Corollary unify_increment n s a b : wf s -> unify n s a b = lift s (unify n [] (den s a) (den s b)).
Proof. intros W. apply (@unify_base s n [] a b W). intros v t []. Qed.
