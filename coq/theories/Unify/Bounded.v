(* Cells below a bound: terms and stores that mention only cells < k, and the fact that unification
   never introduces a cell that was not there. *)
From Coq Require Import List Arith Bool ZArith Lia.
Import ListNotations.
From YP Require Import Base.Str Term.Term Term.Fast Unify.Unify Unify.Fast.

Definition bounded (k : nat) (t : term) : Prop := forall v, occurs v t = true -> v < k.
Definition store_bounded (k : nat) (s : store) : Prop := forall v t, In (v, t) s -> v < k /\ bounded k t.

Lemma bounded_mono k k' t : k <= k' -> bounded k t -> bounded k' t.
Proof. intros L B v H. specialize (B v H). lia. Qed.
Lemma store_bounded_mono k k' s : k <= k' -> store_bounded k s -> store_bounded k' s.
Proof. intros L B v t H. destruct (B v t H) as [A C]. split; [lia|eapply bounded_mono; eauto]. Qed.

Lemma bounded_fun k f args : bounded k (TFun f args) <-> Forall (bounded k) args.
Proof.
  split.
  - intros B. apply Forall_forall. intros x Hx v Hv. apply B. simpl. apply existsb_exists. exists x; auto.
  - intros F v Hv. simpl in Hv. apply existsb_exists in Hv as [x [Hx Ho]].
    exact (proj1 (Forall_forall _ _) F x Hx v Ho).
Qed.
Lemma bounded_atom k a : bounded k (TAtom a). Proof. intros v H; discriminate. Qed.
Lemma bounded_int k a : bounded k (TInt a). Proof. intros v H; discriminate. Qed.
Lemma bounded_str k a : bounded k (TStr a). Proof. intros v H; discriminate. Qed.
Lemma bounded_var k v : v < k -> bounded k (TVar v).
Proof. intros L w H. simpl in H. apply Nat.eqb_eq in H. subst. exact L. Qed.

Lemma bounded_subst1 k v r t : bounded k r -> bounded k t -> bounded k (subst1 v r t).
Proof.
  intros Br Bt w Hw. destruct (occurs_subst1 _ _ _ _ Hw) as [[A _]|A]; auto.
Qed.

Lemma bounded_den k s : store_bounded k s -> forall t, bounded k t -> bounded k (den s t).
Proof.
  induction s as [|[v t0] s IH]; intros B t Bt; simpl; [exact Bt|].
  assert (B': store_bounded k s) by (intros w u H; apply B; right; exact H).
  apply bounded_subst1; apply IH; auto. apply (B v t0). left; reflexivity.
Qed.

(* unification only introduces bindings between cells / terms that are already there *)
Lemma arr_bounded k (U : store -> term -> term -> ures) :
  (forall s a b s', store_bounded k s -> bounded k a -> bounded k b -> U s a b = UOk s' -> store_bounded k s') ->
  forall xs ys s s', store_bounded k s -> Forall (bounded k) xs -> Forall (bounded k) ys ->
  arr U xs ys s = UOk s' -> store_bounded k s'.
Proof.
  intros HU. induction xs as [|a ar IH]; intros [|b br] s s' B Fx Fy H; simpl in H; try discriminate.
  - inversion H; subst; exact B.
  - inversion Fx; inversion Fy; subst. destruct (U s a b) as [s1| | |] eqn:E; try discriminate.
    apply (IH br s1 s'); auto. apply (HU s a b s1); auto.
Qed.

Lemma store_bounded_cons k v a s : v < k -> bounded k a -> store_bounded k s -> store_bounded k ((v, a) :: s).
Proof. intros L Ba B w u [H|H]; [inversion H; subst; auto|apply B; exact H]. Qed.

Lemma unify_bounded k n : forall s a b s', store_bounded k s -> bounded k a -> bounded k b ->
  unify n s a b = UOk s' -> store_bounded k s'.
Proof.
  induction n as [|n IH]; intros s a b s' B Ba Bb H; [discriminate|].
  cbn [unify] in H.
  pose proof (bounded_den k s B a Ba) as D1. pose proof (bounded_den k s B b Bb) as D2.
  assert (BV: forall v, occurs v (TVar v) = true) by (intros v; simpl; apply Nat.eqb_refl).
  destruct (den s a) as [x|x|x|v|f xs] eqn:E1; destruct (den s b) as [y|y|y|w|g ys] eqn:E2; try discriminate;
    try (unfold bind in H; match type of H with (if ?c then _ else _) = _ => destruct c end; try discriminate;
         inversion H; subst; apply store_bounded_cons; auto; fail).
  - destruct (str_eqb x y); inversion H; subst; exact B.
  - destruct (Z.eqb x y); inversion H; subst; exact B.
  - destruct (str_eqb x y); inversion H; subst; exact B.
  - destruct (Nat.eqb v w); inversion H; subst; [exact B|]. apply store_bounded_cons; auto.
  - destruct (str_eqb f g); [|discriminate]. destruct (Nat.eqb (length xs) (length ys)); [|discriminate].
    apply (arr_bounded k (unify n) IH xs ys s s' B); [eapply bounded_fun; exact D1|eapply bounded_fun; exact D2|exact H].
Qed.

Lemma unify_fast_bounded k n s a b s' : store_bounded k s -> bounded k a -> bounded k b ->
  unify_fast n s a b = UOk s' -> store_bounded k s'.
Proof. rewrite unify_fast_eq. apply unify_bounded. Qed.

(* the result extends the store (no well-formedness needed for this part) *)
Lemma arr_ext_store (U : store -> term -> term -> ures) :
  (forall s a b s', U s a b = UOk s' -> ext s s') ->
  forall xs ys s s', arr U xs ys s = UOk s' -> ext s s'.
Proof.
  intros HU. induction xs as [|a ar IH]; intros [|b br] s s' H; simpl in H; try discriminate.
  - inversion H; subst; apply ext_refl.
  - destruct (U s a b) as [s1| | |] eqn:E; try discriminate. eapply ext_trans; [eapply HU; eauto|eapply IH; eauto].
Qed.

Lemma ext_cons s v a : ext s ((v, a) :: s).
Proof. exists [(v, a)]. reflexivity. Qed.

Lemma unify_ext_store n : forall s a b s', unify n s a b = UOk s' -> ext s s'.
Proof.
  induction n as [|n IH]; intros s a b s' H; [discriminate|].
  cbn [unify] in H.
  destruct (den s a) as [x|x|x|v|f xs]; destruct (den s b) as [y|y|y|w|g ys]; try discriminate;
    try (unfold bind in H; match type of H with (if ?c then _ else _) = _ => destruct c end; try discriminate;
         inversion H; subst; apply ext_cons; fail).
  - destruct (str_eqb x y); inversion H; subst; apply ext_refl.
  - destruct (Z.eqb x y); inversion H; subst; apply ext_refl.
  - destruct (str_eqb x y); inversion H; subst; apply ext_refl.
  - destruct (Nat.eqb v w); inversion H; subst; [apply ext_refl|apply ext_cons].
  - destruct (str_eqb f g); [|discriminate]. destruct (Nat.eqb (length xs) (length ys)); [|discriminate].
    eapply arr_ext_store; [|exact H]. intros; eapply IH; eauto.
Qed.

Lemma unify_fast_ext n s a b s' : unify_fast n s a b = UOk s' -> ext s s'.
Proof. rewrite unify_fast_eq. apply unify_ext_store. Qed.

