(* Unification does not depend on WHICH constants the terms carry, only on which of them are equal: it commutes
   with every recoding of the integer and string constants that is injective.  This is what backs the way the
   correspondence check hands Python constants to the model (harness/lib/pyconsts.py): every constant of the
   pool is replaced by a code of its class under Python `==`, the map from classes to codes being injective;
   unification of the coded terms is then the coded unification of any other injectively coded copy - in
   particular the outcome (success / failure / cyclic) and the shape of the bindings do not depend on the
   choice of codes. *)
From Coq Require Import List Arith Bool Lia ZArith.
Import ListNotations.
From YP Require Import Base.Str Term.Term Unify.Unify.
Set Implicit Arguments.

Section Recode.
Variable fi : Z -> Z.
Variable fs : str -> str.

Fixpoint rc (t : term) : term :=
  match t with
  | TInt z => TInt (fi z)
  | TStr s => TStr (fs s)
  | TFun f args => TFun f (map rc args)
  | _ => t
  end.

Definition rc_store (s : store) : store := map (fun b => (fst b, rc (snd b))) s.

Definition rc_res (r : ures) : ures :=
  match r with UOk s => UOk (rc_store s) | x => x end.

Hypothesis Hi : forall a b, fi a = fi b -> a = b.
Hypothesis Hs : forall a b, fs a = fs b -> a = b.

Lemma zeqb_rc a b : Z.eqb (fi a) (fi b) = Z.eqb a b.
Proof.
  destruct (Z.eqb_spec a b) as [->|N]; [apply Z.eqb_refl|].
  apply Z.eqb_neq. intros E. apply N. apply Hi. exact E.
Qed.

Lemma streqb_rc a b : str_eqb (fs a) (fs b) = str_eqb a b.
Proof.
  destruct (str_eqb a b) eqn:E.
  - apply str_eqb_eq in E. subst. apply str_eqb_refl.
  - destruct (str_eqb (fs a) (fs b)) eqn:E2; [|reflexivity].
    apply str_eqb_eq in E2. apply Hs in E2. subst. rewrite str_eqb_refl in E. discriminate.
Qed.

Lemma rc_subst1 v r x : rc (subst1 v r x) = subst1 v (rc r) (rc x).
Proof.
  induction x as [a|z|q|w|f args IH] using term_ind'; simpl; auto.
  - destruct (Nat.eqb w v); reflexivity.
  - f_equal. rewrite !map_map. induction args as [|y l IHl]; simpl; auto.
    inversion IH; subst. f_equal; auto.
Qed.

Lemma rc_occurs v x : occurs v (rc x) = occurs v x.
Proof.
  induction x as [a|z|q|w|f args IH] using term_ind'; simpl; auto.
  induction args as [|y l IHl]; simpl; auto. inversion IH; subst. rewrite H1, IHl; auto.
Qed.

Lemma rc_den s : forall u, den (rc_store s) (rc u) = rc (den s u).
Proof.
  induction s as [|[v t] s IH]; intros u; simpl; [reflexivity|].
  rewrite !IH. symmetry. apply rc_subst1.
Qed.

Lemma rc_arr (U : store -> term -> term -> ures) :
  (forall s a b, U (rc_store s) (rc a) (rc b) = rc_res (U s a b)) ->
  forall xs ys s, arr U (map rc xs) (map rc ys) (rc_store s) = rc_res (arr U xs ys s).
Proof.
  intros HU. induction xs as [|a ar IH]; intros [|b br] s; simpl; auto.
  rewrite HU. destruct (U s a b) as [s1| | |]; simpl; auto.
Qed.

Theorem unify_recode n : forall s a b,
  unify n (rc_store s) (rc a) (rc b) = rc_res (unify n s a b).
Proof.
  induction n as [|n IH]; intros s a b; [reflexivity|].
  cbn [unify]. rewrite !rc_den.
  destruct (den s a) as [x|x|x|v|f xs]; destruct (den s b) as [y|y|y|w|g ys]; cbn [rc rc_res]; try reflexivity;
    try (unfold bind; cbn [occurs]; reflexivity).
  - destruct (str_eqb x y); reflexivity.
  - rewrite zeqb_rc. destruct (Z.eqb x y); reflexivity.
  - rewrite streqb_rc. destruct (str_eqb x y); reflexivity.
  - destruct (Nat.eqb v w); reflexivity.
  - unfold bind. change (TFun g (map rc ys)) with (rc (TFun g ys)). rewrite rc_occurs.
    destruct (occurs v (TFun g ys)); reflexivity.
  - unfold bind. change (TFun f (map rc xs)) with (rc (TFun f xs)). rewrite rc_occurs.
    destruct (occurs w (TFun f xs)); reflexivity.
  - destruct (str_eqb f g); [|reflexivity]. rewrite !map_length.
    destruct (Nat.eqb (length xs) (length ys)); [|reflexivity].
    apply rc_arr. exact IH.
Qed.

(* in particular: whether two coded terms unify, fail or are cyclic does not depend on the injective coding *)
Corollary unify_outcome_recode n s a b :
  match unify n (rc_store s) (rc a) (rc b), unify n s a b with
  | UOk _, UOk _ | UFail, UFail | UOof, UOof | UCyc, UCyc => True
  | _, _ => False
  end.
Proof. rewrite unify_recode. destruct (unify n s a b); exact I. Qed.
End Recode.
