(* unify with den_fast in place of den: the same function (unify_fast_eq), cheap to evaluate. *)
From Coq Require Import List Arith Bool ZArith.
Import ListNotations.
From YP Require Import Base.Str Term.Term Term.Fast Unify.Unify.

Fixpoint unify_fast (n:nat) (s:store) (t1 t2:term) : ures :=
  match n with O => UOof | S n =>
    let a1 := den_fast s t1 in let a2 := den_fast s t2 in
    match a1, a2 with
    | TVar v, TVar w => if Nat.eqb v w then UOk s else UOk ((v,a2)::s)
    | TVar v, _ => bind s v a2
    | _, TVar w => bind s w a1
    | TAtom x, TAtom y => if str_eqb x y then UOk s else UFail
    | TInt x, TInt y => if Z.eqb x y then UOk s else UFail
    | TStr x, TStr y => if str_eqb x y then UOk s else UFail
    | TFun f xs, TFun g ys =>
        if str_eqb f g then (if Nat.eqb (length xs) (length ys) then arr (unify_fast n) xs ys s else UFail) else UFail
    | _, _ => UFail
    end end.

Lemma arr_ext (U U' : store -> term -> term -> ures) :
  (forall s a b, U s a b = U' s a b) -> forall xs ys s, arr U xs ys s = arr U' xs ys s.
Proof.
  intros H. induction xs as [|a ar IH]; intros [|b br] s; simpl; auto.
  rewrite H. destruct (U' s a b); auto.
Qed.

Lemma unify_fast_eq n : forall s t1 t2, unify_fast n s t1 t2 = unify n s t1 t2.
Proof.
  induction n as [|n IH]; intros s t1 t2; [reflexivity|].
  cbn [unify_fast unify]. rewrite !den_fast_eq.
  destruct (den s t1) as [x|x|x|v|f xs]; destruct (den s t2) as [y|y|y|w|g ys]; auto.
  destruct (str_eqb f g); auto. destruct (Nat.eqb (length xs) (length ys)); auto.
  apply arr_ext. exact IH.
Qed.

Definition unify_arrays_fast (n:nat) (s:store) (xs ys:list term) : ures :=
  if Nat.eqb (length xs) (length ys) then arr (unify_fast n) xs ys s else UFail.

Lemma unify_arrays_fast_eq n s xs ys : unify_arrays_fast n s xs ys = unify_arrays n s xs ys.
Proof.
  unfold unify_arrays_fast, unify_arrays. destruct (Nat.eqb (length xs) (length ys)); auto.
  apply arr_ext. apply unify_fast_eq.
Qed.
