(* "Creation and start are different moments" (property C02).

   engine.unify(t1, t2) is an ordinary function: it dereferences both arguments and dispatches when it is
   CALLED (UnifyGen.mk_unify h t1 t2, h = the bindings at the call); the object it returns is - in the variable
   and the compound case - a generator whose body runs at the first __next__ (UnifyGen.next n h' g, h' = the
   bindings at that moment).  Variable.unify dereferences its argument AGAIN when its body starts, unify_arrays
   dereferences its elements when its body starts.  The theorems of this file say what the first __next__
   computes when h' is not h - whatever happened in between (other unifications created, started, advanced,
   closed):

     late_start_matches_unify   the first next under h' IS Unify.unify under h' on the two terms as they were
                                dereferenced at creation (in the orientation the dispatch chose), and closing
                                at the yield gives back h';
     late_start_snapshot_mgu    hence: a most general unifier, relative to the bindings current at the first
                                next, of the two creation-time values; late_start_snapshot_fail: no yield only
                                if there is no unifier, and then nothing is bound;
     late_start_mgu / _fail     if the bindings of the creation moment are still active at the start (h' extends
                                h - the LIFO discipline of nested generators), the same for t1, t2 themselves;
     late_drive_restores        any sequence of next/close on an object created under h and driven from h':
                                at most one yield, close gives back h';
     stack_mgu                  a stack of unifications, each started under the bindings left by those below:
                                the bindings at the top are a most general unifier of ALL their equations
                                (what the check's oracle compares the implementation's heap with). *)
From Coq Require Import List Arith Bool Lia ZArith.
Import ListNotations.
From YP Require Import Base.Str Term.Term Unify.Unify Unify.Mgu Unify.UnifyGen.
Set Implicit Arguments.

(* the two terms the generator object made by unify(t1,t2) under h will unify when it is started:
   the creation-time values, the variable side (receiver of Variable.unify) first *)
Definition start_pair (h:heap) (t1 t2:term) : term * term :=
  match den h t1, den h t2 with
  | TVar v, a2 => (TVar v, a2)
  | a1, TVar w => (TVar w, a1)
  | a1, a2 => (a1, a2)
  end.

Lemma start_pair_cases h t1 t2 :
  start_pair h t1 t2 = (den h t1, den h t2) \/ start_pair h t1 t2 = (den h t2, den h t1).
Proof.
  unfold start_pair. destruct (den h t1) as [x|x|x|v|f xs]; destruct (den h t2) as [y|y|y|w|g ys]; auto.
Qed.

Lemma den_unbound s v : lookup v s = None -> den s (TVar v) = TVar v.
Proof.
  intros L. apply den_id. intros w H. simpl in H. apply Nat.eqb_eq in H. subst. exact L.
Qed.

(* Variable.unify(v, a) called under any bindings and started under h: Unify.unify h (TVar v) a *)
Lemma var_fresh_link n h v a : wf h ->
  (forall s', unify n h (TVar v) a = UOk s' -> exists g1, next (S n) h (GVarFresh v a) = Some (s', g1, true)) /\
  (unify n h (TVar v) a = UFail -> exists hx g1, next (S n) h (GVarFresh v a) = Some (hx, g1, false)).
Proof.
  intros W. cbn [next]. destruct (lookup v h) as [b|] eqn:L.
  - pose proof (gen_link n) as GL. destruct (GL h (TVar v) a W) as [A B]. split.
    + intros s' H. destruct (A _ H) as [g1 N]. rewrite N. eauto.
    + intros H. destruct (B H) as [hx [g1 N]]. rewrite N. eauto.
  - destruct n as [|n]; [split; intros; discriminate|].
    cbn [unify]. rewrite (@den_unbound h v L).
    destruct (den h a) as [y|y|y|w|g ys] eqn:E; unfold bind; cbn [is_var occurs]; split.
    all: try (intros s' H; inversion H; subst; eauto; fail).
    all: try (intros H; discriminate).
    + intros s' H. rewrite Nat.eqb_sym. destruct (Nat.eqb v w); inversion H; subst; eauto.
    + intros H. destruct (Nat.eqb v w); discriminate.
    + intros s' H. destruct (existsb (occurs v) ys); [discriminate|]. inversion H; subst; eauto.
    + intros H. destruct (existsb (occurs v) ys); discriminate.
Qed.

Lemma unify_den_l n s0 s a b : wf s0 -> ext s0 s -> unify n s (den s0 a) b = unify n s a b.
Proof.
  intros W [nw E]. subst s. destruct n as [|n]; [reflexivity|]. cbn [unify]. rewrite den_ext_den by exact W. reflexivity.
Qed.
Lemma unify_den_r n s0 s a b : wf s0 -> ext s0 s -> unify n s a (den s0 b) = unify n s a b.
Proof.
  intros W [nw E]. subst s. destruct n as [|n]; [reflexivity|]. cbn [unify]. rewrite den_ext_den by exact W. reflexivity.
Qed.

(* unify_arrays on argument lists that were dereferenced earlier (Functor.get_value copies the term
   with dereferenced arguments) is unify_arrays on the original lists *)
Lemma arr_den n s0 : wf s0 -> forall xs ys s, wf s -> ext s0 s ->
  arr (unify n) (map (den s0) xs) (map (den s0) ys) s = arr (unify n) xs ys s.
Proof.
  intros W0. induction xs as [|a ar IH]; intros [|b br] s W X; simpl; auto.
  rewrite unify_den_l, unify_den_r by auto.
  destruct (unify n s a b) as [s1| | |] eqn:E; auto.
  destruct (unify_sound _ _ _ W E) as [W1 [X1 _]]. apply IH; auto. eapply ext_trans; eauto.
Qed.

Lemma next_SS n h g r : next n h g = Some r -> next (S (S n)) h g = Some r.
Proof. intros H. apply next_mono_S, next_mono_S. exact H. Qed.

Lemma late_link n h h' t1 t2 : wf h' ->
  (forall s', unify n h' (fst (start_pair h t1 t2)) (snd (start_pair h t1 t2)) = UOk s' ->
     exists g1, next (S (S n)) h' (mk_unify h t1 t2) = Some (s', g1, true)) /\
  (unify n h' (fst (start_pair h t1 t2)) (snd (start_pair h t1 t2)) = UFail ->
     exists hx g1, next (S (S n)) h' (mk_unify h t1 t2) = Some (hx, g1, false)).
Proof.
  intros W.
  assert (V: forall v a,
    (forall s', unify n h' (TVar v) a = UOk s' -> exists g1, next (S (S n)) h' (GVarFresh v a) = Some (s', g1, true)) /\
    (unify n h' (TVar v) a = UFail -> exists hx g1, next (S (S n)) h' (GVarFresh v a) = Some (hx, g1, false))).
  { intros v a. destruct (@var_fresh_link n h' v a W) as [A B]. split.
    - intros s' H. destruct (A _ H) as [g1 N]. exists g1. apply next_mono_S. exact N.
    - intros H. destruct (B H) as [hx [g1 N]]. exists hx, g1. apply next_mono_S. exact N. }
  unfold start_pair, mk_unify.
  destruct (den h t1) as [x|x|x|v|f xs] eqn:E1; destruct (den h t2) as [y|y|y|w|g ys] eqn:E2; cbn [fst snd];
    try apply V;
    destruct n as [|n]; try (split; intros; discriminate);
    cbn [unify]; rewrite ?den_atom, ?den_int, ?den_str, ?den_fun;
    try (split; [intros s' H; discriminate|intros _; cbn [next]; eauto]).
  - (* atom atom *) destruct (str_eqb x y); split; intros; try discriminate.
    + inversion H; subst. cbn [next]. eauto.
    + cbn [next]. eauto.
  - (* int int *) destruct (Z.eqb x y); split; intros; try discriminate.
    + inversion H; subst. cbn [next]. eauto.
    + cbn [next]. eauto.
  - (* str str *) destruct (str_eqb x y); split; intros; try discriminate.
    + inversion H; subst. cbn [next]. eauto.
    + cbn [next]. eauto.
  - (* fun fun *)
    destruct (str_eqb f g).
    + rewrite !map_length.
      destruct (@arrays_gen_matches_unify n h' xs ys W) as [A B]. unfold unify_arrays in A, B.
      destruct (Nat.eqb (length xs) (length ys)) eqn:C.
      * rewrite (@arr_den n h' W xs ys h' W (ext_refl h')). split.
        -- intros s' H. destruct (A _ H) as [g1 N]. exists g1. apply next_SS. exact N.
        -- intros H. destruct (B H) as [g1 N]. exists h', g1. apply next_SS. exact N.
      * split; [discriminate|]. intros _. destruct (B eq_refl) as [g1 N]. exists h', g1. apply next_SS. exact N.
    + split; [discriminate|]. intros _. cbn [next]. eauto.
Qed.

(* THE LATE START THEOREM (structural form).  h: the bindings when unify(t1,t2) was called - ANY store;
   h': the bindings when the returned object is started - any acyclic store, related to h or not.  The
   first __next__ is Unify.unify under h' on the creation-time values: it yields exactly when that
   succeeds, the heap at the yield is its result store, closing there gives back h'; it does not yield
   when that fails, and then the heap is h'. *)
Theorem late_start_matches_unify n h h' t1 t2 : wf h' ->
  (forall s', unify n h' (fst (start_pair h t1 t2)) (snd (start_pair h t1 t2)) = UOk s' ->
     exists g1, next (S (S n)) h' (mk_unify h t1 t2) = Some (s', g1, true) /\ fst (close s' g1) = h') /\
  (unify n h' (fst (start_pair h t1 t2)) (snd (start_pair h t1 t2)) = UFail ->
     exists g1, next (S (S n)) h' (mk_unify h t1 t2) = Some (h', g1, false)).
Proof.
  intros W. destruct (@late_link n h h' t1 t2 W) as [A B]. split.
  - intros s' H. destruct (A _ H) as [g1 N]. exists g1. split; auto.
    pose proof (@next_fresh _ h' _ _ (mk_unify_fresh h t1 t2) N) as [Ho _]. apply (held_over_close Ho).
  - intros H. destruct (B H) as [hx [g1 N]].
    pose proof (@next_fresh _ h' _ _ (mk_unify_fresh h t1 t2) N) as [_ Hn]. destruct (Hn eq_refl) as [E _].
    subst. eauto.
Qed.

Lemma next_det n m h g r r' : next n h g = Some r -> next m h g = Some r' -> r = r'.
Proof.
  intros A B.
  assert (A': next (max n m) h g = Some r) by (eapply next_mono; eauto; lia).
  assert (B': next (max n m) h g = Some r') by (eapply next_mono; eauto; lia).
  congruence.
Qed.

(* semantic form, creation-time values: if ANY substitution respecting the bindings h' of the start
   unifies the two creation-time values, the first next yields; the bindings at the yield are acyclic,
   extend h', equate the two values, and EVERY such substitution is an instance of them (most general:
   no variable is bound that need not be); closing gives back h'. *)
Theorem late_start_snapshot_mgu h h' t1 t2 th : wf h' -> sat th h' ->
  app th (den h t1) = app th (den h t2) ->
  exists n hf g1, next n h' (mk_unify h t1 t2) = Some (hf, g1, true) /\
    wf hf /\ ext h' hf /\ den hf (den h t1) = den hf (den h t2) /\
    (forall th', sat th' h' -> app th' (den h t1) = app th' (den h t2) -> sat th' hf) /\
    fst (close hf g1) = h'.
Proof.
  intros W St E.
  destruct (start_pair_cases h t1 t2) as [P|P].
  - destruct (@unify_mgu h' (den h t1) (den h t2) th W St E) as [n [s' [U [W' [X [D S']]]]]].
    destruct (@late_start_matches_unify n h h' t1 t2 W) as [A _]. rewrite P in A. cbn [fst snd] in A.
    destruct (A _ U) as [g1 [N C]]. exists (S (S n)), s', g1. repeat split; auto.
    intros th' St' E'. exact (@unify_most_general n h' _ _ s' th' W U St' E').
  - symmetry in E.
    destruct (@unify_mgu h' (den h t2) (den h t1) th W St E) as [n [s' [U [W' [X [D S']]]]]].
    destruct (@late_start_matches_unify n h h' t1 t2 W) as [A _]. rewrite P in A. cbn [fst snd] in A.
    destruct (A _ U) as [g1 [N C]]. exists (S (S n)), s', g1. repeat split; auto.
    intros th' St' E'. symmetry in E'. exact (@unify_most_general n h' _ _ s' th' W U St' E').
Qed.

(* no yield: nothing was bound, and no substitution respecting h' unifies the two values *)
Theorem late_start_snapshot_fail n h h' t1 t2 hf g1 : wf h' ->
  next n h' (mk_unify h t1 t2) = Some (hf, g1, false) ->
  hf = h' /\ forall th, sat th h' -> app th (den h t1) <> app th (den h t2).
Proof.
  intros W N. split.
  - pose proof (@next_fresh _ h' _ _ (mk_unify_fresh h t1 t2) N) as [_ Hn]. destruct (Hn eq_refl) as [E _]. exact E.
  - intros th St E. destruct (@late_start_snapshot_mgu h h' t1 t2 th W St E) as [m [hf' [g1' [N' _]]]].
    pose proof (@next_det _ _ _ _ _ _ N N') as Q. inversion Q.
Qed.

(* a substitution that respects the bindings of the start respects the older ones *)
Lemma sat_ext th h h' : wf h -> ext h h' -> sat th h' -> sat th h.
Proof.
  intros W [nw E] S t. subst h'.
  rewrite <- (S (den h t)). rewrite den_ext_den by exact W. apply S.
Qed.

(* THE LATE START THEOREM (property form).  The bindings h of the creation moment are still active
   when the object is started under h' (h' extends h: nested generators).  Whatever was created,
   started, advanced or closed in between: the first next computes a most general unifier of t1 and
   t2 relative to the bindings current at that first next. *)
Theorem late_start_mgu h h' t1 t2 th : wf h -> wf h' -> ext h h' -> sat th h' -> app th t1 = app th t2 ->
  exists n hf g1, next n h' (mk_unify h t1 t2) = Some (hf, g1, true) /\
    wf hf /\ ext h' hf /\ den hf t1 = den hf t2 /\
    (forall th', sat th' h' -> app th' t1 = app th' t2 -> sat th' hf) /\
    fst (close hf g1) = h'.
Proof.
  intros W W' X St E.
  assert (Sh: forall th', sat th' h' -> forall t, app th' (den h t) = app th' t).
  { intros th' S' t. exact (@sat_ext th' h h' W X S' t). }
  assert (E0: app th (den h t1) = app th (den h t2)) by (rewrite !(Sh th St); exact E).
  destruct (@late_start_snapshot_mgu h h' t1 t2 th W' St E0) as [n [hf [g1 [N [Wf [Xf [D [M C]]]]]]]].
  exists n, hf, g1. repeat split; auto.
  - assert (Xh: ext h hf) by (eapply ext_trans; eauto). destruct Xh as [nw Eh]. subst hf.
    rewrite <- (den_ext_den nw t1 W), <- (den_ext_den nw t2 W). exact D.
  - intros th' S' E'. apply M; auto. rewrite !(Sh th' S'). exact E'.
Qed.

Theorem late_start_fail n h h' t1 t2 hf g1 : wf h -> wf h' -> ext h h' ->
  next n h' (mk_unify h t1 t2) = Some (hf, g1, false) ->
  hf = h' /\ forall th, sat th h' -> app th t1 <> app th t2.
Proof.
  intros W W' X N. destruct (@late_start_snapshot_fail n h h' t1 t2 hf g1 W' N) as [A B]. split; auto.
  intros th St E. apply (B th St). rewrite !(@sat_ext th h h' W X St). exact E.
Qed.

(* the first next after a late start does not depend on the order of the two arguments, up to the
   direction of variable-variable bindings: both yield or both do not, and the two heaps at the
   yield are instances of each other *)
Theorem late_start_sym h h' t1 t2 n hf g1 : wf h -> wf h' -> ext h h' ->
  next n h' (mk_unify h t1 t2) = Some (hf, g1, true) -> wf hf -> den hf t1 = den hf t2 ->
  exists m hf' g1', next m h' (mk_unify h t2 t1) = Some (hf', g1', true) /\ wf hf' /\ den hf' t1 = den hf' t2 /\
    sat (sub_of hf) hf'.
Proof.
  intros W W' X N Wf D.
  assert (Xf: ext h' hf).
  { pose proof (@next_fresh _ h' _ _ (mk_unify_fresh h t1 t2) N) as [[_ [nw [E _]]] _]. exists nw. exact E. }
  assert (S1: sat (sub_of hf) h') by (apply sat_sub_of; auto).
  assert (E1: app (sub_of hf) t2 = app (sub_of hf) t1) by (rewrite !app_sub_of; congruence).
  destruct (@late_start_mgu h h' t2 t1 (sub_of hf) W W' X S1 E1) as [m [hf' [g1' [N' [Wf' [Xf' [D' [M' _]]]]]]]].
  exists m, hf', g1'. repeat split; auto.
Qed.

(* any sequence of next / close on an object that was created under h and is driven from h':
   at most one yield; wherever the sequence stops, close (or dropping the object) gives back h' *)
Theorem late_drive_restores n h h' t1 t2 ops hf gf ys :
  drive n h' (mk_unify h t1 t2) ops = Some (hf, gf, ys) ->
  fst (close hf gf) = h' /\ count_true ys <= 1 /\
  (forall m h2 g2, next m hf gf = Some (h2, g2, false) -> h2 = h').
Proof.
  intros H.
  assert (J0: inv h' (mk_unify h t1 t2) h') by (left; split; [apply mk_unify_fresh|reflexivity]).
  destruct (@drive_inv n ops _ _ _ _ _ _ J0 H) as [J C]. repeat split; auto.
  - apply (close_state J).
  - intros m h2 g2 N. destruct J as [[F E]|Ho].
    + subst hf. pose proof (@next_fresh m h' gf _ F N) as [_ Hn]. apply Hn. reflexivity.
    + destruct (@held_over_next m _ _ _ _ _ _ Ho N) as [_ [Eh _]]. exact Eh.
Qed.

(* ------------------------------------------------------------------ *)
(* A stack of unifications, each started under the bindings left by those below it (the order of
   CREATION does not matter, by the theorems above): the bindings at the top equate every pair and
   are a most general unifier of all the equations together. *)
Fixpoint stack (fuel:nat) (s:store) (stk:list (term * term)) : ures :=
  match stk with
  | [] => UOk s
  | (a, b) :: r => match unify fuel s a b with UOk s' => stack fuel s' r | x => x end
  end.

Definition unifies (th:sub) (eqs:list (term * term)) : Prop := forall a b, In (a, b) eqs -> app th a = app th b.

Theorem stack_mgu fuel : forall stk s0 s, wf s0 -> stack fuel s0 stk = UOk s ->
  wf s /\ ext s0 s /\ (forall a b, In (a, b) stk -> den s a = den s b) /\
  (forall th, sat th s0 -> unifies th stk -> sat th s).
Proof.
  induction stk as [|[a b] r IH]; intros s0 s W H; cbn [stack] in H.
  - inversion H; subst. repeat split; auto using ext_refl. intros ? ? [].
  - destruct (unify fuel s0 a b) as [s1| | |] eqn:U; try discriminate.
    destruct (unify_sound _ _ _ W U) as [W1 [X1 D1]].
    destruct (IH _ _ W1 H) as [W2 [X2 [D2 M2]]]. repeat split; auto.
    + eapply ext_trans; eauto.
    + intros a' b' [E|I]; [inversion E; subst; eapply den_eq_ext; eauto|auto].
    + intros th St Un. apply M2.
      * apply (@unify_most_general fuel s0 a b s1 th W U St). apply Un. left; reflexivity.
      * intros a' b' I. apply Un. right; exact I.
Qed.

(* a stack fails (rather than runs out of fuel or meets a cyclic case) only if the equations have no
   common unifier respecting the initial bindings *)
Theorem stack_fail_no_unifier fuel : forall stk s0, wf s0 -> stack fuel s0 stk = UFail ->
  forall th, sat th s0 -> ~ unifies th stk.
Proof.
  induction stk as [|[a b] r IH]; intros s0 W H th St Un; cbn [stack] in H; [discriminate|].
  destruct (unify fuel s0 a b) as [s1| | |] eqn:U; try discriminate.
  - destruct (unify_sound _ _ _ W U) as [W1 _].
    apply (IH _ W1 H th).
    + apply (@unify_most_general fuel s0 a b s1 th W U St). apply Un. left; reflexivity.
    + intros a' b' I. apply Un. right; exact I.
  - apply (@unify_fail_no_unifier fuel s0 a b th W U St). apply Un. left; reflexivity.
Qed.

(* non-vacuity.  (1) unify(X, Y) is created under no binding, Y is then aliased to X by another
   unification, and only then the object is started: it yields, binds NOTHING, and X, Y still
   dereference to the unbound X.  (2) the same with the alias made through a chain Y -> Z -> X.
   (3) created under no binding, started under X = f(Z): Y is bound to the dereferenced f(Z). *)
Example late_start_alias :
  let h' := [(1, TVar 0)] in
  wf h' /\ ext [] h' /\
  next 5 h' (mk_unify [] (TVar 0) (TVar 1)) = Some (h', GVarSelf, true) /\
  next 5 [(1, TVar 2); (2, TVar 0)] (mk_unify [] (TVar 0) (TVar 1)) = Some ([(1, TVar 2); (2, TVar 0)], GVarSelf, true) /\
  next 5 [(0, TFun [102%N] [TVar 2])] (mk_unify [] (TVar 0) (TVar 1))
    = Some ([(1, TFun [102%N] [TVar 2]); (0, TFun [102%N] [TVar 2])], GVarDeleg (GVarBound 1), true).
Proof.
  split; [repeat constructor|]. split; [exists [(1, TVar 0)]; reflexivity|]. vm_compute. repeat split.
Qed.
