(* Completeness and most-generality of the engine's unification on unifiable inputs,
   failure means there is no unifier, and symmetry. *)
From Coq Require Import List Arith Bool Lia ZArith.
Import ListNotations.
From YP Require Import Base.Str Term.Term Unify.Unify.
Set Implicit Arguments.

Definition sub := nat -> term.
Fixpoint app (th:sub) (t:term) : term :=
  match t with TVar v => th v | TFun f args => TFun f (map (app th) args) | _ => t end.
Fixpoint size (t:term) : nat :=
  match t with TFun _ args => S (fold_right (fun x n => size x + n) 0 args) | _ => 1 end.

(* th is an instance of the store: it respects every binding *)
Definition sat (th:sub) (s:store) := forall t, app th (den s t) = app th t.

Lemma app_subst1 th v a x : th v = app th a -> app th (subst1 v a x) = app th x.
Proof.
  intros H. induction x as [c|z|q|w|f args IH] using term_ind'; simpl; auto.
  - destruct (Nat.eqb w v) eqn:E; simpl; auto. apply Nat.eqb_eq in E; subst. symmetry; exact H.
  - f_equal. rewrite map_map. induction args as [|y l IHl]; simpl; auto.
    inversion IH; subst. rewrite H2, IHl; auto.
Qed.

Lemma sat_bind th s v a : wf s -> sat th s -> free_in s a -> th v = app th a -> sat th ((v,a)::s).
Proof.
  intros W St F H t. simpl. rewrite (den_id F). rewrite app_subst1; auto.
Qed.

Lemma size_pos t : 1 <= size t. Proof. destruct t; simpl; lia. Qed.

Lemma size_arg f args x : In x args -> size x < size (TFun f args).
Proof.
  simpl. induction args as [|y l IH]; simpl; intros H; [contradiction|].
  destruct H as [H|H]; [subst; lia|]. specialize (IH H). lia.
Qed.

Lemma occurs_size th v a : occurs v a = true -> a <> TVar v -> size (th v) < size (app th a).
Proof.
  induction a as [c|z|q|w|f args IH] using term_ind'; simpl; intros O N; try discriminate.
  - apply Nat.eqb_eq in O. subst. congruence.
  - apply existsb_exists in O as [x [Hin Ox]].
    rewrite Forall_forall in IH.
    assert (size (th v) <= size (app th x)).
    { destruct x as [c|z|q|w|g l]; simpl in Ox; try discriminate.
      - apply Nat.eqb_eq in Ox; subst. simpl. lia.
      - assert (Hn: TFun g l <> TVar v) by discriminate.
        specialize (IH _ Hin Ox Hn). lia. }
    assert (In (app th x) (map (app th) args)) by (apply in_map; exact Hin).
    pose proof (@size_arg f _ _ H0). simpl in H1. lia.
Qed.

Definition complete_at (th:sub) (k:nat) :=
  forall s t1 t2, size (app th t1) < k -> wf s -> sat th s -> app th t1 = app th t2 ->
  exists s', unify k s t1 t2 = UOk s' /\ sat th s'.

Lemma arr_complete th k : complete_at th k ->
  forall xs ys s, (forall x, In x xs -> size (app th x) < k) -> wf s -> sat th s ->
  map (app th) xs = map (app th) ys ->
  exists s', arr (unify k) xs ys s = UOk s' /\ sat th s'.
Proof.
  intros HC. induction xs as [|a ar IH]; intros [|b br] s Hs W St E; simpl in E; try discriminate.
  - exists s; split; auto.
  - inversion E. destruct (HC s a b) as [s1 [U1 S1]]; auto. { apply Hs; left; reflexivity. }
    simpl. rewrite U1. destruct (unify_sound _ _ _ W U1) as [W1 _].
    apply IH; auto. intros x Hx; apply Hs; right; exact Hx.
Qed.

Lemma bind_complete th s v a : wf s -> sat th s -> free_in s a -> th v = app th a ->
  (occurs v a = true -> False) ->
  exists s', bind s v a = UOk s' /\ sat th s'.
Proof.
  intros W St F H Hc. unfold bind. destruct (occurs v a) eqn:O.
  - exfalso; auto.
  - eexists; split; [reflexivity|]. apply sat_bind; auto.
Qed.

Theorem unify_complete th : forall k, complete_at th k.
Proof.
  induction k as [|k IH]; intros s t1 t2 Hk W St E; [lia|].
  assert (E1: app th (den s t1) = app th t1) by apply St.
  assert (E2: app th (den s t2) = app th t2) by apply St.
  assert (EE: app th (den s t1) = app th (den s t2)) by congruence.
  pose proof (den_free W t1) as F1. pose proof (den_free W t2) as F2.
  cbn [unify].
  destruct (den s t1) as [x|x|x|v|f xs] eqn:D1; destruct (den s t2) as [y|y|y|w|g ys] eqn:D2;
    simpl in EE; try discriminate;
    try (apply bind_complete; auto; simpl; intros; discriminate).
  - inversion EE; subst. rewrite str_eqb_refl. exists s; auto.
  - inversion EE; subst. rewrite Z.eqb_refl. exists s; auto.
  - inversion EE; subst. rewrite str_eqb_refl. exists s; auto.
  - destruct (Nat.eqb v w) eqn:Evw; [exists s; auto|].
    eexists; split; [reflexivity|]. apply sat_bind; auto.
  - apply bind_complete; auto. intros O. assert (N: TFun g ys <> TVar v) by discriminate.
    pose proof (@occurs_size th _ _ O N) as L. simpl in L. rewrite EE in L. simpl in L. lia.
  - apply bind_complete; auto. intros O. assert (N: TFun f xs <> TVar w) by discriminate.
    pose proof (@occurs_size th _ _ O N) as L. simpl in L. rewrite <- EE in L. simpl in L. lia.
  - inversion EE; subst. rewrite str_eqb_refl.
    assert (Len: length xs = length ys).
    { rewrite <- (map_length (app th) xs), <- (map_length (app th) ys), H1. reflexivity. }
    rewrite Len, Nat.eqb_refl.
    apply arr_complete; auto.
    intros x Hx. assert (In (app th x) (map (app th) xs)) by (apply in_map; exact Hx).
    pose proof (@size_arg g _ _ H). rewrite <- E1 in Hk. simpl in Hk, H0. lia.
Qed.

(* readable corollary: if any substitution that respects the current bindings unifies the two terms,
   unification succeeds with enough fuel, the result is acyclic, extends the store, equates the terms,
   and every such substitution is an instance of the result (most general). *)
Corollary unify_mgu s t1 t2 th : wf s -> sat th s -> app th t1 = app th t2 ->
  exists n s', unify n s t1 t2 = UOk s' /\ wf s' /\ ext s s' /\ den s' t1 = den s' t2 /\ sat th s'.
Proof.
  intros W St E. destruct (@unify_complete th (S (size (app th t1))) s t1 t2) as [s' [U S']]; auto.
  destruct (unify_sound _ _ _ W U) as [W' [X D]]. exists (S (size (app th t1))), s'. auto.
Qed.

(* ------------------------------------------------------------------ *)
(* the result store, read as a substitution *)
Definition sub_of (s:store) : sub := fun v => den s (TVar v).

Lemma app_sub_of s t : app (sub_of s) t = den s t.
Proof.
  induction t as [c|z|q|w|f args IH] using term_ind'; simpl.
  - symmetry; apply den_atom.
  - symmetry; apply den_int.
  - symmetry; apply den_str.
  - reflexivity.
  - rewrite den_fun. f_equal. induction args as [|x l IHl]; simpl; auto.
    inversion IH; subst. rewrite H1, IHl; auto.
Qed.

Lemma sat_sub_of s s' : wf s -> ext s s' -> sat (sub_of s') s.
Proof.
  intros W [nw E] t. subst s'. rewrite !app_sub_of. apply den_ext_den; exact W.
Qed.

Lemma unify_ok_unique n m s t1 t2 s1 s2 :
  unify n s t1 t2 = UOk s1 -> unify m s t1 t2 = UOk s2 -> s1 = s2.
Proof.
  intros H1 H2.
  assert (A: unify (max n m) s t1 t2 = UOk s1) by (eapply unify_mono; eauto; [discriminate|lia]).
  assert (B: unify (max n m) s t1 t2 = UOk s2) by (eapply unify_mono; eauto; [discriminate|lia]).
  congruence.
Qed.

(* failure (as opposed to running out of fuel, or hitting a cyclic case) means that no
   substitution that respects the active bindings unifies the two terms *)
Theorem unify_fail_no_unifier n s t1 t2 th :
  wf s -> unify n s t1 t2 = UFail -> sat th s -> app th t1 <> app th t2.
Proof.
  intros W F St E.
  destruct (unify_mgu t1 t2 W St E) as [k [s' [U _]]].
  assert (A: unify (max n k) s t1 t2 = UFail) by (eapply unify_mono; eauto; [discriminate|lia]).
  assert (B: unify (max n k) s t1 t2 = UOk s') by (eapply unify_mono; eauto; [discriminate|lia]).
  congruence.
Qed.

(* most general: every unifier respecting the active bindings is an instance of the result *)
Theorem unify_most_general n s t1 t2 s' th :
  wf s -> unify n s t1 t2 = UOk s' -> sat th s -> app th t1 = app th t2 -> sat th s'.
Proof.
  intros W U St E.
  destruct (unify_mgu t1 t2 W St E) as [k [s'' [U' [_ [_ [_ S'']]]]]].
  assert (Eq: s' = s'') by (eapply unify_ok_unique; eauto). subst. exact S''.
Qed.

(* symmetry: swapping the arguments succeeds as well, and the two results are instances
   of each other (equal up to the direction of variable-variable bindings) *)
Theorem unify_sym_ok n s t1 t2 s' :
  wf s -> unify n s t1 t2 = UOk s' ->
  exists k s'', unify k s t2 t1 = UOk s'' /\ wf s'' /\ sat (sub_of s') s'' /\ sat (sub_of s'') s'.
Proof.
  intros W U. destruct (unify_sound _ _ _ W U) as [W' [X D]].
  assert (S1: sat (sub_of s') s) by (apply sat_sub_of; auto).
  assert (E1: app (sub_of s') t2 = app (sub_of s') t1) by (rewrite !app_sub_of; congruence).
  destruct (unify_mgu t2 t1 W S1 E1) as [k [s'' [U2 [W2 [X2 [D2 S2]]]]]].
  exists k, s''. split; [exact U2|]. split; [exact W2|]. split; [exact S2|].
  assert (S3: sat (sub_of s'') s) by (apply sat_sub_of; auto).
  assert (E3: app (sub_of s'') t1 = app (sub_of s'') t2) by (rewrite !app_sub_of; congruence).
  exact (@unify_most_general n s t1 t2 s' (sub_of s'') W U S3 E3).
Qed.

Theorem unify_sym_fail n s t1 t2 :
  wf s -> unify n s t1 t2 = UFail -> forall k s'', unify k s t2 t1 <> UOk s''.
Proof.
  intros W F k s'' U. destruct (unify_sound _ _ _ W U) as [W' [X D]].
  apply (@unify_fail_no_unifier n s t1 t2 (sub_of s'') W F).
  - apply sat_sub_of; auto.
  - rewrite !app_sub_of. congruence.
Qed.

(* at the yield both terms dereference to the same term, which contains no bound variable *)
Lemma unify_result_resolved n s t1 t2 s' :
  wf s -> unify n s t1 t2 = UOk s' -> den s' t1 = den s' t2 /\ free_in s' (den s' t1).
Proof.
  intros W U. destruct (unify_sound _ _ _ W U) as [W' [X D]]. split; auto. apply den_free; auto.
Qed.
