(* Unification does not depend on the identity of variables: it commutes with every injective
   renaming of cells (C02: the outcome is a function of the shape of the terms and of which variables
   are the same, nothing else). *)
From Coq Require Import List Arith Bool Lia ZArith.
Import ListNotations.
From YP Require Import Base.Str Term.Term Unify.Unify.
Set Implicit Arguments.

Fixpoint ren (p : nat -> nat) (t : term) : term :=
  match t with
  | TVar v => TVar (p v)
  | TFun f args => TFun f (map (ren p) args)
  | _ => t
  end.

Definition ren_store (p : nat -> nat) (s : store) : store := map (fun b => (p (fst b), ren p (snd b))) s.

Definition ren_res (p : nat -> nat) (r : ures) : ures :=
  match r with UOk s => UOk (ren_store p s) | x => x end.

Definition injective (p : nat -> nat) : Prop := forall a b, p a = p b -> a = b.

Section Inj.
Variable p : nat -> nat.
Hypothesis Hp : injective p.

Lemma eqb_ren a b : Nat.eqb (p a) (p b) = Nat.eqb a b.
Proof.
  destruct (Nat.eqb_spec a b) as [->|N]; [apply Nat.eqb_refl|].
  apply Nat.eqb_neq. intros E. apply N. apply Hp. exact E.
Qed.

Lemma ren_subst1 v r x : ren p (subst1 v r x) = subst1 (p v) (ren p r) (ren p x).
Proof.
  induction x as [a|z|q|w|f args IH] using term_ind'; simpl; auto.
  - rewrite eqb_ren. destruct (Nat.eqb w v); reflexivity.
  - f_equal. rewrite !map_map. induction args as [|y l IHl]; simpl; auto.
    inversion IH; subst. f_equal; auto.
Qed.

Lemma ren_occurs v x : occurs (p v) (ren p x) = occurs v x.
Proof.
  induction x as [a|z|q|w|f args IH] using term_ind'; simpl; auto.
  - apply eqb_ren.
  - induction args as [|y l IHl]; simpl; auto. inversion IH; subst. rewrite H1, IHl; auto.
Qed.

Lemma ren_den s : forall u, den (ren_store p s) (ren p u) = ren p (den s u).
Proof.
  induction s as [|[v t] s IH]; intros u; simpl; [reflexivity|].
  rewrite !IH. symmetry. apply ren_subst1.
Qed.

Lemma ren_arr (U : store -> term -> term -> ures) :
  (forall s a b, U (ren_store p s) (ren p a) (ren p b) = ren_res p (U s a b)) ->
  forall xs ys s, arr U (map (ren p) xs) (map (ren p) ys) (ren_store p s) = ren_res p (arr U xs ys s).
Proof.
  intros HU. induction xs as [|a ar IH]; intros [|b br] s; simpl; auto.
  rewrite HU. destruct (U s a b) as [s1| | |]; simpl; auto.
Qed.

Theorem unify_equivariant n : forall s a b,
  unify n (ren_store p s) (ren p a) (ren p b) = ren_res p (unify n s a b).
Proof.
  induction n as [|n IH]; intros s a b; [reflexivity|].
  cbn [unify]. rewrite !ren_den.
  destruct (den s a) as [x|x|x|v|f xs]; destruct (den s b) as [y|y|y|w|g ys]; cbn [ren ren_res]; try reflexivity;
    try (unfold bind; cbn [occurs]; reflexivity).
  - destruct (str_eqb x y); reflexivity.
  - destruct (Z.eqb x y); reflexivity.
  - destruct (str_eqb x y); reflexivity.
  - rewrite eqb_ren. destruct (Nat.eqb v w); reflexivity.
  - unfold bind. change (TFun g (map (ren p) ys)) with (ren p (TFun g ys)). rewrite ren_occurs.
    destruct (occurs v (TFun g ys)); reflexivity.
  - unfold bind. change (TFun f (map (ren p) xs)) with (ren p (TFun f xs)). rewrite ren_occurs.
    destruct (occurs w (TFun f xs)); reflexivity.
  - destruct (str_eqb f g); [|reflexivity]. rewrite !map_length.
    destruct (Nat.eqb (length xs) (length ys)); [|reflexivity].
    apply ren_arr. exact IH.
Qed.
End Inj.

(* The same for a renaming that is injective only on the cells below k, when store and terms mention only
   cells below k. *)
From YP Require Import Unify.Bounded.
Definition inj_on (k : nat) (p : nat -> nat) : Prop := forall a b, a < k -> b < k -> p a = p b -> a = b.

Section InjOn.
Variable k : nat.
Variable p : nat -> nat.
Hypothesis Hp : inj_on k p.

Lemma eqb_ren_b a b : a < k -> b < k -> Nat.eqb (p a) (p b) = Nat.eqb a b.
Proof.
  intros La Lb. destruct (Nat.eqb_spec a b) as [->|N]; [apply Nat.eqb_refl|].
  apply Nat.eqb_neq. intros E. apply N. apply Hp; auto.
Qed.

Lemma bounded_arg f args x : bounded k (TFun f args) -> In x args -> bounded k x.
Proof. intros B Hx. apply bounded_fun in B. exact (proj1 (Forall_forall _ _) B x Hx). Qed.

Lemma ren_subst1_b v r x : v < k -> bounded k x -> ren p (subst1 v r x) = subst1 (p v) (ren p r) (ren p x).
Proof.
  intros Lv. induction x as [a|z|q|w|f args IH] using term_ind'; intros B; simpl; auto.
  - assert (Lw: w < k) by (apply B; simpl; apply Nat.eqb_refl).
    rewrite eqb_ren_b by assumption. destruct (Nat.eqb w v); reflexivity.
  - f_equal. rewrite !map_map. apply map_ext_in. intros y Hy.
    apply (proj1 (Forall_forall _ _) IH y Hy). eapply bounded_arg; eauto.
Qed.

Lemma ren_occurs_b v x : v < k -> bounded k x -> occurs (p v) (ren p x) = occurs v x.
Proof.
  intros Lv. induction x as [a|z|q|w|f args IH] using term_ind'; intros B; simpl; auto.
  - assert (Lw: w < k) by (apply B; simpl; apply Nat.eqb_refl). apply eqb_ren_b; assumption.
  - induction args as [|y l IHl]; simpl; auto. inversion IH; subst.
    rewrite H1 by (eapply bounded_arg; [exact B|left; reflexivity]).
    rewrite IHl; auto. apply bounded_fun. apply bounded_fun in B. inversion B; assumption.
Qed.

Lemma ren_den_b s : store_bounded k s -> forall u, bounded k u -> den (ren_store p s) (ren p u) = ren p (den s u).
Proof.
  induction s as [|[v t] s IH]; intros B u Bu; simpl; [reflexivity|].
  assert (B': store_bounded k s) by (intros w x H; apply B; right; exact H).
  destruct (B v t (or_introl eq_refl)) as [Lv Bt].
  rewrite !IH by assumption. symmetry. apply ren_subst1_b; [exact Lv|apply bounded_den; assumption].
Qed.

Lemma ren_arr_b (U : store -> term -> term -> ures) :
  (forall s a b, store_bounded k s -> bounded k a -> bounded k b -> U (ren_store p s) (ren p a) (ren p b) = ren_res p (U s a b)) ->
  (forall s a b s', store_bounded k s -> bounded k a -> bounded k b -> U s a b = UOk s' -> store_bounded k s') ->
  forall xs ys s, store_bounded k s -> Forall (bounded k) xs -> Forall (bounded k) ys ->
  arr U (map (ren p) xs) (map (ren p) ys) (ren_store p s) = ren_res p (arr U xs ys s).
Proof.
  intros HU HB. induction xs as [|a ar IH]; intros [|b br] s B Fx Fy; simpl; auto.
  inversion Fx; inversion Fy; subst.
  rewrite HU by assumption. destruct (U s a b) as [s1| | |] eqn:E; simpl; auto.
  apply IH; [apply (HB s a b s1); assumption|assumption|assumption].
Qed.

Theorem unify_equivariant_b n : forall s a b, store_bounded k s -> bounded k a -> bounded k b ->
  unify n (ren_store p s) (ren p a) (ren p b) = ren_res p (unify n s a b).
Proof.
  induction n as [|n IH]; intros s a b B Ba Bb; [reflexivity|].
  cbn [unify]. rewrite !ren_den_b by assumption.
  pose proof (bounded_den k s B a Ba) as D1. pose proof (bounded_den k s B b Bb) as D2.
  assert (BV: forall v, occurs v (TVar v) = true) by (intros v; simpl; apply Nat.eqb_refl).
  destruct (den s a) as [x|x|x|v|f xs]; destruct (den s b) as [y|y|y|w|g ys]; cbn [ren ren_res]; try reflexivity;
    try (unfold bind; cbn [occurs]; reflexivity).
  - destruct (str_eqb x y); reflexivity.
  - destruct (Z.eqb x y); reflexivity.
  - destruct (str_eqb x y); reflexivity.
  - rewrite eqb_ren_b by auto. destruct (Nat.eqb v w); reflexivity.
  - unfold bind. change (TFun g (map (ren p) ys)) with (ren p (TFun g ys)). rewrite ren_occurs_b by auto.
    destruct (occurs v (TFun g ys)); reflexivity.
  - unfold bind. change (TFun f (map (ren p) xs)) with (ren p (TFun f xs)). rewrite ren_occurs_b by auto.
    destruct (occurs w (TFun f xs)); reflexivity.
  - destruct (str_eqb f g); [|reflexivity]. rewrite !map_length.
    destruct (Nat.eqb (length xs) (length ys)); [|reflexivity].
    apply ren_arr_b; [exact IH|intros s0 a0 b0 s' H0 H1 H2 H3; exact (unify_bounded k n s0 a0 b0 s' H0 H1 H2 H3)|exact B|exact (proj1 (bounded_fun k f xs) D1)|exact (proj1 (bounded_fun k g ys) D2)].
Qed.
End InjOn.
