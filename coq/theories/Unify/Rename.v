(* Unification does not depend on the identity of variables: it commutes with every injective
   renaming of cells (C02: the outcome is a function of the shape of the terms and of which variables
   are the same, nothing else). *)
From Coq Require Import List Arith Bool Lia ZArith.
Import ListNotations.
From YP Require Import Base.Str Term.Term Unify.Unify.
Set Implicit Arguments.

Fixpoint ren (p : nat -> nat) (t : term) : term :=
  match t with
  | TVar v => TVar (p v)
  | TFun f args => TFun f (map (ren p) args)
  | _ => t
  end.

Definition ren_store (p : nat -> nat) (s : store) : store := map (fun b => (p (fst b), ren p (snd b))) s.

Definition ren_res (p : nat -> nat) (r : ures) : ures :=
  match r with UOk s => UOk (ren_store p s) | x => x end.

Definition injective (p : nat -> nat) : Prop := forall a b, p a = p b -> a = b.

Section Inj.
Variable p : nat -> nat.
Hypothesis Hp : injective p.

Lemma eqb_ren a b : Nat.eqb (p a) (p b) = Nat.eqb a b.
Proof.
  destruct (Nat.eqb_spec a b) as [->|N]; [apply Nat.eqb_refl|].
  apply Nat.eqb_neq. intros E. apply N. apply Hp. exact E.
Qed.

Lemma ren_subst1 v r x : ren p (subst1 v r x) = subst1 (p v) (ren p r) (ren p x).
Proof.
  induction x as [a|z|q|w|f args IH] using term_ind'; simpl; auto.
  - rewrite eqb_ren. destruct (Nat.eqb w v); reflexivity.
  - f_equal. rewrite !map_map. induction args as [|y l IHl]; simpl; auto.
    inversion IH; subst. f_equal; auto.
Qed.

Lemma ren_occurs v x : occurs (p v) (ren p x) = occurs v x.
Proof.
  induction x as [a|z|q|w|f args IH] using term_ind'; simpl; auto.
  - apply eqb_ren.
  - induction args as [|y l IHl]; simpl; auto. inversion IH; subst. rewrite H1, IHl; auto.
Qed.

Lemma ren_den s : forall u, den (ren_store p s) (ren p u) = ren p (den s u).
Proof.
  induction s as [|[v t] s IH]; intros u; simpl; [reflexivity|].
  rewrite !IH. symmetry. apply ren_subst1.
Qed.

Lemma ren_arr (U : store -> term -> term -> ures) :
  (forall s a b, U (ren_store p s) (ren p a) (ren p b) = ren_res p (U s a b)) ->
  forall xs ys s, arr U (map (ren p) xs) (map (ren p) ys) (ren_store p s) = ren_res p (arr U xs ys s).
Proof.
  intros HU. induction xs as [|a ar IH]; intros [|b br] s; simpl; auto.
  rewrite HU. destruct (U s a b) as [s1| | |]; simpl; auto.
Qed.

Theorem unify_equivariant n : forall s a b,
  unify n (ren_store p s) (ren p a) (ren p b) = ren_res p (unify n s a b).
Proof.
  induction n as [|n IH]; intros s a b; [reflexivity|].
  cbn [unify]. rewrite !ren_den.
  destruct (den s a) as [x|x|x|v|f xs]; destruct (den s b) as [y|y|y|w|g ys]; cbn [ren ren_res]; try reflexivity;
    try (unfold bind; cbn [occurs]; reflexivity).
  - destruct (str_eqb x y); reflexivity.
  - destruct (Z.eqb x y); reflexivity.
  - destruct (str_eqb x y); reflexivity.
  - rewrite eqb_ren. destruct (Nat.eqb v w); reflexivity.
  - unfold bind. change (TFun g (map (ren p) ys)) with (ren p (TFun g ys)). rewrite ren_occurs.
    destruct (occurs v (TFun g ys)); reflexivity.
  - unfold bind. change (TFun f (map (ren p) xs)) with (ren p (TFun f xs)). rewrite ren_occurs.
    destruct (occurs w (TFun f xs)); reflexivity.
  - destruct (str_eqb f g); [|reflexivity]. rewrite !map_length.
    destruct (Nat.eqb (length xs) (length ys)); [|reflexivity].
    apply ren_arr. exact IH.
Qed.
End Inj.
