(* Executable entry point of the unification model for the correspondence check of C02:
   a stack of earlier unifications that are still active, then the unification under test. *)
From Coq Require Import String.
From Coq Require Import List ZArith Arith.
Import ListNotations.
Local Open Scope string_scope.
From YP Require Import Base.Str Term.Term Term.Show Unify.Unify.

Fixpoint run_stack (fuel : nat) (s : store) (stk : list (term * term)) : ures :=
  match stk with
  | [] => UOk s
  | (a, b) :: r => match unify fuel s a b with UOk s' => run_stack fuel s' r | x => x end
  end.

(* observation: tag, resolved t1, resolved t2, resolved value of every variable 0..nvars-1 *)
Definition obs_store (s : store) (t1 t2 : term) (nvars : nat) : list obs :=
  [term_obs (den s t1); term_obs (den s t2); OL (map (fun v => term_obs (den s (TVar v))) (seq 0 nvars))].

Definition run_unify (fuel : nat) (stk : list (term * term)) (t1 t2 : term) (nvars : nat) : obs :=
  match run_stack fuel [] stk with
  | UFail => otag "stack" []
  | UOof => otag "oof" []
  | UCyc => otag "cyc" []
  | UOk s =>
      match unify fuel s t1 t2 with
      | UOk s' => otag "ok" (obs_store s' t1 t2 nvars)
      | UFail => otag "fail" []
      | UOof => otag "oof" []
      | UCyc => otag "cyc" []
      end
  end.
