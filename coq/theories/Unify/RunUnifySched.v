(* Executable entry point for the "creation and start are different moments" family of the
   correspondence check of C02 (harness/props/c02.py, kind 'sched'): several unification generator
   objects over shared variables; unify(a,b) is CALLED at one event (SCreate: UnifyGen.mk_unify under
   the heap of that moment), started / resumed at later events (SNext: UnifyGen.next under the heap of
   THAT moment), closed or dropped at others (SClose), other objects being created, started, advanced
   and closed in between.  Observation after every event: did it yield, and for every cell whether
   it is bound and what it dereferences to.  What is executed are the evaluation twins of
   UnifyGenFast.v / Dfast.v; run_events_x_eq: it is the same function as the one written with
   UnifyGen.mk_unify / next / close and Term.den, which the theorems of Unify/LateStart.v are about. *)
From Coq Require Import String.
From Coq Require Import List ZArith Arith Bool.
Import ListNotations.
Local Open Scope string_scope.
From YP Require Import Base.Str Term.Term Term.Dfast Term.Show Unify.Unify Unify.UnifyGen Unify.UnifyGenFast.

Inductive sev := SCreate (i : nat) (a b : term) | SNext (i : nat) | SClose (i : nat).

Fixpoint sget (i : nat) (sl : list (nat * gen)) : option gen :=
  match sl with [] => None | (j, g) :: r => if Nat.eqb i j then Some g else sget i r end.
Definition sset (i : nat) (g : gen) (sl : list (nat * gen)) : list (nat * gen) :=
  (i, g) :: filter (fun p => negb (Nat.eqb i (fst p))) sl.

Section Run.
  Variable MK : heap -> term -> term -> gen.
  Variable NX : nat -> heap -> gen -> option (heap * gen * bool).
  Variable UN : nat -> store -> term -> term -> ures.
  Variable UA : nat -> store -> list term -> list term -> ures.
  Variable DN : store -> term -> term.

  Definition snap (h : heap) (nvars : nat) : obs :=
    OL (map (fun v => OL [obool (match lookup v h with Some _ => true | None => false end);
                          term_obs (DN h (TVar v))]) (seq 0 nvars)).

  (* is the heap a triangular acyclic store with one binding per cell (Term.wf as a boolean)? *)
  Fixpoint hok (h : heap) : bool :=
    match h with
    | [] => true
    | (v, t) :: r => negb (occurs v (DN r t)) && (match lookup v r with None => true | Some _ => false end) && hok r
    end.

  (* would starting this object bind a cell to a term that contains it?  (unspecified by C02) *)
  Definition gcyc (fuel : nat) (h : heap) (g : gen) : bool :=
    match g with
    | GVarFresh v t => match UN fuel h (TVar v) t with UCyc => true | _ => false end
    | GArrFresh xs ys => match UA fuel h xs ys with UCyc => true | _ => false end
    | _ => false
    end.

  Fixpoint run (fuel : nat) (h : heap) (sl : list (nat * gen)) (evs : list sev) (nvars : nat) : option (list obs) :=
    match evs with
    | [] => Some []
    | e :: r =>
        let step (y : bool) (h1 : heap) (sl1 : list (nat * gen)) :=
          if hok h1 then
            match run fuel h1 sl1 r nvars with
            | None => None
            | Some l => Some (OL [obool y; snap h1 nvars] :: l)
            end
          else Some [otag "cyc" []] in
        match e with
        | SCreate i a b => step false h (sset i (MK h a b) sl)
        | SNext i =>
            match sget i sl with
            | None => step false h sl
            | Some g =>
                if gcyc fuel h g then Some [otag "cyc" []] else
                match NX fuel h g with
                | None => None
                | Some (h1, g1, y) => step y h1 (sset i g1 sl)
                end
            end
        | SClose i =>
            match sget i sl with
            | None => step false h sl
            | Some g => step false (fst (close h g)) (sset i (snd (close h g)) sl)
            end
        end
    end.
End Run.

Definition run_events (fuel : nat) (evs : list sev) (nvars : nat) : obs :=
  match run mk_unify next unify unify_arrays den fuel [] [] evs nvars with
  | None => otag "oof" []
  | Some l => otag "ok" [OL l]
  end.

Definition run_events_x (fuel : nat) (evs : list sev) (nvars : nat) : obs :=
  match run mk_unify_x next_x unify_x unify_arrays_x dfast fuel [] [] evs nvars with
  | None => otag "oof" []
  | Some l => otag "ok" [OL l]
  end.

Section Ext.
  Variables (MK MK' : heap -> term -> term -> gen) (NX NX' : nat -> heap -> gen -> option (heap * gen * bool))
            (UN UN' : nat -> store -> term -> term -> ures) (UA UA' : nat -> store -> list term -> list term -> ures)
            (DN DN' : store -> term -> term).
  Hypothesis Hmk : forall h a b, MK h a b = MK' h a b.
  Hypothesis Hnx : forall n h g, NX n h g = NX' n h g.
  Hypothesis Hun : forall n s a b, UN n s a b = UN' n s a b.
  Hypothesis Hua : forall n s xs ys, UA n s xs ys = UA' n s xs ys.
  Hypothesis Hdn : forall s t, DN s t = DN' s t.

  Lemma snap_ext h k : snap DN h k = snap DN' h k.
  Proof. unfold snap. f_equal. apply map_ext. intros v. rewrite Hdn. reflexivity. Qed.
  Lemma hok_ext h : hok DN h = hok DN' h.
  Proof. induction h as [|[v t] r IH]; cbn [hok]; [reflexivity|]. rewrite Hdn, IH. reflexivity. Qed.
  Lemma gcyc_ext n h g : gcyc UN UA n h g = gcyc UN' UA' n h g.
  Proof. destruct g; cbn [gcyc]; rewrite ?Hun, ?Hua; reflexivity. Qed.

  Lemma run_ext fuel evs : forall h sl k, run MK NX UN UA DN fuel h sl evs k = run MK' NX' UN' UA' DN' fuel h sl evs k.
  Proof.
    induction evs as [|e r IH]; intros h sl k; cbn [run]; [reflexivity|].
    destruct e as [i a b|i|i].
    - rewrite hok_ext, Hmk, IH, snap_ext. reflexivity.
    - destruct (sget i sl) as [g|].
      + rewrite gcyc_ext, Hnx. destruct (gcyc UN' UA' fuel h g); [reflexivity|].
        destruct (NX' fuel h g) as [[[h1 g1] y]|]; [|reflexivity].
        rewrite hok_ext, IH, snap_ext. reflexivity.
      + rewrite hok_ext, IH, snap_ext. reflexivity.
    - destruct (sget i sl) as [g|]; rewrite hok_ext, IH, snap_ext; reflexivity.
  Qed.
End Ext.

Lemma run_events_x_eq fuel evs nvars : run_events_x fuel evs nvars = run_events fuel evs nvars.
Proof.
  unfold run_events_x, run_events.
  rewrite (run_ext mk_unify_x mk_unify next_x next unify_x unify unify_arrays_x unify_arrays dfast den
             mk_unify_x_eq next_x_eq unify_x_eq unify_arrays_x_eq dfast_eq).
  reflexivity.
Qed.

(* the scenario of Unify/LateStart.v, as events: g0 = unify(X,Y) is created first, g1 = unify(Y,X) is
   created and started, then g0 is started: it yields and binds nothing *)
Example run_events_late_alias :
  run_events_x 20 [SCreate 0 (TVar 0) (TVar 1); SCreate 1 (TVar 1) (TVar 0); SNext 1; SNext 0; SClose 0; SClose 1] 2
  = otag "ok" [OL [
      OL [obool false; OL [OL [obool false; term_obs (TVar 0)]; OL [obool false; term_obs (TVar 1)]]];
      OL [obool false; OL [OL [obool false; term_obs (TVar 0)]; OL [obool false; term_obs (TVar 1)]]];
      OL [obool true;  OL [OL [obool false; term_obs (TVar 0)]; OL [obool true;  term_obs (TVar 0)]]];
      OL [obool true;  OL [OL [obool false; term_obs (TVar 0)]; OL [obool true;  term_obs (TVar 0)]]];
      OL [obool false; OL [OL [obool false; term_obs (TVar 0)]; OL [obool true;  term_obs (TVar 0)]]];
      OL [obool false; OL [OL [obool false; term_obs (TVar 0)]; OL [obool false; term_obs (TVar 1)]]]]].
Proof. vm_compute. reflexivity. Qed.
