(* The schedule-level statement of C02 for nested (LIFO) use of unification generators whose creation and
   start are different moments.

   exec  - the event runner on GENERATOR OBJECTS (UnifyGen.mk_unify at the call, next at every __next__, close at
           close()/drop): the list of (yielded?, heap) after every event.  It is what RunUnifySched.run shows
           (run_is_exec).
   srun  - the SPECIFICATION of the same events by the store-passing algorithm alone: a stack of active
           unifications; starting an object = Unify.unify, under the bindings of that moment, on the two terms as
           they were dereferenced when unify() was called; exhausting / closing the top one = going back to the
           bindings before it was started.  srun is undefined (None) outside the property's domain: a start that
           needs a cyclic term, an operation on an active generator that is not the top one, a next on an object
           that was closed before it was started.  Its trace also lists the equations of the ACTIVE unifications.

   sched_refines  : whenever srun is defined, exec (with whatever fuel it returns a value) produces exactly
                    srun's yields and heaps;
   srun_mgu       : every heap of srun's trace is acyclic and is the result of Unify.unify over the stack of
                    the active equations, hence (LateStart.stack_mgu) a most general unifier of them. *)
From Coq Require Import String.
From Coq Require Import List Arith Bool Lia ZArith.
Import ListNotations.
From YP Require Import Base.Str Term.Term Term.Show Unify.Unify Unify.Mgu Unify.UnifyGen Unify.LateStart Unify.RunUnifySched.

(* ---------------------------------------------------------------- generator objects *)
Fixpoint exec (fuel : nat) (h : heap) (sl : list (nat * gen)) (evs : list sev) : option (list (bool * heap)) :=
  match evs with
  | [] => Some []
  | e :: r =>
      let step (y : bool) (h1 : heap) (sl1 : list (nat * gen)) :=
        match exec fuel h1 sl1 r with None => None | Some l => Some ((y, h1) :: l) end in
      match e with
      | SCreate i a b => step false h (sset i (mk_unify h a b) sl)
      | SNext i =>
          match sget i sl with
          | None => step false h sl
          | Some g => match next fuel h g with None => None | Some (h1, g1, y) => step y h1 (sset i g1 sl) end
          end
      | SClose i =>
          match sget i sl with
          | None => step false h sl
          | Some g => step false (fst (close h g)) (sset i (snd (close h g)) sl)
          end
      end
  end.

(* ---------------------------------------------------------------- specification *)
Inductive sslot := SFresh (u1 u2 : term) | SActive | SDone | SClosed.
Definition aent := (nat * heap * (term * term))%type.      (* generator, bindings before its start, its equation *)

Fixpoint ssget (i : nat) (ss : list (nat * sslot)) : option sslot :=
  match ss with [] => None | (j, g) :: r => if Nat.eqb i j then Some g else ssget i r end.
Definition ssset (i : nat) (g : sslot) (ss : list (nat * sslot)) : list (nat * sslot) := (i, g) :: ss.

Definition eqs_of (act : list aent) : list (term * term) := rev (map snd act).

Fixpoint srun (n : nat) (h : heap) (act : list aent) (ss : list (nat * sslot)) (evs : list sev)
  : option (list (bool * heap * list (term * term))) :=
  match evs with
  | [] => Some []
  | e :: r =>
      let step (y : bool) (h1 : heap) (act1 : list aent) (ss1 : list (nat * sslot)) :=
        match srun n h1 act1 ss1 r with None => None | Some l => Some ((y, h1, eqs_of act1) :: l) end in
      let pop (i : nat) :=
        match act with
        | (j, hp, _) :: act' => if Nat.eqb i j then step false hp act' (ssset i SDone ss) else None
        | [] => None
        end in
      match e with
      | SCreate i a b =>
          match ssget i ss with
          | Some _ => None
          | None => step false h act (ssset i (SFresh (fst (start_pair h a b)) (snd (start_pair h a b))) ss)
          end
      | SNext i =>
          match ssget i ss with
          | None => step false h act ss
          | Some SDone => step false h act ss
          | Some (SFresh u1 u2) =>
              match unify n h u1 u2 with
              | UOk h1 => step true h1 ((i, h, (u1, u2)) :: act) (ssset i SActive ss)
              | UFail => step false h act (ssset i SDone ss)
              | _ => None
              end
          | Some SActive => pop i
          | Some SClosed => None
          end
      | SClose i =>
          match ssget i ss with
          | None => step false h act ss
          | Some SActive => pop i
          | Some SDone => step false h act ss
          | Some _ => step false h act (ssset i SClosed ss)
          end
      end
  end.

(* ---------------------------------------------------------------- slot bookkeeping *)
Lemma sget_sset_eq i g sl : sget i (sset i g sl) = Some g.
Proof. unfold sset. cbn [sget]. rewrite Nat.eqb_refl. reflexivity. Qed.

Lemma sget_filter k i sl : k <> i -> sget k (filter (fun p => negb (Nat.eqb i (fst p))) sl) = sget k sl.
Proof.
  intros N. induction sl as [|[j g] r IH]; cbn [filter sget fst]; [reflexivity|].
  destruct (Nat.eqb i j) eqn:E; cbn [negb].
  - apply Nat.eqb_eq in E. subst j. rewrite IH. destruct (Nat.eqb k i) eqn:E2; [apply Nat.eqb_eq in E2; congruence|reflexivity].
  - cbn [sget]. rewrite IH. reflexivity.
Qed.

Lemma sget_sset_neq k i g sl : k <> i -> sget k (sset i g sl) = sget k sl.
Proof.
  intros N. unfold sset. cbn [sget]. destruct (Nat.eqb k i) eqn:E; [apply Nat.eqb_eq in E; congruence|].
  apply sget_filter. exact N.
Qed.

Lemma ssget_ssset_eq i g ss : ssget i (ssset i g ss) = Some g.
Proof. unfold ssset. cbn [ssget]. rewrite Nat.eqb_refl. reflexivity. Qed.
Lemma ssget_ssset_neq k i g ss : k <> i -> ssget k (ssset i g ss) = ssget k ss.
Proof. intros N. unfold ssset. cbn [ssget]. destruct (Nat.eqb k i) eqn:E; [apply Nat.eqb_eq in E; congruence|reflexivity]. Qed.

(* ---------------------------------------------------------------- the simulation relation *)
Definition slot_rel (og : option gen) (os : option sslot) : Prop :=
  match os, og with
  | None, None => True
  | Some (SFresh u1 u2), Some g => exists hc a b, g = mk_unify hc a b /\ start_pair hc a b = (u1, u2)
  | Some SActive, Some g => True
  | Some SDone, Some g => quiet g /\ cells g = []
  | Some SClosed, Some g => cells g = []
  | _, _ => False
  end.

Definition ids (act : list aent) : list nat := map (fun x => fst (fst x)) act.

(* the active generators, newest first: each one holds exactly the bindings made since the heap before its
   start, and that step was Unify.unify on its equation *)
Inductive chain (n : nat) (sl : list (nat * gen)) : heap -> list aent -> Prop :=
| chain_nil : chain n sl [] []
| chain_cons i hp e act g h :
    sget i sl = Some g -> held_over hp g h -> wf hp -> unify n hp (fst e) (snd e) = UOk h ->
    chain n sl hp act -> ~ In i (ids act) -> chain n sl h ((i, hp, e) :: act).

Definition rel (n : nat) (h : heap) (sl : list (nat * gen)) (act : list aent) (ss : list (nat * sslot)) : Prop :=
  (forall k, slot_rel (sget k sl) (ssget k ss)) /\ chain n sl h act /\
  (forall k, In k (ids act) -> ssget k ss = Some SActive).

Lemma chain_wf n sl h act : chain n sl h act -> wf h.
Proof.
  induction 1 as [|i hp e act g h G Ho W U C IH N]; [constructor|].
  destruct (unify_sound _ _ _ W U) as [W' _]. exact W'.
Qed.

Lemma chain_sset n sl h act i g : chain n sl h act -> ~ In i (ids act) -> chain n (sset i g sl) h act.
Proof.
  induction 1 as [|j hp e act g0 h G Ho W U C IH N]; intros NI; [constructor|].
  cbn [ids map fst] in NI. econstructor; eauto.
  - rewrite sget_sset_neq; [exact G|]. intros E. apply NI. left. cbn [fst]. congruence.
  - apply IH. intros I. apply NI. right. exact I.
Qed.

Lemma rel_update n h sl act ss i g s :
  rel n h sl act ss -> ~ In i (ids act) -> slot_rel (Some g) (Some s) -> s <> SActive ->
  rel n h (sset i g sl) act (ssset i s ss).
Proof.
  intros [R [C A]] NI S NA. split; [|split].
  - intros k. destruct (Nat.eq_dec k i) as [->|N].
    + rewrite sget_sset_eq, ssget_ssset_eq. exact S.
    + rewrite sget_sset_neq, ssget_ssset_neq by exact N. apply R.
  - apply chain_sset; auto.
  - intros k I. rewrite ssget_ssset_neq; [apply A; exact I|]. intros ->. contradiction.
Qed.

Lemma not_active_not_in n h sl act ss i : rel n h sl act ss -> ssget i ss <> Some SActive -> ~ In i (ids act).
Proof. intros [_ [_ A]] N I. apply N. apply A. exact I. Qed.

Lemma close_no_cells h g : cells (snd (close h g)) = [].
Proof. destruct g as [[|]| |v t| |v|g|xs ys|held|]; reflexivity. Qed.

Lemma close_quiet h g : quiet g -> quiet (snd (close h g)).
Proof. intros Q. destruct Q; cbn [close snd]; constructor. Qed.

Lemma close_nocells_heap h g : cells g = [] -> fst (close h g) = h.
Proof. intros C. rewrite close_rm, C. apply rm_nil. Qed.

(* ---------------------------------------------------------------- the refinement *)
Definition tr_of (l : list (bool * heap * list (term * term))) : list (bool * heap) := map fst l.

Theorem sched_refines_gen n m evs : forall h sl act ss tr tr',
  rel n h sl act ss -> srun n h act ss evs = Some tr -> exec m h sl evs = Some tr' -> tr' = tr_of tr.
Proof.
  induction evs as [|e r IH]; intros h sl act ss tr tr' R S X.
  - cbn in S, X. inversion S; inversion X; reflexivity.
  - assert (STEP: forall y h1 sl1 act1 ss1 y',
       rel n h1 sl1 act1 ss1 -> y' = y ->
       match srun n h1 act1 ss1 r with None => None | Some l => Some ((y, h1, eqs_of act1) :: l) end = Some tr ->
       match exec m h1 sl1 r with None => None | Some l => Some ((y', h1) :: l) end = Some tr' -> tr' = tr_of tr).
    { intros y h1 sl1 act1 ss1 y' R1 -> S1 X1.
      destruct (srun n h1 act1 ss1 r) as [l|] eqn:ES; [|discriminate].
      destruct (exec m h1 sl1 r) as [l'|] eqn:EX; [|discriminate].
      inversion S1; inversion X1; subst. cbn [tr_of map fst]. f_equal. exact (IH _ _ _ _ _ _ R1 ES EX). }
    pose proof R as [Rs [C Ac]].
    pose proof (chain_wf _ _ _ _ C) as W.
    destruct e as [i a b|i|i]; cbn [srun exec] in S, X.
    + (* create *)
      pose proof (Rs i) as Ri. destruct (ssget i ss) as [s|] eqn:Es; [discriminate|].
      eapply STEP; [| |exact S|exact X]; [|reflexivity].
      apply rel_update; auto.
      * eapply not_active_not_in; eauto. rewrite Es. discriminate.
      * cbn [slot_rel]. exists h, a, b. split; [reflexivity|]. destruct (start_pair h a b); reflexivity.
      * discriminate.
    + (* next *)
      pose proof (Rs i) as Ri. destruct (ssget i ss) as [s|] eqn:Es.
      2:{ destruct (sget i sl) as [g|] eqn:Eg; [contradiction|]. eapply STEP; eauto. }
      destruct (sget i sl) as [g|] eqn:Eg; [|destruct s; contradiction].
      destruct (next m h g) as [[[h1 g1] y]|] eqn:EN; [|discriminate].
      destruct s as [u1 u2| | |]; cbn [slot_rel] in Ri.
      * (* fresh: the late start *)
        destruct Ri as [hc [a [b [-> SP]]]].
        destruct (@late_start_matches_unify n hc h a b W) as [LO LF]. rewrite SP in LO, LF. cbn [fst snd] in LO, LF.
        destruct (unify n h u1 u2) as [s'| | |] eqn:EU; try discriminate.
        -- destruct (LO _ eq_refl) as [g1' [N1 C1]].
           pose proof (@next_det _ _ _ _ _ _ EN N1) as Q. inversion Q; subst h1 g1 y.
           pose proof (@next_fresh _ h _ _ (mk_unify_fresh hc a b) N1) as [Ho _].
           eapply STEP; [| |exact S|exact X]; [|reflexivity].
           assert (NI: ~ In i (ids act)) by (eapply not_active_not_in; eauto; rewrite Es; discriminate).
           split; [|split].
           ++ intros k. destruct (Nat.eq_dec k i) as [->|N].
              ** rewrite sget_sset_eq, ssget_ssset_eq. exact I.
              ** rewrite sget_sset_neq, ssget_ssset_neq by exact N. apply Rs.
           ++ econstructor; [apply sget_sset_eq|exact Ho|exact W|exact EU| |exact NI].
              apply chain_sset; auto.
           ++ intros k [E|I0]; [cbn [fst] in E; subst k; apply ssget_ssset_eq|].
              rewrite ssget_ssset_neq; [apply Ac; exact I0|]. intros ->. contradiction.
        -- destruct (LF eq_refl) as [g1' N1].
           pose proof (@next_det _ _ _ _ _ _ EN N1) as Q. inversion Q; subst h1 g1 y.
           pose proof (@next_fresh _ h _ _ (mk_unify_fresh hc a b) N1) as [[Qg _] Hn].
           destruct (Hn eq_refl) as [_ Cg].
           eapply STEP; [| |exact S|exact X]; [|reflexivity].
           apply rel_update; auto.
           ++ eapply not_active_not_in; eauto. rewrite Es. discriminate.
           ++ cbn [slot_rel]. split; assumption.
           ++ discriminate.
      * (* active: must be the top one; it is exhausted *)
        destruct act as [|[[j hp] e0] act'] eqn:EA; [discriminate|].
        destruct (Nat.eqb i j) eqn:E; [|discriminate]. pose proof E as E'. apply Nat.eqb_eq in E'. subst j.
        inversion C as [|i0 hp0 e1 act0 g0 h0 G0 Ho W0 U0 C' NI]; subst.
        rewrite Eg in G0. inversion G0; subst g0.
        destruct (@held_over_next m _ _ _ _ _ _ Ho EN) as [Y [Eh Ho']]. subst y h1.
        destruct Ho' as [Q' _].
        destruct Ho as [Qg _].
        destruct (@next_quiet m g h hp g1 false Qg) as [_ [_ [_ C1]]].
        { rewrite EN. reflexivity. }
        eapply (STEP false hp (sset i g1 sl) act' (ssset i SDone ss) false); [|reflexivity|exact S|exact X].
        split; [|split].
        -- intros k. destruct (Nat.eq_dec k i) as [->|N].
           ++ rewrite sget_sset_eq, ssget_ssset_eq. split; assumption.
           ++ rewrite sget_sset_neq, ssget_ssset_neq by exact N. apply Rs.
        -- apply chain_sset; auto.
        -- intros k I0. rewrite ssget_ssset_neq; [apply Ac; right; exact I0|]. intros ->. contradiction.
      * (* done *)
        destruct Ri as [Qg Cg].
        destruct (@next_quiet m g h h1 g1 y Qg EN) as [Y [Eh [Q1 C1]]]. rewrite Cg, rm_nil in Eh. subst y h1.
        eapply (STEP false h (sset i g1 sl) act ss false); [|reflexivity|exact S|exact X].
        split; [|split]; auto.
        -- intros k. destruct (Nat.eq_dec k i) as [->|N].
           ++ rewrite sget_sset_eq, Es. split; assumption.
           ++ rewrite sget_sset_neq by exact N. apply Rs.
        -- apply chain_sset; auto. eapply not_active_not_in; eauto. rewrite Es. discriminate.
      * discriminate.
    + (* close *)
      pose proof (Rs i) as Ri. destruct (ssget i ss) as [s|] eqn:Es.
      2:{ destruct (sget i sl) as [g|] eqn:Eg; [contradiction|]. eapply STEP; eauto. }
      destruct (sget i sl) as [g|] eqn:Eg; [|destruct s; contradiction].
      destruct s as [u1 u2| | |]; cbn [slot_rel] in Ri.
      * (* fresh object closed before it was started *)
        destruct Ri as [hc [a [b [-> SP]]]].
        assert (Eh: fst (close h (mk_unify hc a b)) = h).
        { apply close_nocells_heap. apply fresh_cells. apply mk_unify_fresh. }
        rewrite Eh in X.
        eapply STEP; [| |exact S|exact X]; [|reflexivity].
        apply rel_update; auto.
        -- eapply not_active_not_in; eauto. rewrite Es. discriminate.
        -- cbn [slot_rel]. apply close_no_cells.
        -- discriminate.
      * (* active: the top one is closed *)
        destruct act as [|[[j hp] e0] act'] eqn:EA; [discriminate|].
        destruct (Nat.eqb i j) eqn:E; [|discriminate]. pose proof E as E'. apply Nat.eqb_eq in E'. subst j.
        inversion C as [|i0 hp0 e1 act0 g0 h0 G0 Ho W0 U0 C' NI]; subst.
        rewrite Eg in G0. inversion G0; subst g0.
        rewrite (held_over_close Ho) in X.
        destruct Ho as [Qg _].
        eapply (STEP false hp (sset i (snd (close h g)) sl) act' (ssset i SDone ss) false); [|reflexivity|exact S|exact X].
        split; [|split].
        -- intros k. destruct (Nat.eq_dec k i) as [->|N].
           ++ rewrite sget_sset_eq, ssget_ssset_eq. split; [apply close_quiet; exact Qg|apply close_no_cells].
           ++ rewrite sget_sset_neq, ssget_ssset_neq by exact N. apply Rs.
        -- apply chain_sset; auto.
        -- intros k I0. rewrite ssget_ssset_neq; [apply Ac; right; exact I0|]. intros ->. contradiction.
      * (* done *)
        destruct Ri as [Qg Cg]. rewrite (close_nocells_heap h g Cg) in X.
        eapply (STEP false h (sset i (snd (close h g)) sl) act ss false); [|reflexivity|exact S|exact X].
        split; [|split]; auto.
        -- intros k. destruct (Nat.eq_dec k i) as [->|N].
           ++ rewrite sget_sset_eq, Es. split; [apply close_quiet; exact Qg|apply close_no_cells].
           ++ rewrite sget_sset_neq by exact N. apply Rs.
        -- apply chain_sset; auto. eapply not_active_not_in; eauto. rewrite Es. discriminate.
      * (* closed again *)
        rewrite (close_nocells_heap h g Ri) in X.
        eapply STEP; [| |exact S|exact X]; [|reflexivity].
        apply rel_update; auto.
        -- eapply not_active_not_in; eauto. rewrite Es. discriminate.
        -- cbn [slot_rel]. apply close_no_cells.
        -- discriminate.
Qed.

Lemma rel_init n : rel n [] [] [] [].
Proof. split; [|split]; [intros k; exact I|constructor|intros k []]. Qed.

(* THE SCHEDULE THEOREM.  Any sequence of events over any number of unify generator objects - unify() CALLED at
   one event, started at a later one, other objects created / started / exhausted / closed in between - that stays
   inside the property's domain (started objects are used as a stack; no start needs a cyclic term): the generator
   objects yield exactly when the specification says and the bindings after every event are the specification's. *)
Theorem sched_refines n m evs tr tr' :
  srun n [] [] [] evs = Some tr -> exec m [] [] evs = Some tr' -> tr' = tr_of tr.
Proof. intros S X. exact (@sched_refines_gen n m evs [] [] [] [] tr tr' (rel_init n) S X). Qed.

(* ---------------------------------------------------------------- the specification computes mgus *)
Lemma stack_snoc n : forall l s e, stack n s (l ++ [e]) = match stack n s l with UOk s1 => unify n s1 (fst e) (snd e) | x => x end.
Proof.
  induction l as [|[a b] l IH]; intros s [c d]; simpl.
  - destruct (unify n s c d); reflexivity.
  - destruct (unify n s a b) as [s1| | |]; auto. apply (IH s1 (c, d)).
Qed.

(* spec-level invariant: the heap is the result of the store-passing algorithm over the active equations *)
Inductive schain (n : nat) : heap -> list aent -> Prop :=
| schain_nil : schain n [] []
| schain_cons i hp e act h : unify n hp (fst e) (snd e) = UOk h -> schain n hp act -> schain n h ((i, hp, e) :: act).

Lemma schain_stack n h act : schain n h act -> stack n [] (eqs_of act) = UOk h.
Proof.
  induction 1 as [|i hp e act h U C IH]; [reflexivity|].
  unfold eqs_of in *. cbn [map rev snd]. rewrite stack_snoc, IH. exact U.
Qed.

Theorem srun_stack n evs : forall h act ss tr, schain n h act -> srun n h act ss evs = Some tr ->
  Forall (fun x => stack n [] (snd x) = UOk (snd (fst x))) tr.
Proof.
  induction evs as [|e r IH]; intros h act ss tr C S.
  - cbn in S. inversion S. constructor.
  - assert (STEP: forall y h1 act1 ss1, schain n h1 act1 ->
       match srun n h1 act1 ss1 r with None => None | Some l => Some ((y, h1, eqs_of act1) :: l) end = Some tr ->
       Forall (fun x => stack n [] (snd x) = UOk (snd (fst x))) tr).
    { intros y h1 act1 ss1 C1 S1. destruct (srun n h1 act1 ss1 r) as [l|] eqn:ES; [|discriminate].
      inversion S1; subst. constructor; [cbn [fst snd]; apply schain_stack; exact C1|]. eapply IH; eauto. }
    assert (POP: forall i,
       match act with
       | (j, hp, _) :: act' => if Nat.eqb i j then
            match srun n hp act' (ssset i SDone ss) r with None => None | Some l => Some ((false, hp, eqs_of act') :: l) end else None
       | [] => None end = Some tr -> Forall (fun x => stack n [] (snd x) = UOk (snd (fst x))) tr).
    { intros i S1. destruct act as [|[[j hp] e0] act']; [discriminate|].
      destruct (Nat.eqb i j); [|discriminate]. inversion C; subst. eapply STEP; eauto. }
    destruct e as [i a b|i|i]; cbn [srun] in S.
    + destruct (ssget i ss); [discriminate|]. eapply STEP; eauto.
    + destruct (ssget i ss) as [[u1 u2| | |]|]; try discriminate; try (eapply STEP; eauto; fail); try (eapply POP; eauto; fail).
      destruct (unify n h u1 u2) as [h1| | |] eqn:U; try discriminate.
      * eapply STEP; [|exact S]. econstructor; eauto.
      * eapply STEP; eauto.
    + destruct (ssget i ss) as [[u1 u2| | |]|]; try discriminate; try (eapply STEP; eauto; fail); try (eapply POP; eauto; fail).
Qed.

(* ... hence acyclic, equating every active pair, and a most general unifier of the active equations *)
Theorem srun_mgu n evs tr : srun n [] [] [] evs = Some tr ->
  Forall (fun x => let h := snd (fst x) in let eqs := snd x in
            wf h /\ (forall a b, In (a, b) eqs -> den h a = den h b) /\
            (forall th, unifies th eqs -> sat th h)) tr.
Proof.
  intros S. pose proof (@srun_stack n evs [] [] [] tr (schain_nil n) S) as F.
  eapply Forall_impl; [|exact F]. intros [[y h] eqs] H. cbn [fst snd] in *.
  destruct (@stack_mgu n eqs [] h wf_nil H) as [W [_ [D M]]]. repeat split; auto.
  intros th Un. apply M; auto. intros t. reflexivity.
Qed.

(* ---------------------------------------------------------------- what the check evaluates *)
(* RunUnifySched.run prints exec's trace (until it cuts the case at a cyclic binding) *)
Definition show_tr (nvars : nat) (l : list (bool * heap)) : list obs :=
  map (fun x => OL [obool (fst x); snap den (snd x) nvars]) l.

Definition is_cyc (o : obs) : bool := match o with OL (OS _ :: _) => true | _ => false end.

Lemma run_is_exec fuel nvars evs : forall h sl l,
  run mk_unify next unify unify_arrays den fuel h sl evs nvars = Some l -> existsb is_cyc l = false ->
  exists tr, exec fuel h sl evs = Some tr /\ l = show_tr nvars tr.
Proof.
  induction evs as [|e r IH]; intros h sl l H NC.
  - cbn in H. inversion H; subst. exists []. split; reflexivity.
  - assert (STEP: forall y h1 sl1,
       (if hok den h1 then
          match run mk_unify next unify unify_arrays den fuel h1 sl1 r nvars with
          | None => None | Some l0 => Some (OL [obool y; snap den h1 nvars] :: l0) end
        else Some [otag "cyc" []]) = Some l ->
       exists tr, match exec fuel h1 sl1 r with None => None | Some l0 => Some ((y, h1) :: l0) end = Some tr /\ l = show_tr nvars tr).
    { intros y h1 sl1 H1. destruct (hok den h1).
      - destruct (run mk_unify next unify unify_arrays den fuel h1 sl1 r nvars) as [l0|] eqn:ER; [|discriminate].
        inversion H1; subst l. cbn [existsb is_cyc obool] in NC.
        assert (NC0: existsb is_cyc l0 = false).
        { destruct y; cbn in NC; exact NC. }
        destruct (IH _ _ _ ER NC0) as [tr0 [E0 L0]]. rewrite E0. eexists. split; [reflexivity|].
        subst l0. reflexivity.
      - inversion H1; subst l. cbn in NC. discriminate. }
    destruct e as [i a b|i|i]; cbn [run exec] in *.
    + apply STEP. exact H.
    + destruct (sget i sl) as [g|]; [|apply STEP; exact H].
      destruct (gcyc unify unify_arrays fuel h g).
      * inversion H; subst l. cbn in NC. discriminate.
      * destruct (next fuel h g) as [[[h1 g1] y]|]; [|discriminate]. apply STEP. exact H.
    + destruct (sget i sl) as [g|]; apply STEP; exact H.
Qed.

(* what the check prints for an event sequence inside the domain IS the specification's trace *)
Theorem run_events_spec fuel n nvars evs l tr :
  run_events fuel evs nvars = otag "ok" [OL l] -> existsb is_cyc l = false ->
  srun n [] [] [] evs = Some tr -> l = show_tr nvars (tr_of tr).
Proof.
  unfold run_events. intros H NC S.
  destruct (run mk_unify next unify unify_arrays den fuel [] [] evs nvars) as [l0|] eqn:E; [|discriminate].
  assert (l0 = l) by (unfold otag in H; inversion H; reflexivity). subst l0.
  destruct (run_is_exec fuel nvars evs [] [] l E NC) as [tr' [X L]].
  rewrite (sched_refines n fuel evs tr tr' S X) in L. exact L.
Qed.

(* non-vacuity: g0 = unify(X,Y) is created first, g1 = unify(Y,X) is created and started, then g0 is started, then
   both are closed (LIFO); the specification is defined on it: g0's start yields and binds nothing, its equation
   joins the active ones; the generator objects do the same *)
Example srun_late_alias :
  let evs := [SCreate 0 (TVar 0) (TVar 1); SCreate 1 (TVar 1) (TVar 0); SNext 1; SNext 0; SClose 0; SClose 1] in
  srun 5 [] [] [] evs = Some
    [(false, [], []); (false, [], []);
     (true, [(1, TVar 0)], [(TVar 1, TVar 0)]);
     (true, [(1, TVar 0)], [(TVar 1, TVar 0); (TVar 0, TVar 1)]);
     (false, [(1, TVar 0)], [(TVar 1, TVar 0)]);
     (false, [], [])]
  /\ exec 5 [] [] evs = Some [(false, []); (false, []); (true, [(1, TVar 0)]); (true, [(1, TVar 0)]); (false, [(1, TVar 0)]); (false, [])].
Proof. split; vm_compute; reflexivity. Qed.

(* executable: the specification's trace, printed like RunUnifySched.run prints the generator objects' trace, plus
   the number of active equations; "undef" outside the domain.  The check evaluates it next to run_events_x and
   compares the two (an instance of run_events_spec on every case) and uses it to validate the reference
   unifier of its intrinsic oracle (same domain, same number of active equations after every event). *)
Definition spec_events (n : nat) (evs : list sev) (nvars : nat) : obs :=
  match srun n [] [] [] evs with
  | None => otag "undef" []
  | Some tr => otag "ok" [OL (map (fun x => OL [obool (fst (fst x)); snap den (snd (fst x)) nvars; onat (length (snd x))]) tr)]
  end.
