(* The engine's unification algorithm (engine.py: unify, Atom.unify, Variable.unify,
   Functor.unify, unify_arrays) over a triangular store, and its soundness.

   Dispatch as in the code: both sides are dereferenced (get_value); an unbound
   variable on the left is bound to the dereferenced right side (unless it is
   that very variable: the self-unification shortcut), otherwise an unbound
   variable on the right is bound to the left side; atoms unify by name, raw
   Python constants by equality, compound terms by name, then by number of
   arguments, then argument by argument from left to right, each argument seeing
   the bindings made by the earlier ones.  There is no occurs check in the code:
   the cases in which it would matter are marked UCyc (the property leaves them
   unspecified); UOof = not enough fuel. *)
From Coq Require Import List Arith Bool Lia ZArith.
Import ListNotations.
From YP Require Import Base.Str Term.Term.
Set Implicit Arguments.

Inductive ures := UOk (s:store) | UFail | UOof | UCyc.

Section Arr.
  Variable U : store -> term -> term -> ures.
  Fixpoint arr (xs ys:list term) (s:store) : ures :=
    match xs, ys with
    | [], [] => UOk s
    | a::ar, b::br => match U s a b with UOk s1 => arr ar br s1 | r => r end
    | _, _ => UFail end.
End Arr.

Definition bind (s:store) (v:nat) (a:term) : ures :=
  if occurs v a then UCyc else UOk ((v,a)::s).

Fixpoint unify (n:nat) (s:store) (t1 t2:term) : ures :=
  match n with O => UOof | S n =>
    let a1 := den s t1 in let a2 := den s t2 in
    match a1, a2 with
    | TVar v, TVar w => if Nat.eqb v w then UOk s else UOk ((v,a2)::s)
    | TVar v, _ => bind s v a2
    | _, TVar w => bind s w a1
    | TAtom x, TAtom y => if str_eqb x y then UOk s else UFail
    | TInt x, TInt y => if Z.eqb x y then UOk s else UFail
    | TStr x, TStr y => if str_eqb x y then UOk s else UFail
    | TFun f xs, TFun g ys =>
        if str_eqb f g then (if Nat.eqb (length xs) (length ys) then arr (unify n) xs ys s else UFail) else UFail
    | _, _ => UFail
    end end.

Definition unify_arrays (n:nat) (s:store) (xs ys:list term) : ures :=
  if Nat.eqb (length xs) (length ys) then arr (unify n) xs ys s else UFail.

Definition ext (s s':store) := exists nw, s' = nw ++ s.
Lemma ext_refl s : ext s s. Proof. exists []; reflexivity. Qed.
Lemma ext_trans a b c : ext a b -> ext b c -> ext a c.
Proof. intros [n1 E1] [n2 E2]. exists (n2++n1). subst. rewrite app_assoc. reflexivity. Qed.

Lemma den_eq_ext s s' a b : ext s s' -> den s a = den s b -> den s' a = den s' b.
Proof. intros [nw E] H. subst. rewrite !den_app, H. reflexivity. Qed.

Definition sound_at (U:store -> term -> term -> ures) :=
  forall s t1 t2 s', wf s -> U s t1 t2 = UOk s' -> wf s' /\ ext s s' /\ den s' t1 = den s' t2.

Lemma arr_sound U : sound_at U ->
  forall xs ys s s', wf s -> arr U xs ys s = UOk s' ->
  wf s' /\ ext s s' /\ map (den s') xs = map (den s') ys.
Proof.
  intros HU. induction xs as [|a ar IH]; intros [|b br] s s' W H; simpl in H; try discriminate.
  - inversion H; subst. repeat split; auto using ext_refl.
  - destruct (U s a b) as [s1| | |] eqn:E; try discriminate.
    destruct (HU _ _ _ _ W E) as [W1 [X1 D1]].
    destruct (IH _ _ _ W1 H) as [W2 [X2 D2]].
    repeat split; auto; [eapply ext_trans; eauto|].
    simpl. rewrite D2. f_equal. eapply den_eq_ext; eauto.
Qed.

Lemma bind_sound s v a t1 t2 :
  wf s -> den s t1 = TVar v -> den s t2 = a -> occurs v a = false ->
  let s' := (v,a)::s in wf s' /\ ext s s' /\ den s' t1 = den s' t2.
Proof.
  intros W E1 E2 O. simpl.
  assert (Fa: free_in s a) by (subst a; apply den_free; exact W).
  assert (Ia: den s a = a) by (apply den_id; exact Fa).
  assert (Lv: lookup v s = None).
  { apply (den_free W t1). rewrite E1. simpl. apply Nat.eqb_refl. }
  repeat split.
  - constructor; auto. rewrite Ia. exact O.
  - exists [(v,a)]. reflexivity.
  - rewrite E1, E2, Ia. simpl. rewrite Nat.eqb_refl. symmetry. apply subst1_noocc. exact O.
Qed.

Lemma bind_sound_l s v a t1 t2 s' :
  wf s -> den s t1 = TVar v -> den s t2 = a -> bind s v a = UOk s' ->
  wf s' /\ ext s s' /\ den s' t1 = den s' t2.
Proof.
  unfold bind. intros W E1 E2 H. destruct (occurs v a) eqn:O; [discriminate|].
  inversion H; subst s'. apply bind_sound; auto.
Qed.
Lemma bind_sound_r s v a t1 t2 s' :
  wf s -> den s t2 = TVar v -> den s t1 = a -> bind s v a = UOk s' ->
  wf s' /\ ext s s' /\ den s' t1 = den s' t2.
Proof.
  intros W E1 E2 H. destruct (bind_sound_l t2 t1 W E1 E2 H) as [A [B C]]. auto.
Qed.

Theorem unify_sound n : sound_at (unify n).
Proof.
  induction n as [|n IH]; intros s t1 t2 s' W H; [discriminate|].
  simpl in H.
  destruct (den s t1) as [x|x|x|v|f xs] eqn:E1; destruct (den s t2) as [y|y|y|w|g ys] eqn:E2;
    try discriminate;
    try (eapply bind_sound_l; eassumption);
    try (eapply bind_sound_r; eassumption).
  - destruct (str_eqb_spec x y); [|discriminate]. inversion H; subst.
    repeat split; auto using ext_refl. congruence.
  - destruct (Z.eqb x y) eqn:E; [|discriminate]. inversion H; subst. apply Z.eqb_eq in E; subst.
    repeat split; auto using ext_refl. congruence.
  - destruct (str_eqb_spec x y); [|discriminate]. inversion H; subst.
    repeat split; auto using ext_refl. congruence.
  - destruct (Nat.eqb v w) eqn:E.
    + inversion H; subst. apply Nat.eqb_eq in E; subst. repeat split; auto using ext_refl. congruence.
    + inversion H; subst. apply (@bind_sound s v (TVar w) t1 t2 W E1 E2). simpl.
      rewrite Nat.eqb_sym. exact E.
  - destruct (str_eqb_spec f g) as [->|]; [|discriminate].
    destruct (Nat.eqb (length xs) (length ys)); [|discriminate].
    destruct (arr_sound IH _ _ W H) as [W' [X D]]. repeat split; auto.
    destruct X as [nw X]. subst s'.
    rewrite <- (den_ext_den nw t1 W), <- (den_ext_den nw t2 W), E1, E2, !den_fun, D. reflexivity.
Qed.

Corollary unify_arrays_sound n s xs ys s' : wf s -> unify_arrays n s xs ys = UOk s' ->
  wf s' /\ ext s s' /\ map (den s') xs = map (den s') ys.
Proof.
  unfold unify_arrays. intros W H. destruct (Nat.eqb (length xs) (length ys)); [|discriminate].
  eapply arr_sound; eauto using unify_sound.
Qed.

(* compound terms unify only if both name and number of arguments agree; in
   particular a compound term without arguments is not the atom of that name *)
Lemma unify_functor_arity n s f xs g ys s' :
  wf s -> unify n s (TFun f xs) (TFun g ys) = UOk s' -> f = g /\ length xs = length ys.
Proof.
  destruct n as [|n]; [discriminate|]. intros W. cbn [unify]. rewrite !den_fun.
  destruct (str_eqb_spec f g) as [->|]; [|discriminate].
  rewrite !map_length. destruct (Nat.eqb (length xs) (length ys)) eqn:E; [|discriminate].
  apply Nat.eqb_eq in E. auto.
Qed.
Lemma unify_atom_fun n s a f xs : unify (S n) s (TAtom a) (TFun f xs) = UFail /\ unify (S n) s (TFun f xs) (TAtom a) = UFail.
Proof. cbn [unify]. rewrite den_atom, den_fun. auto. Qed.

(* results other than "out of fuel" do not depend on the fuel *)
Lemma arr_mono (U U':store -> term -> term -> ures) :
  (forall s a b r, U s a b = r -> r <> UOof -> U' s a b = r) ->
  forall xs ys s r, arr U xs ys s = r -> r <> UOof -> arr U' xs ys s = r.
Proof.
  intros HU. induction xs as [|a ar IH]; intros [|b br] s r H N; simpl in *; auto.
  destruct (U s a b) as [s1| | |] eqn:E.
  - rewrite (HU _ _ _ _ E) by discriminate. apply IH; auto.
  - rewrite (HU _ _ _ _ E) by discriminate. exact H.
  - congruence.
  - rewrite (HU _ _ _ _ E) by discriminate. exact H.
Qed.

Lemma unify_mono_S n : forall s a b r, unify n s a b = r -> r <> UOof -> unify (S n) s a b = r.
Proof.
  induction n as [|n IH]; intros s a b r H N; [simpl in H; congruence|].
  remember (S n) as m. rewrite Heqm in H at 1. cbn [unify] in H. cbn [unify].
  destruct (den s a) as [x|x|x|v|f xs]; destruct (den s b) as [y|y|y|w|g ys]; auto.
  destruct (str_eqb f g); auto. destruct (Nat.eqb (length xs) (length ys)); auto.
  subst m. eapply arr_mono; [|exact H|exact N]. intros; apply IH; auto.
Qed.

Lemma unify_mono n m s a b r : unify n s a b = r -> r <> UOof -> n <= m -> unify m s a b = r.
Proof.
  intros H N L. induction L; auto. apply unify_mono_S; auto.
Qed.

(* non-vacuity: p(X, f(Y), X) = p(g(Z), f(a), W) *)
Example ex1 : exists s', unify 10 [] (TFun [112%N] [TVar 1; TFun [102%N] [TVar 2]; TVar 1])
                                     (TFun [112%N] [TFun [103%N] [TVar 3]; TFun [102%N] [TAtom [97%N]]; TVar 4]) = UOk s'
  /\ den s' (TVar 4) = TFun [103%N] [TVar 3] /\ den s' (TVar 2) = TAtom [97%N].
Proof. eexists. vm_compute. repeat split. Qed.
