(* Unification as GENERATOR OBJECTS over a mutable heap (engine.py: unify, Atom.unify,
   Variable.unify, Functor.unify, unify_arrays, YPSuccess, YPFail), for property C03.

   The heap is the association list of the cells that are bound NOW (newest binding first);
   binding conses, unbinding (`self._is_bound = False`) removes the cell's entry, wherever it is.
   `den h t` (Term.v) is the engine's deep get_value under the heap h.

   `unify(a,b)` is an ordinary function: it dereferences both sides and RETURNS an object
   (mk_unify).  The objects:
     GSucc done        YPSuccess (done = its _done flag)          GFail   YPFail
     GVarFresh v t     generator object of Variable.unify(v, t) whose body has not started
     GVarSelf          ... suspended at the `yield` of the self-unification branch (nothing bound)
     GVarBound v       ... suspended inside `try: yield finally: self._is_bound = False`
     GVarDeleg g       ... suspended inside `for l1 in unify(self, term): yield False` (v was bound)
     GArrFresh xs ys   generator object of unify_arrays(xs, ys), body not started
     GArrHeld held     ... suspended at its `yield` inside the try; `held` = its list `iterators`
                       (all the sub-generators it created, in creation order)
     GDone             a generator whose body has finished
   next = __next__, close = close(); dropping the last reference is close (CPython finalises an
   unreferenced generator at once - trusted, exercised by the correspondence run). *)
From Coq Require Import List Arith Bool Lia ZArith.
Import ListNotations.
From YP Require Import Base.Str Term.Term Unify.Unify.
Set Implicit Arguments.

Definition heap := store.
Definition keys (h:heap) : list nat := map fst h.

(* the cell v becomes unbound *)
Definition unbind (v:nat) (h:heap) : heap := filter (fun p => negb (Nat.eqb (fst p) v)) h.

Inductive gen :=
| GSucc (done:bool) | GFail
| GVarFresh (v:nat) (t:term) | GVarSelf | GVarBound (v:nat) | GVarDeleg (g:gen)
| GArrFresh (xs ys:list term) | GArrHeld (held:list gen)
| GDone.

Section GenInd.
  Variable P : gen -> Prop.
  Hypothesis Hsucc : forall b, P (GSucc b).
  Hypothesis Hfail : P GFail.
  Hypothesis Hvf : forall v t, P (GVarFresh v t).
  Hypothesis Hvs : P GVarSelf.
  Hypothesis Hvb : forall v, P (GVarBound v).
  Hypothesis Hvd : forall g, P g -> P (GVarDeleg g).
  Hypothesis Haf : forall xs ys, P (GArrFresh xs ys).
  Hypothesis Hah : forall held, Forall P held -> P (GArrHeld held).
  Hypothesis Hdone : P GDone.
  Fixpoint gen_ind' (g:gen) : P g :=
    match g with
    | GSucc b => Hsucc b | GFail => Hfail | GVarFresh v t => Hvf v t | GVarSelf => Hvs
    | GVarBound v => Hvb v | GVarDeleg g' => Hvd (gen_ind' g')
    | GArrFresh xs ys => Haf xs ys
    | GArrHeld held => Hah ((fix go (l:list gen) : Forall P l :=
         match l with [] => Forall_nil P | x::r => Forall_cons x (gen_ind' x) (go r) end) held)
    | GDone => Hdone
    end.
End GenInd.

(* engine.unify / Atom.unify / Functor.unify: dereference, dispatch, return an object *)
Definition mk_unify (h:heap) (t1 t2:term) : gen :=
  let a1 := den h t1 in let a2 := den h t2 in
  match a1, a2 with
  | TVar v, _ => GVarFresh v a2                    (* arg1.unify(arg2), arg1 a Variable *)
  | _, TVar w => GVarFresh w a1                    (* Atom/Functor.unify: `return arg.unify(self)`; constants: arg2.unify(arg1) *)
  | TAtom x, TAtom y => if str_eqb x y then GSucc false else GFail
  | TInt x, TInt y => if Z.eqb x y then GSucc false else GFail
  | TStr x, TStr y => if str_eqb x y then GSucc false else GFail
  | TFun f xs, TFun g ys => if str_eqb f g then GArrFresh xs ys else GFail
  | _, _ => GFail
  end.

(* close(): runs the pending `finally` blocks *)
Fixpoint close (h:heap) (g:gen) : heap * gen :=
  match g with
  | GSucc b => (h, GSucc b)                        (* YPSuccess.close / YPFail.close: pass *)
  | GFail => (h, GFail)
  | GVarBound v => (unbind v h, GDone)
  | GVarDeleg g' => (fst (close h g'), GDone)      (* the for-loop's iterator is dropped *)
  | GArrHeld held =>
      ((fix go (h:heap) (l:list gen) : heap :=
          match l with [] => h | x::r => go (fst (close h x)) r end) h held, GDone)
  | _ => (h, GDone)
  end.

(* unify_arrays' finally: `for i in range(num_iterators): iterators[i].close()` - creation order *)
Fixpoint close_all (h:heap) (l:list gen) : heap :=
  match l with [] => h | x::r => close_all (fst (close h x)) r end.

Lemma close_arr h held : close h (GArrHeld held) = (close_all h held, GDone).
Proof.
  cbn [close]. reflexivity.
Qed.

Definition is_var (v:nat) (t:term) : bool := match t with TVar w => Nat.eqb w v | _ => false end.

Section Open.
  Variable N : heap -> gen -> option (heap * gen * bool).
  (* the first loop of unify_arrays: create and advance the sub-generators from left to right,
     stop at the first that does not yield (it IS in the list: num_iterators was incremented) *)
  Fixpoint open_arr (h:heap) (xs ys:list term) : option (heap * list gen * bool) :=
    match xs, ys with
    | a::ar, b::br =>
        match N h (mk_unify h a b) with
        | None => None
        | Some (h1, g1, true) =>
            match open_arr h1 ar br with
            | None => None
            | Some (h2, gs, ok) => Some (h2, g1::gs, ok)
            end
        | Some (h1, g1, false) => Some (h1, [g1], false)
        end
    | _, _ => Some (h, [], true)
    end.
End Open.

(* __next__: Some (heap, generator, yielded?) ; None = not enough fuel *)
Fixpoint next (n:nat) (h:heap) (g:gen) : option (heap * gen * bool) :=
  match n with O => None | S n =>
    match g with
    | GSucc false => Some (h, GSucc true, true)
    | GSucc true => Some (h, GSucc true, false)
    | GFail => Some (h, GFail, false)
    | GDone => Some (h, GDone, false)
    | GVarFresh v t =>
        match lookup v h with
        | None =>                                        (* if not self._is_bound *)
            let val := den h t in                        (* self._value = get_value(term) *)
            if is_var v val then Some (h, GVarSelf, true)
            else Some ((v,val)::h, GVarBound v, true)
        | Some _ =>                                      (* for l1 in unify(self, term): yield False *)
            match next n h (mk_unify h (TVar v) t) with
            | None => None
            | Some (h', g', true) => Some (h', GVarDeleg g', true)
            | Some (h', _, false) => Some (h', GDone, false)
            end
        end
    | GVarSelf => Some (h, GDone, false)
    | GVarBound v => Some (unbind v h, GDone, false)     (* finally: self._is_bound = False *)
    | GVarDeleg g' =>
        match next n h g' with
        | None => None
        | Some (h', g'', true) => Some (h', GVarDeleg g'', true)
        | Some (h', _, false) => Some (h', GDone, false)
        end
    | GArrFresh xs ys =>
        if Nat.eqb (length xs) (length ys) then
          match open_arr (next n) h xs ys with
          | None => None
          | Some (h', held, true) => Some (h', GArrHeld held, true)
          | Some (h', held, false) => Some (close_all h' held, GDone, false)
          end
        else Some (h, GDone, false)                      (* `return` before the try *)
    | GArrHeld held => Some (close_all h held, GDone, false)
    end
  end.

(* ------------------------------------------------------------------ *)
(* the cells a generator will unbind when it is resumed or closed *)
Fixpoint cells (g:gen) : list nat :=
  match g with
  | GVarBound v => [v]
  | GVarDeleg g' => cells g'
  | GArrHeld held => (fix go (l:list gen) : list nat := match l with [] => [] | x::r => cells x ++ go r end) held
  | _ => []
  end.
Fixpoint cells_all (l:list gen) : list nat := match l with [] => [] | x::r => cells x ++ cells_all r end.
Lemma cells_arr held : cells (GArrHeld held) = cells_all held.
Proof. cbn [cells]. reflexivity. Qed.

(* remove the entries of the cells vs, keep everything else in place *)
Definition rm (vs:list nat) (h:heap) : heap :=
  filter (fun p => negb (existsb (Nat.eqb (fst p)) vs)) h.

Lemma rm_nil h : rm [] h = h.
Proof. unfold rm. induction h as [|p h IH]; simpl in *; auto. rewrite IH. reflexivity. Qed.

Lemma unbind_rm v h : unbind v h = rm [v] h.
Proof.
  unfold unbind, rm. apply filter_ext. intros p. simpl. rewrite orb_false_r. reflexivity.
Qed.

Lemma rm_app a b h : rm (a ++ b) h = rm b (rm a h).
Proof.
  unfold rm. induction h as [|p h IH]; simpl; auto.
  rewrite existsb_app. destruct (existsb (Nat.eqb (fst p)) a) eqn:Ea; simpl.
  - exact IH.
  - destruct (existsb (Nat.eqb (fst p)) b); simpl; rewrite IH; reflexivity.
Qed.

Lemma rm_heap_app vs a b : rm vs (a ++ b) = rm vs a ++ rm vs b.
Proof. unfold rm. apply filter_app. Qed.

Lemma existsb_eqb_In k vs : existsb (Nat.eqb k) vs = true <-> In k vs.
Proof.
  rewrite existsb_exists. split.
  - intros [x [Hin E]]. apply Nat.eqb_eq in E. subst. exact Hin.
  - intros Hin. exists k. split; auto. apply Nat.eqb_refl.
Qed.

Lemma rm_all vs nw : (forall k, In k (keys nw) -> In k vs) -> rm vs nw = [].
Proof.
  unfold rm, keys. induction nw as [|p nw IH]; simpl; intros H; auto.
  assert (E: existsb (Nat.eqb (fst p)) vs = true) by (apply existsb_eqb_In; apply H; auto).
  rewrite E. simpl. apply IH. intros k Hk. apply H. auto.
Qed.

Lemma rm_none vs h : (forall k, In k vs -> ~ In k (keys h)) -> rm vs h = h.
Proof.
  unfold rm, keys. induction h as [|p h IH]; simpl; intros H; auto.
  destruct (existsb (Nat.eqb (fst p)) vs) eqn:E.
  - apply existsb_eqb_In in E. exfalso. apply (H _ E). auto.
  - simpl. f_equal. apply IH. intros k Hk Hin. apply (H k Hk). auto.
Qed.

Lemma lookup_None_keys k h : lookup k h = None <-> ~ In k (keys h).
Proof.
  unfold keys. induction h as [|[w t] h IH]; simpl; [tauto|].
  destruct (Nat.eqb k w) eqn:E.
  - apply Nat.eqb_eq in E. subst. split; [discriminate|]. intros H. exfalso. apply H. auto.
  - apply Nat.eqb_neq in E. rewrite IH. split; intros H; [intros [A|A]; [congruence|tauto]|tauto].
Qed.

(* closing removes exactly the generator's cells from whatever heap it is closed under
   (this is what makes the non-LIFO closing order of unify_arrays harmless) *)
Lemma close_rm g : forall h, fst (close h g) = rm (cells g) h.
Proof.
  induction g as [b| |v t| |v|g IH|xs ys|held IH|] using gen_ind'; intros h;
    try (cbn [close cells fst]; rewrite ?rm_nil; reflexivity).
  - cbn [close cells fst]. apply unbind_rm.
  - cbn [close cells fst]. apply IH.
  - rewrite close_arr, cells_arr. cbn [fst]. revert h.
    induction IH as [|x r Hx Hr IHr]; intros h; simpl.
    + symmetry. apply rm_nil.
    + rewrite rm_app, IHr, Hx. reflexivity.
Qed.

Lemma close_all_rm l h : close_all h l = rm (cells_all l) h.
Proof.
  revert h. induction l as [|x r IH]; intros h; simpl.
  - symmetry. apply rm_nil.
  - rewrite rm_app, IH, close_rm. reflexivity.
Qed.

(* states in which a generator can be after its first __next__: resuming it never yields *)
Inductive quiet : gen -> Prop :=
| q_succ : quiet (GSucc true) | q_fail : quiet GFail | q_done : quiet GDone
| q_self : quiet GVarSelf | q_bound v : quiet (GVarBound v)
| q_deleg g : quiet g -> quiet (GVarDeleg g)
| q_held held : Forall quiet held -> quiet (GArrHeld held).

(* states in which a generator is before its first __next__ *)
Definition fresh (g:gen) : Prop :=
  match g with GSucc false | GFail | GVarFresh _ _ | GArrFresh _ _ => True | _ => False end.

Lemma mk_unify_fresh h a b : fresh (mk_unify h a b).
Proof.
  unfold mk_unify. destruct (den h a) as [x|x|x|v|f xs]; destruct (den h b) as [y|y|y|w|g ys]; simpl; auto;
  match goal with |- context[if ?c then _ else _] => destruct c; simpl; auto end.
Qed.
Lemma fresh_cells g : fresh g -> cells g = [].
Proof. destruct g as [[|]| | | | | | | |]; simpl; intros H; auto; contradiction. Qed.

(* resuming a suspended / finished generator: no yield, exactly its cells are unbound *)
Lemma next_quiet n : forall g h h' g' y, quiet g -> next n h g = Some (h', g', y) ->
  y = false /\ h' = rm (cells g) h /\ quiet g' /\ cells g' = [].
Proof.
  induction n as [|n IH]; intros g h h' g' y Q H; [discriminate|].
  destruct Q as [ | | | |v|g Q|held Q]; cbn [next] in H.
  - inversion H; subst. cbn [cells]. rewrite rm_nil. repeat split; constructor.
  - inversion H; subst. cbn [cells]. rewrite rm_nil. repeat split; constructor.
  - inversion H; subst. cbn [cells]. rewrite rm_nil. repeat split; constructor.
  - inversion H; subst. cbn [cells]. rewrite rm_nil. repeat split; constructor.
  - inversion H; subst. cbn [cells]. rewrite unbind_rm. repeat split; constructor.
  - destruct (next n h g) as [[[h1 g1] y1]|] eqn:E; [|discriminate].
    destruct (IH _ _ _ _ _ Q E) as [Y [Hh [Q1 C1]]]. subst y1.
    inversion H; subst. cbn [cells]. repeat split; constructor.
  - inversion H; subst. rewrite cells_arr, close_all_rm. repeat split; constructor.
Qed.

(* what holds between a base heap h, a generator that was started under h, and the heap now *)
Definition held_over (h:heap) (g:gen) (hc:heap) : Prop :=
  quiet g /\ exists nw, hc = nw ++ h /\ (forall k, In k (keys nw) <-> In k (cells g))
                        /\ (forall k, In k (cells g) -> lookup k h = None).

Lemma held_over_close h g hc : held_over h g hc -> fst (close hc g) = h.
Proof.
  intros [_ [nw [E [K F]]]]. subst hc. rewrite close_rm, rm_heap_app.
  rewrite rm_all by (intros k Hk; apply K; exact Hk).
  rewrite rm_none; auto. intros k Hk. apply lookup_None_keys. apply F. exact Hk.
Qed.

Lemma held_over_nocells h g : quiet g -> cells g = [] -> held_over h g h.
Proof.
  intros Q C. split; auto. exists []. rewrite C. simpl. repeat split; auto; contradiction.
Qed.

Lemma lookup_app_None k a b : lookup k (a ++ b) = None -> lookup k b = None.
Proof.
  rewrite !lookup_None_keys. unfold keys. rewrite map_app, in_app_iff. tauto.
Qed.

Definition first_post (h:heap) (r:heap * gen * bool) : Prop :=
  let '(h1, g1, y) := r in
  held_over h g1 h1 /\ (y = false -> h1 = h /\ cells g1 = []).

Lemma open_arr_post (N:heap -> gen -> option (heap * gen * bool)) :
  (forall h g r, fresh g -> N h g = Some r -> first_post h r) ->
  forall xs ys h h' held ok, open_arr N h xs ys = Some (h', held, ok) ->
    Forall quiet held /\
    exists nw, h' = nw ++ h /\ (forall k, In k (keys nw) <-> In k (cells_all held))
               /\ (forall k, In k (cells_all held) -> lookup k h = None).
Proof.
  intros HN. induction xs as [|a ar IH]; intros ys h h' held ok H.
  - simpl in H. inversion H; subst. split; [constructor|]. exists []. simpl. repeat split; auto; contradiction.
  - destruct ys as [|b br]; simpl in H.
    { inversion H; subst. split; [constructor|]. exists []. simpl. repeat split; auto; contradiction. }
    destruct (N h (mk_unify h a b)) as [[[h1 g1] y1]|] eqn:E; [|discriminate].
    pose proof (HN _ _ _ (mk_unify_fresh h a b) E) as [[Q1 [nw1 [E1 [K1 F1]]]] Hn].
    destruct y1.
    + destruct (open_arr N h1 ar br) as [[[h2 gs] ok2]|] eqn:E2; [|discriminate].
      inversion H; subst h' held ok.
      destruct (IH _ _ _ _ _ E2) as [Qs [nw2 [E3 [K2 F2]]]].
      split; [constructor; auto|]. exists (nw2 ++ nw1). subst h2 h1. rewrite app_assoc.
      split; [reflexivity|]. split.
      * intros k. unfold keys. rewrite map_app, in_app_iff. cbn [cells_all]. rewrite in_app_iff.
        unfold keys in K1, K2. rewrite K1, K2. tauto.
      * intros k. cbn [cells_all]. rewrite in_app_iff. intros [A|A]; auto.
        eapply lookup_app_None. apply F2. exact A.
    + inversion H; subst h' held ok. destruct (Hn eq_refl) as [Eh C1].
      split; [constructor; auto|]. exists []. cbn [cells_all]. rewrite C1. simpl. subst h1.
      repeat split; auto; contradiction.
Qed.

(* the first __next__ of a fresh generator *)
Lemma next_fresh n : forall h g r, fresh g -> next n h g = Some r -> first_post h r.
Proof.
  induction n as [|n IH]; intros h g r F H; [discriminate|].
  destruct g as [[|]| |v t| |v|g|xs ys|held|]; simpl in F; try contradiction; cbn [next] in H.
  - inversion H; subst. split; [apply held_over_nocells; constructor|discriminate].
  - inversion H; subst. split; [apply held_over_nocells; constructor|auto].
  - destruct (lookup v h) as [b|] eqn:L.
    + destruct (next n h (mk_unify h (TVar v) t)) as [[[h1 g1] y1]|] eqn:E; [|discriminate].
      pose proof (IH _ _ _ (mk_unify_fresh _ _ _) E) as [[Q1 [nw1 [E1 [K1 F1]]]] Hn].
      destruct y1; inversion H; subst.
      * split; [|discriminate]. split; [constructor; auto|]. exists nw1. cbn [cells]. auto.
      * destruct (Hn eq_refl) as [Eh _]. rewrite Eh. split; [apply held_over_nocells; constructor|auto].
    + destruct (is_var v (den h t)); inversion H; subst.
      * split; [apply held_over_nocells; constructor|discriminate].
      * split; [|discriminate]. split; [constructor|]. exists [(v, den h t)]. cbn [cells keys map fst].
        repeat split; auto. intros k [A|[]]. subst. exact L.
  - destruct (Nat.eqb (length xs) (length ys)).
    + destruct (open_arr (next n) h xs ys) as [[[h1 held] ok]|] eqn:E; [|discriminate].
      destruct (open_arr_post (next n) IH _ _ _ E) as [Qs [nw [E1 [K1 F1]]]].
      destruct ok; inversion H; subst.
      * split; [|discriminate]. split; [constructor; auto|]. exists nw. rewrite cells_arr. auto.
      * assert (R: close_all (nw ++ h) held = h).
        { rewrite close_all_rm, rm_heap_app, rm_all by (intros k Hk; apply K1; exact Hk).
          rewrite rm_none; auto. intros k Hk. apply lookup_None_keys. auto. }
        rewrite R. split; [apply held_over_nocells; constructor|auto].
    + inversion H; subst. split; [apply held_over_nocells; constructor|auto].
Qed.

(* ------------------------------------------------------------------ *)
(* A consumer drives one generator object with any sequence of __next__ / close() calls.
   Between two calls it leaves the heap as the generator left it (LIFO use: whatever the
   consumer binds while the generator is suspended it has unbound again before it resumes,
   closes or drops the generator).  Dropping the last reference is OClose. *)
Inductive op := ONext | OClose.

Fixpoint drive (n:nat) (h:heap) (g:gen) (ops:list op) : option (heap * gen * list bool) :=
  match ops with
  | [] => Some (h, g, [])
  | ONext :: r =>
      match next n h g with
      | None => None
      | Some (h1, g1, y) =>
          match drive n h1 g1 r with None => None | Some (hf, gf, ys) => Some (hf, gf, y::ys) end
      end
  | OClose :: r => drive n (fst (close h g)) (snd (close h g)) r
  end.

Definition inv (h:heap) (g:gen) (hc:heap) : Prop := (fresh g /\ hc = h) \/ held_over h g hc.

Lemma held_over_next n h g hc h' g' y : held_over h g hc -> next n hc g = Some (h', g', y) ->
  y = false /\ h' = h /\ held_over h g' h.
Proof.
  intros Ho H. pose proof (held_over_close Ho) as C. destruct Ho as [Q _].
  destruct (@next_quiet n g hc h' g' y Q H) as [Y [Eh [Q' C']]]. rewrite close_rm in C.
  subst. repeat split; auto. apply held_over_nocells; auto.
Qed.

Lemma held_over_closed h g hc : held_over h g hc ->
  held_over h (snd (close hc g)) (fst (close hc g)) /\ fst (close hc g) = h.
Proof.
  intros Ho. pose proof (held_over_close Ho) as C. rewrite C. split; [|reflexivity].
  apply held_over_nocells.
  - destruct Ho as [Q _]. destruct Q; cbn [close snd]; constructor.
  - destruct g as [[|]| |v t| |v|g|xs ys|held|]; reflexivity.
Qed.

Lemma close_state h g hc : inv h g hc -> inv h (snd (close hc g)) (fst (close hc g)) /\ fst (close hc g) = h.
Proof.
  intros [[F E]|Ho].
  - subst hc. destruct g as [[|]| |v t| |v|g|xs ys|held|]; simpl in F; try contradiction; cbn [close fst snd];
      (split; [|reflexivity]); try (left; split; [exact I|reflexivity]);
      right; apply held_over_nocells; constructor.
  - destruct (held_over_closed Ho) as [A B]. split; [right; exact A|exact B].
Qed.

Lemma drive_held n ops : forall h g hc hf gf ys, held_over h g hc ->
  drive n hc g ops = Some (hf, gf, ys) -> held_over h gf hf /\ Forall (fun y => y = false) ys.
Proof.
  induction ops as [|[|] r IH]; intros h g hc hf gf ys Ho H; cbn [drive] in H.
  - inversion H; subst. auto.
  - destruct (next n hc g) as [[[h1 g1] y1]|] eqn:E; [|discriminate].
    destruct (drive n h1 g1 r) as [[[hf' gf'] ys']|] eqn:D; [|discriminate]. inversion H; subst.
    destruct (@held_over_next n _ _ _ _ _ _ Ho E) as [Y [Eh Ho']]. subst.
    destruct (IH _ _ _ _ _ _ Ho' D) as [A B]. auto.
  - destruct (held_over_closed Ho) as [Ho' C]. eapply IH; eauto.
Qed.

Fixpoint count_true (l:list bool) : nat := match l with [] => 0 | true::r => S (count_true r) | false::r => count_true r end.
Lemma count_true_false l : Forall (fun y => y = false) l -> count_true l = 0.
Proof. induction 1 as [|y l Hy _ IH]; simpl; auto. subst. exact IH. Qed.

Lemma drive_inv n ops : forall h g hc hf gf ys, inv h g hc ->
  drive n hc g ops = Some (hf, gf, ys) -> inv h gf hf /\ count_true ys <= 1.
Proof.
  induction ops as [|[|] r IH]; intros h g hc hf gf ys J H.
  - cbn [drive] in H. inversion H; subst. simpl. auto.
  - destruct J as [[F E]|Ho].
    + subst hc. cbn [drive] in H.
      destruct (next n h g) as [[[h1 g1] y1]|] eqn:E; [|discriminate].
      destruct (drive n h1 g1 r) as [[[hf' gf'] ys']|] eqn:D; [|discriminate]. inversion H; subst.
      pose proof (@next_fresh n h g _ F E) as [Ho _].
      destruct (@drive_held n r _ _ _ _ _ _ Ho D) as [A B]. split; [right; exact A|].
      cbn [count_true]. rewrite (count_true_false B). destruct y1; lia.
    + destruct (@drive_held n _ _ _ _ _ _ _ Ho H) as [A B]. split; [right; exact A|]. rewrite (count_true_false B). lia.
  - cbn [drive] in H. destruct (close_state J) as [J' C]. eapply IH; eauto.
Qed.

(* THE RESTORATION THEOREM FOR UNIFICATION GENERATORS.
   h: any heap; the generator object is created by unify(t1,t2) under h and then driven by any
   sequence of next/close calls (any number k of nexts, closed or dropped at any point).  Then
   (1) at every point the heap is the initial heap plus bindings of cells that were unbound in h
       - nothing of h is changed, and those bindings are exactly the cells the generator still owns;
   (2) close() (or dropping it) at that point gives back exactly h;
   (3) a further __next__ either is the one and only yield, or gives back exactly h (exhaustion);
   (4) it yields at most once. *)
Theorem unify_gen_restores n h t1 t2 ops hf gf ys :
  drive n h (mk_unify h t1 t2) ops = Some (hf, gf, ys) ->
  (exists nw, hf = nw ++ h /\ (forall k, In k (keys nw) -> lookup k h = None)
              /\ (forall k, In k (keys nw) <-> In k (cells gf)))
  /\ fst (close hf gf) = h
  /\ (forall m h2 g2 y2, next m hf gf = Some (h2, g2, y2) -> y2 = false -> h2 = h)
  /\ count_true ys <= 1.
Proof.
  intros H.
  assert (J0: inv h (mk_unify h t1 t2) h) by (left; split; [apply mk_unify_fresh|reflexivity]).
  destruct (@drive_inv n ops _ _ _ _ _ _ J0 H) as [J C]. repeat split; auto.
  - destruct J as [[F E]|[Q [nw [E [K Fr]]]]].
    + exists []. subst. rewrite (fresh_cells _ F). simpl. repeat split; auto; contradiction.
    + exists nw. repeat split; auto; try apply K. intros k Hk. apply Fr. apply K. exact Hk.
  - apply (close_state J).
  - intros m h2 g2 y2 N Y. destruct J as [[F E]|Ho].
    + subst hf. pose proof (@next_fresh m h gf _ F N) as [_ Hn]. apply Hn. exact Y.
    + destruct (@held_over_next m _ _ _ _ _ _ Ho N) as [_ [Eh _]]. exact Eh.
Qed.

(* the three ways of ending, spelled out *)
Lemma drive_app n a : forall b h g,
  drive n h g (a ++ b) =
  match drive n h g a with
  | None => None
  | Some (hm, gm, ym) =>
      match drive n hm gm b with None => None | Some (hf, gf, yb) => Some (hf, gf, ym ++ yb) end
  end.
Proof.
  induction a as [|[|] r IH]; intros b h g; cbn [app drive].
  - destruct (drive n h g b) as [[[? ?] ?]|]; reflexivity.
  - destruct (next n h g) as [[[h1 g1] y1]|]; [|reflexivity]. rewrite IH.
    destruct (drive n h1 g1 r) as [[[hm gm] ym]|]; [|reflexivity].
    destruct (drive n hm gm b) as [[[? ?] ?]|]; reflexivity.
  - apply IH.
Qed.

Corollary unify_gen_close_restores n h t1 t2 ops hf gf ys :
  drive n h (mk_unify h t1 t2) (ops ++ [OClose]) = Some (hf, gf, ys) -> hf = h.
Proof.
  rewrite drive_app. destruct (drive n h (mk_unify h t1 t2) ops) as [[[hm gm] ym]|] eqn:A; [|discriminate].
  cbn [drive]. intros H. inversion H; subst.
  destruct (@unify_gen_restores n h t1 t2 ops hm gm ym A) as [_ [C _]]. exact C.
Qed.

Corollary unify_gen_exhaust_restores n h t1 t2 ops hf gf ys :
  drive n h (mk_unify h t1 t2) (ops ++ [ONext]) = Some (hf, gf, ys ++ [false]) -> hf = h.
Proof.
  rewrite drive_app. destruct (drive n h (mk_unify h t1 t2) ops) as [[[hm gm] ym]|] eqn:A; [|discriminate].
  cbn [drive]. destruct (next n hm gm) as [[[h1 g1] y1]|] eqn:B; [|discriminate].
  intros H. inversion H; subst. apply app_inj_tail in H3 as [_ Y]. subst y1.
  destruct (@unify_gen_restores n h t1 t2 ops hm gm ym A) as [_ [_ [C _]]]. eapply C; [exact B|reflexivity].
Qed.

Theorem unify_gen_yields_at_most_once n h t1 t2 ops hf gf ys :
  drive n h (mk_unify h t1 t2) ops = Some (hf, gf, ys) -> count_true ys <= 1.
Proof. intros H. destruct (@unify_gen_restores n h t1 t2 ops hf gf ys H) as [_ [_ [_ C]]]. exact C. Qed.

(* ------------------------------------------------------------------ *)
(* Link with the store-passing model of C02: whenever Unify.unify succeeds with store s',
   the first __next__ of the generator object yields with the heap EQUAL to s' (the same
   bindings in the same order, hence the same map); whenever it fails the generator does not
   yield and the heap is unchanged. *)
Lemma next_var_bind n h v a : lookup v h = None -> den h a = a -> is_var v a = false ->
  next (S n) h (GVarFresh v a) = Some ((v,a)::h, GVarBound v, true).
Proof. intros L D V. cbn [next]. rewrite L, D, V. reflexivity. Qed.

Definition link_at (n:nat) : Prop := forall h t1 t2, wf h ->
  (forall s', unify n h t1 t2 = UOk s' -> exists g1, next n h (mk_unify h t1 t2) = Some (s', g1, true)) /\
  (unify n h t1 t2 = UFail -> exists hx g1, next n h (mk_unify h t1 t2) = Some (hx, g1, false)).

Lemma open_arr_link n : link_at n -> forall xs ys s, wf s ->
  (forall s', arr (unify n) xs ys s = UOk s' -> exists held, open_arr (next n) s xs ys = Some (s', held, true)) /\
  (arr (unify n) xs ys s = UFail -> length xs = length ys ->
     exists hx held, open_arr (next n) s xs ys = Some (hx, held, false)).
Proof.
  intros L. induction xs as [|a ar IH]; intros [|b br] s W; simpl; split; intros; try discriminate.
  - inversion H; subst. eauto.
  - destruct (L s a b W) as [Lo Lf].
    destruct (unify n s a b) as [s1| | |] eqn:E; try discriminate.
    destruct (Lo _ eq_refl) as [g1 N1]. rewrite N1.
    destruct (@unify_sound n s a b s1 W E) as [W1 _].
    destruct (IH br s1 W1) as [A _]. destruct (A _ H) as [held Hh]. rewrite Hh. eauto.
  - destruct (L s a b W) as [Lo Lf].
    destruct (unify n s a b) as [s1| | |] eqn:E; try discriminate.
    + destruct (Lo _ eq_refl) as [g1 N1]. rewrite N1.
      destruct (@unify_sound n s a b s1 W E) as [W1 _].
      destruct (IH br s1 W1) as [_ B]. destruct (B H) as [hx [held Hh]]; [simpl in H0; lia|]. rewrite Hh. eauto.
    + destruct (Lf eq_refl) as [hx [g1 N1]]. rewrite N1. eauto.
Qed.

Lemma gen_link n : link_at n.
Proof.
  induction n as [|n IH]; intros h t1 t2 W; [split; intros; discriminate|].
  assert (I1: den h (den h t1) = den h t1) by (apply den_idem; exact W).
  assert (I2: den h (den h t2) = den h t2) by (apply den_idem; exact W).
  assert (FV: forall t v, den h t = TVar v -> lookup v h = None).
  { intros t v E. apply (den_free W t). rewrite E. simpl. apply Nat.eqb_refl. }
  cbn [unify]. unfold mk_unify, bind.
  destruct (den h t1) as [x|x|x|v|f xs] eqn:E1; destruct (den h t2) as [y|y|y|w|g ys] eqn:E2;
    (split; [intros s' H|intros H]); try discriminate;
    try (match type of H with context[if ?c then _ else _] => destruct c eqn:C end; try discriminate);
    try (inversion H; subst; cbn [next]; eauto; fail);
    try (inversion H; subst; rewrite next_var_bind; eauto; reflexivity).
  - (* var var, same *) inversion H; subst. cbn [next]. rewrite (FV _ _ E1), I2. cbn [is_var]. rewrite Nat.eqb_sym, C. eauto.
  - inversion H; subst. cbn [next]. rewrite (FV _ _ E1), I2. cbn [is_var]. rewrite Nat.eqb_sym, C. eauto.
  - (* fun fun ok *)
    destruct (Nat.eqb (length xs) (length ys)) eqn:C2; [|discriminate].
    cbn [next]. rewrite C2. destruct (open_arr_link IH xs ys W) as [A _].
    destruct (A _ H) as [held Hh]. rewrite Hh. eauto.
  - destruct (Nat.eqb (length xs) (length ys)) eqn:C2.
    + cbn [next]. rewrite C2. destruct (open_arr_link IH xs ys W) as [_ B].
      apply Nat.eqb_eq in C2. destruct (B H C2) as [hx [held Hh]]. rewrite Hh. eauto.
    + cbn [next]. rewrite C2. eauto.
Qed.

Theorem unify_gen_matches_unify n h t1 t2 : wf h ->
  (forall s', unify n h t1 t2 = UOk s' ->
     exists g1, next n h (mk_unify h t1 t2) = Some (s', g1, true) /\ fst (close s' g1) = h) /\
  (unify n h t1 t2 = UFail -> exists g1, next n h (mk_unify h t1 t2) = Some (h, g1, false)).
Proof.
  intros W. pose proof (gen_link n) as L. destruct (L h t1 t2 W) as [A B]. split.
  - intros s' H. destruct (A _ H) as [g1 N]. exists g1. split; auto.
    pose proof (@next_fresh n h _ _ (mk_unify_fresh h t1 t2) N) as [Ho _]. apply (held_over_close Ho).
  - intros H. destruct (B H) as [hx [g1 N]].
    pose proof (@next_fresh n h _ _ (mk_unify_fresh h t1 t2) N) as [_ Hn]. destruct (Hn eq_refl) as [E _]. subst. eauto.
Qed.

(* non-vacuity: f(X, g(Y), X) = f(a, g(Z), W) under [Z := b]; three cells get bound, closing in
   creation order (X first, although W was bound last) gives back the initial heap *)
Example gen_ex :
  let h := [(2, TAtom [98%N])] in
  let t1 := TFun [102%N] [TVar 0; TFun [103%N] [TVar 1]; TVar 0] in
  let t2 := TFun [102%N] [TAtom [97%N]; TFun [103%N] [TVar 2]; TVar 3] in
  exists g1, next 10 h (mk_unify h t1 t2) = Some ([(3, TAtom [97%N]); (1, TAtom [98%N]); (0, TAtom [97%N])] ++ h, g1, true)
    /\ cells g1 = [0;1;3] /\ fst (close ([(3, TAtom [97%N]); (1, TAtom [98%N]); (0, TAtom [97%N])] ++ h) g1) = h.
Proof. eexists. vm_compute. repeat split. Qed.

(* ------------------------------------------------------------------ *)
(* fuel: a result, once returned, does not depend on the fuel; a generator that has been
   advanced once can always be resumed *)
Lemma open_arr_mono (N N':heap -> gen -> option (heap * gen * bool)) :
  (forall h g r, N h g = Some r -> N' h g = Some r) ->
  forall xs ys h r, open_arr N h xs ys = Some r -> open_arr N' h xs ys = Some r.
Proof.
  intros HN. induction xs as [|a ar IH]; intros [|b br] h r H; simpl in *; auto.
  destruct (N h (mk_unify h a b)) as [[[h1 g1] y1]|] eqn:E; [|discriminate].
  rewrite (HN _ _ _ E). destruct y1; auto.
  destruct (open_arr N h1 ar br) as [[[h2 gs] ok]|] eqn:E2; [|discriminate].
  rewrite (IH _ _ _ E2). exact H.
Qed.

Lemma next_mono_S n : forall h g r, next n h g = Some r -> next (S n) h g = Some r.
Proof.
  induction n as [|n IH]; intros h g r H; [discriminate|].
  remember (S n) as m eqn:Hm. rewrite Hm in H at 1. cbn [next] in H. cbn [next].
  destruct g as [[|]| |v t| |v|g|xs ys|held|]; auto.
  - destruct (lookup v h); auto.
    destruct (next n h (mk_unify h (TVar v) t)) as [[[h1 g1] y1]|] eqn:E; [|discriminate].
    subst m. rewrite (IH _ _ _ E). exact H.
  - destruct (next n h g) as [[[h1 g1] y1]|] eqn:E; [|discriminate].
    subst m. rewrite (IH _ _ _ E). exact H.
  - destruct (Nat.eqb (length xs) (length ys)); auto.
    destruct (open_arr (next n) h xs ys) as [[[h1 held] ok]|] eqn:E; [|discriminate].
    subst m. rewrite (open_arr_mono (next n) (next (S n)) IH _ _ _ E). exact H.
Qed.

Lemma next_mono n m h g r : next n h g = Some r -> n <= m -> next m h g = Some r.
Proof. intros H L. induction L; auto. apply next_mono_S; auto. Qed.

Lemma quiet_next_total g : quiet g -> forall h, exists n r, next n h g = Some r.
Proof.
  induction 1 as [ | | | |v|g Q IH|held Q]; intros h; try (exists 1; eexists; reflexivity).
  destruct (IH h) as [n [[[h1 g1] y1] E]]. exists (S n). cbn [next]. rewrite E.
  destruct y1; eexists; reflexivity.
Qed.

(* the same link for a unify_arrays generator created directly (Answer.match) *)
Theorem arrays_gen_matches_unify n h xs ys : wf h ->
  (forall s', unify_arrays n h xs ys = UOk s' ->
     exists g1, next (S n) h (GArrFresh xs ys) = Some (s', g1, true)) /\
  (unify_arrays n h xs ys = UFail -> exists g1, next (S n) h (GArrFresh xs ys) = Some (h, g1, false)).
Proof.
  intros W. unfold unify_arrays. cbn [next].
  destruct (Nat.eqb (length xs) (length ys)) eqn:C.
  - destruct (open_arr_link (gen_link n) xs ys W) as [A B]. split.
    + intros s' H. destruct (A _ H) as [held Hh]. rewrite Hh. eauto.
    + intros H. apply Nat.eqb_eq in C. destruct (B H C) as [hx [held Hh]].
      assert (N: next (S n) h (GArrFresh xs ys) = Some (close_all hx held, GDone, false)).
      { cbn [next]. rewrite (proj2 (Nat.eqb_eq _ _) C), Hh. reflexivity. }
      pose proof (@next_fresh (S n) h (GArrFresh xs ys) _ I N) as [_ Hn]. destruct (Hn eq_refl) as [E _].
      rewrite Hh, E. eauto.
  - split; [discriminate|]. intros _. eauto.
Qed.
