(* Evaluation-friendly twins of Unify.unify and of the generator objects of UnifyGen.v: the same
   functions with den replaced by the polynomial dfast (Term/Dfast.v).  Pointwise equal, without
   side conditions, so everything proved about the originals holds for what is executed. *)
From Coq Require Import List Arith Bool ZArith.
Import ListNotations.
From YP Require Import Base.Str Term.Term Term.Dfast Unify.Unify Unify.UnifyGen.

Fixpoint unify_x (n:nat) (s:store) (t1 t2:term) : ures :=
  match n with O => UOof | S n =>
    let r := rstore s in
    let a1 := aseq r t1 in let a2 := aseq r t2 in
    match a1, a2 with
    | TVar v, TVar w => if Nat.eqb v w then UOk s else UOk ((v,a2)::s)
    | TVar v, _ => bind s v a2
    | _, TVar w => bind s w a1
    | TAtom x, TAtom y => if str_eqb x y then UOk s else UFail
    | TInt x, TInt y => if Z.eqb x y then UOk s else UFail
    | TStr x, TStr y => if str_eqb x y then UOk s else UFail
    | TFun f xs, TFun g ys =>
        if str_eqb f g then (if Nat.eqb (length xs) (length ys) then arr (unify_x n) xs ys s else UFail) else UFail
    | _, _ => UFail
    end end.

Lemma arr_ext' (U U' : store -> term -> term -> ures) :
  (forall s a b, U s a b = U' s a b) -> forall xs ys s, arr U xs ys s = arr U' xs ys s.
Proof.
  intros H. induction xs as [|a ar IH]; intros [|b br] s; simpl; auto.
  rewrite H. destruct (U' s a b); auto.
Qed.

Lemma unify_x_eq n : forall s t1 t2, unify_x n s t1 t2 = unify n s t1 t2.
Proof.
  induction n as [|n IH]; intros s t1 t2; [reflexivity|].
  cbn [unify_x unify]. cbv zeta. rewrite !aseq_rstore.
  destruct (den s t1) as [x|x|x|v|f xs]; destruct (den s t2) as [y|y|y|w|g ys]; auto.
  destruct (str_eqb f g); auto. destruct (Nat.eqb (length xs) (length ys)); auto.
  apply arr_ext'. exact IH.
Qed.

Definition unify_arrays_x (n:nat) (s:store) (xs ys:list term) : ures :=
  if Nat.eqb (length xs) (length ys) then arr (unify_x n) xs ys s else UFail.
Lemma unify_arrays_x_eq n s xs ys : unify_arrays_x n s xs ys = unify_arrays n s xs ys.
Proof.
  unfold unify_arrays_x, unify_arrays. destruct (Nat.eqb (length xs) (length ys)); auto.
  apply arr_ext'. apply unify_x_eq.
Qed.

Definition mk_unify_x (h:heap) (t1 t2:term) : gen :=
  let r := rstore h in
  let a1 := aseq r t1 in let a2 := aseq r t2 in
  match a1, a2 with
  | TVar v, _ => GVarFresh v a2
  | _, TVar w => GVarFresh w a1
  | TAtom x, TAtom y => if str_eqb x y then GSucc false else GFail
  | TInt x, TInt y => if Z.eqb x y then GSucc false else GFail
  | TStr x, TStr y => if str_eqb x y then GSucc false else GFail
  | TFun f xs, TFun g ys => if str_eqb f g then GArrFresh xs ys else GFail
  | _, _ => GFail
  end.

Lemma mk_unify_x_eq h t1 t2 : mk_unify_x h t1 t2 = mk_unify h t1 t2.
Proof. unfold mk_unify_x, mk_unify. cbv zeta. rewrite !aseq_rstore. reflexivity. Qed.

Section OpenX.
  Variable N : heap -> gen -> option (heap * gen * bool).
  Fixpoint open_arr_x (h:heap) (xs ys:list term) : option (heap * list gen * bool) :=
    match xs, ys with
    | a::ar, b::br =>
        match N h (mk_unify_x h a b) with
        | None => None
        | Some (h1, g1, true) =>
            match open_arr_x h1 ar br with
            | None => None
            | Some (h2, gs, ok) => Some (h2, g1::gs, ok)
            end
        | Some (h1, g1, false) => Some (h1, [g1], false)
        end
    | _, _ => Some (h, [], true)
    end.
End OpenX.

Fixpoint next_x (n:nat) (h:heap) (g:gen) : option (heap * gen * bool) :=
  match n with O => None | S n =>
    match g with
    | GSucc false => Some (h, GSucc true, true)
    | GSucc true => Some (h, GSucc true, false)
    | GFail => Some (h, GFail, false)
    | GDone => Some (h, GDone, false)
    | GVarFresh v t =>
        match lookup v h with
        | None =>
            let val := dfast h t in
            if is_var v val then Some (h, GVarSelf, true)
            else Some ((v,val)::h, GVarBound v, true)
        | Some _ =>
            match next_x n h (mk_unify_x h (TVar v) t) with
            | None => None
            | Some (h', g', true) => Some (h', GVarDeleg g', true)
            | Some (h', _, false) => Some (h', GDone, false)
            end
        end
    | GVarSelf => Some (h, GDone, false)
    | GVarBound v => Some (unbind v h, GDone, false)
    | GVarDeleg g' =>
        match next_x n h g' with
        | None => None
        | Some (h', g'', true) => Some (h', GVarDeleg g'', true)
        | Some (h', _, false) => Some (h', GDone, false)
        end
    | GArrFresh xs ys =>
        if Nat.eqb (length xs) (length ys) then
          match open_arr_x (next_x n) h xs ys with
          | None => None
          | Some (h', held, true) => Some (h', GArrHeld held, true)
          | Some (h', held, false) => Some (close_all h' held, GDone, false)
          end
        else Some (h, GDone, false)
    | GArrHeld held => Some (close_all h held, GDone, false)
    end
  end.

Lemma open_arr_x_eq (N N' : heap -> gen -> option (heap * gen * bool)) :
  (forall h g, N h g = N' h g) -> forall xs ys h, open_arr_x N h xs ys = open_arr N' h xs ys.
Proof.
  intros HN. induction xs as [|a ar IH]; intros [|b br] h; cbn [open_arr_x open_arr]; auto.
  rewrite mk_unify_x_eq, HN. destruct (N' h (mk_unify h a b)) as [[[h1 g1] [|]]|]; auto. rewrite IH. reflexivity.
Qed.

Lemma next_x_eq n : forall h g, next_x n h g = next n h g.
Proof.
  induction n as [|n IH]; intros h g; [reflexivity|].
  cbn [next_x next]. destruct g as [[|]| |v t| |v|g|xs ys|held|]; auto.
  - rewrite mk_unify_x_eq, IH. unfold dfast. rewrite aseq_rstore. reflexivity.
  - rewrite IH. reflexivity.
  - rewrite (open_arr_x_eq (next_x n) (next n) IH). reflexivity.
Qed.
