import sys, os, argparse, importlib
sys.path.insert(0, os.path.dirname(os.path.abspath(__file__)))
from lib import runner

def main():
    ap = argparse.ArgumentParser()
    ap.add_argument('pid')
    ap.add_argument('--tier', default=os.environ.get('VERIF_TIER', 'quick'), choices=['quick', 'thorough'])
    ap.add_argument('--replay')
    ap.add_argument('--seed', default=os.environ.get('VERIF_SEED', '0'))
    a = ap.parse_args()
    prop = importlib.import_module('props.' + a.pid.lower())
    try:
        seed = int(a.seed)
    except ValueError:
        seed = abs(hash(a.seed)) % 10**6
    if hasattr(prop, 'run'):
        rc = prop.run(a.tier, seed, a.replay)
    else:
        rc = runner.run_check(prop, a.tier, seed, a.replay)
    sys.exit(rc)

if __name__ == '__main__':
    main()
