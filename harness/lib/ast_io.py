"""Prolog ASTs as JSON-able values (same shape as Lang/ShowAst.v prints them):
 term:   ["atom", s] | ["num", digits] | ["var", name] | ["fun", f, [args]] | ["list", [items]] | ["pair", h, t]
 body:   ["true"] | ["fail"] | ["cut"] | ["call", f, [args]] | ["and", a, b] | ["or", a, b] | ["if", c, t] | ["not", a]
 clause: [name, [args], body]            program: [clause, ...]
plus: Gallina rendering, Prolog text printing, reading the implementation's AST objects."""
import re
from .terms import g_str, g_list, g_nat

# ------------------------------------------------------------------ Gallina

def g_sterm(t):
    k = t[0]
    if k == 'atom': return '(SAtom %s)' % g_str(t[1])
    if k == 'num': return '(SNum %s)' % g_str(t[1])
    if k == 'var': return '(SVar %s)' % g_str(t[1])
    if k == 'fun': return '(SFun %s %s)' % (g_str(t[1]), g_list([g_sterm(a) for a in t[2]]))
    if k == 'list': return '(SList %s)' % g_list([g_sterm(a) for a in t[1]])
    if k == 'pair': return '(SPair %s %s)' % (g_sterm(t[1]), g_sterm(t[2]))
    raise ValueError(t)

def g_body(b):
    k = b[0]
    if k == 'true': return 'BTrue'
    if k == 'fail': return 'BFail'
    if k == 'cut': return 'BCut'
    if k == 'call': return '(BCall %s %s)' % (g_str(b[1]), g_list([g_sterm(a) for a in b[2]]))
    if k == 'and': return '(BAnd %s %s)' % (g_body(b[1]), g_body(b[2]))
    if k == 'or': return '(BOr %s %s)' % (g_body(b[1]), g_body(b[2]))
    if k == 'if': return '(BIf %s %s)' % (g_body(b[1]), g_body(b[2]))
    if k == 'not': return '(BNot %s)' % g_body(b[1])
    raise ValueError(b)

def g_clause(c):
    return '{| c_name := %s; c_args := %s; c_body := %s |}' % (g_str(c[0]), g_list([g_sterm(a) for a in c[1]]), g_body(c[2]))

def g_program(p):
    return g_list([g_clause(c) for c in p])

# ------------------------------------------------------------------ Prolog text

_PLAIN_ATOM = re.compile(r'[a-z][A-Za-z0-9_]*\Z')
BINOPS = ['=', '\\=', '==', '\\==', '<', '>', '=<', '>=']

def atom_text(s, force_quote=False):
    if not force_quote and _PLAIN_ATOM.match(s) and s not in ('true', 'fail'):
        return s
    assert '\\' not in s, 'a backslash cannot be written in a quoted atom of this grammar'
    return "'" + s.replace("'", "\\'") + "'"

def term_text(t, sugar=True):
    k = t[0]
    if k == 'atom': return atom_text(t[1])
    if k == 'num': return t[1]
    if k == 'var': return t[1]
    if k == 'fun':
        f, args = t[1], t[2]
        if sugar and f in BINOPS and len(args) == 2:
            # `term BINOP term` is left-recursive in the grammar; parenthesise operands that are themselves operators
            return '%s %s %s' % (_paren_op(args[0]), f, _paren_op(args[1]))
        if f in ('-', '+') and len(args) == 1:
            return '%s %s' % (f, _paren_op(args[0]))
        if f in BINOPS or f in ('-', '+'):
            if f in BINOPS and len(args) == 2:
                return '%s(%s,%s)' % (f, term_text(args[0]), term_text(args[1]))
            raise ValueError('operator name with this arity cannot be written: %r' % (t,))
        return '%s(%s)' % (atom_text(f), ','.join(term_text(a, sugar) for a in args))
    if k == 'list':
        return '[' + ','.join(term_text(a, sugar) for a in t[1]) + ']'
    if k == 'pair':
        items = [t[1]]
        tail = t[2]
        while tail[0] == 'pair':
            items.append(tail[1]); tail = tail[2]
        assert tail[0] == 'var', 'the tail of a [..|T] pattern must be a variable in this grammar'
        return '[' + ','.join(term_text(a, sugar) for a in items) + '|' + tail[1] + ']'
    raise ValueError(t)

def _is_op(t):
    return t[0] == 'fun' and ((t[1] in BINOPS and len(t[2]) == 2) or (t[1] in ('-', '+') and len(t[2]) == 1))

def _paren_op(t):
    s = term_text(t)
    return '(' + s + ')' if _is_op(t) else s

PRIO = {'and': 1000, 'if': 1050, 'or': 1100}

def body_text(b, ctx=1200, left=False):
    """minimal parentheses for the grammar's priorities: ',' < '->' < ';', all right-associative;
    \\+ takes a whole predicateexpression to its right (so its operand is parenthesised unless simple)."""
    k = b[0]
    if k == 'true': return 'true'
    if k == 'fail': return 'fail'
    if k == 'cut': return '!'
    if k == 'call':
        t = ['fun', b[1], b[2]] if b[2] else ['atom', b[1]]
        if b[2] == [] and not (_PLAIN_ATOM.match(b[1]) and b[1] not in ('true', 'fail')):
            return atom_text(b[1])
        return term_text(t)
    if k == 'not':
        inner = b[1]
        if inner[0] in ('true', 'fail', 'cut', 'call'):
            return '\\+ ' + body_text(inner)
        return '\\+ (' + body_text(inner) + ')'
    p = PRIO[k]
    op = {'and': ', ', 'if': ' -> ', 'or': ' ; '}[k]
    # right-associative: left operand must bind strictly tighter, right operand may be equal
    s = body_text(b[1], p - 1) + op + body_text(b[2], p)
    if p > ctx:
        return '(' + s + ')'
    return s

def clause_text(c):
    name, args, body = c
    head = term_text(['fun', name, args]) if args else atom_text(name)
    if body == ['true']:
        return head + '.'
    return head + ' :- ' + body_text(body) + '.'

def program_text(p):
    return '\n'.join(clause_text(c) for c in p) + '\n'

# ------------------------------------------------------------------ implementation AST objects

def _functor_name(f):
    """the name of a Functor object of the implementation's AST.  `1(a)` gives Functor(NumeralTerm('1'), ..): the visitor builds it
    without complaint and the compiler raises only if it reaches it; Lang/Unquote.v keeps it under the name backslash + digits
    (no atom of a source text can have a backslash in its name)."""
    from yldprolog import yp_prolog_visitor as V
    if isinstance(f.name, V.Atom): return f.name.value
    if isinstance(f.name, V.NumeralTerm): return '\\' + f.name.num
    raise ValueError('functor name is neither an atom nor a numeral')

def read_term(t):
    from yldprolog import yp_prolog_visitor as V
    if isinstance(t, V.Atom): return ['atom', t.value]
    if isinstance(t, V.NumeralTerm): return ['num', t.num]
    if isinstance(t, V.VariableTerm): return ['var', t.varname]
    if isinstance(t, V.Functor):
        return ['fun', _functor_name(t), [read_term(a) for a in t.args]]
    if isinstance(t, V.ListTerm): return ['list', [read_term(a) for a in t.items]]
    if isinstance(t, V.ListPairTerm): return ['pair', read_term(t.head), read_term(t.tail)]
    raise ValueError('not a term: %r' % (t,))

def read_body(b):
    from yldprolog import yp_prolog_visitor as V
    if isinstance(b, V.TruePredicate): return ['true']
    if isinstance(b, V.FailPredicate): return ['fail']
    if isinstance(b, V.CutPredicate): return ['cut']
    if isinstance(b, V.Predicate):
        f = b.functor
        return ['call', _functor_name(f), [read_term(a) for a in f.args]]
    if isinstance(b, V.ConjunctionPredicate): return ['and', read_body(b.lhs), read_body(b.rhs)]
    if isinstance(b, V.DisjunctionPredicate): return ['or', read_body(b.lhs), read_body(b.rhs)]
    if isinstance(b, V.IfThenPredicate): return ['if', read_body(b.condition), read_body(b.action)]
    if isinstance(b, V.NegationPredicate): return ['not', read_body(b.pred)]
    raise ValueError('not a body: %r' % (b,))

def read_clause(c):
    h = read_body(c.head)
    if h[0] != 'call':
        raise ValueError('head is not callable')
    return [h[1], h[2], read_body(c.body)]

class Ctx:
    debug_filename = ''
    debug_parser = False
    debug_generator = False
    current_source_file = ''
    outf = None

def impl_parse(source):
    """The AST the implementation's front end builds for source text: list of clauses in source
    order of their predicate groups (dict insertion order of visitProgram), as (key, clauses)."""
    import antlr4
    from yldprolog import compiler as C
    from yldprolog.prologLexer import prologLexer
    from yldprolog.prologParser import prologParser
    from yldprolog.yp_prolog_visitor import YPPrologVisitor
    inp = antlr4.InputStream(source)
    listener = C._RaisingErrorListener('')
    lexer = prologLexer(inp); lexer.removeErrorListeners(); lexer.addErrorListener(listener)
    stream = antlr4.CommonTokenStream(lexer)
    parser = prologParser(stream); parser.removeErrorListeners(); parser.addErrorListener(listener)
    tree = parser.program()
    if stream.LA(1) != antlr4.Token.EOF:
        raise C.CompilerSyntaxError('', 0, 0, 'unexpected input')
    prog = YPPrologVisitor(Ctx).visit(tree)
    return [[k[0], k[1], [read_clause(c) for c in cl]] for k, cl in prog.items()]
