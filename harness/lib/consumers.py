"""Consumer APIs of a query, Python twins of compiled clauses, and callables of every kind (shared by C05 and C20).

A query object returned by YP.query is a Python generator; its answers can be consumed in several ways that the
documentation shows: plain iteration (`for _ in q`), `YP.evaluate_bounded(q, projection, recursion_limit)`, `list(q)`
(number of answers and the yielded flags only - the bindings are undone when the generator ends), `next(q)` followed by
`q.close()` (first answer only; closing undoes its bindings).  Whatever the program does with cuts and whatever the
registered Python predicates yield, all of them must present the answers that plain iteration presents, and none may leave
anything changed behind (query variables bound, the interpreter's recursion limit)."""
import sys
import functools
from . import terms, semcheck

MAX_ANSWERS = 400       # the other consumers are run for queries that plain iteration finished with at most this many answers

def bounded_limit(k):
    """recursion limit handed to evaluate_bounded: never below the limit in force (the search must not be cut short - a
    silently truncated result would differ from plain iteration for a legitimate reason), different from it in 2 of 3 runs"""
    base = sys.getrecursionlimit()
    return [base + 700, base, base + 2500][k % 3]

def other_consumers(yp, qname, args, nq, k=0, limit=150):
    """the query qname(args) (JSON terms over nq query variables) under evaluate_bounded, list() and next()+close(), each
    with a fresh query object and fresh query variables"""
    out = {}
    base = sys.getrecursionlimit()
    # ---- evaluate_bounded
    T = terms.ImplTerms([yp], nq)
    objs = [T.build(a) for a in args]
    L = bounded_limit(k)
    end = 'done'
    res = []
    try:
        res = yp.evaluate_bounded(yp.query(qname, objs), lambda x: ([terms.term_obs(T.read(T.vars[i])) for i in range(nq)], repr(bool(x))), recursion_limit=L)
    except BaseException as e:
        if type(e).__name__ in ('CaseTimeout', 'QueryBudget', 'KeyboardInterrupt'):
            raise
        end = 'raised %s' % type(e).__name__
    out['bounded'] = {'answers': semcheck.canon_answers([r[0] for r in res[:limit]]), 'truth': [r[1] for r in res[:limit]], 'count': len(res), 'end': end,
                      'limit': L, 'reclimit': [base, sys.getrecursionlimit()], 'leftover': [i for i in range(nq) if T.vars[i]._is_bound]}
    sys.setrecursionlimit(base)
    # ---- evaluate_bounded with its default recursion limit (lower than the limit in force: the search may legitimately be cut short,
    # silently - the result is then a prefix of the answers)
    T = terms.ImplTerms([yp], nq)
    objs = [T.build(a) for a in args]
    end = 'done'
    res = []
    try:
        res = yp.evaluate_bounded(yp.query(qname, objs), lambda x: [terms.term_obs(T.read(T.vars[i])) for i in range(nq)])
    except BaseException as e:
        if type(e).__name__ in ('CaseTimeout', 'QueryBudget', 'KeyboardInterrupt'):
            raise
        end = 'raised %s' % type(e).__name__
    out['bounded_default'] = {'answers': semcheck.canon_answers(res[:limit]), 'count': len(res), 'end': end, 'reclimit': [base, sys.getrecursionlimit()]}
    sys.setrecursionlimit(base)
    del res
    # ---- list()
    T = terms.ImplTerms([yp], nq)
    objs = [T.build(a) for a in args]
    end = 'done'
    flags = []
    try:
        flags = list(yp.query(qname, objs))
    except BaseException as e:
        if type(e).__name__ in ('CaseTimeout', 'QueryBudget', 'KeyboardInterrupt'):
            raise
        end = 'raised %s' % type(e).__name__
    out['list'] = {'count': len(flags), 'truth': [repr(bool(x)) for x in flags[:limit]], 'end': end, 'leftover': [i for i in range(nq) if T.vars[i]._is_bound],
                   'reclimit': [base, sys.getrecursionlimit()]}
    # ---- next() + close()
    T = terms.ImplTerms([yp], nq)
    objs = [T.build(a) for a in args]
    end = 'done'
    first = None
    g = None
    try:
        g = yp.query(qname, objs)
        try:
            x = next(g)
            first = [[terms.term_obs(T.read(T.vars[i])) for i in range(nq)], repr(bool(x))]
        except StopIteration:
            first = None
        g.close()
    except BaseException as e:
        if type(e).__name__ in ('CaseTimeout', 'QueryBudget', 'KeyboardInterrupt'):
            raise
        end = 'raised %s' % type(e).__name__
    out['next'] = {'first': None if first is None else semcheck.canon_answers([first[0]])[0], 'truth': None if first is None else first[1], 'end': end,
                   'leftover': [i for i in range(nq) if T.vars[i]._is_bound], 'reclimit': [base, sys.getrecursionlimit()]}
    sys.setrecursionlimit(base)
    return out

def wanted(plain):
    """the other consumers are run (and compared) for a query that plain iteration finished normally"""
    return plain['end'] == 'done' and plain['count'] <= MAX_ANSWERS

def mismatch(plain, cons, limit=150):
    """None, or how a consumer API presents something else than plain iteration did (plain: answers (canonical, first `limit`),
    count, end == 'done', optionally truth = the flags yielded at the top level)"""
    if not cons:
        return None
    c = cons.get('bounded_default')
    if c:
        what = 'evaluate_bounded with its default recursion limit'
        if c['end'] != 'done':
            return '%s %s' % (what, c['end'])
        if c['reclimit'][0] != c['reclimit'][1]:
            return '%s left the interpreter\'s recursion limit changed (%d before, %d after)' % (what, c['reclimit'][0], c['reclimit'][1])
        if c['count'] > plain['count'] or c['answers'] != plain['answers'][:len(c['answers'])]:
            return '%s: its %d answers are not a prefix of the %d answers of plain iteration' % (what, c['count'], plain['count'])
    for name in ('bounded', 'list', 'next'):
        c = cons[name]
        what = {'bounded': 'evaluate_bounded(recursion_limit=%s)' % c.get('limit'), 'list': 'list(query)', 'next': 'next(query) then close()'}[name]
        if c['end'] != 'done':
            return '%s %s; plain iteration of the same query ends normally with %d answers' % (what, c['end'], plain['count'])
        if c['reclimit'][0] != c['reclimit'][1]:
            return '%s left the interpreter\'s recursion limit changed (%d before, %d after)' % (what, c['reclimit'][0], c['reclimit'][1])
        if c['leftover']:
            return '%s left query variables bound' % what
        if name == 'next':
            exp = plain['answers'][0] if plain['count'] else None
            if c['first'] != exp:
                return '%s: first answer %s, plain iteration %s' % (what, c['first'], exp)
            if plain.get('truth') and c['truth'] != plain['truth'][0]:
                return '%s: first yielded flag %s, plain iteration %s' % (what, c['truth'], plain['truth'][0])
            continue
        if c['count'] != plain['count']:
            return '%s delivers %d answers, plain iteration of the same query %d' % (what, c['count'], plain['count'])
        if name == 'bounded' and c['answers'] != plain['answers'][:limit]:
            return '%s delivers other answers than plain iteration of the same query' % what
        if plain.get('truth') is not None and c['truth'][:len(plain['truth'])] != plain['truth'][:len(c['truth'])]:
            return '%s: yielded flags %s, plain iteration %s' % (what, c['truth'], plain['truth'])
    return None

# ------------------------------------------------------------------ the Python twin of compiled clauses
#
# p(H1..Hk) :- g1(..), .., gn(..).   (goals: calls of predicates, =/2, true; no control construct)   is, written in Python,
#     def p(*args):
#         for clause in clauses: new variables; for _ in unify_arrays(args, head): for _ in yp.query(g1, ..): .. yield
# It RE-ENTERS the engine (YP.query on the same engine, inside its own loops) exactly where the compiled clause does.  `passing`
# makes it pass the flag yielded by its last goal on (`yield from`), as compiled code does for nothing - a flag means "the clause
# that produced this answer committed", never "the query has no more answers".

def twin_eligible(clauses, key, defined):
    """every clause of the predicate is a conjunction of calls of program predicates, =/2 and true"""
    def ok(b):
        if b == ['true']:
            return True
        if b[0] == 'and':
            return ok(b[1]) and ok(b[2])
        return b[0] == 'call' and (b[1] == '=' and len(b[2]) == 2 or (b[1], len(b[2])) in defined)
    cs = [c for c in clauses if (c[0], len(c[1])) == key]
    return bool(cs) and all(ok(c[2]) for c in cs)

def flat_goals(b, acc=None):
    acc = [] if acc is None else acc
    if b[0] == 'and':
        flat_goals(b[1], acc)
        flat_goals(b[2], acc)
    elif b != ['true']:
        acc.append(b)
    return acc

def build_sterm(yp, t, env):
    k = t[0]
    if k == 'atom': return yp.atom(t[1])
    if k == 'num': return int(t[1])
    if k == 'var':
        if t[1] == '_':
            return yp.variable()
        if t[1] not in env:
            env[t[1]] = yp.variable()
        return env[t[1]]
    if k == 'fun': return yp.functor(t[1], [build_sterm(yp, a, env) for a in t[2]])
    if k == 'list': return yp.makelist([build_sterm(yp, a, env) for a in t[1]])
    if k == 'pair': return yp.listpair(build_sterm(yp, t[1], env), build_sterm(yp, t[2], env))
    raise ValueError(t)

def python_twin(yp, E, clauses, key, style=0):
    """the generator function for the clauses of predicate `key`; style: 0 yields False, 1 yields True, 2 passes the flag of the last
    goal on with `yield from`"""
    cs = [c for c in clauses if (c[0], len(c[1])) == key]
    def goals(gs, i, env):
        if i == len(gs):
            yield style == 1
            return
        g = gs[i]
        args = [build_sterm(yp, a, env) for a in g[2]]
        if g[1] == '=':
            it = E.unify(args[0], args[1])
        else:
            it = yp.query(g[1], args)
        last = i == len(gs) - 1
        if last and style == 2:
            yield from it
            return
        for _ in it:
            yield from goals(gs, i + 1, env)
    def head_names(head):
        acc = []
        def walk(t):
            if t[0] == 'var': acc.append(t[1])
            elif t[0] == 'fun': [walk(x) for x in t[2]]
            elif t[0] == 'list': [walk(x) for x in t[1]]
            elif t[0] == 'pair': walk(t[1]); walk(t[2])
        [walk(h) for h in head]
        return acc
    def pred(*args):
        for name, head, body in cs:
            env = {}
            names = head_names(head)
            a1, a2 = [], []
            for h, a in zip(head, args):
                # as the compiled clause: an anonymous variable is skipped, a plain variable that occurs once in the head just
                # names the argument (the argument is not looked at), every other head argument is unified
                if h[0] == 'var' and h[1] == '_':
                    continue
                if h[0] == 'var' and names.count(h[1]) == 1:
                    env[h[1]] = a
                    continue
                a1.append(a)
                a2.append(h)
            hs = [build_sterm(yp, h, env) for h in a2]
            for _ in E.unify_arrays(a1, hs):
                yield from goals(flat_goals(body), 0, env)
    return pred

# ------------------------------------------------------------------ callables of every kind

KINDS_FIXED = ['def', 'lambda', 'method', 'partial', 'callable', 'wraps', 'wraps2', 'defaults', 'classmethod', 'staticmethod']
KINDS_EXPLICIT_ONLY = ['kwonly', 'partial_kw', 'star']        # their signatures do not have exactly k parameters: explicit arity only
KINDS_STAR = ['def', 'lambda', 'method', 'partial', 'callable', 'wraps', 'wraps2']

def make_callable(kind, k, body, star=False):
    """a callable of the given kind that takes the k arguments of the predicate (or any number: star) and returns body(args);
    for the kinds of KINDS_FIXED inspect.signature reports exactly k parameters"""
    ps = ['a%d' % i for i in range(k)]
    tup = '(%s)' % ''.join(p + ', ' for p in ps)
    sig = ', '.join(ps)
    if star:
        sig, tup = '*args', 'args'
    ns = {'body': body, 'functools': functools}
    def define(src):
        exec(src, ns)
        return ns['f']
    def comma(*parts):
        return ', '.join(p for p in parts if p)
    if kind == 'star':
        return define('def f(*args):\n    return body(args)')
    if kind == 'def':
        return define('def f(%s):\n    return body(%s)' % (sig, tup))
    if kind == 'lambda':
        return define('f = lambda %s: body(%s)' % (sig, tup))
    if kind == 'method':
        return define('class H:\n    def m(%s):\n        return body(%s)\nf = H().m' % (comma('self', sig), tup))
    if kind == 'classmethod':
        return define('class H:\n    @classmethod\n    def m(%s):\n        return body(%s)\nf = H.m' % (comma('cls', sig), tup))
    if kind == 'staticmethod':
        return define('class H:\n    @staticmethod\n    def m(%s):\n        return body(%s)\nf = H().m' % (sig, tup))
    if kind == 'partial':
        return define('def g(%s):\n    return body(%s)\nf = functools.partial(g, "tag")' % (comma('tag', sig), tup))
    if kind == 'partial_kw':
        return define('def g(%s):\n    return body(%s)\nf = functools.partial(g, tag=1)' % (comma(sig, 'tag=None'), tup))
    if kind == 'callable':
        return define('class H:\n    def __call__(%s):\n        return body(%s)\nf = H()' % (comma('self', sig), tup))
    if kind == 'wraps':
        return define('def g(%s):\n    return body(%s)\ndef deco(h):\n    @functools.wraps(h)\n    def wrapper(*args):\n        wrapper.calls += 1\n        yield from h(*args)\n'
                      '    wrapper.calls = 0\n    return wrapper\nf = deco(g)' % (sig, tup))
    if kind == 'wraps2':
        return define('def g(%s):\n    return body(%s)\ndef deco(h):\n    @functools.wraps(h)\n    def wrapper(*args, **kw):\n        return h(*args, **kw)\n    return wrapper\nf = deco(deco(g))' % (sig, tup))
    if kind == 'defaults':
        dsig = ', '.join(p + ('=None' if i >= k // 2 else '') for i, p in enumerate(ps)) if not star else sig
        return define('def f(%s):\n    return body(%s)' % (dsig, tup))
    if kind == 'kwonly':
        return define('def f(%s):\n    return body(%s)' % (comma(sig, 'trace=False') if star else comma(sig, '*', 'trace=False'), tup))
    raise ValueError(kind)
