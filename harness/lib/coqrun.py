"""Building the Coq development and evaluating model expressions inside Coq.

The model is never extracted: every model value that the correspondence check uses is
computed by `Eval vm_compute` in coqc from the compiled theories, printed with
Base.Str.show, and parsed back here.
"""
import os, re, subprocess, sys, time, shutil, concurrent.futures
from . import terms

VERIF = os.path.dirname(os.path.dirname(os.path.dirname(os.path.abspath(__file__))))
COQ = os.path.join(VERIF, 'coq')
NCPU = int(os.environ.get('VERIF_JOBS', '16'))
# coqc processes started in parallel slow each other down badly in this sandbox unless transparent
# huge pages are disabled for them (done below with prctl)
COQ_JOBS = int(os.environ.get('VERIF_COQ_JOBS', '12'))
try:
    import ctypes
    ctypes.CDLL(None).prctl(41, 1, 0, 0, 0)   # PR_SET_THP_DISABLE, inherited by coqc/make children (see tools/nothp)
except Exception:
    pass

class CoqError(Exception):
    pass

def workdir():
    d = os.path.join(VERIF, '.work', str(os.getpid()))
    os.makedirs(d, exist_ok=True)
    return d

def cleanup():
    d = os.path.join(VERIF, '.work', str(os.getpid()))
    shutil.rmtree(d, ignore_errors=True)

def build(timeout=3000):
    """(Re)build every theory; a no-op when the .vo files are current."""
    t0 = time.time()
    r = subprocess.run(['timeout', str(timeout), 'make', '-C', COQ, '-j%d' % NCPU],
                       capture_output=True, text=True)
    if r.returncode != 0:
        raise CoqError('coq build failed:\n' + (r.stdout + r.stderr)[-4000:])
    return time.time() - t0

FORBIDDEN = re.compile(r'\b(Admitted|admit|Axiom|Axioms|Parameter|Parameters|Conjecture|Conjectures|Hypothesis|Hypotheses|Variable|Variables|Admit Obligations|bypass_check|Unset Guard Checking|Unset Positivity Checking|Unset Universe Checking|type-in-type|impredicative-set)\b')

def strip_comments(src):
    out = []
    depth = 0
    i = 0
    n = len(src)
    instr = False
    while i < n:
        if not instr and src.startswith('(*', i):
            depth += 1
            i += 2
            continue
        if not instr and depth > 0 and src.startswith('*)', i):
            depth -= 1
            i += 2
            continue
        if depth == 0:
            if src[i] == '"':
                instr = not instr
            out.append(src[i])
        i += 1
    return ''.join(out)

def source_gate():
    """No axioms, admits or switched-off checks anywhere in the development.
    Variable/Hypothesis are allowed only inside a Section."""
    problems = []
    for root, _, files in os.walk(os.path.join(COQ, 'theories')):
        for f in sorted(files):
            if not f.endswith('.v'):
                continue
            p = os.path.join(root, f)
            src = strip_comments(open(p, encoding='utf8').read())
            depth = 0
            for ln, line in enumerate(src.split('\n'), 1):
                s = line.strip()
                if re.match(r'Section\b', s):
                    depth += 1
                elif re.match(r'End\b', s) and depth > 0:
                    depth -= 1
                for m in FORBIDDEN.finditer(line):
                    w = m.group(1)
                    if w in ('Variable', 'Variables', 'Hypothesis', 'Hypotheses') and depth > 0:
                        continue
                    problems.append('%s:%d: %s' % (os.path.relpath(p, COQ), ln, w))
    for extra in ('_CoqProject.head', 'Makefile'):
        s = open(os.path.join(COQ, extra)).read()
        if re.search(r'type-in-type|impredicative-set|bypass', s):
            problems.append(extra + ': forbidden flag')
    return problems

ALLOWED_AXIOMS = {
    'functional_extensionality_dep', 'proof_irrelevance', 'classic', 'JMeq_eq',
    'Eqdep.Eq_rect_eq.eq_rect_eq', 'eq_rect_eq', 'propositional_extensionality',
}

def check_property_file(pid):
    """Re-compile Properties/<pid>.v, return (theorems, assumptions) where
    assumptions maps each `Print Assumptions` target to the list of axioms it reports."""
    path = os.path.join(COQ, 'theories', 'Properties', pid + '.v')
    src = strip_comments(open(path, encoding='utf8').read())
    theorems = re.findall(r'^\s*(?:Theorem|Corollary)\s+([A-Za-z0-9_\']+)', src, re.M)
    printed = re.findall(r'^\s*Print Assumptions\s+([A-Za-z0-9_\'.]+)\s*\.', src, re.M)
    # compiled from a private copy: two checks of one property running at the same time (quick and thorough, or the
    # seeded-change driver) must not rewrite Properties/<pid>.vo under each other; that file is written by make only
    priv = os.path.join(VERIF, '.work', 'prop-%d' % os.getpid())
    os.makedirs(priv, exist_ok=True)
    cp = os.path.join(priv, pid + '_pa.v')
    shutil.copyfile(path, cp)
    try:
        r = subprocess.run(['timeout', '600', 'coqc', '-Q', os.path.join(COQ, 'theories'), 'YP',
                            '-w', '-notation-overridden,-deprecated-hint-without-locality,-deprecated-instance-without-locality',
                            cp], cwd=priv, capture_output=True, text=True)
    finally:
        shutil.rmtree(priv, ignore_errors=True)
    if r.returncode != 0:
        raise CoqError('Properties/%s.v does not compile:\n%s' % (pid, (r.stdout + r.stderr)[-3000:]))
    out = r.stdout
    # split the output in blocks, one per Print Assumptions, in order
    blocks = re.split(r'(?m)^(?=Closed under the global context|Axioms:)', out)
    blocks = [b for b in blocks if b.startswith('Closed under') or b.startswith('Axioms:')]
    assumptions = {}
    for name, b in zip(printed, blocks):
        if b.startswith('Closed'):
            assumptions[name] = []
        else:
            axs = re.findall(r'(?m)^([A-Za-z_][A-Za-z0-9_.\']*)\s*:', b[len('Axioms:'):])
            assumptions[name] = axs
    if len(blocks) != len(printed):
        raise CoqError('could not match Print Assumptions output for %s (%d blocks, %d commands)' % (pid, len(blocks), len(printed)))
    return theorems, printed, assumptions

def coqchk(pid, timeout=1800):
    """Re-check Properties/<pid>.vo and everything it depends on with the independent checker; returns
    (ok, axioms, summary text)."""
    r = subprocess.run(['timeout', str(timeout), 'coqchk', '-silent', '-o', '-Q', 'theories', 'YP', 'YP.Properties.' + pid],
                       cwd=COQ, capture_output=True, text=True)
    out = r.stdout + r.stderr
    i = out.find('CONTEXT SUMMARY')
    summary = out[i:] if i >= 0 else out[-2000:]
    axioms = []
    m = re.search(r'\* Axioms:(.*?)(?=\n\* |\Z)', summary, re.S)
    if m:
        body = m.group(1).strip()
        if body != '<none>':
            axioms = [l.strip() for l in body.split('\n') if l.strip()]
    unsafe = []
    for key in ('type-in-type', 'unsafe (co)fixpoints', 'positivity is assumed'):
        m2 = re.search(re.escape(key) + r':(.*?)(?=\n\* |\Z)', summary, re.S)
        if m2 and m2.group(1).strip() != '<none>':
            unsafe.append(key + ': ' + m2.group(1).strip()[:200])
    return (r.returncode == 0 and not unsafe), axioms, summary.strip()

HEADER = '''From Coq Require Import String List ZArith NArith Bool.
Import ListNotations.
From YP Require Import Base.Str Term.Term.
%s
Set Printing Width 2000000000.
Set Printing Depth 2000000000.
Local Open Scope string_scope.
'''

_RESULT = re.compile(r'^\s*=\s*"(.*)"(?:%string)?\s*$')

class CoqTimeout(Exception):
    pass

def _cleanup_file(path):
    for p in (path, path[:-2] + '.vo', path[:-2] + '.glob', path[:-2] + '.vok', path[:-2] + '.vos'):
        try:
            os.remove(p)
        except OSError:
            pass
    aux = os.path.join(os.path.dirname(path), '.' + os.path.basename(path)[:-2] + '.aux')
    try:
        os.remove(aux)
    except OSError:
        pass

def _run_file(args):
    idx, path, n, timeout = args
    r = subprocess.run(['timeout', str(timeout), 'coqc', '-Q', os.path.join(COQ, 'theories'), 'YP',
                        '-w', '-all', path], capture_output=True, text=True, cwd=os.path.dirname(path))
    if r.returncode in (124, 137):
        _cleanup_file(path)
        return idx, None            # too slow: the caller evaluates the expressions of this file one by one
    if r.returncode != 0:
        raise CoqError('evaluation of %s failed (exit %d):\n%s' % (path, r.returncode, (r.stdout[-1500:] + r.stderr[-3000:])))
    res = []
    for line in r.stdout.split('\n'):
        m = _RESULT.match(line)
        if m:
            res.append(m.group(1))
    if len(res) != n:
        raise CoqError('expected %d results from %s, got %d\n%s' % (n, path, len(res), r.stdout[-2000:]))
    _cleanup_file(path)
    return idx, res

MODEL_TIMEOUTS = [0]

def eval_exprs(exprs, imports, chunk=200, timeout=None, tag='cases'):
    """Evaluate Gallina expressions of type obs; returns the parsed observations.  An expression whose
    evaluation inside Coq does not finish within the time limit yields None (the case is then not compared
    with the model; the number of such cases is reported in the evidence)."""
    if not exprs:
        return []
    file_timeout = timeout or int(os.environ.get('VERIF_COQ_FILE_TIMEOUT', '240'))
    single_timeout = int(os.environ.get('VERIF_COQ_CASE_TIMEOUT', '60'))
    wd = workdir()
    imp = '\n'.join('From YP Require Import %s.' % i for i in imports)
    nfiles = max(1, min((len(exprs) + chunk - 1) // chunk, 4096))
    if nfiles < COQ_JOBS and len(exprs) >= 40 * COQ_JOBS:
        nfiles = COQ_JOBS
    chunk = (len(exprs) + nfiles - 1) // nfiles
    serial = [0]
    def write(part):
        serial[0] += 1
        path = os.path.join(wd, '%s_%d_%d.v' % (tag, os.getpid(), serial[0]))
        with open(path, 'w') as f:
            f.write(HEADER % imp)
            for e in part:
                f.write('Eval vm_compute in show (%s).\n' % e)
        return path
    jobs = []
    spans = {}
    for k in range(nfiles):
        lo, hi = k * chunk, min(len(exprs), (k + 1) * chunk)
        if lo >= hi:
            continue
        spans[k] = (lo, hi)
        jobs.append((k, write(exprs[lo:hi]), hi - lo, file_timeout))
    out = [None] * len(exprs)
    slow = []
    with concurrent.futures.ThreadPoolExecutor(max_workers=COQ_JOBS) as ex:
        for idx, res in ex.map(_run_file, jobs):
            lo, hi = spans[idx]
            if res is None:
                slow.extend(range(lo, hi))
            else:
                out[lo:hi] = [terms.parse_obs(x) for x in res]
        if slow:
            jobs2 = [(i, write([exprs[i]]), 1, single_timeout) for i in slow]
            for i, res in ex.map(_run_file, jobs2):
                if res is None:
                    MODEL_TIMEOUTS[0] += 1
                else:
                    out[i] = terms.parse_obs(res[0])
    return out
