"""Shared pieces of the C11 / C12 checks (compiler output): running compile_prolog_from_string and
classifying how it ended, the model expression (Comp/RunCompile.v: run_compile_text), generators of
boundary-size sources and of hostile quoted atoms."""
import re
from . import ast_io, progs
from .pyrepr_check import cps, g_cps, printable_table

class Ctx:
    debug_filename = ''
    debug_parser = False
    debug_generator = False
    current_source_file = ''
    outf = None

IMPORTS = ['Lang.Ast', 'Comp.RunCompile']

# ------------------------------------------------------------------ implementation

def compile_verdict(source):
    """(verdict, text_or_message, exception class name or None); verdicts as printed by Comp/RunCompile.v cresult_obs,
    plus 'resource' for a RecursionError of the host interpreter (not a function of the text: outside the model)."""
    from yldprolog import compiler
    try:
        text = compiler.compile_prolog_from_string(source, Ctx)
    except RecursionError:
        return 'resource', '', 'RecursionError'
    except Exception as e:
        cls = type(e).__name__
        msg = str(e)
        if cls == 'CompilerError' and 'program too large for Python' in msg:
            return 'too-large', msg[:200], cls
        if cls == 'ValueError' and 'integer string conversion' in msg:
            return 'reject-numeral', msg[:200], cls
        return 'reject-front', msg[:200], cls
    return 'text', text, None

# ------------------------------------------------------------------ model

def model_text_expr(source):
    c = cps(source)
    tbl = printable_table(c)
    return '(run_compile_text [%s] %s)' % ('; '.join('%d%%N' % x for x in tbl), g_cps(c))

def model_verdict(mo):
    """parsed observation -> (verdict, text)"""
    if mo[0] == 'text':
        return 'text', mo[1]
    return mo[0], None

def compare_verdicts(source, iv, itext, mo):
    """None if implementation and model agree on this source, else the reason."""
    mv, mtext = model_verdict(mo)
    if iv == 'resource':
        if source_depth(source) >= 100:
            return None
        return 'the compiler raised RecursionError on a source that is not deeply nested (model: %s)' % mv
    if iv != mv:
        return 'compiler: %s, model: %s' % (iv, mv)
    if iv == 'text' and itext != mtext:
        a, b = itext.split('\n'), mtext.split('\n')
        for i, (x, y) in enumerate(zip(a, b)):
            if x != y:
                return 'emitted text differs from the model at line %d: impl %r, model %r' % (i + 1, x, y)
        return 'emitted text differs from the model in length: %d vs %d lines' % (len(a), len(b))
    return None

def source_depth(source):
    """crude nesting measure of a source text: deepest bracket nesting, or the largest number of
    operators , ; -> | in one clause (right-nested operator chains recurse once per operator)"""
    d = m = 0
    for ch in source:
        if ch in '([':
            d += 1; m = max(m, d)
        elif ch in ')]':
            d -= 1
    ops = max((len(re.findall(r',|;|->|\\\+', cl)) for cl in source.split('.')), default=0)
    return max(m, ops)

# ------------------------------------------------------------------ boundary sizes

def nest(f, n, leaf):
    return (f + '(') * n + leaf + ')' * n

def boundary_sources():
    """fixed sources around CPython's limits (20 nested blocks, 200 nested brackets, 4300 digits)"""
    L = []
    for n in (1, 5, 10, 15, 17, 18, 19, 20, 21, 25, 40):
        L.append("p :- " + ", ".join(["q"] * n) + ".\nq.")
    for n in (1, 10, 50, 80, 95, 97, 98, 99, 100, 101, 120, 150):
        L.append("p(" + nest('f', n, 'a') + ").")
        L.append("p :- q(" + nest('f', n, 'a') + ").")
        L.append("p(" + "[" * n + "a" + "]" * n + ").")
    for n in (5, 8, 9, 10, 11, 15, 19, 22):
        L.append("p :- " + "( a -> " * n + "b" + " ; c )" * n + ".\na. b. c.")
    for n in (150, 190, 196, 197, 198, 199, 200, 201, 250):
        L.append("p([" + ",".join(["a"] * n) + "|T]).")
        L.append("p :- q([" + ",".join(["a"] * n) + "|T]).")
    for n in (1, 100, 4299, 4300, 4301, 5000):
        L.append("p(" + "1" * n + ").")
        L.append("p(" + "0" * n + ").")
        L.append("p :- fail, q(" + "1" * n + ").")         # code after fail is never generated
        L.append(":- q(" + "1" * n + ").")                  # directives are dropped
    for n in (17, 18, 19, 20, 21):
        L.append("p(" + ",".join(["a"] * n) + ").")                        # one unification loop per non-variable argument
        L.append("p(" + ",".join("X%d" % i for i in range(n)) + ").")      # aliased arguments: no loop at all
        L.append("p(" + ",".join(["X"] * n) + ").")                        # a repeated variable is not aliased
        L.append("p(a, b) :- " + ", ".join(["q"] * (n - 2)) + ".")
        L.append("p :- ( a ; " + ", ".join(["q"] * n) + " ; b ).")
        L.append("p :- \\+ (" + ", ".join(["q"] * (n - 3)) + ").")
    L.append("p :- " + " ; ".join(["q"] * 150) + ".")
    L.append("p(" + ",".join(["a"] * 3) + ", [" + ",".join(["b"] * 3000) + "]).")
    L.append("p(" + ",".join("X%d" % i for i in range(300)) + ").")
    L.append("p(" + "(" * 120 + "a" + ")" * 120 + ").")
    L.append("p :- " + "(" * 120 + "a" + ")" * 120 + ".")
    return L

def gen_boundary(rng):
    """a random source whose size is near one of the limits"""
    k = rng.randrange(7)
    if k == 0:      # goals + head unifications + an if-then-else, total near 20 blocks
        h = rng.randrange(0, 4)
        ite = rng.randrange(0, 3)
        n = max(1, rng.randrange(15, 23) - h - 2 * ite)
        goals = ['q(%s)' % rng.choice(['a', 'X', '1'])] * n
        body = ", ".join(goals)
        for _ in range(ite):
            body = "( c -> %s ; d )" % body
        return "p(%s) :- %s." % (",".join(['a'] * h), body) if h else "p :- %s." % body
    if k == 1:      # nested compound terms near 200 brackets, at a random position
        n = rng.randrange(94, 103)
        f = rng.choice(['f', "'f g'", 's'])
        inner = nest(f, n, rng.choice(['a', 'X', '[]', '[a]', '1', 'g(a)']))
        return rng.choice(["p(%s).", "p :- q(%s).", "p(x, %s).", "p :- X = %s.", "p :- q(a, [%s])."]) % inner
    if k == 2:      # nested lists
        n = rng.randrange(94, 103)
        inner = "[" * n + rng.choice(['a', '', 'X', 'f(a)']) + "]" * n
        return rng.choice(["p(%s).", "p :- q(%s).", "p :- X = %s."]) % inner
    if k == 3:      # [a,...|T]
        n = rng.randrange(194, 203)
        return rng.choice(["p([%s|T]).", "p :- q([%s|T]).", "p :- X = [%s|T]."]) % ",".join(['a'] * n)
    if k == 4:      # numerals
        n = rng.choice([4298, 4299, 4300, 4301, 4302])
        z = rng.randrange(0, 3)
        return "p(%s)." % ('0' * z + '7' * (n - z))
    if k == 5:      # nested negations / if-then-else (two blocks per level)
        n = rng.randrange(7, 12)
        return "p :- " + "( a -> " * n + "b" + " ; c )" * n + ", q" * rng.randrange(0, 3) + "."
    n = rng.randrange(7, 12)
    return "p :- " + "\\+ ( a, " * n + "b" + " )" * n + "."

# ------------------------------------------------------------------ hostile quoted atoms

HOSTILE = [
    "hello world", "it's", 'say "hi"', "'\"", "a\nb", "a\rb", "a\r\nb", "\x00", "x\ty", "\x0b\x0c", "\x7f", "\x1b[0m", "#", "# x", "%c", "a.b",
    "", " ", "  x", "[]", "A", "_x", "1a", "True", "None", "import os", "\xa0", "\u200b", "\u2028", "\u2029", "\x85", "\xad",
    "été", "中文", "\U0001F600", "e\u0301", "\ufeff", "\ud800", "\udfff", "\U0010ffff", "\uffff",
    "')", "'))", "']):", "');import os;('", "'+__import__('os').system('id')+'", "''' + x + '''", '"""', "''", "'''",
    ")\n  import os\n  x = (", "\n\nimport os\n", "a:\n pass\ndef f_1(", "):\n    pass\nimport os\ndef x_0(", "\\N{DIGIT ONE}", "{0}", "%s", "${x}", "f'{x}'",
    "__import__", "eval", "exec('x')", "lambda: 0", "[x for x in y]", "a.b.c", "a[0]", "yield", "return", "\t\tpass",
    "x" * 300, "'" * 7, '"' * 5, "';'" * 3,
]

def quote_atom(s):
    """Prolog spelling of an arbitrary atom text; None if the grammar cannot carry it (a backslash can never
    be part of an atom: unquoteString drops every backslash)"""
    if '\\' in s:
        return None
    return "'" + s.replace("'", "\\'") + "'"

# ------------------------------------------------------------------ characters that Python may read as ASCII identifier characters

import functools

_ASCII_ID = frozenset('ABCDEFGHIJKLMNOPQRSTUVWXYZabcdefghijklmnopqrstuvwxyz0123456789_')

@functools.lru_cache(None)
def unicode_classes():
    """Non-ASCII characters (BMP and the supplementary multilingual plane, computed from this interpreter's Unicode tables,
    nothing is listed by hand) that some layer of Python may take for - or turn into - an ASCII identifier character:
      case_ascii          a case mapping (lower/upper/casefold/title/swapcase) consists of ASCII letters/digits/underscore only
      case_ascii_prefix   a case mapping starts with one
      re_ignorecase       matched by the ASCII classes [a-z0-9_] under re.IGNORECASE
      norm_ascii          a normal form (NFKC/NFKD/NFC/NFD) consists of ASCII letters/digits/underscore only
      norm_ascii_prefix   a normal form starts with one
      ident_renamed       legal in a Python identifier, and NFKC (which Python applies to identifiers) changes it
      decimal_digit       str.isdecimal / isdigit (int() reads them)
      ident_start         legal as the first character of a Python identifier
      ident_cont          legal only inside a Python identifier
    -> dict name -> tuple of characters."""
    import unicodedata as U
    rx = re.compile(r'[a-z0-9_]', re.IGNORECASE)
    cl = {k: [] for k in ('case_ascii', 'case_ascii_prefix', 're_ignorecase', 'norm_ascii', 'norm_ascii_prefix', 'ident_renamed',
                          'decimal_digit', 'ident_start', 'ident_cont')}
    for cp in list(range(0x80, 0xD800)) + list(range(0xE000, 0x20000)):
        c = chr(cp)
        if U.category(c) == 'Cn':
            continue
        forms = [f for f in (c.lower(), c.upper(), c.casefold(), c.title(), c.swapcase()) if f and f != c]
        if any(all(x in _ASCII_ID for x in f) for f in forms): cl['case_ascii'].append(c)
        elif any(f[0] in _ASCII_ID for f in forms): cl['case_ascii_prefix'].append(c)
        if rx.fullmatch(c): cl['re_ignorecase'].append(c)
        nfkc = U.normalize('NFKC', c)
        forms = [f for f in (nfkc, U.normalize('NFKD', c), U.normalize('NFC', c), U.normalize('NFD', c)) if f and f != c]
        if any(all(x in _ASCII_ID for x in f) for f in forms): cl['norm_ascii'].append(c)
        elif any(f[0] in _ASCII_ID for f in forms): cl['norm_ascii_prefix'].append(c)
        start = c.isidentifier()
        cont = start or ('a' + c).isidentifier()
        if cont and nfkc != c: cl['ident_renamed'].append(c)
        if c.isdecimal() or c.isdigit(): cl['decimal_digit'].append(c)
        if start: cl['ident_start'].append(c)
        elif cont: cl['ident_cont'].append(c)
    return {k: tuple(v) for k, v in cl.items()}

SMALL_CLASS = 40      # classes with at most this many members are enumerated completely by the fixed cases

def identifier_lookalikes_small():
    """every character of the small classes (sorted, without duplicates)"""
    out = []
    for k, v in unicode_classes().items():
        if len(v) <= SMALL_CLASS:
            for c in v:
                if c not in out: out.append(c)
    return sorted(out)

def rnd_lookalike_char(rng):
    """a class first (so that a class of three characters is met as often as one of sixty thousand), then a member"""
    cl = unicode_classes()
    names = [k for k in sorted(cl) if cl[k]]
    return rng.choice(cl[rng.choice(names)])

def rnd_mixed_name(rng):
    """an otherwise ASCII identifier with one or two such characters put at the front, inside or at the end (replacing or inserted)"""
    first = 'abcdefghijklmnopqrstuvwxyzABCDEFGHIJKLMNOPQRSTUVWXYZ_'
    rest = first + '0123456789'
    s = [rng.choice(first)] + [rng.choice(rest) for _ in range(rng.choice([0, 1, 2, 3, 5, 8]))]
    for _ in range(rng.choice([1, 1, 1, 2])):
        c = rnd_lookalike_char(rng)
        pos = 0 if rng.random() < 0.4 else rng.randrange(len(s) + 1)
        if rng.random() < 0.5 and pos < len(s):
            s[pos] = c
        else:
            s.insert(pos, c)
    return ''.join(s)
