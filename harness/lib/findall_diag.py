"""Diagnosis of ONE situation in which the auxiliary SLD reference (Sem/Sld.v) and the compiled-code model (Sem/Machine.v, which
follows the engine) legitimately differ, so that the C09 check can tell it from a model inconsistency.

The engine's findall/3 does not COPY the collected instances: an unbound variable of the caller that occurs in an instance stays
the caller's variable inside the result list (standard Prolog collects renamed copies).  Machine.builtin mirrors the engine (cells
that existed before the call are kept, cells created inside the goal are renamed apart per answer).  In Sld.solve the head
unification of a renamed-apart clause binds the caller's unbound variable to the clause's fresh one, so there the same instance
holds a cell created inside the goal and is renamed apart - it behaves like a copy.  As long as the result list is only returned
the two differ in the identity of unbound variables (tolerated by semcheck.compare since round 1); when the list is unified with
an instantiated bag, or the caller's variable is bound afterwards, they differ in bindings.

outer_flags(case) re-runs the queries on a SECOND engine instance whose findall/3 is replaced by a diagnostic implementation
(collect, then unify - the repaired engine's own algorithm) that notices an instance containing an unbound variable that existed
before the findall call.  The observations that are compared come from the untouched first run; the flag only decides whether a
difference between the two Coq semantics (never one between implementation and model) is reported."""
import signal
from . import semcheck, terms

def outer_flags(case):
    from yldprolog import compiler, engine
    semcheck._install_serials(engine)
    src = semcheck.source_of(case)
    yp = engine.YP()
    yp.load_script_from_string(compiler.compile_prolog_from_string(src, semcheck.Ctx))
    state = {'outer': False}
    def findall_3(template, goal, bag):
        start = semcheck._SERIAL[0]
        insts = []
        for _ in yp.call(goal):
            t = engine.get_value(template)
            insts.append(t)
            try:
                if any(getattr(v, '_verif_serial', 0) <= start for v in semcheck._term_variables(engine, t, [])):
                    state['outer'] = True
            except RecursionError:
                state['outer'] = True
        for _ in engine.unify(bag, yp.makelist(insts)):
            yield False
    yp.eval_context['findall_3'] = findall_3
    flags = []
    for q in case['queries']:
        args, nq = semcheck.query_terms(q)
        T = terms.ImplTerms([yp], nq)
        objs = [T.build(a) for a in args]
        state['outer'] = False
        outer_left, _ = signal.getitimer(signal.ITIMER_REAL)
        outer_handler = signal.signal(signal.SIGALRM, semcheck._budget_alarm)
        signal.setitimer(signal.ITIMER_REAL, semcheck.QUERY_BUDGET)
        g = None
        try:
            try:
                g = yp.query(q[0], objs)
                n = 0
                for _ in g:
                    n += 1
                    if n >= semcheck.CAP:
                        break
            except (semcheck.QueryBudget, RecursionError, Exception):
                pass
            finally:
                signal.setitimer(signal.ITIMER_REAL, 0)
        except semcheck.QueryBudget:
            pass
        finally:
            signal.setitimer(signal.ITIMER_REAL, 0)
            if g is not None and hasattr(g, 'close'):
                try:
                    g.close()
                except Exception:
                    pass
            signal.signal(signal.SIGALRM, outer_handler if outer_handler is not None else signal.SIG_DFL)
            if outer_left > 0:
                signal.setitimer(signal.ITIMER_REAL, max(0.05, outer_left))
        flags.append(bool(state['outer']))
    return flags
