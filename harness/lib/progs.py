"""Random Prolog programs as ASTs (JSON shape of lib/ast_io.py).

A generated program is a dict:
  clauses:  [[name, [args], body], ...]  source order; anonymous variables are ["var", "_"]
  queries:  [[name, [args]], ...]        query terms use ["var", "Q0"], ["var", "Q1"], ...
Calls go "downwards" (predicate i only calls predicates with a larger index) unless a recursive
template is used, so every query terminates.  Leaf predicates are facts with a prescribed number of
solutions that bind their argument to a distinct atom, so an answer identifies its path.
"""
import copy

ATOMS = ['a', 'b', 'c', '[]']
VARS = ['X', 'Y', 'Z', 'W', 'V']

class Opts:
    def __init__(self, **kw):
        self.control = False       # ; -> \+
        self.cut = False           # ! in transparent positions
        self.opaque_cut = False    # ! also inside conditions / under \+
        self.builtins = False      # call/N once findall
        self.eqneq = True          # = and \=
        self.recursion = True      # list recursion templates
        self.exotic_atoms = False  # quoted atoms with odd characters (needs full repr model)
        self.max_preds = 5
        self.cut_tail = 0.0        # probability that a clause body gets a cut as its LAST goal
        self.forwarders = 0.0      # probability that a clause is a pure forwarder  p(..) :- q(..).
        self.open_leaves = 0.0     # probability that a leaf fact's argument is a structure with fresh variables
        self.deep = False
        self.bag_shapes = 0.0      # probability that the bag of a generated findall/3 is not a plain variable (see bag_shape)
        self.churn = 0.0           # probability that the clauses of a predicate reuse the same variable names in changing roles (see gen_program)
        self.contdup = 0.0         # probability that a clause body has the shape  (A ; B), K  /  (C -> T ; E), K  (see contdup_body)
        # round 4 (lib/progs_r4.py); every option is "off" by default and then draws no random number
        self.numerals = 0.0        # probability that a leaf of a generated term is a numeral in one of its spellings (007, 00, 0, large)
        self.constcmp = 0.0        # probability that an atomic goal is  L = R  /  L \= R  between two constants / ground terms
        self.negbuiltin = 0.0      # probability that a leaf of a body is  \+ <builtin goal with unifiable arguments>  + an observer of the variables
        self.localcut3 = 0.0       # probability that a clause body is a three-level nesting of local-cut constructs (progs_r4.local_cut3_body)
        self.__dict__.update(kw)

def V(n): return ['var', n]
def A(n): return ['atom', n]
def F(f, *args): return ['fun', f, list(args)]

def rand_atom(rng, o):
    if o.exotic_atoms and rng.random() < 0.3:
        return A(rng.choice(["hello world", "it's", 'say "hi"', "a\nb", "été", "中文", "x\ty", "tab\x0b", "[]", "A", "_x", "1a", "", "\U0001F600", "é", "\x7f", " ", "'", '"', "'\"", "#", "%c", "a.b", "\xa0", "​", "\r"]))
    return A(rng.choice(ATOMS))

def rand_sterm(rng, o, vars_, depth, pvar=0.45, anon=True):
    r = rng.random()
    if depth <= 0 or r < 0.5:
        if o.numerals and rng.random() < o.numerals:
            from . import progs_r4
            return progs_r4.rand_numeral(rng)
        q = rng.random()
        if vars_ and q < pvar:
            return V(rng.choice(vars_))
        if anon and q < pvar + 0.07:
            return V('_')
        if q > 0.93:
            return ['num', rng.choice(['0', '1', '2', '7', '10', '007', '00', '123456789012345678901234567890'])]
        return rand_atom(rng, o)
    if r < 0.72:
        f, n = rng.choice([('f', 1), ('g', 2), ('h', 3), ('f', 2)])
        return ['fun', f, [rand_sterm(rng, o, vars_, depth - 1, pvar, anon) for _ in range(n)]]
    if r < 0.9:
        n = rng.randrange(0, 4)
        items = [rand_sterm(rng, o, vars_, depth - 1, pvar, anon) for _ in range(n)]
        if items and vars_ and rng.random() < 0.4:
            t = V(rng.choice(vars_ + (['_'] if anon else [])))
            for x in reversed(items):
                t = ['pair', x, t]
            return t
        return ['list', items]
    if r < 0.95:
        return ['fun', rng.choice(['-', '+']), [rand_sterm(rng, o, vars_, depth - 1, pvar, anon)]]
    return rand_atom(rng, o)

def generalize(rng, t, vars_):
    """a term that is (nearly) unifiable with t: subterms replaced by variables, proper lists re-spelled as
    [H|T] patterns, occasionally one leaf changed"""
    k = t[0]
    r = rng.random()
    if r < 0.2:
        return V(rng.choice(vars_ + ['_']))
    if k == 'list' and t[1]:
        items = [generalize(rng, x, vars_) for x in t[1]]
        q = rng.random()
        if q < 0.5:
            n = rng.randrange(1, len(items) + 1)
            tail = V(rng.choice(vars_ + ['_']))      # the grammar only allows a variable after |
            out = tail
            for x in reversed(items[:n]):
                out = ['pair', x, out]
            return out
        return ['list', items]
    if k == 'pair':
        tl = generalize(rng, t[2], vars_)
        if tl[0] not in ('var', 'pair'):
            tl = t[2]
        return ['pair', generalize(rng, t[1], vars_), tl]
    if k == 'fun':
        return ['fun', t[1], [generalize(rng, x, vars_) for x in t[2]]]
    if k == 'atom' and r > 0.93:
        return A(rng.choice(ATOMS))
    return t

def _goal(rng, o, callees, vars_, depth=2):
    """an atomic goal"""
    if o.constcmp and rng.random() < o.constcmp:
        from . import progs_r4
        return progs_r4.const_comparison(rng)
    r = rng.random()
    if o.eqneq and r < 0.22:
        op = '=' if rng.random() < 0.7 else '\\='
        if rng.random() < 0.4:
            # a structured term against a generalisation / re-spelling of itself (list literal vs [H|T] pattern,
            # subterms replaced by variables, one leaf changed): most such pairs nearly unify
            t1 = rand_sterm(rng, o, vars_, 3, pvar=0.25)
            if rng.random() < 0.5:
                t1 = ['list', [rand_sterm(rng, o, vars_, 1, pvar=0.25) for _ in range(rng.randrange(1, 4))]]
                if rng.random() < 0.4:
                    t1 = ['fun', rng.choice(['f', 'g']), [t1]]
            t2 = generalize(rng, t1, vars_ or ['W'])
            return ['call', op, [t1, t2] if rng.random() < 0.5 else [t2, t1]]
        lhs = V(rng.choice(vars_)) if vars_ and rng.random() < 0.8 else rand_sterm(rng, o, vars_, 1)
        if vars_ and rng.random() < 0.3:
            return ['call', op, [lhs, V(rng.choice(vars_))]]      # aliasing of two variables
        return ['call', op, [lhs, rand_sterm(rng, o, vars_, depth)]]
    if r < 0.27:
        return ['true']
    if r < 0.31:
        return ['fail']
    if not callees:
        return ['true']
    name, ar = rng.choice(callees)
    if name in ('mem', 'app', 'len'):
        lst = ['list', [A(rng.choice(ATOMS)) for _ in range(rng.randrange(0, 4))]]
        x = V(rng.choice(vars_)) if vars_ else V('_')
        y = V(rng.choice(vars_)) if vars_ else V('_')
        if name == 'mem': return ['call', name, [x, lst]]
        if name == 'app': return ['call', name, rng.choice([[x, y, lst], [lst, ['list', [A('c')]], x]])]
        return ['call', name, [lst, x]]
    args = []
    for _ in range(ar):
        if vars_ and rng.random() < 0.7:
            args.append(V(rng.choice(vars_)))
        else:
            args.append(rand_sterm(rng, o, vars_, 1))
    return ['call', name, args]

def _meta(rng, o, callees, vars_):
    """a goal using call/N, once/1 or findall/3; the goal term is written inline or arrives in a variable"""
    g = None
    for _ in range(4):
        g = _goal(rng, o, callees, vars_)
        if g[0] == 'call':
            break
    if g[0] != 'call':
        return g
    goal_term = ['fun', g[1], g[2]] if g[2] else A(g[1])
    pre = None
    if rng.random() < 0.4:
        gv = V(rng.choice(['G', 'G2']))
        pre = ['call', '=', [gv, goal_term]]
        if rng.random() < 0.3:
            gv2 = V('G3')
            pre = ['and', pre, ['call', '=', [gv2, gv]]]
            gv = gv2
        gt = gv
    else:
        gt = goal_term
    r = rng.random()
    if pre is not None and g[2]:
        r = 0.6 + 0.4 * r if rng.random() < 0.5 else r      # more call/N with extra arguments on a goal held in a variable
    if r < 0.3:
        m = ['call', 'once', [gt]]
    elif r < 0.6:
        tmpl = rng.choice([V(rng.choice(vars_)), F('t', V(rng.choice(vars_)), V(rng.choice(vars_)))]) if vars_ else A('x')
        m = ['call', 'findall', [tmpl, gt, V(rng.choice(vars_ + ['L'])) if vars_ else V('L')]]
        if o.bag_shapes and rng.random() < o.bag_shapes:
            tv = _tvars(tmpl)
            m[2][2] = bag_shape(rng, vars_, fresh=('T', 'L'), atoms=ATOMS[:3] + ['q0_0', 'q0_1', 'q1_0'], tails=[v for v in vars_ if v not in tv])
    elif r < 0.8 and g[2] and g[1] not in ('=', '\\='):
        k = rng.randrange(1, len(g[2]) + 1)
        part = ['fun', g[1], g[2][:-k]] if g[2][:-k] else A(g[1])
        if pre is not None:
            pre = ['call', '=', [V('G'), part]]
            part = V('G')
        m = ['call', 'call', [part] + g[2][-k:]]
    else:
        m = ['call', 'call', [gt]]
    if pre is not None and rng.random() < 0.5:
        # a goal with several solutions between the binding of the goal variable and its use: the
        # meta-call is re-entered on backtracking with the same goal term
        return ['and', pre, ['and', _goal(rng, o, callees, vars_), m]]
    return ['and', pre, m] if pre is not None else m

def rand_body(rng, o, callees, vars_, size, opaque=False, top=True):
    if size <= 1:
        if o.negbuiltin and vars_ and rng.random() < o.negbuiltin:
            from . import progs_r4
            return progs_r4.neg_builtin_fragment(rng, vars_)
        r = rng.random()
        if o.cut and r < 0.12 and (not opaque or o.opaque_cut):
            return ['cut']
        if o.builtins and r < 0.3:
            return _meta(rng, o, callees, vars_)
        return _goal(rng, o, callees, vars_)
    r = rng.random()
    k = rng.randrange(1, size)
    if not o.control or r < 0.5:
        return ['and', rand_body(rng, o, callees, vars_, k, opaque, False), rand_body(rng, o, callees, vars_, size - k, opaque, False)]
    if r < 0.65:
        return ['or', rand_body(rng, o, callees, vars_, k, opaque, False), rand_body(rng, o, callees, vars_, size - k, opaque, False)]
    if r < 0.82:
        k2 = rng.randrange(0, max(1, size - k)) if size - k > 1 else 0
        cond = rand_body(rng, o, callees, vars_, k, True, False)
        then = rand_body(rng, o, callees, vars_, max(1, size - k - k2), opaque, False)
        if k2 == 0 and rng.random() < 0.35:
            return ['if', cond, then]
        return ['or', ['if', cond, then], rand_body(rng, o, callees, vars_, max(1, k2), opaque, False)]
    if r < 0.92:
        return ['not', rand_body(rng, o, callees, vars_, size - 1, True, False)]
    return ['and', rand_body(rng, o, callees, vars_, k, opaque, False), rand_body(rng, o, callees, vars_, size - k, opaque, False)]

REC_TEMPLATES = [
    # (name, arity, clauses)
    ('mem', 2, [['mem', [V('X'), ['pair', V('X'), V('_')]], ['true']],
                ['mem', [V('X'), ['pair', V('_'), V('T')]], ['call', 'mem', [V('X'), V('T')]]]]),
    ('app', 3, [['app', [['list', []], V('L'), V('L')], ['true']],
                ['app', [['pair', V('H'), V('T')], V('L'), ['pair', V('H'), V('R')]], ['call', 'app', [V('T'), V('L'), V('R')]]]]),
    ('len', 2, [['len', [['list', []], A('z')], ['true']],
                ['len', [['pair', V('_'), V('T')], ['fun', 's', [V('N')]]], ['call', 'len', [V('T'), V('N')]]]]),
]

def gen_program(rng, o):
    npred = rng.randrange(2, o.max_preds + 1)
    preds = []
    for i in range(npred):
        preds.append(('p%d' % i, rng.choice([0, 1, 1, 2, 2, 3])))
    nleaf = rng.randrange(1, 4)
    leaves = [('q%d' % i, 1) for i in range(nleaf)]
    clauses = []
    rec = []
    if o.recursion and rng.random() < 0.35:
        t = rng.choice(REC_TEMPLATES)
        rec.append((t[0], t[1]))
        clauses_rec = copy.deepcopy(t[2])
    else:
        clauses_rec = []
    all_callees = preds + leaves + rec
    for i, (name, ar) in enumerate(preds):
        callees = preds[i + 1:] + leaves + leaves + rec
        ncl = rng.choice([1, 1, 2, 2, 3, 4])
        # "role churn": all clauses of the predicate use the same variable name for the same argument position, but in changing roles -
        # plain argument (the compiler merely names the argument), nested in a structure, repeated in the head, only in the body,
        # absent - so that anything the compiler keeps from one clause of a function to the next is visible
        sig = None
        if o.churn and ar > 0 and rng.random() < o.churn:
            ncl = rng.choice([3, 3, 4, 5])
            sig = rng.sample(VARS, ar) if rng.random() < 0.7 else [rng.choice(VARS[:2]) for _ in range(ar)]
        for ci in range(ncl):
            nv = rng.randrange(0, len(VARS) + 1)
            vars_ = VARS[:nv]
            if sig is not None:
                vars_ = list(dict.fromkeys(sig + vars_[:2]))
            head = []
            for hk in range(ar):
                q = rng.random()
                if sig is not None:
                    if q < 0.45: head.append(V(sig[hk]))
                    elif q < 0.60: head.append(rng.choice([F('f', V(sig[hk])), ['list', [V(sig[hk])]], ['pair', V(sig[hk]), V('_')], F('g', V(sig[hk]), V(sig[hk]))]))
                    elif q < 0.70: head.append(V(rng.choice(sig)))
                    elif q < 0.82: head.append(rand_atom(rng, o))
                    elif q < 0.88: head.append(V('_'))
                    else: head.append(rand_sterm(rng, o, vars_, 2))
                elif vars_ and q < 0.5:
                    head.append(V(rng.choice(vars_)))
                elif q < 0.58:
                    head.append(V('_'))
                else:
                    head.append(rand_sterm(rng, o, vars_, 2 if not o.deep else 4))
            size = rng.choice([0, 1, 1, 2, 2, 3, 4, 5] if not o.deep else [1, 2, 3, 5, 7, 9])
            body = ['true'] if size == 0 else rand_body(rng, o, callees, vars_, size)
            if o.contdup and rng.random() < o.contdup:
                hv = list(dict.fromkeys(a[1] for a in head if a[0] == 'var' and a[1] != '_'))
                body = contdup_body(rng, o, callees, (hv + hv + vars_[:2]) or ['W'])
                if ci == ncl - 1:
                    # a following clause, so that a break / return that wrongly leaves the clause is visible
                    clauses.append([name, head, body])
                    head = [rng.choice([V('_'), A('after'), V('X')]) for _ in range(ar)]
                    body = ['true']
            if o.localcut3 and rng.random() < o.localcut3:
                from . import progs_r4
                hv = list(dict.fromkeys(a[1] for a in head if a[0] == 'var' and a[1] != '_'))
                body = progs_r4.local_cut3_body(rng, (hv + hv + vars_[:2]) or ['W'], [c[0] for c in callees if c[0].startswith('q')])
                if rng.random() < 0.4:
                    body = ['and', body, _succ_goal(rng, o, callees, (hv + vars_[:2]) or ['W'])]
                if ci == ncl - 1:
                    clauses.append([name, head, body])
                    head = [rng.choice([V('_'), A('after'), V('X')]) for _ in range(ar)]
                    body = ['true']
            if o.forwarders and callees and rng.random() < o.forwarders:
                cn, car = rng.choice(callees)
                if cn not in ('mem', 'app', 'len'):
                    hv = [a for a in head if a[0] == 'var' and a[1] != '_']
                    body = ['call', cn, [(rng.choice(hv) if hv and rng.random() < 0.8 else rand_sterm(rng, o, vars_, 1)) for _ in range(car)]]
            if o.cut and o.cut_tail and rng.random() < o.cut_tail and body not in (['true'], ['fail']):
                body = ['and', body, ['cut']]
            clauses.append([name, head, body])
    for k, (name, ar) in enumerate(leaves):
        nsol = rng.choice([0, 1, 2, 3]) if k > 0 else rng.choice([1, 2, 3])
        for j in range(nsol):
            if rng.random() < o.open_leaves:
                # the answer still identifies its path (functor name) but carries variables created by the activation
                sh = rng.choice([[V('_')], [V('_'), V('_')], [V('W'), V('W')], [V('_'), A('k')]])
                clauses.append([name, [['fun', '%s_%d' % (name, j), sh]], ['true']])
            else:
                clauses.append([name, [A('%s_%d' % (name, j))], ['true']])
        if nsol == 0:
            clauses.append([name, [A('never')], ['fail']])
    # interleave clause groups sometimes (grouping by key must follow first occurrence)
    if rng.random() < 0.2 and len(clauses) > 2:
        i = rng.randrange(len(clauses)); c = clauses.pop(i); clauses.insert(rng.randrange(len(clauses) + 1), c)
    clauses.extend(clauses_rec)
    # queries
    queries = []
    for name, ar in preds[:3] + rec:
        for _ in range(2):
            args = []
            for j in range(ar):
                q = rng.random()
                if q < 0.6:
                    args.append(V('Q%d' % rng.randrange(0, max(1, ar))))
                else:
                    args.append(rand_sterm(rng, o, ['Q0', 'Q1'], 2, anon=False))
            if name in ('mem', 'app', 'len'):
                # only modes in which the recursion is bounded by a list of known length
                lst = ['list', [rand_atom(rng, o) if rng.random() < 0.7 else V('Q1') for _ in range(rng.randrange(0, 4))]]
                if name == 'mem': args = [rng.choice([V('Q0'), A('a'), F('f', V('Q0'))]), lst]
                elif name == 'app': args = rng.choice([[V('Q0'), V('Q2'), lst], [lst, ['list', [A('c')]], V('Q0')], [lst, V('Q0'), V('Q2')]])
                else: args = [lst, V('Q0')]
            queries.append([name, args])
    return {'clauses': clauses, 'queries': queries}

def _conj(goals):
    out = goals[-1]
    for g in reversed(goals[:-1]):
        out = ['and', g, out]
    return out

def gen_alias_program(rng):
    """programs about variable-variable bindings: predicates whose clauses only alias their arguments (in different
    ways in different clauses, so that backtracking undoes one aliasing and makes another), called from a clause
    that aliases, calls, looks at and finally binds the variables; queries with unbound and shared arguments"""
    clauses = []
    nch = rng.randrange(1, 3)
    for i in range(nch):
        for _ in range(rng.randrange(2, 4)):
            goals = []
            for _ in range(rng.randrange(1, 3)):
                a, b = rng.sample(['X', 'Y', 'Z', 'T'], 2)
                goals.append(['call', '=', [V(a), V(b)]])
            if rng.random() < 0.25:
                goals.append(['call', '=', [V(rng.choice(['X', 'Y', 'Z'])), rng.choice([A('k'), F('f', V('T')), V('_')])]])
            clauses.append(['ch%d' % i, [V('X'), V('Y'), V('Z')], _conj(goals)])
    clauses.append(['touch', [V('_'), V('_')], ['true']])
    clauses.append(['same', [V('X'), V('X')], ['true']])
    clauses.append(['pick', [A('a')], ['true']]); clauses.append(['pick', [A('b')], ['true']])
    mv = ['A', 'B', 'C', 'D', 'E']
    for _ in range(rng.randrange(1, 3)):
        goals = []
        for _ in range(rng.randrange(4, 9)):
            r = rng.random()
            if r < 0.25:
                a, b = rng.sample(mv, 2); goals.append(['call', '=', [V(a), V(b)]])
            elif r < 0.5:
                goals.append(['call', 'ch%d' % rng.randrange(nch), [V(x) for x in rng.sample(mv, 3)]])
            elif r < 0.62:
                goals.append(['call', 'touch', [V(rng.choice(mv)), V(rng.choice(mv + ['_']))]])
            elif r < 0.72:
                goals.append(['call', 'same', [V(rng.choice(mv)), V(rng.choice(mv))]])
            elif r < 0.82:
                goals.append(['call', 'pick', [V(rng.choice(mv))]])
            else:
                goals.append(['call', '=', [V(rng.choice(mv)), A(rng.choice(['one', 'two', 'three']))]])
        for v in rng.sample(mv, rng.randrange(1, 4)):
            goals.append(['call', '=', [V(v), A(rng.choice(['one', 'two', 'three']))]])
        clauses.append(['main', [V('A'), V('B'), V('C')], _conj(goals)])
    queries = [['main', [V('Q0'), V('Q1'), V('Q2')]], ['main', [V('Q0'), V('Q0'), V('Q1')]], ['main', [V('Q0'), A('two'), V('Q1')]]]
    return {'clauses': clauses, 'queries': queries}

def exhaustive_bodies(max_leaves=3):
    """ALL clause bodies with at most max_leaves leaves over the leaf goals {q0(V) (no solution), q1(V) (one), q2(V) (two),
    true, fail, !, V = a} and the constructs ',', ';', '->' (also without else), with \\+ applied to the whole body or not;
    the i-th leaf uses the i-th head variable, so every answer names its path.  Yields (body, number of leaves)."""
    VN = ['A', 'B', 'C', 'D']
    def leaves(i):
        v = V(VN[i])
        return [['call', 'q0', [v]], ['call', 'q1', [v]], ['call', 'q2', [v]], ['true'], ['fail'], ['cut'], ['call', '=', [v, A('a')]]]
    def trees(lo, n):
        """all bodies with exactly n leaves using head variables lo .. lo+n-1"""
        if n == 1:
            for l in leaves(lo):
                yield l
            return
        for k in range(1, n):
            for a in trees(lo, k):
                for b in trees(lo + k, n - k):
                    yield ['and', a, b]
                    yield ['or', a, b]
                    yield ['if', a, b]
                    if n - k >= 2 or True:
                        pass
        # if-then-else needs three parts
        if n >= 3:
            for k1 in range(1, n - 1):
                for k2 in range(1, n - k1):
                    for c in trees(lo, k1):
                        for t in trees(lo + k1, k2):
                            for e in trees(lo + k1 + k2, n - k1 - k2):
                                yield ['or', ['if', c, t], e]
    for n in range(1, max_leaves + 1):
        for b in trees(0, n):
            yield b, n
            yield ['not', b], n

EXH_FACTS = [['q1', [A('a')], ['true']], ['q2', [A('a')], ['true']], ['q2', [A('b')], ['true']], ['q0', [A('never')], ['fail']]]

def exhaustive_cases(max_leaves=3, cont=True):
    """one program per body of exhaustive_bodies: p(A,B,C,D) :- body [, D = end].  plus a second clause, so that a cut is observable"""
    for b, n in exhaustive_bodies(max_leaves):
        body = ['and', b, ['call', '=', [V('D'), A('end')]]] if cont else b
        clauses = [['p', [V('A'), V('B'), V('C'), V('D')], body], ['p', [A('second'), A('clause'), V('_'), V('_')], ['true']]] + EXH_FACTS
        yield {'clauses': clauses, 'queries': [['p', [V('Q0'), V('Q1'), V('Q2'), V('Q3')]]], 'origin': 'exhaustive'}

# ------------------------------------------------------------------ anonymous variables

def number_anons(clauses):
    """the AST the visitor builds: every `_` becomes x1, x2, ... in textual order over the whole source"""
    counter = [0]
    def t(x):
        k = x[0]
        if k == 'var':
            if x[1] == '_':
                counter[0] += 1
                return ['var', 'x%d' % counter[0]]
            return x
        if k == 'fun': return ['fun', x[1], [t(a) for a in x[2]]]
        if k == 'list': return ['list', [t(a) for a in x[1]]]
        if k == 'pair':
            # textual order of [a,b|T]: items first, the tail variable last
            items = [x[1]]; tail = x[2]
            while tail[0] == 'pair':
                items.append(tail[1]); tail = tail[2]
            items = [t(a) for a in items]
            r = t(tail)
            for a in reversed(items):
                r = ['pair', a, r]
            return r
        return x
    def b(x):
        k = x[0]
        if k == 'call': return ['call', x[1], [t(a) for a in x[2]]]
        if k in ('and', 'or', 'if'):
            l = b(x[1]); r = b(x[2])
            return [k, l, r]
        if k == 'not': return ['not', b(x[1])]
        return x
    out = []
    for name, args, body in clauses:
        a2 = [t(a) for a in args]
        out.append([name, a2, b(body)])
    return out

def head_keys(clauses):
    keys = []
    for name, args, _ in clauses:
        k = (name, len(args))
        if k not in keys:
            keys.append(k)
    return keys

def constructs(body, acc=None):
    if acc is None:
        acc = set()
    acc.add(body[0])
    if body[0] in ('and', 'or', 'if'):
        constructs(body[1], acc); constructs(body[2], acc)
    elif body[0] == 'not':
        constructs(body[1], acc)
    elif body[0] == 'call':
        acc.add('call:' + body[1] if body[1] in ('=', '\\=', 'call', 'once', 'findall') else 'call')
    return acc

def has_opaque_cut(body, opaque=False):
    k = body[0]
    if k == 'cut':
        return opaque
    if k == 'and' or k == 'or':
        return has_opaque_cut(body[1], opaque) or has_opaque_cut(body[2], opaque)
    if k == 'if':
        return has_opaque_cut(body[1], True) or has_opaque_cut(body[2], opaque)
    if k == 'not':
        return has_opaque_cut(body[1], True)
    return False

# ------------------------------------------------------------------ meta-call builtins whose arguments share variables with the goal
# (added for C09, round 3).  The property says what call/N, once/1, findall/3, = and \= compute from the answers of the
# goal "on its own"; an implementation can get that wrong only where the builtin's OTHER arguments (the bag of findall,
# the extra arguments of call/N, the terms of = and \=) interact with the running goal.  So: goals whose answers - their
# number, their values, the existence of LATER answers - depend on the binding state of the caller's variables, called
# through the builtins with arguments of every shape that share those variables.

META_ATOMS = ['a', 'b', 'c']

def bag_shape(rng, shared, fresh=('T', 'L'), atoms=META_ATOMS, anon=True, tails=None):
    """a bag argument for findall/3: unbound variable, closed list (length 0..3), partial list [..|T], rarely not a list.
    `shared` are variables that occur in the template / the goal / the clause head; elements and tails are drawn from them,
    from fresh variables and from the atoms the goals answer with."""
    shared = list(shared)
    tails = shared if tails is None else list(tails)       # variables that may be the whole bag / the tail of a partial list
    def elem():
        q = rng.random()
        if q < 0.40: return A(rng.choice(atoms))
        if q < 0.70 and shared: return V(rng.choice(shared))
        if q < 0.80 and anon: return V('_')
        if q < 0.88: return V(rng.choice(list(fresh)))
        if q < 0.94 and shared: return F('f', V(rng.choice(shared)))
        return A(rng.choice(atoms + ['z']))
    r = rng.random()
    if r < 0.18:
        return V(rng.choice(list(fresh) + tails))
    if r < 0.42:
        # only atoms: a closed list, or a ground prefix before a fresh tail
        items = [A(rng.choice(atoms)) for _ in range(rng.choice([0, 1, 1, 2, 2, 3]))]
        if items and rng.random() < 0.35:
            out = V(rng.choice(list(fresh)))
            for x in reversed(items):
                out = ['pair', x, out]
            return out
        return ['list', items]
    if r < 0.60:
        return ['list', [elem() for _ in range(rng.choice([0, 1, 1, 2, 2, 3]))]]
    if r < 0.95:
        tail = V(rng.choice(list(fresh) + list(fresh) + tails + (['_'] if anon else [])))
        out = tail
        for _ in range(rng.choice([1, 1, 1, 2, 2, 3])):
            out = ['pair', elem(), out]
        return out
    return rng.choice([A('a'), F('f', V(rng.choice(shared or ['T']))), A('[]')])

def _sensitive_clause(rng, name, lower):
    """one clause of a predicate name(V, X) whose answers depend on what V (and X) are bound to at the call"""
    q = rng.random()
    h1 = V('V') if q < 0.72 else A(rng.choice(META_ATOMS)) if q < 0.87 else V('_') if q < 0.95 else F('f', V('V'))
    struct = rng.random() < 0.3       # X gets a structure around V in this clause, or (else) may be aliased to V: never both (cyclic)
    q = rng.random()
    h2 = V('X') if q < 0.66 else A(rng.choice(META_ATOMS)) if q < 0.78 else V('V') if q < 0.90 and not struct else F('f', V('V')) if struct else V('X')
    at = lambda: A(rng.choice(META_ATOMS))
    def g():
        q = rng.random()
        if q < 0.20 and not struct: return ['call', '=', [V('X'), V('V')]]      # the caller's own variable ends up inside the answer
        if q < 0.32: return ['call', '=', [V('X'), at()]]
        if q < 0.40 and struct: return ['call', '=', [V('X'), rng.choice([F('f', V('V')), ['list', [V('V')]], F('g', V('V'), V('W'))])]]
        if q < 0.50: return ['call', '=', [V('V'), at()]]
        if q < 0.66: return ['call', '\\=', [V('V'), at()]]                     # succeeds only if V is bound, to something else
        if q < 0.71: return ['call', '\\=', [V('X'), rng.choice([at(), V('V')])]]
        if q < 0.83: return ['call', 'k', rng.choice([[V('V'), V('X')], [V('X'), V('V')], [V('V'), V('_')], [V('V'), at()]])]
        if q < 0.87: return ['not', ['call', '=', [V('V'), at()]]]
        if q < 0.93: return ['or', ['if', ['call', '=', [V('V'), at()]], ['call', '=', [V('X'), at()]]], ['call', '=', [V('X'), at()]]]
        if lower and not struct: return ['call', rng.choice(lower), rng.choice([[V('V'), V('X')], [V('X'), V('V')]])]
        return ['call', '=', [V('X'), at()]]
    n = rng.choice([0, 1, 1, 2, 2, 2, 3])
    return [name, [h1, h2], _conj([g() for _ in range(n)]) if n else ['true']]

def _meta_goal_term(rng, sens, hv, lv):
    """(name, args) of the goal handed to a builtin; arguments are mostly the caller's variables"""
    def arg(pool, pv=0.8):
        q = rng.random()
        if q < pv: return V(rng.choice(pool))
        if q < pv + 0.12: return A(rng.choice(META_ATOMS))
        return F('f', V(rng.choice(pool)))
    q = rng.random()
    if q < 0.86:
        a1, a2 = arg(hv + hv + lv), arg(lv + lv + hv)
        for _ in range(5):
            if set(_tvars(a1)) & set(_tvars(a2)) and rng.random() < 0.9:
                a2 = arg(lv + lv + hv)
        return (rng.choice(sens) if q < 0.78 else 'k'), [a1, a2]
    lhs = arg(hv + lv, 0.9)
    t = rand_shared_term(rng, hv + lv)
    if lhs[0] == 'var' and t[0] != 'var':
        t = subst_var(t, lhs[1], rng.choice([x for x in hv + lv + ['W'] if x != lhs[1]]))       # no cyclic term
    return ('=' if q < 0.93 else '\\='), [lhs, t]

def subst_var(t, old, new):
    if t[0] == 'var': return V(new) if t[1] == old else t
    if t[0] == 'fun': return ['fun', t[1], [subst_var(a, old, new) for a in t[2]]]
    if t[0] == 'list': return ['list', [subst_var(a, old, new) for a in t[1]]]
    if t[0] == 'pair': return ['pair', subst_var(t[1], old, new), subst_var(t[2], old, new)]
    return t

def _tvars(t, acc=None):
    acc = [] if acc is None else acc
    if t[0] == 'var': acc.append(t[1])
    elif t[0] == 'fun': [_tvars(a, acc) for a in t[2]]
    elif t[0] == 'list': [_tvars(a, acc) for a in t[1]]
    elif t[0] == 'pair': _tvars(t[1], acc); _tvars(t[2], acc)
    return acc

def rand_shared_term(rng, pool):
    q = rng.random()
    if q < 0.25: return V(rng.choice(pool))
    if q < 0.40: return A(rng.choice(META_ATOMS))
    if q < 0.65: return F('f', V(rng.choice(pool)))
    if q < 0.85: return F('g', V(rng.choice(pool)), rng.choice([V(rng.choice(pool)), A(rng.choice(META_ATOMS))]))
    return ['list', [V(rng.choice(pool)), rng.choice([V(rng.choice(pool)), A(rng.choice(META_ATOMS))])]]

def meta_shared_goal(rng, sens, hv, lv):
    """a body fragment [pre..., meta-goal] in which a builtin is applied to a goal that shares variables with the
    builtin's other arguments; the goal is written inline or arrives through one or two variables bound at run time"""
    name, args = _meta_goal_term(rng, sens, hv, lv)
    goal_term = ['fun', name, args]
    pre = []
    via = rng.random() < 0.35
    def through(t):
        if not via:
            return t
        pre.append(['call', '=', [V('G'), t]])
        if rng.random() < 0.25:
            pre.append(['call', '=', [V('G2'), V('G')]])
            return V('G2')
        return V('G')
    goal_vars = [a[1] for a in args if a[0] == 'var']
    r = rng.random()
    if r < 0.50:
        q = rng.random()
        tv = goal_vars or lv
        if q < 0.55: tmpl = V(rng.choice(tv))
        elif q < 0.80: tmpl = F('t', V(rng.choice(tv)), V(rng.choice(tv + hv)))
        elif q < 0.90: tmpl = ['list', [V(rng.choice(tv)), V(rng.choice(hv + lv))]]
        else: tmpl = rng.choice([A('x'), V(rng.choice(hv))])
        sh = sorted(set(hv + goal_vars + lv[:2]))
        bag = bag_shape(rng, sh, tails=[v for v in sh if v not in _tvars(tmpl)])
        if rng.random() < 0.3 and name not in ('=', '\\='):
            # the goal itself goes through call/N inside findall
            k = rng.randrange(1, len(args) + 1)
            part = ['fun', name, args[:-k]] if args[:-k] else A(name)
            inner = ['fun', 'call', [through(part)] + args[-k:]]
            m = ['call', 'findall', [tmpl, inner, bag]]
        else:
            m = ['call', 'findall', [tmpl, through(goal_term), bag]]
    elif r < 0.62:
        m = ['call', 'once', [through(goal_term)]]
    elif r < 0.86:
        k = rng.randrange(0, len(args) + 1) if name not in ('=', '\\=') else rng.choice([0, 2]) if name == '=' else 0
        part = (['fun', name, args[:len(args) - k]] if args[:len(args) - k] else A(name))
        m = ['call', 'call', [through(part)] + args[len(args) - k:]]
    elif r < 0.91:
        m = ['not', ['call', 'call', [through(goal_term)]]]
    elif r < 0.95:
        m = ['call', 'once', [['fun', 'call', [through(goal_term)]]]]
    else:
        m = ['call', name, args]
    return pre, m

def gen_meta_program(rng):
    """see the comment above.  Layout: a fact table k/2; `sensitive` predicates s0.. (arity 2, several clauses, no recursion,
    only downward calls); callers t0.. whose bodies are  pre-bindings, BUILTIN(goal sharing variables), observations;
    queries with unbound / shared / bound / list arguments, and queries of the builtins themselves through YP.query."""
    clauses = []
    for _ in range(rng.randrange(2, 5)):
        q = rng.random()
        if q < 0.70: row = [A(rng.choice(META_ATOMS)), A(rng.choice(META_ATOMS + ['z']))]
        elif q < 0.85: row = [V('K'), V('K')]
        else: row = [V('_'), A(rng.choice(META_ATOMS))]
        clauses.append(['k', row, ['true']])
    ns = rng.randrange(1, 4)
    sens = ['s%d' % i for i in range(ns)]
    at = lambda: A(rng.choice(META_ATOMS))
    exposers = []
    for i, name in enumerate(sens):
        if rng.random() < 0.5:
            exposers.append(name)
            # an answer that leaves the caller's own variable inside the instance, then answers that exist, or have their
            # value, only for certain bindings of that variable
            q = rng.random()
            if q < 0.5: clauses.append([name, [V('V'), V('X')], ['call', '=', [V('X'), V('V')]]])
            elif q < 0.7: clauses.append([name, [V('V'), V('V')], ['true']])
            elif q < 0.85: clauses.append([name, [V('V'), V('X')], ['call', '=', [V('X'), F('f', V('V'))]]])
            else: clauses.append([name, [V('V'), F('f', V('V'))], ['true']])
            for _ in range(rng.choice([1, 1, 2, 3])):
                q = rng.random()
                if q < 0.35: test = ['call', '\\=', [V('V'), at()]]
                elif q < 0.6: test = ['call', '=', [V('V'), at()]]
                elif q < 0.75: test = ['call', 'k', [V('V'), V('_')]]
                elif q < 0.85: test = ['not', ['call', '=', [V('V'), at()]]]
                else: test = None
                if test is None:
                    clauses.append([name, [V('V'), V('X')], ['or', ['if', ['call', '=', [V('V'), at()]], ['call', '=', [V('X'), at()]]], ['call', '=', [V('X'), at()]]]])
                else:
                    clauses.append([name, [V('V'), V('X')], ['and', test, ['call', '=', [V('X'), at()]]]])
            continue
        for _ in range(rng.choice([1, 2, 2, 2, 3, 3, 4])):
            clauses.append(_sensitive_clause(rng, name, sens[i + 1:]))
    sens_all = sens
    sens = sens + exposers + exposers      # goals handed to the builtins: more often one of these
    callers = []
    for i in range(rng.randrange(2, 5)):
        ar = rng.choice([1, 2, 2, 3])
        hv = ['A', 'B', 'C'][:ar]
        lv = ['X', 'Y']
        goals = []
        q = rng.random()
        if q < 0.12 and ar > 1: goals.append(['call', '=', [V(hv[0]), V(hv[1])]])
        elif q < 0.20: goals.append(['call', '=', [V(rng.choice(hv)), A(rng.choice(META_ATOMS))]])
        elif q < 0.32: goals.append(['call', rng.choice(sens), [V(rng.choice(hv)), V(rng.choice(hv + lv))]])
        pre, m = meta_shared_goal(rng, sens, hv, lv)
        goals += pre
        if pre and rng.random() < 0.25:
            goals.append(['call', 'k', [V(rng.choice(hv)), V('_')]])       # the builtin is re-entered with the same goal term
        goals.append(m)
        for _ in range(rng.choice([0, 0, 1, 1, 2])):
            q = rng.random()
            v = V(rng.choice(hv + lv))
            if q < 0.4: goals.append(['call', '=', [v, A(rng.choice(META_ATOMS))]])
            elif q < 0.6: goals.append(['call', '\\=', [v, A(rng.choice(META_ATOMS))]])
            elif q < 0.8: goals.append(['call', rng.choice(sens), [v, V(rng.choice(hv + lv))]])
            else: goals.append(['call', '=', [v, V(rng.choice(hv))]])
        head = [V(x) for x in hv]
        if rng.random() < 0.1:
            head[rng.randrange(ar)] = ['pair', V('H'), V('T')]
        clauses.append(['t%d' % i, head, _conj(goals)])
        callers.append(('t%d' % i, ar))
    queries = []
    def qarg():
        q = rng.random()
        if q < 0.55: return V('Q%d' % rng.randrange(0, 3))
        if q < 0.75: return A(rng.choice(META_ATOMS))
        if q < 0.83: return F('f', V('Q%d' % rng.randrange(0, 2)))
        if q < 0.93: return bag_shape(rng, ['Q0', 'Q1'], fresh=('Q2', 'Q3'), anon=False)
        return ['list', []]
    for name, ar in callers:
        queries.append([name, [V('Q%d' % j) for j in range(ar)]])
        for _ in range(2):
            queries.append([name, [qarg() for _ in range(ar)]])
    # the builtins themselves, through the API
    qv = ['Q0', 'Q1']
    for _ in range(rng.choice([1, 2, 2, 3])):
        name, args = _meta_goal_term(rng, sens, qv, qv)
        gt = ['fun', name, args]
        r = rng.random()
        if r < 0.5:
            gvs = [a[1] for a in args if a[0] == 'var'] or qv
            tmpl = V(rng.choice(gvs)) if rng.random() < 0.6 else F('t', V(rng.choice(gvs)), V(rng.choice(qv)))
            queries.append(['findall', [tmpl, gt, bag_shape(rng, qv, fresh=('Q2', 'Q3'), anon=False, tails=[v for v in qv if v not in _tvars(tmpl)])]])
        elif r < 0.62:
            queries.append(['once', [gt]])
        elif r < 0.85 and name not in ('=', '\\='):
            k = rng.randrange(0, 3)
            queries.append(['call', [['fun', name, args[:2 - k]] if args[:2 - k] else A(name)] + args[2 - k:]])
        else:
            t1 = rand_shared_term(rng, qv)
            t2 = rand_shared_term(rng, qv)
            if t1[0] == 'var' and t2[0] != 'var': t2 = subst_var(t2, t1[1], 'Q2')
            if t2[0] == 'var' and t1[0] != 'var': t1 = subst_var(t1, t2[1], 'Q2')
            queries.append([rng.choice(['=', '\\=']), [t1, t2]])
    return {'clauses': clauses, 'queries': queries}

# ------------------------------------------------------------------ continuation duplication
# compile_body distributes the continuation of a disjunction / if-then-else over the alternatives:
#   (A ; B), K  =>  A, K ; B, K          (C -> T ; E), K  =>  C -> (T, K) ; E, K         (C -> T), K  =>  (C -> T ; fail), K
# so K is compiled once per alternative (from the same AST node, with different label counters and at different
# nesting).  The bodies below put every interesting construct in the position K, with all alternatives reachable.

def _tag(rng, vars_, tag):
    """V = tag: marks the path an answer took"""
    return ['call', '=', [V(rng.choice(vars_)), A(tag)]]

def _succ_goal(rng, o, callees, vars_):
    """a goal that usually has answers: a call of a leaf predicate, true, or a marker"""
    r = rng.random()
    leaves = [c for c in callees if c[0].startswith('q')]
    if leaves and r < 0.55:
        name, ar = rng.choice(leaves)
        return ['call', name, [V(rng.choice(vars_)) for _ in range(ar)]]
    if r < 0.7:
        return ['true']
    return _tag(rng, vars_, rng.choice(['m1', 'm2', 'm3']))

def _fail_goal(rng, o, callees, vars_):
    """a goal that usually (not always) fails"""
    r = rng.random()
    if r < 0.45:
        return ['fail']
    if r < 0.7:
        return ['call', '=', [A('no'), A('yes')]]
    if r < 0.85:
        return ['call', '\\=', [V(rng.choice(vars_)), V(rng.choice(vars_))]]
    return _tag(rng, vars_, 'late')       # fails iff the variable already carries another marker

def cut_condition(rng, o, callees, vars_):
    """a condition (for -> or \\+) that contains a cut of its own: the cut is reached for some solutions of the goals in
    front of it, and what follows the cut fails or succeeds"""
    c = _succ_goal(rng, o, callees, vars_)
    f = _fail_goal(rng, o, callees, vars_) if rng.random() < 0.7 else _succ_goal(rng, o, callees, vars_)
    d = _succ_goal(rng, o, callees, vars_)
    r = rng.random()
    if r < 0.30: return ['and', c, ['and', ['cut'], f]]                          # c, !, f
    if r < 0.45: return ['or', ['and', c, ['and', ['cut'], f]], d]               # ( c, !, f ; d )
    if r < 0.55: return ['and', ['cut'], f]                                      # !, f
    if r < 0.65: return ['or', f, ['and', ['cut'], ['and', c, f]]]               # ( f ; !, c, f )
    if r < 0.75: return ['and', ['or', ['if', c, ['cut']], d], f]                # ( c -> ! ; d ), f      (cut in a then-branch of the condition)
    if r < 0.85: return ['and', c, ['and', ['or', ['cut'], d], f]]               # c, ( ! ; d ), f
    if r < 0.92: return ['and', c, ['and', ['cut'], ['and', f, ['cut']]]]        # c, !, f, !
    return ['and', ['and', c, ['cut']], f]                                       # (c, !), f              (left-nested)

def filter_condition(rng, o, callees, vars_):
    """a condition of the form  Gen, Nested [, Rest]:  a goal with several answers, then a \\+ / if-then-else that tests the answer, so
    that the nested construct commits (or not) differently for successive answers of Gen while the enclosing condition is still undecided"""
    leaves = [c for c in callees if c[0].startswith('q')] or [('q0', 1)]
    name, ar = rng.choice(leaves)
    x = rng.choice(vars_)
    gen = ['call', name, [V(x)] * ar]
    sol = lambda: A('%s_%d' % (name, rng.randrange(0, 3)))
    test = lambda: ['call', rng.choice(['=', '=', '\\=']), [V(x), sol()]]
    r = rng.random()
    if r < 0.25: nested = ['not', test()]
    elif r < 0.35: nested = ['not', ['not', test()]]
    elif r < 0.55: nested = ['or', ['if', test(), rng.choice([['fail'], ['true'], test()])], rng.choice([['true'], ['fail'], test()])]
    elif r < 0.65: nested = ['if', test(), rng.choice([['true'], test()])]
    elif r < 0.80: nested = ['not', ['and', test(), rng.choice([['true'], ['cut'] if o.opaque_cut else ['true'], ['fail']])]]
    else: nested = ['or', ['if', ['not', test()], ['true']], test()]
    q = rng.random()
    if q < 0.6: return ['and', gen, nested]
    if q < 0.8: return ['and', gen, ['and', nested, test()]]
    if q < 0.9: return ['and', ['and', gen, nested], rng.choice([['true'], test()])]
    y = rng.choice(vars_)
    return ['and', gen, ['and', ['call', name, [V(y)] * ar], ['and', nested, ['call', '\\=', [V(x), V(y)]]]]]

def any_condition(rng, o, callees, vars_):
    return cut_condition(rng, o, callees, vars_) if (o.opaque_cut and rng.random() < 0.6) else filter_condition(rng, o, callees, vars_)

def continuation_goal(rng, o, callees, vars_, depth=0):
    """K: the goal after a disjunction / if-then-else"""
    r = rng.random()
    t = lambda: _tag(rng, vars_, rng.choice(['kt', 'ke', 'k']))
    if r < 0.22:
        return ['not', any_condition(rng, o, callees, vars_)]
    if r < 0.44:
        return ['or', ['if', any_condition(rng, o, callees, vars_), t()], t()]
    if r < 0.52:
        return ['if', any_condition(rng, o, callees, vars_), t()]
    if r < 0.58:
        return ['not', ['not', any_condition(rng, o, callees, vars_)]]
    if r < 0.64:
        return ['cut'] if o.cut else ['true']
    if r < 0.72:
        return ['or', _succ_goal(rng, o, callees, vars_), t()]
    if r < 0.80:
        return ['or', ['if', _succ_goal(rng, o, callees, vars_), t()], t()]
    if r < 0.86:
        return ['not', _succ_goal(rng, o, callees, vars_) if rng.random() < 0.5 else _fail_goal(rng, o, callees, vars_)]
    if r < 0.93 and depth < 1:
        # K is itself a construct with a continuation
        return ['and', duplicating_goal(rng, o, callees, vars_, depth + 1), continuation_goal(rng, o, callees, vars_, depth + 1)]
    return rand_body(rng, o, callees, vars_, rng.randrange(1, 4), False, False)

def duplicating_goal(rng, o, callees, vars_, depth=0):
    """D: a goal whose continuation compile_body duplicates; every alternative is reachable (for some answers at least)"""
    alt = lambda tag: (_succ_goal(rng, o, callees, vars_) if rng.random() < 0.5 else
                       ['and', _succ_goal(rng, o, callees, vars_), _tag(rng, vars_, tag)] if rng.random() < 0.7 else
                       _fail_goal(rng, o, callees, vars_))
    r = rng.random()
    if r < 0.30:
        return ['or', alt('d1'), alt('d2')]
    if r < 0.40:
        return ['or', alt('d1'), ['or', alt('d2'), alt('d3')]] if rng.random() < 0.5 else ['or', ['or', alt('d1'), alt('d2')], alt('d3')]
    if r < 0.60:
        cond = _succ_goal(rng, o, callees, vars_) if rng.random() < 0.5 else _fail_goal(rng, o, callees, vars_)
        return ['or', ['if', cond, alt('dt')], alt('de')]
    if r < 0.66:
        return ['if', _succ_goal(rng, o, callees, vars_), alt('dt')]
    if r < 0.76:
        # else-if chain  ( C1 -> T1 ; C2 -> T2 ; E ): an if-then-else in a non-first position of the ; chain, whose condition decides
        c1 = _fail_goal(rng, o, callees, vars_) if rng.random() < 0.6 else _succ_goal(rng, o, callees, vars_)
        c2 = _succ_goal(rng, o, callees, vars_) if rng.random() < 0.7 else _fail_goal(rng, o, callees, vars_)
        first = ['if', c1, alt('dt1')] if rng.random() < 0.7 else alt('d1')
        if rng.random() < 0.3:
            # explicitly parenthesised on the left:  ( ( C -> T ; E ) ; F )  is not  ( C -> T ; ( E ; F ) )
            return ['or', ['or', ['if', c2, alt('dt2')], alt('de')], alt('d3')]
        return ['or', first, ['or', ['if', c2, alt('dt2')], alt('de')]]
    if r < 0.86 and depth < 1:
        # an if-then-else in a non-first position of a ; chain, or nested in an alternative
        return ['or', alt('d1'), duplicating_goal(rng, o, callees, vars_, depth + 1)]
    if r < 0.93:
        cc = any_condition(rng, o, callees, vars_)
        return ['or', ['if', cc, alt('dt')], alt('de')]
    return ['or', ['if', ['or', _fail_goal(rng, o, callees, vars_), _succ_goal(rng, o, callees, vars_)], alt('dt')], alt('de')]

def contdup_body(rng, o, callees, vars_):
    if rng.random() < 0.15:
        # no continuation at all: a construct whose condition is  Gen, Nested
        c = filter_condition(rng, o, callees, vars_)
        w = rng.random()
        return (['not', c] if w < 0.3 else ['if', c, _tag(rng, vars_, 'kt')] if w < 0.4 else ['or', ['if', c, _tag(rng, vars_, 'kt')], _tag(rng, vars_, 'ke')])
    d = duplicating_goal(rng, o, callees, vars_)
    k = continuation_goal(rng, o, callees, vars_)
    r = rng.random()
    if r < 0.35:
        return ['and', d, k]                                                     # D, K
    if r < 0.55:
        return ['and', d, ['and', k, _succ_goal(rng, o, callees, vars_)]]        # D, K, G
    if r < 0.70:
        return ['and', ['and', d, k], _succ_goal(rng, o, callees, vars_)]        # (D, K), G         left-nested
    if r < 0.85:
        return ['and', _succ_goal(rng, o, callees, vars_), ['and', d, k]]        # G, D, K           D re-entered per answer of G
    return ['and', ['and', _succ_goal(rng, o, callees, vars_), d], k]            # (G, D), K

def exhaustive_contdup_bodies(thorough=False):
    """ALL bodies  D, K  with
       D in { (L ; L), (L -> L ; L), (L -> L) }  over leaves L with 0 / [1 /] 2 solutions (the i-th leaf uses the i-th head variable),
       K in { \\+ C, (C -> C_ = t ; C_ = e), (C -> C_ = t) }  with a condition C that has a cut of its own:
            C in { (c, !, f), (c, !, f ; true), (c ; !, f) },  c in {true, [q1,] q2},  f in {fail, true [, q0]}."""
    VN = ['A', 'B', 'C', 'D']
    lv = ['q0', 'q1', 'q2'] if thorough else ['q0', 'q2']
    L = lambda i, q: ['call', q, [V(VN[i])]]
    ds = []
    for a in lv:
        for b in lv:
            ds.append(['or', L(0, a), L(1, b)])
            ds.append(['if', L(0, a), L(1, b)])
            for c in lv:
                ds.append(['or', ['if', L(0, a), L(1, b)], L(2, c)])
    cs = [['true'], ['call', 'q2', [V('D')]]] + ([['call', 'q1', [V('D')]]] if thorough else [])
    fs = [['fail'], ['true']] + ([['call', 'q0', [V('D')]]] if thorough else [])
    conds = []
    for c in cs:
        for f in fs:
            conds.append(['and', c, ['and', ['cut'], f]])
            conds.append(['or', ['and', c, ['and', ['cut'], f]], ['true']])
            conds.append(['or', c, ['and', ['cut'], f]])
    t = lambda x: ['call', '=', [V('D'), A(x)]]
    ks = []
    for c in conds:
        ks.append(['not', c])
        ks.append(['or', ['if', c, t('kt')], t('ke')])
        ks.append(['if', c, t('kt')])
    for d in ds:
        for k in ks:
            yield ['and', d, k]

def exhaustive_contdup_cases(thorough=False):
    """p(A,B,C,D) :- (D, K), true.  plus a second clause (a wrongly escaping break or return loses it)"""
    for b in exhaustive_contdup_bodies(thorough):
        clauses = [['p', [V('A'), V('B'), V('C'), V('D')], ['and', b, ['true']]], ['p', [A('second'), A('clause'), V('_'), V('_')], ['true']]] + EXH_FACTS
        yield {'clauses': copy.deepcopy(clauses), 'queries': [['p', [V('Q0'), V('Q1'), V('Q2'), V('Q3')]]], 'origin': 'exhaustive-contdup'}

# ------------------------------------------------------------------ adversarial identifiers
# The compiler invents names: x<N> for the N-th `_` of the source (1-based, counted over the whole text), V_<name> for the
# Python local of a Prolog variable, arg<i> for the i-th parameter, l<k> for the loop variable at nesting k, cutIf<k> for
# the k-th breakable block, doBreak, <name>_<arity> for a predicate's function.  A source identifier that looks like one
# of these - or like what a slightly different mangling scheme would produce - must still be an identifier of its own.
# adversarial_program renames the variables, atoms and predicates of a generated program into such identifiers, the
# numbers in them being taken from the counters a compiler could use at that place (index of the clause's anonymous
# variables in the whole text or in the clause, 0- or 1-based; argument positions; small numbers).

ADV_VAR_TEMPLATES = ['_%d', '_%d', '_%d', '__%d', '_G%d', '_x%d', '_X%d', 'X%d', 'X_%d', '_%d_', 'A%d', 'Arg%d', '_arg%d', 'V_%d', 'V_x%d',
                     'V__%d', '_V%d', 'L%d', '_l%d', 'CutIf%d', '_cutIf%d', 'Anon%d', '_anon%d', '_A%d', 'X%d_', '_0%d']
ADV_VAR_FIXED = ['V_X', 'V_V_X', '_V_X', 'V_', 'V__', '_x', '_X', '__', '___', '__X', '_X_', 'Xx', 'XX', 'X_', 'X__', 'DoBreak', '_doBreak', 'ATOM_NIL',
                 'True', 'None', 'Self', '_self', 'Yp', '_yp', 'Query', 'Unify', 'Variable', 'L', 'Arg', '_arg', 'A_1', 'X_x1', '_Q0']
ADV_PRED_NAMES = ['x1', 'x2', 'x0', 'arg1', 'arg2', 'l1', 'l2', 'doBreak', 'cutIf1', 'cutIf2', 'v_X', 'v_x1', 'p_1', 'p_0', 'p_n', 'p0_1', 'p0_n', 'q0_1', 'q_1_1',
                  'p0_', 'p_', 'pass', 'def', 'for', 'in', 'if', 'not', 'yield', 'return', 'break', 'none', 'self', 'yp', 'main', 'x', 'l', 'arg', 'p__1', 'p1_0_1']
ADV_ATOMS = ['x1', 'x2', 'arg1', 'l1', 'doBreak', 'cutIf1', 'v_X', 'p0', 'q0', 'p0_1', 'none', 'nil', 'a_1', 'aA', 'a_', 'false', 'atom', 'variable', 'x']

def _term_anons(t):
    k = t[0]
    if k == 'var': return 1 if t[1] == '_' else 0
    if k == 'fun': return sum(_term_anons(a) for a in t[2])
    if k == 'list': return sum(_term_anons(a) for a in t[1])
    if k == 'pair': return _term_anons(t[1]) + _term_anons(t[2])
    return 0

def _body_terms(b):
    k = b[0]
    if k == 'call':
        for a in b[2]: yield a
    elif k in ('and', 'or', 'if'):
        for x in _body_terms(b[1]): yield x
        for x in _body_terms(b[2]): yield x
    elif k == 'not':
        for x in _body_terms(b[1]): yield x

def _term_vars(t, acc):
    k = t[0]
    if k == 'var':
        if t[1] != '_' and t[1] not in acc: acc.append(t[1])
    elif k == 'fun':
        for a in t[2]: _term_vars(a, acc)
    elif k == 'list':
        for a in t[1]: _term_vars(a, acc)
    elif k == 'pair':
        _term_vars(t[1], acc); _term_vars(t[2], acc)
    return acc

def map_term(t, fv, fa):
    """t with every variable node v replaced by fv(v) and every atom node replaced by fa(atom)"""
    k = t[0]
    if k == 'var': return fv(t)
    if k == 'atom': return fa(t)
    if k == 'fun': return ['fun', t[1], [map_term(a, fv, fa) for a in t[2]]]
    if k == 'list': return ['list', [map_term(a, fv, fa) for a in t[1]]]
    if k == 'pair':
        tl = map_term(t[2], fv, fa)
        return ['pair', map_term(t[1], fv, fa), tl if tl[0] in ('var', 'pair') else t[2]]      # the grammar wants a variable after |
    return t

def map_body(b, ft, fp):
    """b with every argument term t replaced by ft(t) and every called predicate name replaced by fp(name, arity)"""
    k = b[0]
    if k == 'call': return ['call', fp(b[1], len(b[2])), [ft(a) for a in b[2]]]
    if k in ('and', 'or', 'if'): return [k, map_body(b[1], ft, fp), map_body(b[2], ft, fp)]
    if k == 'not': return ['not', map_body(b[1], ft, fp)]
    return b

def clause_anon_counts(clauses):
    return [sum(_term_anons(a) for a in args) + sum(_term_anons(t) for t in _body_terms(body)) for _, args, body in clauses]

def adversarial_variables(rng, clauses, p_clause=0.7, p_var=0.7, p_anon=0.25):
    """per clause: some constants become `_`, and the named variables are renamed (injectively) into adversarial identifiers"""
    out = []
    # first pass: sprinkle anonymous variables (only in clauses that have named variables: leaf facts keep identifying the path)
    tmp = []
    for name, args, body in clauses:
        vs = []
        for a in args: _term_vars(a, vs)
        for t in _body_terms(body): _term_vars(t, vs)
        if vs and rng.random() < p_clause:
            q = rng.choice([0.0, p_anon, p_anon, 2 * p_anon])
            fa = lambda t: V('_') if rng.random() < q else t
            idv = lambda t: t
            args = [map_term(a, idv, fa) for a in args]
            body = map_body(body, lambda t: map_term(t, idv, fa), lambda f, n: f)
            tmp.append([name, args, body, vs, True])
        else:
            tmp.append([name, args, body, vs, False])
    counts = clause_anon_counts([c[:3] for c in tmp])
    total = sum(counts)
    start = 0
    gm = {} if rng.random() < 0.4 else None      # one renaming for the whole program (names keep recurring across clauses) or one per clause
    for (name, args, body, vs, chosen), n in zip(tmp, counts):
        if chosen:
            near = set()
            for g in range(start, start + n):
                near.update([g, g + 1])                  # index in the whole text, 0- and 1-based
            for j in range(n):
                near.update([j, j + 1])                  # index in the clause
            far = set(range(0, 4)) | set(range(1, len(args) + 1)) | {total, total + 1, len(vs)}
            m = {}
            used = set(vs)
            for v in vs:
                if gm is not None and v in gm:
                    if gm[v] not in used:
                        used.add(gm[v]); m[v] = gm[v]
                    continue
                if rng.random() >= p_var:
                    continue
                for _ in range(8):
                    r = rng.random()
                    if r < 0.6:
                        pool = sorted(near) if near and rng.random() < 0.7 else sorted(far)
                        # `_<N>` and `_G<N>` are how Prolog systems themselves write unnamed variables: the most plausible scheme, tried most often
                        q = rng.random()
                        nm = ('_%d' if q < 0.3 else '_G%d' if q < 0.4 else rng.choice(ADV_VAR_TEMPLATES)) % rng.choice(pool)
                    elif r < 0.8:
                        nm = rng.choice(ADV_VAR_FIXED)
                    else:
                        # another variable of the clause in a different case / with underscores in front or behind
                        w = rng.choice(vs)
                        nm = rng.choice(['_' + w, '__' + w, w + '_', w + w.lower(), w + w, 'V_' + w, w[0] + '_' + w[1:], w.upper(), w + '1', w + '_1'])
                    if nm not in used and nm != '_' and (gm is None or nm not in gm.values()):
                        used.add(nm); m[v] = nm
                        if gm is not None: gm[v] = nm
                        break
            fv = lambda t: V(m.get(t[1], t[1]))
            ida = lambda t: t
            args = [map_term(a, fv, ida) for a in args]
            body = map_body(body, lambda t: map_term(t, fv, ida), lambda f, k: f)
        out.append([name, args, body])
        start += n
    return out

def adversarial_symbols(rng, prog, p_pred=0.5, p_atom=0.4):
    """rename predicates (consistently in heads, calls, queries and goal terms handed to call/once/findall) and atoms into identifiers
    that look like names of the generated code; the builtins and the control-flow of the program are untouched"""
    clauses, queries = prog['clauses'], prog['queries']
    keep = {'=', '\\=', 'call', 'once', 'findall', 'mem', 'app', 'len'}
    names = list(dict.fromkeys(c[0] for c in clauses))
    pm = {}
    used = set(names) | keep
    for nm in names:
        if nm not in keep and rng.random() < p_pred:
            new = rng.choice(ADV_PRED_NAMES)
            if new not in used:
                used.add(new); pm[nm] = new
    am = {}
    atoms = set()
    def collect(t):
        if t[0] == 'atom': atoms.add(t[1])
        return t
    for _, args, body in clauses:
        for a in args: map_term(a, lambda t: t, collect)
        for t in _body_terms(body): map_term(t, lambda t: t, collect)
    useda = set(atoms) | {'[]'}
    for a in sorted(atoms):
        if a != '[]' and a not in used and rng.random() < p_atom:
            new = rng.choice(ADV_ATOMS)
            if new not in useda and new not in used:
                useda.add(new); am[a] = new
    fa = lambda t: A(pm[t[1]]) if t[1] in pm else A(am.get(t[1], t[1]))      # an atom may be a goal handed to a meta-call
    def ft(t):
        # a compound term may be a goal handed to a meta-call: its functor follows the predicate renaming
        k = t[0]
        if k == 'fun': return ['fun', pm.get(t[1], t[1]), [ft(a) for a in t[2]]]
        if k == 'list': return ['list', [ft(a) for a in t[1]]]
        if k == 'pair': return ['pair', ft(t[1]), ft(t[2])]
        if k == 'atom': return fa(t)
        return t
    fp = lambda f, n: pm.get(f, f)
    cl2 = [[pm.get(name, name), [ft(a) for a in args], map_body(body, ft, fp)] for name, args, body in clauses]
    q2 = [[pm.get(name, name), [ft(a) for a in args]] for name, args in queries]
    return dict(prog, clauses=cl2, queries=q2)

def adversarial_program(rng, prog):
    """prog with adversarial identifiers (see above); same shape, same queries (query variables Q<i> are the harness's own)"""
    r = rng.random()
    p = dict(prog)
    if r < 0.85:
        p['clauses'] = adversarial_variables(rng, p['clauses'])
    if r > 0.6:
        p = adversarial_symbols(rng, p)
    return p

def _has_cut_construct(body):
    """does body contain a \\+ or an if-then(-else) whose goal / condition has a cut of its own?"""
    k = body[0]
    if k == 'not':
        return has_opaque_cut(body[1], True) or _has_cut_construct(body[1])
    if k == 'if':
        return has_opaque_cut(body[1], True) or _has_cut_construct(body[1]) or _has_cut_construct(body[2])
    if k in ('and', 'or'):
        return _has_cut_construct(body[1]) or _has_cut_construct(body[2])
    return False

def has_dup_continuation(body, local_cut=False, cont=None):
    """is there a disjunction / if-then(-else) that is followed by a non-trivial goal in a conjunction (so that compile_body compiles
    the continuation once per alternative)?  With local_cut: ... and the continuation contains a construct whose condition has a cut"""
    k = body[0]
    if k == 'and':
        rest = body[2] if cont is None else ['and', body[2], cont]
        return has_dup_continuation(body[1], local_cut, rest) or has_dup_continuation(body[2], local_cut, cont)
    if k in ('or', 'if'):
        if cont is not None and (_has_cut_construct(cont) if local_cut else bool(constructs(cont) & {'or', 'if', 'not', 'cut', 'call'})):
            return True
        return has_dup_continuation(body[1], local_cut, cont if k == 'or' else None) or has_dup_continuation(body[2], local_cut, cont)
    if k == 'not':
        return has_dup_continuation(body[1], local_cut, None)
    return False

def gen_anon_program(rng):
    """programs about `_`: "every `_` is a distinct variable".  Facts whose arguments are pairwise different atoms (d2, d3) or equal
    (s2); rules whose heads and goals are full of `_` next to a few named variables, so that an answer exists only if every `_` is a
    variable of its own (two `_` that were one variable, or a `_` that was one of the named variables, could not take the different
    arguments of a fact) and only if every named variable is one variable (otherwise there are more answers).  The named variables
    usually get adversarial names afterwards (adversarial_variables): a collision of names is the only way in which a compiler can
    confuse a `_` with a variable of the source."""
    atoms = ['a', 'b', 'c', 'd']
    clauses = []
    for _ in range(rng.randrange(2, 4)):
        x, y = rng.sample(atoms, 2); clauses.append(['d2', [A(x), A(y)], ['true']])
    for _ in range(rng.randrange(1, 3)):
        x, y, z = rng.sample(atoms, 3); clauses.append(['d3', [A(x), A(y), A(z)], ['true']])
    for x in rng.sample(atoms, 2):
        clauses.append(['s2', [A(x), A(x)], ['true']])
    clauses.append(['any', [V('_')], ['true']])
    callees = [('d2', 2), ('d2', 2), ('d3', 3), ('s2', 2), ('any', 1)]
    nr = rng.randrange(2, 5)
    rules = []
    for i in range(nr):
        ar = rng.choice([1, 2, 2, 3])
        named = rng.sample(VARS, rng.randrange(1, 4))
        def arg(p_anon, p_named, simple=False):
            q = rng.random()
            if q < p_anon: return V('_')
            if q < p_anon + p_named: return V(rng.choice(named))
            if q < p_anon + p_named + 0.08 and not simple: return rng.choice([F('f', V('_'), V(rng.choice(named))), ['pair', V('_'), V('_')], ['list', [V('_'), V(rng.choice(named))]]])
            return A(rng.choice(atoms))
        head = [arg(0.35, 0.5) for _ in range(ar)]
        goals = []
        for _ in range(rng.randrange(1, 4)):
            name, car = rng.choice(callees + [('r%d' % j, a) for j, a in rules])
            # structures only as arguments of the fact predicates: no goal can build a cyclic term
            goals.append(['call', name, [arg(0.5, 0.38, simple=name.startswith('r')) for _ in range(car)]])
        if rng.random() < 0.3:
            goals.append(['call', rng.choice(['=', '\\=']), [arg(0.4, 0.5, True), arg(0.3, 0.5, True)]])
        clauses.append(['r%d' % i, head, _conj(goals)])
        rules.append((i, ar))
    # rules first or facts first (the number of a `_` in the whole text differs)
    if rng.random() < 0.5:
        facts = [c for c in clauses if not c[0].startswith('r')]
        clauses = [c for c in clauses if c[0].startswith('r')] + facts
    queries = []
    for i, ar in rules:
        queries.append(['r%d' % i, [V('Q%d' % j) for j in range(ar)]])
        queries.append(['r%d' % i, [rng.choice([V('Q0'), V('Q1'), A(rng.choice(atoms)), F('f', V('Q0'), A(rng.choice(atoms)))]) for j in range(ar)]])
    r = rng.random()
    if r < 0.75:
        clauses = adversarial_variables(rng, clauses, p_clause=1.0, p_var=0.8, p_anon=0.0)
    return {'clauses': clauses, 'queries': queries}
