"""Round 4 program families (C01 / C05 / C06).  Same JSON shape as lib/progs.py.  All choices come from the rng passed in.

  rand_numeral / const_comparison / gen_const_program
        numerals in every spelling the grammar allows (NUMERAL: DIGIT+ : leading zeros, 0, 00, large) wherever a term may
        stand, and = / \\= goals between two constants / two ground terms (equal or different VALUE, equal or different SPELLING)
  neg_builtin_goal / exhaustive_neg_builtin_cases
        \\+ directly over every builtin (\\+ X \\= Y, \\+ X = Y, \\+ \\+ G, \\+ call(G), \\+ once(G), \\+ call(=, X, Y)) with unifiable
        arguments, the variables observed afterwards (answer, later goal, second branch of an enclosing disjunction)
  gen_limit_body_program
        clause bodies AT CPython's limit of 20 statically nested blocks (estimated 18 .. 20 blocks) with control constructs and cuts
        at the last positions, and just beyond it (21, 22), where the property demands a CompilerError: the model compiler
        (Comp/Limits.v) gives the verdict, semcheck.compare compares accept / refuse
  exhaustive_local_cut3_cases
        ALL three-level nestings  Outer[ Mid[ Inner ] ]:  Mid an if-then-else / negation with a cut of its own in the condition,
        Inner a committing (or not) if-then-else / negation in Mid's else branch / continuation, Outer a further if-then-else /
        negation whose else branch is visible in the answers."""
import copy
from .progs import V, A, F, _conj, _tvars, subst_var, EXH_FACTS
from . import progs_shapes
from .progs_shapes import call, eq, neq, ite

# ------------------------------------------------------------------ numerals and constant comparisons (C01)

NUM_VALUES = ['0', '0', '1', '2', '7', '7', '10', '10', '100', '4294967296', '18446744073709551616', '123456789012345678901234567890']

def rand_numeral(rng, value=None):
    """['num', text]: a value in one of its spellings (zero to three leading zeros)"""
    v = rng.choice(NUM_VALUES) if value is None else value
    return ['num', '0' * rng.choice([0, 0, 0, 1, 1, 2, 3]) + v]

def respell(rng, t):
    """the same ground term with its numerals in (possibly) another spelling"""
    k = t[0]
    if k == 'num':
        return ['num', '0' * rng.choice([0, 1, 1, 2, 3]) + (t[1].lstrip('0') or '0')]
    if k == 'fun': return ['fun', t[1], [respell(rng, a) for a in t[2]]]
    if k == 'list': return ['list', [respell(rng, a) for a in t[1]]]
    return t

def rand_ground(rng, depth=2):
    r = rng.random()
    if depth <= 0 or r < 0.55:
        q = rng.random()
        if q < 0.6: return rand_numeral(rng)
        return A(rng.choice(['a', 'b', 'c', '[]', 'zero', 'o']))
    if r < 0.8:
        f, n = rng.choice([('f', 1), ('g', 2), ('f', 2), ('-', 1)])
        return ['fun', f, [rand_ground(rng, depth - 1) for _ in range(n)]]
    return ['list', [rand_ground(rng, depth - 1) for _ in range(rng.randrange(0, 3))]]

def _perturb(rng, t):
    """a ground term that differs from t in one leaf (or is t if there is none to change)"""
    k = t[0]
    if k == 'num':
        return ['num', '0' * rng.choice([0, 0, 1, 2]) + str(int(t[1]) + rng.choice([1, 1, 10]))] if rng.random() < 0.8 else A('a')
    if k == 'atom':
        return A(rng.choice([x for x in ['a', 'b', 'c', 'zero'] if x != t[1]])) if rng.random() < 0.7 else ['num', '0']
    if k == 'fun' and t[2]:
        i = rng.randrange(len(t[2]))
        return ['fun', t[1], [(_perturb(rng, a) if j == i else a) for j, a in enumerate(t[2])]]
    if k == 'list' and t[1]:
        i = rng.randrange(len(t[1]))
        return ['list', [(_perturb(rng, a) if j == i else a) for j, a in enumerate(t[1])]]
    return A('other')

def const_comparison(rng, op=None):
    """L = R  /  L \\= R  between two constants or two ground terms: the same value in two spellings (most), two different values,
    an atom against a numeral, compound terms and lists that differ in the spelling / in one leaf only"""
    op = op or ('=' if rng.random() < 0.55 else '\\=')
    r = rng.random()
    if r < 0.45:
        l = rand_numeral(rng); rr = respell(rng, l)
    elif r < 0.60:
        l = rand_numeral(rng); rr = _perturb(rng, l)
    elif r < 0.70:
        l = A(rng.choice(['a', 'b', 'zero'])); rr = l if rng.random() < 0.6 else _perturb(rng, l)
    elif r < 0.88:
        l = rand_ground(rng, 2); rr = respell(rng, l)
    else:
        l = rand_ground(rng, 2); rr = _perturb(rng, l)
    return ['call', op, [l, rr] if rng.random() < 0.5 else [rr, l]]

def gen_const_program(rng):
    """predicates whose clauses are guarded by comparisons of constants: every answer names the clause that produced it, so a
    comparison decided the wrong way (at compile time or at run time) adds or removes answers; facts with numerals in several
    spellings, queried with numerals and variables"""
    clauses = []
    queries = []
    npred = rng.randrange(2, 5)
    for i in range(npred):
        name = 'k%d' % i
        ncl = rng.randrange(2, 5)
        for j in range(ncl):
            tag = A('c%d' % j)
            n = rng.choice([1, 1, 2, 3])
            goals = [const_comparison(rng) for _ in range(n)]
            r = rng.random()
            if r < 0.35:
                clauses.append([name, [tag], _conj(goals)])
            elif r < 0.7:
                pos = rng.randrange(len(goals) + 1)
                goals.insert(pos, eq(V('X'), tag))
                clauses.append([name, [V('X')], _conj(goals)])
            else:
                # the value travels through a variable on one side: the same comparison decided at run time
                g = goals[0]
                goals = [eq(V('Y'), g[2][0]), ['call', g[1], [V('Y'), g[2][1]]]] + goals[1:]
                clauses.append([name, [tag], _conj(goals)])
        if rng.random() < 0.6:
            clauses.append([name, [A('last')], ['true']])
        queries.append([name, [V('Q0')]])
    vals = [rng.choice(NUM_VALUES) for _ in range(rng.randrange(2, 5))]
    for v in vals:
        clauses.append(['v', [rand_numeral(rng, v), A('s%d' % len(clauses))], ['true']])
    clauses.append(['w', [V('X'), V('Y')], _conj([call('v', V('X'), V('_')), call('v', V('Y'), V('_')), ['call', rng.choice(['=', '\\=']), [V('X'), V('Y')]]])])
    queries.append(['v', [V('Q0'), V('Q1')]])
    queries.append(['v', [rand_numeral(rng, rng.choice(vals)), V('Q0')]])
    queries.append(['w', [V('Q0'), V('Q1')]])
    return {'clauses': clauses, 'queries': queries, 'shape': 'constants'}

# ------------------------------------------------------------------ negation directly over a builtin (C06)

NB_ATOMS = ['a', 'b']

def _unifiable_pair(rng, vars_):
    """(L, R): two terms that usually unify and share / contain variables that are still unbound at that point"""
    x = V(rng.choice(vars_))
    y = V(rng.choice(vars_))
    at = lambda: A(rng.choice(NB_ATOMS))
    r = rng.random()
    if r < 0.35: p = (x, at())
    elif r < 0.50: p = (x, y)
    elif r < 0.62: p = (F('f', x, at()), F('f', at(), y))
    elif r < 0.72: p = (['list', [x, at()]], ['list', [at(), y]])
    elif r < 0.80: p = (x, F('g', V('_'))) if True else None
    elif r < 0.88: p = (at(), at())
    elif r < 0.94: p = (x, ['num', rng.choice(['7', '007', '0'])])
    else: p = (F('f', x), F('f', F('g', y))) if x != y else (F('f', x), F('f', at()))
    return p if rng.random() < 0.6 else (p[1], p[0])

def neg_builtin_goal(rng, vars_):
    """\\+ applied directly to a builtin goal:  \\+ L \\= R,  \\+ L = R,  \\+ \\+ L = R,  \\+ call(L = R),  \\+ once(L \\= R),
    \\+ call(=, L, R),  \\+ (L \\= R, true)  ..."""
    l, r = _unifiable_pair(rng, vars_)
    op = rng.choice(['\\=', '\\=', '='])
    g = ['call', op, [l, r]]
    gt = ['fun', op, [l, r]]
    q = rng.random()
    if q < 0.40: inner = g
    elif q < 0.50: inner = ['not', g]
    elif q < 0.60: inner = ['call', 'call', [gt]]
    elif q < 0.68: inner = ['call', 'once', [gt]]
    elif q < 0.76: inner = ['call', 'call', [A(op), l, r]] if op == '=' else ['call', 'call', [['fun', 'call', [gt]]]]      # (the grammar cannot quote `\=`)
    elif q < 0.82: inner = ['call', 'call', [['fun', 'call', [gt]]]]
    elif q < 0.88: inner = ['and', g, ['true']]
    elif q < 0.94: inner = ['not', ['not', g]]
    else: inner = ['call', 'once', [['fun', 'call', [gt]]]]
    return ['not', inner]

def neg_builtin_fragment(rng, vars_):
    """the negation followed by something that observes the variables:  N  |  N, X = b  |  N, (X = b -> R = free ; R = bound)  |
    ( N ; true ), X = b  |  ( N -> R = t ; R = e )"""
    n = neg_builtin_goal(rng, vars_)
    x = V(rng.choice(vars_)); rv = V(rng.choice(vars_))
    at = A(rng.choice(NB_ATOMS))
    q = rng.random()
    if q < 0.25: return n
    if q < 0.45: return ['and', n, eq(x, at)]
    if q < 0.65: return ['and', n, ite(eq(x, at), eq(rv, A('free')), eq(rv, A('bound')))]
    if q < 0.80: return ['and', ['or', n, ['true']], eq(x, at)]
    if q < 0.90: return ite(n, eq(rv, A('t')), eq(rv, A('e')))
    return ['and', n, ['not', ['not', eq(x, at)]]]

def exhaustive_neg_builtin_cases():
    """ALL  \\+ W[G]  with  G in { L = R, L \\= R }  over the argument pairs below (unifiable with an unbound variable on either / both
    sides, ground equal, ground different), W in { G, \\+ G, call(G), once(G), call(op, L, R), (G, true) }, in the contexts
    { N ;  N, X = b ;  N, (X = b -> R = free ; R = bound) ;  (N ; true), X = b ;  (N -> R = t ; R = e) }.
    One program per argument pair and operator, one predicate per (W, context)."""
    X, Y, R = V('X'), V('Y'), V('R')
    a, b = A('a'), A('b')
    pairs = [(X, a), (a, X), (X, Y), (F('f', X, b), F('f', a, Y)), (['list', [X, Y]], ['list', [a, a]]), (a, a), (a, b),
             (X, ['num', '007']), (['num', '007'], ['num', '7']), (X, F('g', V('_')))]
    for (l, r) in pairs:
        for op in ('=', '\\='):
            g = ['call', op, [l, r]]
            gt = ['fun', op, [l, r]]
            inners = [g, ['not', g], ['call', 'call', [gt]], ['call', 'once', [gt]], ['and', g, ['true']]]
            inners.append(['call', 'call', [A(op), l, r]] if op == '=' else ['call', 'call', [['fun', 'call', [gt]]]])      # the grammar cannot quote `\=`
            clauses = []
            queries = []
            neg_only = []
            k = 0
            for inner in inners:
                n = ['not', inner]
                ctxs = [n, ['and', n, eq(X, b)], ['and', n, ite(eq(X, b), eq(R, A('free')), eq(R, A('bound')))],
                        ['and', ['or', n, ['true']], eq(X, b)], ite(n, eq(R, A('t')), eq(R, A('e')))]
                for ci, body in enumerate(ctxs):
                    name = 't%d' % k; k += 1
                    if ci == 0:
                        neg_only.append(len(queries))
                    clauses.append([name, [X, Y, R], copy.deepcopy(body)])
                    clauses.append([name, [A('second'), A('clause'), V('_')], ['true']])
                    queries.append([name, [V('Q0'), V('Q1'), V('Q2')]])
            yield {'clauses': clauses, 'queries': queries, 'origin': 'exhaustive-neg-builtin', 'neg_only': neg_only}

def check_neg_binds_nothing(case, io):
    """intrinsic oracle on the implementation alone (no model): the queries listed in case['neg_only'] ask  tK(Q0,Q1,Q2)  of
    tK(X,Y,R) :- \\+ G.   tK(second,clause,_).   Whatever G is, every answer is either the unchanged query (three distinct unbound
    variables: `\\+ G` never binds a variable) or the second clause."""
    if not isinstance(io, dict) or 'queries' not in io:
        return None
    free = [[3, 0], [3, 1], [3, 2]]
    second = [[0, 'second'], [0, 'clause'], [3, 0]]
    for qi in case.get('neg_only', []):
        if qi >= len(io['queries']):
            continue
        iq = io['queries'][qi]
        if iq['end'] != 'done':
            continue
        for a in iq['answers']:
            if a != free and a != second:
                return 'query %s: the body is a single negation, but an answer has a bound or aliased query variable: \\+ G bound a variable' % case['queries'][qi][0]
    return None

# ------------------------------------------------------------------ bodies at (and just beyond) the nesting limit (C05)

LIMIT_TARGETS = [18, 19, 19, 20, 20, 20, 20, 21, 21, 22]

def _est(head, goals):
    return 1 + progs_shapes.head_loops(head) + progs_shapes.count_loops(_conj(goals))

def _last_item(rng, bound, free):
    """a control construct with a cut in one of its branches (for the last positions of a long body); bound: head variables that
    carry a number from n/1"""
    def test():
        if bound and rng.random() < 0.8:
            v = V(rng.choice(bound))
            return eq(v, progs_shapes._num(rng.randrange(1, 4))) if rng.random() < 0.7 else neq(v, progs_shapes._num(rng.randrange(1, 4)))
        return rng.choice([call('s0'), call('z0'), ['true'], ['fail']])
    def mark(tag):
        if free and rng.random() < 0.6:
            return eq(V(free[0]), A(tag))
        return rng.choice([['true'], call('s0')])
    cutb = lambda tag: rng.choice([['cut'], ['and', ['cut'], mark(tag)], ['and', mark(tag), ['cut']]])
    r = rng.random()
    if r < 0.28: return ['or', ['and', test(), cutb('left')], mark('right')]               # ( T, ! ; M )
    if r < 0.40: return ['or', mark('left'), ['and', test(), cutb('right')]]               # ( M ; T, ! )
    if r < 0.58: return ite(test(), cutb('then'), mark('else'))                            # ( T -> ! ; M )
    if r < 0.70: return ite(test(), mark('then'), cutb('else'))                            # ( T -> M ; ! )
    if r < 0.78: return ['if', test(), cutb('then')]                                       # ( T -> ! )
    if r < 0.86: return ['or', ite(test(), cutb('then'), mark('else')), mark('third')]     # ( T -> ! ; M ; M )
    if r < 0.93: return ['or', ['and', test(), ['or', cutb('in'), mark('in2')]], mark('right')]   # nested one level
    return ite(test(), ite(test(), cutb('then2'), mark('else2')), mark('else'))

def _last_item_nocut(rng, bound, free):
    """a control construct WITHOUT a clause-level cut (C06): disjunction, if-then-else, if-then, negation, a condition with a cut of
    its own (two blocks), nested one level"""
    def test():
        if bound and rng.random() < 0.8:
            v = V(rng.choice(bound))
            return eq(v, progs_shapes._num(rng.randrange(1, 4))) if rng.random() < 0.7 else neq(v, progs_shapes._num(rng.randrange(1, 4)))
        return rng.choice([call('s0'), call('z0'), call('n', V('_')), ['fail']])
    def mark(tag):
        if free and rng.random() < 0.7:
            return eq(V(free[0]), A(tag))
        return rng.choice([['true'], call('s0'), call('n', V('_'))])
    r = rng.random()
    if r < 0.2: return ['or', ['and', test(), mark('left')], mark('right')]
    if r < 0.4: return ite(test(), mark('then'), mark('else'))
    if r < 0.5: return ['if', test(), mark('then')]
    if r < 0.62: return ['not', test()]
    if r < 0.72: return ite(['and', call('n', V('_')), ['and', ['cut'], test()]], mark('then'), mark('else'))      # cut local to the condition
    if r < 0.8: return ['and', ['not', ['and', ['cut'], test()]], mark('after')]
    if r < 0.9: return ite(test(), ite(test(), mark('then2'), mark('else2')), ['or', mark('else'), mark('else3')])
    return ['or', ite(test(), mark('then'), mark('else')), ['not', test()]]

def gen_limit_body_program(rng, target=None, cuts=True):
    """p(Hv..) :- <spine of calls>, CONTROL [, tail].   The spine is padded with deterministic calls until the static estimate of
    the nesting of the emitted function (wrapper loop + head unification loops + one loop per call + one block per if-then-else /
    negation, progs_shapes.count_loops) is exactly `target` in 18 .. 22; CPython's limit is 20.  One to three of the spine goals
    are nondeterministic (n/1: something for the cut to discard), a later clause and a caller with alternatives follow."""
    target = target or rng.choice(LIMIT_TARGETS)
    ar = rng.choice([1, 2, 2, 3])
    hv = ['X', 'Y', 'Z'][:ar]
    head = [V(v) for v in hv]
    hq = rng.random()
    if hq < 0.25:
        head[-1] = rng.choice([F('f', V(hv[-1])), ['pair', V(hv[-1]), V('_')]])      # one head unification loop
    nfacts = rng.choice([2, 3, 3])
    nd = hv[:rng.choice([1, 1, 2])]
    free = [v for v in hv if v not in nd]
    tail = []
    q = rng.random()
    if q < 0.30: tail = [rng.choice([call('s0'), ['true'], call('n', V('_'))])]
    elif q < 0.40: tail = [['cut']] if (cuts and rng.random() < 0.5) else [call('s0'), call('s0')]
    item = _last_item if cuts else _last_item_nocut
    ctl = [item(rng, list(nd), list(free))]
    if rng.random() < 0.25:
        ctl.append(rng.choice([['not', call('z0')], item(rng, list(nd), []), ite(call('s0'), ['true'], ['fail'])]))
    gens = [call('n', V(v)) for v in nd]
    # the spine: deterministic calls with the generators at random positions (mostly late: close to the control item)
    spine = []
    goals = lambda: spine + ctl + tail
    pad = lambda: rng.choice([call('s0'), call('s0'), call('s0'), call('s1', A('a')), eq(V('_'), A('k'))])
    for g in gens:
        spine.append(g)
    guard = 0
    while _est(head, goals()) < target and guard < 40:
        guard += 1
        pos = rng.randrange(len(spine) + 1) if rng.random() < 0.5 else rng.randrange(0, max(1, len(spine) // 2 + 1))
        spine.insert(pos, pad())
    if rng.random() < 0.3:
        # goals that are no loop (true) do not count
        for _ in range(rng.randrange(1, 4)):
            spine.insert(rng.randrange(len(spine) + 1), ['true'])
    est = _est(head, goals())
    clauses = []
    if rng.random() < 0.3:
        clauses.append(['p', [A('first') for _ in hv], ['true']])
    clauses.append(['p', head, _conj(goals())])
    r = rng.random()
    if r < 0.6:
        clauses.append(['p', [A('later') for _ in hv], ['true']])
    elif r < 0.9:
        clauses.append(['p', [V(v) for v in hv], _conj([call('n', V(hv[0]))] + [eq(V(v), A('later')) for v in hv[1:]])])
    cq = rng.random()
    args = [V(v) for v in hv]
    if cq < 0.4:
        clauses.append(['c', args, call('p', *args)])
        rel = {'caller': 1, 'callee': 0, 'before': 1, 'after': 1, 'extra': [], 'alt': ar}
    elif cq < 0.7:
        clauses.append(['c', args, ['and', call('n', V('_')), call('p', *args)]])
        rel = {'caller': 1, 'callee': 0, 'before': nfacts, 'after': 1, 'extra': [], 'alt': ar}
    else:
        clauses.append(['c', args, ['and', call('p', *args), call('n', V('_'))]])
        rel = {'caller': 1, 'callee': 0, 'before': 1, 'after': nfacts, 'extra': [], 'alt': ar}
    clauses.append(['c', [A('alt') for _ in hv], ['true']])
    for i in range(1, nfacts + 1):
        clauses.append(['n', [progs_shapes._num(i)], ['true']])
    clauses.append(['s0', [], ['true']])
    clauses.append(['s1', [A('a')], ['true']])
    clauses.append(['z0', [], ['fail']])
    qv = [V('Q%d' % i) for i in range(ar)]
    queries = [['p', qv], ['c', qv]]
    # the same predicate with the padding goals (deterministic, succeed once, bind nothing visible) left out: its answers must be those
    # of p - the answers of a clause do not depend on the length of its body (intrinsic oracle check_same_answers)
    is_pad = lambda g: g in (call('s0'), call('s1', A('a')), eq(V('_'), A('k')), ['true'])
    short = [g for g in spine if not is_pad(g)] + ctl + tail
    for name, args, body in list(clauses):
        if name == 'p':
            clauses.append(['ps', copy.deepcopy(args), _conj(copy.deepcopy(short)) if body == _conj(goals()) else copy.deepcopy(body)])
    queries.append(['ps', qv])
    return {'clauses': clauses, 'queries': queries, 'shape': 'limit-body:%d' % est, 'relations': [rel], 'estimated_blocks': est, 'same_answers': [[0, 2]]}

def check_same_answers(case, io):
    """intrinsic oracle on the implementation alone: the queries paired in case['same_answers'] ask the same predicate with and without
    the deterministic padding goals of its long body; the answer sequences must be equal"""
    if not isinstance(io, dict) or 'queries' not in io:
        return None
    for i, j in case.get('same_answers', []):
        if max(i, j) >= len(io['queries']):
            continue
        a, b = io['queries'][i], io['queries'][j]
        if a['end'] != 'done' or b['end'] != 'done':
            continue
        if a['answers'] != b['answers'] or a['count'] != b['count']:
            return ('the answers of %s (%d) differ from those of %s (%d), the same clauses without the deterministic padding goals: the answers '
                    'depend on the length of the body' % (case['queries'][i][0], a['count'], case['queries'][j][0], b['count']))
    return None

# ------------------------------------------------------------------ three levels of local-cut constructs (C06)

def exhaustive_local_cut3_bodies(thorough=False):
    """yields bodies  O[ M[ I ] ]  over the head variables A (leaf of the cut condition), B (leaf of the inner construct), C (inner
    marker), D (outer marker):
       M[E] in { (c, ! -> C = mt ; E), (!, c -> C = mt ; E), (c, ! -> fail ; E), \\+ (!, c), E ;  \\+ (c, !), E }      c in {q0(A), q2(A) [, q1(A)]}
       I    in { (x -> C = it ; C = ie), (x -> C = it), \\+ x, (\\+ x ; C = w), \\+ \\+ x }                             x in {q0(B), q2(B) [, q1(B)]}
       O[G] in { (G -> D = then ; D = else), (G, q2(D) -> true ; D = else), (G -> q2(D) ; D = else), \\+ G, (\\+ G -> D = then ; D = else),
                 (Mneg -> I ; D = else)   [the inner construct in the then branch of the outer one] }"""
    lv = ['q0', 'q2'] + (['q1'] if thorough else [])
    m = lambda v, t: eq(V(v), A(t))
    mids = []
    for c in lv:
        cc = call(c, V('A'))
        mids.append(('ite', lambda E, cc=cc: ite(['and', cc, ['cut']], m('C', 'mt'), E)))
        mids.append(('ite', lambda E, cc=cc: ite(['and', ['cut'], cc], m('C', 'mt'), E)))
        mids.append(('ite', lambda E, cc=cc: ite(['and', cc, ['cut']], ['fail'], E)))
        mids.append(('neg', lambda E, cc=cc: ['and', ['not', ['and', ['cut'], cc]], E]))
        mids.append(('neg', lambda E, cc=cc: ['and', ['not', ['and', cc, ['cut']]], E]))
    inners = []
    for x in lv:
        xx = call(x, V('B'))
        inners += [ite(xx, m('C', 'it'), m('C', 'ie')), ['if', xx, m('C', 'it')], ['not', xx], ['or', ['not', xx], m('C', 'w')], ['not', ['not', xx]]]
    outers = [lambda G: ite(G, m('D', 'then'), m('D', 'else')),
              lambda G: ite(['and', G, call('q2', V('D'))], ['true'], m('D', 'else')),
              lambda G: ite(G, call('q2', V('D')), m('D', 'else')),
              lambda G: ['not', G],
              lambda G: ite(['not', G], m('D', 'then'), m('D', 'else'))]
    for kind, M in mids:
        for I in inners:
            G = M(I)
            for O in outers:
                yield O(copy.deepcopy(G))
            if kind == 'neg':
                # ( \+ Cc -> I ; D = else ): the negation with a cut is the condition, the inner construct the then branch
                yield ite(G[1], copy.deepcopy(I), m('D', 'else'))
                yield ite(G[1], ['and', copy.deepcopy(I), call('q2', V('D'))], m('D', 'else'))

def exhaustive_local_cut3_cases(thorough=False, per_program=6):
    """programs of per_program predicates  tK(A,B,C,D) :- body [, true].  tK(second, clause, _, _).  over the leaf facts q0 / q1 / q2"""
    bodies = list(exhaustive_local_cut3_bodies(thorough))
    for i in range(0, len(bodies), per_program):
        clauses = []
        queries = []
        for k, b in enumerate(bodies[i:i + per_program]):
            name = 't%d' % k
            clauses.append([name, [V('A'), V('B'), V('C'), V('D')], b if k % 2 else ['and', b, ['true']]])
            clauses.append([name, [A('second'), A('clause'), V('_'), V('_')], ['true']])
            queries.append([name, [V('Q0'), V('Q1'), V('Q2'), V('Q3')]])
        yield {'clauses': clauses + copy.deepcopy(EXH_FACTS), 'queries': queries, 'origin': 'exhaustive-local-cut3'}

def check_outer_commit(case, io):
    """intrinsic oracle on the implementation alone for the programs of exhaustive_local_cut3_cases: the outermost construct of every
    body is an if-then-else whose else branch is  D = else  (or a negation, which leaves D unbound), so the answers of the first clause
    never contain  D = else  next to an answer with another D: an if-then-else runs its then side or its else branch, never both."""
    if case.get('origin') != 'exhaustive-local-cut3' or not isinstance(io, dict) or 'queries' not in io:
        return None
    for q, iq in zip(case['queries'], io['queries']):
        if iq['end'] != 'done':
            continue
        ds = [a[3] for a in iq['answers'] if a[:2] != [[0, 'second'], [0, 'clause']]]
        if [0, 'else'] in ds and any(x != [0, 'else'] for x in ds):
            return 'query %s: answers from the then side AND from the else branch of the same if-then-else' % q[0]
    return None

def local_cut3_body(rng, vars_, leaves):
    """a random member of the same family with arbitrary leaves / markers (for the random programs)"""
    lf = lambda: call(rng.choice(leaves), V(rng.choice(vars_))) if leaves and rng.random() < 0.8 else rng.choice([['true'], ['fail']])
    mk = lambda t: eq(V(rng.choice(vars_)), A(t))
    c = lf(); x = lf()
    I = rng.choice([ite(x, mk('it'), mk('ie')), ['if', x, mk('it')], ['not', x], ['or', ['not', x], mk('w')], ['or', ite(x, mk('it'), mk('ie')), mk('w')]])
    cond = rng.choice([['and', c, ['cut']], ['and', ['cut'], c], ['and', c, ['and', ['cut'], ['fail']]], ['or', ['and', c, ['cut']], ['fail']]])
    r = rng.random()
    if r < 0.5: G = ite(cond, rng.choice([mk('mt'), ['fail'], ['true']]), I)
    else: G = ['and', ['not', cond], I]
    q = rng.random()
    if q < 0.3: return ite(G, mk('then'), mk('else'))
    if q < 0.45: return ite(['and', G, lf()], ['true'], mk('else'))
    if q < 0.6: return ite(G, lf(), mk('else'))
    if q < 0.72: return ['and', ['not', G], mk('after')]
    if q < 0.85 and G[0] == 'and': return ite(G[1], G[2], mk('else'))
    return ite(['not', G], mk('then'), mk('else'))
