"""Round 5 program shapes: a cut that stands in the text but is NOT executed on some calls.

The layered random programs of lib/progs.py place cuts where they are reached whenever the clause is entered.  The classes of
change that this family is aimed at reason about a cut STATICALLY ("after this clause / this branch nothing can follow"):
dead-clause elimination after a neck cut, pruning of the alternative behind a branch that ends in a cut, hoisting a cut out of a
branch.  Such reasoning is wrong exactly when the cut is not reached on a particular call:

  * the clause with the neck cut is not entered because its HEAD does not match (a repeated variable `d(X,X) :- !, ..`, a constant,
    a structure, a list pattern - or the head matches always: the control case),
  * a goal LEFT of the cut fails (`p(X) :- q(X), !, ..`),
  * the cut stands in the branch of an if-then-else / a disjunction that is not taken (`( C -> T ; !, E ) ; B`), possibly with a
    continuation behind the construct (which the compiler duplicates into the branches),

and in each case alternatives exist that must then still be tried: a right-hand side of an enclosing disjunction, later clauses
of the predicate, the caller's own alternatives.  Every program is queried so that the cut is reached on some calls and not on
others; each alternative binds a result variable to a tag of its own, so an answer names its path.
"""
from lib.progs import V, A, F

def call(f, *a): return ['call', f, list(a)]
def eq(a, b): return call('=', a, b)
def ite(c, t, e): return ['or', ['if', c, t], e]
def conj(goals):
    goals = list(goals)
    if not goals:
        return ['true']
    b = goals[-1]
    for g in reversed(goals[:-1]):
        b = ['and', g, b]
    return b

Q3 = [['q', [A('a')], ['true']], ['q', [A('b')], ['true']], ['q', [A('c')], ['true']]]
CONSTS = [A('a'), A('b'), A('c'), A('d')]

def _after_cut(rng, tag, res):
    """what follows the cut in its clause / branch: nothing, a tag, a generator and a tag, fail"""
    r = rng.random()
    if r < 0.2:
        return [['cut']]
    if r < 0.55:
        return [['cut'], eq(res, A(tag))]
    if r < 0.75:
        return [['cut'], call('q', V('G' + tag)), eq(res, F(tag, V('G' + tag)))]
    if r < 0.9:
        return [['cut'], ['fail']]
    return [eq(res, A(tag)), ['cut']]

def neck_cut_predicate(rng, name='d'):
    """name(A1, A2, R): first (or second) clause has a head that may or may not match, then a cut; later clauses follow"""
    shape = rng.choice(['rep', 'rep', 'rep', 'const', 'struct', 'list', 'allvars', 'rep-nested', 'rep3'])
    X, Y, R = V('X'), V('Y'), V('R')
    if shape == 'rep':
        head = [X, X, R]
    elif shape == 'rep3':
        head = [X, F('f', X), R]
    elif shape == 'rep-nested':
        head = [F('f', X, Y), F('f', Y, X), R]
    elif shape == 'const':
        head = [rng.choice(CONSTS[:3]), Y, R]
    elif shape == 'struct':
        head = [F('f', X), Y, R]
    elif shape == 'list':
        head = [['pair', X, V('T')], X, R]
    else:
        head = [X, Y, R]
    clauses = []
    if rng.random() < 0.3:      # an earlier clause that has answers of its own
        clauses.append([name, [V('P'), V('Q'), V('R')], conj([call('q', V('P')), eq(V('R'), A('early'))])])
    clauses.append([name, head, conj(_after_cut(rng, 'k', R))])
    for i in range(rng.choice([1, 1, 2])):
        k = rng.random()
        if k < 0.5:
            clauses.append([name, [V('_'), V('_'), A('late%d' % i)], ['true']])
        elif k < 0.8:
            clauses.append([name, [V('P'), V('Q'), V('R')], conj([call('q', V('G')), eq(V('R'), F('late%d' % i, V('G')))])])
        else:
            clauses.append([name, [V('P'), V('P'), A('same%d' % i)], ['true']])
    return clauses, shape

def _cond(rng, x):
    """a condition on x that succeeds for some values and fails for others"""
    r = rng.random()
    if r < 0.4:
        return eq(x, A('a'))
    if r < 0.7:
        return call('q', x)
    if r < 0.85:
        return ['and', call('q', x), call('\\=', x, A('b'))]
    return ['not', eq(x, A('a'))]

def branch_cut_predicate(rng, name='b'):
    """name(X, R): a control construct with a cut in ONE branch, standing to the left of further alternatives"""
    X, R = V('X'), V('R')
    where = rng.choice(['else', 'else', 'then', 'or-left', 'or-mid', 'guarded', 'nested-else'])
    tagT, tagE = [eq(R, A('t'))], [eq(R, A('e'))]
    if where == 'else':
        inner = ite(_cond(rng, X), conj(tagT), conj(_after_cut(rng, 'e', R)))
    elif where == 'then':
        inner = ite(_cond(rng, X), conj(_after_cut(rng, 't', R)), conj(tagE))
    elif where == 'nested-else':
        inner = ite(_cond(rng, X), conj(tagT), ite(eq(X, A('b')), conj(tagE), conj(_after_cut(rng, 'ee', R))))
    elif where == 'or-left':
        inner = ['or', conj([_cond(rng, X)] + _after_cut(rng, 'l', R)), conj(tagE)]
    elif where == 'or-mid':
        inner = ['or', eq(R, A('first')), ['or', conj([_cond(rng, X)] + _after_cut(rng, 'm', R)), conj(tagE)]]
    else:   # guarded: a goal that may fail stands left of the cut at the top of the body
        inner = conj([_cond(rng, X)] + _after_cut(rng, 'g', R))
    outer = rng.choice(['or', 'or', 'or-cont', 'cont', 'plain', 'or-or'])
    alt = eq(R, A('alt'))
    if outer == 'or':
        body = ['or', inner, alt]
    elif outer == 'or-or':
        body = ['or', ['or', inner, alt], eq(R, A('alt2'))]
    elif outer == 'or-cont':       # the continuation is duplicated into the branches by the compiler
        body = ['and', ['or', inner, alt], rng.choice([call('q', V('K')), eq(V('K'), A('k')), ['true']])]
    elif outer == 'cont':
        body = ['and', inner, rng.choice([call('q', V('K')), ['true']])]
    else:
        body = inner
    clauses = [[name, [X, R], body]]
    for i in range(rng.choice([1, 1, 2])):
        clauses.append([name, [V('_'), A('late%d' % i)], ['true']] if rng.random() < 0.6 else
                       [name, [V('P'), V('R')], conj([call('q', V('P')), eq(V('R'), A('late%d' % i))])])
    return clauses, where + '/' + outer

def gen_untaken_cut_program(rng):
    kind = rng.choice(['neck', 'neck', 'branch', 'branch', 'both'])
    clauses, queries, shape = [], [], []
    vals = [A('a'), A('b'), A('c'), A('d'), F('f', A('a')), ['list', [A('a')]], ['list', [A('a'), A('b')]]]
    if kind in ('neck', 'both'):
        cl, s = neck_cut_predicate(rng, 'd')
        clauses += cl; shape.append('neck:' + s)
        pairs = [(A('a'), A('a')), (A('a'), A('b')), (V('Q0'), A('a')), (A('b'), V('Q0')), (V('Q0'), V('Q1')), (V('Q0'), V('Q0')),
                 (F('f', A('a')), A('a')), (F('f', V('Q0')), F('f', A('b'))), (F('f', A('a'), A('b')), F('f', A('b'), A('a'))),
                 (F('f', A('a'), A('b')), F('f', A('a'), A('b'))), (['list', [A('a')]], A('a')), (['list', [A('a'), A('b')]], A('b')),
                 (A('a'), F('f', A('a'))), (A('c'), A('c'))]
        rng.shuffle(pairs)
        for x, y in pairs[:rng.choice([5, 6, 8])]:
            queries.append(['d', [x, y, V('QR')]])
        # a caller with alternatives of its own around the predicate: they must survive whatever the callee commits to
        clauses.append(['cd', [V('X'), V('Y'), V('R')], conj([call('q', V('X')), call('d', V('X'), V('Y'), V('R'))])])
        clauses.append(['cd', [A('own'), A('own'), A('own')], ['true']])
        queries.append(['cd', [V('Q0'), rng.choice([A('a'), A('b'), V('Q1')]), V('QR')]])
    if kind in ('branch', 'both'):
        cl, s = branch_cut_predicate(rng, 'b')
        clauses += cl; shape.append('branch:' + s)
        xs = [A('a'), A('b'), A('c'), A('d'), V('Q0')]
        rng.shuffle(xs)
        for x in xs[:rng.choice([3, 4, 5])]:
            queries.append(['b', [x, V('QR')]])
        clauses.append(['cb', [V('X'), V('R')], conj([call('q', V('X')), call('b', V('X'), V('R'))])])
        clauses.append(['cb', [A('own'), A('own')], ['true']])
        queries.append(['cb', [V('Q0'), V('QR')]])
    clauses += Q3
    return {'clauses': clauses, 'queries': queries, 'shape': 'untaken-cut:' + '+'.join(shape)}


# ------------------------------------------------------------------ round 6: atoms whose names collide under a plausible mangling
#
# Two different atoms are different terms whatever their names look like.  A compiler (or engine) that maps atom names to identifiers,
# dictionary keys or cache keys - escaping the characters an identifier cannot hold - is wrong exactly when its escaping is not
# injective: 'x y' and x_20y, 'a-b' and a_b, 'A' and a ...  The programs below contain groups of such atoms (as constants, as functor
# names of compound terms and inside lists) in positions where confusing two members of a group changes the answers.

_SPECIALS = [' ', '-', '.', '+', '$', ',', '(', ')', '!', ':', '/', 'é', '\n', '%', '"']

def mangling_group(rng):
    c = rng.choice(_SPECIALS)
    pre, post = rng.choice(['x', 'a', 'A', 'p', 'x1', 'atom', '']), rng.choice(['y', 'b', '1', 'Z', 'q'])
    base = pre + c + post
    o = ord(c)
    variants = [pre + '_' + post, pre + '_%02x' % o + post, pre + '_%02X' % o + post, pre + '_%d' % o + post, pre + '_%d_' % o + post,
                pre + '_x%02x' % o + post, pre + '_u%04x' % o + post, pre + '__' + post, pre + post, pre + c + c + post,
                pre + '_' + c + post, pre + ' ' + post, base.lower(), base.upper(), "A_" + pre + post, pre + "_" + post + "_0"]
    variants = [v for v in dict.fromkeys(variants) if v != base and v != '']
    rng.shuffle(variants)
    group = [base] + variants[:rng.choice([1, 2, 2, 3])]
    if rng.random() < 0.3:      # also names that differ only in quoting-relevant ways
        group.append(rng.choice(["it's", 'it_27s', 'its']))
    return group

def gen_mangled_atom_program(rng):
    g = mangling_group(rng)
    at = [A(n) for n in g]
    clauses = [['k', [a], ['true']] for a in at]
    # as functor names of compound terms, and in lists
    clauses += [['z', [F(n, A('i%d' % i))], ['true']] for i, n in enumerate(g)]
    clauses.append(['l', [['list', list(at)]], ['true']])
    clauses.append(['same', [V('X'), V('X')], ['true']])
    # every ordered pair of different members
    clauses.append(['t', [V('X'), V('Y')], conj([call('k', V('X')), call('k', V('Y')), call('\\=', V('X'), V('Y'))])])
    clauses.append(['e', [V('X'), V('Y')], conj([call('k', V('X')), call('k', V('Y')), call('same', V('X'), V('Y'))])])
    i, j = rng.sample(range(len(g)), 2)
    clauses.append(['u', [V('X')], conj([eq(V('X'), at[i]), eq(V('X'), at[j])])])                        # no answer
    clauses.append(['w', [V('R')], ite(eq(at[i], at[j]), eq(V('R'), A('same')), eq(V('R'), A('diff')))])
    clauses.append(['zz', [V('I'), V('J')], conj([call('z', F(g[i], V('I'))), call('z', F(g[j], V('J')))])])
    clauses.append(['m', [V('X'), V('R')], conj([call('l', V('L')), eq(V('L'), ['pair', V('X'), V('R')])])])
    # a clause per member with the member in the head: first-argument dispatch
    for n_, a in zip(g, at):
        clauses.append(['h', [a, A('is_' + str(g.index(n_)))], ['true']])
    queries = [['k', [V('Q0')]], ['t', [V('Q0'), V('Q1')]], ['e', [V('Q0'), V('Q1')]], ['u', [V('Q0')]], ['w', [V('Q0')]], ['zz', [V('Q0'), V('Q1')]],
               ['m', [V('Q0'), V('Q1')]], ['h', [V('Q0'), V('Q1')]], ['h', [at[j], V('Q0')]], ['k', [at[i]]], ['z', [F(g[j], V('Q0'))]]]
    return {'clauses': clauses, 'queries': queries, 'shape': 'mangled-atoms'}
