"""Programs of particular SHAPES that the layered random programs of lib/progs.py (bodies of at most a handful of
goals, calls only "downwards") never reach.  Same JSON shape: {'clauses': [[name, [args], body]], 'queries': [[name, [args]]]}.

  gen_long_body_program     clause bodies of 6-18 top-level goals (up to what CPython's limit of 20 nested blocks lets the
                            emitted text have), mostly cheap deterministic goals plus a few nondeterministic ones, with
                            cuts, cuts nested in ;/-> branches, if-then-else and negation at EVERY position of the body,
                            the last ones in particular; later clauses and caller alternatives for a cut to discard
  gen_recursive_program     a family of DIRECTLY RECURSIVE predicates (structural recursion over a list, over s(N), or along the
                            edges of a small acyclic graph; output argument built in the head, accumulator, target argument)
                            with cuts placed at random (base clause ending in a bare !, cut before the recursive call, both,
                            none), tail and non-tail recursion, nondeterministic goals left of the recursive call and a later
                            clause, so that every level of the recursion has alternatives of its own; finite data
  gen_first_binding_program bodies in which a clause-local (body-only) variable occurs FIRST in an = goal (on either side) inside a
                            scope whose bindings must be undone - the condition of an if-then-else, a negation, a disjunction
                            branch, a nested condition, the goal of once/call/findall - followed in the same scope by a goal
                            that may fail, and is used again in the else branch or after the construct; every clause-local
                            variable is exported through the head
All choices are drawn from the rng that is passed in."""
from .progs import V, A, F, _conj

N_FACTS = 3     # at most: n(1). n(2). n(3).

def _num(i): return ['num', str(i)]
def call(f, *a): return ['call', f, list(a)]
def eq(a, b): return call('=', a, b)
def neq(a, b): return call('\\=', a, b)
def ite(c, t, e): return ['or', ['if', c, t], e]

def top_level_goals(body):
    n = 1
    while body[0] == 'and':
        n += top_level_goals(body[1]); body = body[2]
    return n

def has_cut(body):
    k = body[0]
    if k == 'cut': return True
    if k in ('and', 'or', 'if'): return has_cut(body[1]) or has_cut(body[2])
    if k == 'not': return has_cut(body[1])
    return False

def count_loops(body, k=0):
    """upper bound of the number of nested `for` statements that the emitted text of body, followed by a continuation that
    is k loops deep, has on one path (the compiler rewrites in continuation-passing style: the continuation is nested inside
    every branch).  Every call is a loop, every if-then-else / negation a breakable block (two when the condition has a cut)."""
    t = body[0]
    if t == 'call': return 1 + k
    if t == 'and': return count_loops(body[1], count_loops(body[2], k))
    if t == 'or':
        if body[1][0] == 'if':
            blk = 2 if has_cut(body[1][1]) else 1
            return blk + max(count_loops(body[1][1], count_loops(body[1][2], k)), count_loops(body[2], k))
        return max(count_loops(body[1], k), count_loops(body[2], k))
    if t == 'if':
        blk = 2 if has_cut(body[1]) else 1
        return blk + count_loops(body[1], count_loops(body[2], k))
    if t == 'not':
        blk = 2 if has_cut(body[1]) else 1
        return blk + max(count_loops(body[1], 0), k)
    return k

def _term_var_names(t, acc):
    k = t[0]
    if k == 'var': acc.append(t[1])
    elif k == 'fun': [_term_var_names(x, acc) for x in t[2]]
    elif k == 'list': [_term_var_names(x, acc) for x in t[1]]
    elif k == 'pair': _term_var_names(t[1], acc); _term_var_names(t[2], acc)
    return acc

def head_loops(args):
    """loops of the head unification: a plain variable that occurs once in the whole head just names the argument, an
    anonymous variable is skipped, every other argument is a unify() loop"""
    names = []
    for a in args:
        _term_var_names(a, names)
    n = 0
    for a in args:
        if a[0] == 'var' and (a[1] == '_' or names.count(a[1]) == 1):
            continue
        n += 1
    return n

MAX_FOR = 19    # CPython refuses the 21st open block; one is left as a margin

MAX_FOR_EXACT = 20    # the limit itself: count_loops never underestimates (validated against the emitted text), so a body that it
                      # puts at 20 loads; should it ever be over, the compiler says "too large for Python" (D13) and the case is skipped

def fits(args, body, max_for=None):
    return 1 + head_loops(args) + count_loops(body) <= (max_for or MAX_FOR)

# ------------------------------------------------------------------ 1. long bodies

def _control_item(rng, bound, free, depth=0):
    """a goal that exercises control somewhere inside a long conjunction.  bound: head variables that a goal to the left has
    bound to a number; free: head variables nothing has touched yet (an item may bind one: the answer then shows the path)"""
    r = rng.random()
    def cond():
        q = rng.random()
        if bound and q < 0.45:
            return eq(V(rng.choice(bound)), _num(rng.randrange(1, N_FACTS + 1)))
        if bound and q < 0.6:
            return neq(V(rng.choice(bound)), _num(rng.randrange(1, N_FACTS + 1)))
        if q < 0.7: return call('s0')
        if q < 0.8: return call('z0')
        if q < 0.9: return call('n', V('_'))
        return ['fail'] if rng.random() < 0.5 else ['true']
    def mark(tag):
        # a goal that succeeds once and records which branch ran, if a head variable is still free
        if free and rng.random() < 0.7:
            return eq(V(free[0]), A(tag))
        return rng.choice([['true'], call('s0'), call('s1', A('a'))])
    def branch(tag, pcut):
        q = rng.random()
        if q < pcut:
            return rng.choice([['cut'], ['and', ['cut'], mark(tag)], ['and', mark(tag), ['cut']], ['and', call('n', V('_')), ['cut']]])
        if q < pcut + 0.1: return ['fail']
        if depth < 1 and q < pcut + 0.25:
            return _control_item(rng, bound, free, depth + 1)
        return mark(tag)
    if r < 0.14:
        return ['cut']
    if r < 0.42:     # if-then-else, cut in the then and/or the else branch
        return ite(cond(), branch('then', 0.55), branch('else', 0.35))
    if r < 0.52:     # if-then without else
        return ['if', cond(), branch('then', 0.6)]
    if r < 0.78:     # disjunction, cut in a branch
        a, b = branch('left', 0.45), branch('right', 0.45)
        if rng.random() < 0.3:
            a = ['and', cond(), a]
        return ['or', a, b]
    if r < 0.9:
        return ['not', cond()]
    return ite(cond(), mark('then'), mark('else'))

def long_body(rng, hv, n_goals):
    """a conjunction of n_goals top-level goals over the head variables hv: 1-3 nondeterministic goals n(V), 1-3 control
    items, the rest cheap deterministic goals; positions uniform over the body, with a second chance for the last ones"""
    def position():
        if rng.random() < 0.45:
            return rng.randrange(max(0, n_goals - 5), n_goals)
        return rng.randrange(n_goals)
    slots = [None] * n_goals
    nd_vars = list(hv[:rng.randrange(1, min(3, len(hv)) + 1)])
    for v in nd_vars:
        for _ in range(20):
            p = rng.randrange(n_goals)
            if slots[p] is None:
                slots[p] = ('nd', v); break
    n_ctl = rng.choice([1, 1, 2, 2, 3])
    for _ in range(n_ctl):
        for _ in range(20):
            p = position()
            if slots[p] is None:
                slots[p] = ('ctl',); break
    goals = []
    bound = []
    free = [v for v in hv if v not in nd_vars]
    for s in slots:
        if s is None:
            q = rng.random()
            if q < 0.7: g = call('s0')
            elif q < 0.8: g = call('s1', A('a'))
            elif q < 0.9: g = ['true']
            else: g = eq(V('_'), A('k'))
        elif s[0] == 'nd':
            g = call('n', V(s[1]));
        else:
            g = _control_item(rng, list(bound), list(free))
            # an item may have bound the first free variable on some path: later items use the next one
            if free and any(x == ['var', free[0]] for x in _flat_terms(g)):
                free = free[1:]
        goals.append(g)
        if s is not None and s[0] == 'nd':
            bound.append(s[1])
    return goals

def _flat_terms(b):
    k = b[0]
    if k == 'call':
        for a in b[2]:
            yield a
    elif k in ('and', 'or', 'if'):
        yield from _flat_terms(b[1]); yield from _flat_terms(b[2])
    elif k == 'not':
        yield from _flat_terms(b[1])

def gen_long_body_program(rng, max_for=None):
    fits_ = lambda a, b: fits(a, b, max_for)
    ar = rng.choice([2, 2, 3, 3, 4])
    hv = ['X', 'Y', 'Z', 'W'][:ar]
    nfacts = rng.choice([2, 2, 3])
    clauses = []
    n_long = rng.choice([1, 1, 2])
    n_cl = rng.choice([2, 2, 3, 4])
    long_at = sorted(rng.sample(range(n_cl), min(n_long, n_cl)))
    if rng.random() < 0.7 and (n_cl - 1) in long_at and len(long_at) == 1:
        long_at = [rng.randrange(0, n_cl - 1)]          # mostly: a later clause exists for the cut to discard
    for i in range(n_cl):
        head = [V(v) for v in hv]
        if i in long_at:
            n_goals = rng.choice([6, 8, 10, 11, 12, 13, 13, 14, 14, 15, 15, 16, 16, 17, 18])
            goals = long_body(rng, hv, n_goals)
            # stay inside what CPython loads: turn deterministic calls into `true` (no loop, still a goal) while needed
            idx = [j for j, g in enumerate(goals) if g in (call('s0'), call('s1', A('a')), eq(V('_'), A('k')))]
            rng.shuffle(idx)
            while not fits_(head, _conj(goals)) and idx:
                goals[idx.pop()] = ['true']
            if not fits_(head, _conj(goals)):
                goals = goals[:8]
                if not fits_(head, _conj(goals)):
                    goals = [call('n', V(hv[0])), ['cut']]
            if max_for and rng.random() < 0.5:
                goals.append(_control_item(rng, [], []))       # a control construct as the very last goal
                while not fits_(head, _conj(goals)) and len(goals) > 2:
                    del goals[rng.randrange(0, len(goals) - 1)]
            if max_for and rng.random() < 0.8:
                # boundary size: fill the clause up to exactly max_for nested blocks with deterministic calls in front of its last goals
                while len(goals) < 40 and fits_(head, _conj(goals[:1] + [call('s0')] + goals[1:])):
                    goals.insert(rng.randrange(0, max(1, len(goals) - 3)), call('s0'))
            clauses.append(['p', head, _conj(goals)])
        else:
            q = rng.random()
            if q < 0.5:
                clauses.append(['p', [A('c%d' % i) for _ in hv], ['true']])
            elif q < 0.75:
                clauses.append(['p', head, _conj([call('n', V(hv[0]))] + [eq(V(v), A('c%d' % i)) for v in hv[1:]])])
            else:
                clauses.append(['p', head, _conj([call('n', V(hv[0])), ['cut']] + [eq(V(v), A('c%d' % i)) for v in hv[1:]])])
    # callers with alternatives of their own, before and after the call
    cq = rng.random()
    if cq < 0.4:
        clauses.append(['c', [V(v) for v in hv], call('p', *[V(v) for v in hv])])
        rel = {'caller': 1, 'callee': 0, 'before': 1, 'after': 1, 'extra': [], 'alt': ar}
    elif cq < 0.7:
        clauses.append(['c', [V(v) for v in hv], ['and', call('n', V('_')), call('p', *[V(v) for v in hv])]])
        rel = {'caller': 1, 'callee': 0, 'before': nfacts, 'after': 1, 'extra': [], 'alt': ar}
    else:
        clauses.append(['c', [V(v) for v in hv], ['and', call('p', *[V(v) for v in hv]), call('n', V('_'))]])
        rel = {'caller': 1, 'callee': 0, 'before': 1, 'after': nfacts, 'extra': [], 'alt': ar}
    clauses.append(['c', [A('alt') for _ in hv], ['true']])
    for i in range(1, nfacts + 1):
        clauses.append(['n', [_num(i)], ['true']])
    clauses.append(['s0', [], ['true']])
    clauses.append(['s1', [A('a')], ['true']])
    clauses.append(['z0', [], ['fail']])
    qv = [V('Q%d' % i) for i in range(ar)]
    queries = [['p', qv], ['c', qv]]
    if rng.random() < 0.5:
        queries.append(['p', [_num(rng.randrange(1, nfacts + 1))] + qv[:ar - 1]])
    return {'clauses': clauses, 'queries': queries, 'shape': 'long-body', 'relations': [rel]}

# ------------------------------------------------------------------ 2. recursive families

def _lst(items): return ['list', items]
def _nat(n):
    t = A('z')
    for _ in range(n):
        t = F('s', t)
    return t

def gen_graph(rng):
    """a small acyclic graph (edges go from a lower to a higher node) with joins, so that several paths reach a node"""
    n = rng.randrange(3, 6)
    nodes = ['v%d' % i for i in range(n)]
    edges = []
    for i in range(n):
        for j in range(i + 1, n):
            if rng.random() < (0.75 if j == i + 1 else 0.45):
                edges.append((nodes[i], nodes[j]))
    if not edges:
        edges = [(nodes[0], nodes[1]), (nodes[0], nodes[2]), (nodes[1], nodes[2])]
    rng.shuffle(edges)
    return nodes, edges

def gen_recursive_program(rng):
    kind = rng.choice(['list', 'nat', 'graph', 'graph'])
    extra = rng.choice(['none', 'out', 'acc', 'target', 'target+out'] if kind != 'graph' else ['target', 'target+out', 'out', 'none'])
    base_cut = rng.random() < 0.55                                   # the base clause ends in a bare !
    base_cut_then_goal = (not base_cut) and rng.random() < 0.2       # the base clause is  :- !, goal.
    rec_cut = rng.choice(['none', 'none', 'none', 'first', 'before-call', 'between'])    # a cut left of the recursive call
    tail = rng.random() < 0.7                                        # the recursive call is the last goal
    gens = rng.choice([0, 1, 1, 2]) if kind != 'graph' else rng.choice([0, 0, 1])      # nondeterministic goals left of the recursive call
    later = rng.random() < 0.5                                       # a later clause that also matches at every level
    rec_first = rng.random() < 0.2                                   # the recursive clause is written before the base clause
    nfacts = rng.choice([2, 2, 3])
    fan = nfacts ** gens
    maxlen = 4 if fan == 1 else 3 if fan <= 3 else 2 if fan <= 6 else 1       # keeps the number of answers small
    name = 'r'
    facts = [['n', [_num(i)], ['true']] for i in range(1, nfacts + 1)]
    # --- the argument the recursion descends on
    nodes = []
    if kind == 'list':
        base_s, rec_s, next_s, elem = _lst([]), ['pair', V('H'), V('T')], V('T'), V('H')
    elif kind == 'nat':
        base_s, rec_s, next_s, elem = A('z'), F('s', V('N')), V('N'), A('k')
    else:
        nodes, edges = gen_graph(rng)
        facts += [['e', [A(a), A(b)], ['true']] for a, b in edges]
        base_s, rec_s, next_s, elem = V('X'), V('X'), V('Y'), V('X')
    base_args, rec_args, call_args = [base_s], [rec_s], [next_s]
    rec_goals = [call('e', V('X'), V('Y'))] if kind == 'graph' else []
    gvars = ['G%d' % i for i in range(gens)]
    rec_goals += [call('n', V(g)) for g in gvars]
    item = F('f', *([elem] + [V(g) for g in gvars])) if gvars else elem      # what the output / accumulator collects at a level
    # --- the other arguments
    if 'target' in extra:
        if kind == 'graph':      # r(X, X)  /  r(X, Z) :- e(X, Y), r(Y, Z).
            base_args.append(V('X')); rec_args.append(V('Z')); call_args.append(V('Z'))
        elif kind == 'list':     # r([E|_], E)  /  r([H|T], E) :- r(T, E).
            base_args = [['pair', V('E'), V('_')], V('E')]; rec_args.append(V('E')); call_args.append(V('E'))
        else:                    # r(z, E)  /  r(s(N), E) :- r(N, E).   E passes through
            base_args.append(V('E')); rec_args.append(V('E')); call_args.append(V('E'))
    if 'out' in extra:           # output built in the head on the way down: tail recursion stays tail recursion
        base_args.append(_lst([V('X')]) if kind == 'graph' else _lst([]))
        rec_args.append(['pair', item, V('R')]); call_args.append(V('R'))
    if extra == 'acc':
        base_args += [V('Acc'), V('Acc')]
        rec_args += [V('Acc'), V('Res')]
        call_args += [['pair', item, V('Acc')], V('Res')]
    # --- cuts
    if rec_cut == 'first':
        rec_goals.insert(0, ['cut'])
    elif rec_cut == 'before-call':
        rec_goals.append(['cut'])
    elif rec_cut == 'between' and rec_goals:
        rec_goals.insert(rng.randrange(1, len(rec_goals) + 1), ['cut'])
    via = rng.random() < 0.2                                         # mutual recursion: the recursive call goes through a second predicate
    rec_goals.append(call('rr' if via else name, *call_args))
    if not tail:
        rec_goals.append(rng.choice([call('n', V('_')), ['true'], call('s0'), ['cut'], eq(V('_'), A('k'))]))
    base_body = ['cut'] if base_cut else (['and', ['cut'], call('s0')] if base_cut_then_goal else ['true'])
    if rng.random() < 0.2:       # the base clause's body ends inside a branch
        base_body = rng.choice([['or', ['fail'], base_body], ite(call('s0'), base_body, ['true']), ['and', call('s0'), base_body]])
    base = [name, base_args, base_body]
    rec = [name, rec_args, _conj(rec_goals)]
    clauses = [rec, base] if rec_first else [base, rec]
    ar = len(base_args)
    if via:
        fa = [V('A%d' % i) for i in range(ar)]
        fb = [call(name, *fa)]
        if rng.random() < 0.3:
            fb.append(['cut'])
        clauses.append(['rr', fa, _conj(fb)])
        if rng.random() < 0.3:
            clauses.append(['rr', [V('_') for _ in range(ar - 1)] + [A('via')], ['true']] if ar >= 2 else ['rr', [V('_')], ['fail']])
    if later:
        la = [V('_') for _ in range(ar)]
        if ar >= 2:
            la[-1] = A('later')
        clauses.append([name, la, ['true'] if rng.random() < 0.7 else call('n', V('_'))])
    # --- queries: the descent argument is always given, so every search is finite
    def start(n=None):
        if n is None:
            n = rng.randrange(0, maxlen + 1)
        if kind == 'list': return _lst([A(rng.choice(['a', 'b', 'c'])) for _ in range(n)])
        if kind == 'nat': return _nat(n)
        return A(nodes[0] if rng.random() < 0.6 else rng.choice(nodes))
    def qargs(s):
        args = [s]
        names = iter(['Q%d' % k for k in range(4)])
        if 'target' in extra:
            if kind == 'graph':
                args.append(rng.choice([V(next(names)), A(rng.choice(nodes[1:])), A(nodes[-1]), A('later')]))
            else:
                args.append(rng.choice([V(next(names)), A(rng.choice(['a', 'b', 'later']))]))
        if 'out' in extra:
            args.append(V(next(names)))
        if extra == 'acc':
            args += [_lst([]), V(next(names))]
        return args
    queries = []
    for i in range(3):
        q = [name, qargs(start(None if i else maxlen))]
        if q not in queries:
            queries.append(q)
    # a caller that exports the open arguments and has a generator of its own and a later clause
    wa = qargs(start(rng.randrange(1, maxlen + 1)))
    wvars = [a for a in wa if a[0] == 'var']
    whead = [V('W%d' % i) for i in range(len(wvars))] + [V('WG')]
    wcall = [(V('W%d' % wvars.index(a)) if a in wvars else a) for a in wa]
    wb = [call('n', V('WG')), call(name, *wcall)]
    after = 1
    if rng.random() < 0.4:
        wb.append(call('n', V('_')))
        after = nfacts
    clauses.append(['w', whead, _conj(wb)])
    clauses.append(['w', [A('alt') for _ in whead], ['true']])
    # the call the wrapper makes, as a query of its own, and the wrapper: their answers are related (check_relations)
    if [name, wa] not in queries:
        queries.append([name, wa])
    queries.append(['w', [V('Q%d' % i) for i in range(len(whead))]])
    rel = {'caller': len(queries) - 1, 'callee': queries.index([name, wa]), 'before': 1, 'after': after,
           'extra': [[1, i] for i in range(1, nfacts + 1)], 'alt': len(whead)}
    clauses += facts
    clauses.append(['s0', [], ['true']])
    return {'clauses': clauses, 'queries': queries, 'shape': 'recursive:%s:%s' % (kind, extra), 'relations': [rel]}

# ------------------------------------------------------------------ 3. first occurrence of a clause-local variable in an = goal

def gen_first_binding_program(rng):
    atoms = ['a', 'b', 'c']
    ok = sorted(rng.sample(atoms, rng.choice([1, 1, 2])))        # ok/1 holds for these
    clauses = []
    queries = []
    ncl = rng.randrange(2, 5)
    for ci in range(ncl):
        name = 't%d' % ci
        for attempt in range(8):
            cl = _first_binding_clause(rng, name, atoms, 1 if attempt >= 4 else rng.choice([1, 1, 2]))
            if fits(cl[1], cl[2]):
                break
        else:
            cl = [name, [V('R0')], ite(['and', eq(V('L0'), A('a')), call('ok', V('L0'))], eq(V('R0'), F('then', V('L0'))), eq(V('R0'), F('else', V('L0'))))]
        clauses.append(cl)
        queries.append([name, [V('Q%d' % i) for i in range(len(cl[1]))]])
    for a in ok:
        clauses.append(['ok', [A(a)], ['true']])
    for a in rng.sample(atoms, 2):
        clauses.append(['g', [A(a)], ['true']])
    clauses.append(['touch', [V('_')], ['true']])
    clauses.append(['s0', [], ['true']])
    return {'clauses': clauses, 'queries': queries, 'shape': 'first-binding'}

def _first_binding_clause(rng, name, atoms, nloc):
    if True:
        locs = ['L%d' % i for i in range(nloc)]
        goals = []
        outs = []
        def out():
            v = 'R%d' % len(outs)
            outs.append(v)
            return V(v)
        if rng.random() < 0.3:
            goals.append(rng.choice([call('g', V('_')), call('s0'), call('g', out())]))     # something before that does not mention the local
        mentioned = set()
        for li, L in enumerate(locs):
            if rng.random() < 0.12:
                goals.append(rng.choice([call('touch', V(L)), eq(out(), F('seen', V(L)))]))      # control group: not the first occurrence
                mentioned.add(L)
            goals.append(_binding_scope(rng, L, [x for x in locs[:li]], atoms, out))
        # after the constructs: look at the locals again and export every one of them
        for L in locs:
            q = rng.random()
            if q < 0.3:
                goals.append(call('g', V(L)))
            elif q < 0.4:
                goals.append(neq(V(L), A(rng.choice(atoms))))
            elif q < 0.5:
                goals.append(ite(neq(V(L), A(rng.choice(atoms))), eq(out(), A('differs')), eq(out(), A('unifies'))))
            goals.append(eq(out(), V(L)))
        head = [V(v) for v in outs]
        return [name, head, _conj(goals)]

def _binding_scope(rng, L, earlier, atoms, out):
    """a construct in whose inner scope the variable L occurs first in an = goal, followed in that scope by a goal that may fail"""
    def value():
        q = rng.random()
        if q < 0.55: return A(rng.choice(atoms))
        if q < 0.7: return F('f', A(rng.choice(atoms)))
        if q < 0.8 and earlier: return V(rng.choice(earlier))
        if q < 0.9: return F('f', V('_'))
        return _lst([A(rng.choice(atoms))])
    def first():
        t = value()
        return eq(V(L), t) if rng.random() < 0.7 else eq(t, V(L))
    def test():
        q = rng.random()
        if q < 0.5: return call('ok', V(L))
        if q < 0.65: return neq(V(L), A(rng.choice(atoms)))
        if q < 0.8: return eq(V(L), A(rng.choice(atoms)))
        if q < 0.9: return ['fail']
        return call('g', V(L))
    def scope():
        gs = [first(), test()]
        if rng.random() < 0.25:
            gs.insert(1, rng.choice([call('s0'), call('g', V('_'))]))
        if rng.random() < 0.15:
            gs.insert(0, rng.choice([call('s0'), ['true']]))
        return _conj(gs)
    def use(tag):
        q = rng.random()
        if q < 0.5: return eq(out(), F(tag, V(L)))
        if q < 0.7: return _conj([eq(V(L), A('z')), eq(out(), F(tag, V(L)))])
        if q < 0.85: return ite(neq(V(L), A(rng.choice(atoms))), eq(out(), A(tag + '_differs')), eq(out(), A(tag + '_unifies')))
        return ['true']
    k = rng.random()
    if k < 0.3:
        return ite(scope(), use('then'), use('else'))
    if k < 0.4:
        # without else: the clause fails when the condition does; put it in a disjunction so that something is observed
        return ['or', ['if', scope(), use('then')], use('other')]
    if k < 0.5:
        return ite(['and', rng.choice([call('s0'), call('g', V('_'))]), ite(scope(), ['true'], ['fail'])], use('then'), use('else'))   # nested condition
    if k < 0.62:
        return ['and', ['not', scope()], use('after_not')] if rng.random() < 0.6 else ite(['not', scope()], use('then'), use('else'))
    if k < 0.76:
        return ['or', scope(), use('right')] if rng.random() < 0.6 else ['or', ['and', scope(), ['fail']], use('right')]
    if k < 0.84:
        return ite(call('once', ['fun', '=', first()[2]]), ['and', ['or', test(), ['true']], use('then')], use('else'))
    if k < 0.92:
        f = first()
        return _conj([call('findall', V(L) if rng.random() < 0.5 else A('x'), ['fun', '=', f[2]], out()), use('after_findall')])
    f = first()
    return ite(['and', call('call', ['fun', '=', f[2]]), test()], use('then'), use('else'))

# ------------------------------------------------------------------ 4. findall/3 with a bag that is not a fresh variable

def gen_findall_bag_program(rng):
    """findall(Template, Goal, Bag) where Bag is already (partly) instantiated when findall is called - a closed list, a partial
    list, a list bound by an earlier goal - and shares unbound variables with Goal, with Template, or (through an instance that
    contains a variable of the caller) with an answer; Goal has several answers and later answers depend on a caller variable
    (tests with = and \\=, fact lookups keyed on it).  The standard reading - run Goal on its own, collect, then unify the list
    with Bag - is what the model computes; every variable of the caller is exported through the head."""
    atoms = ['a', 'b', 'c']
    clauses = []
    has_fv = False
    # h(V, X): 2-3 clauses; the instance is V itself, a structure around it, or a constant; later clauses test V
    for _ in range(rng.randrange(2, 4)):
        pre = rng.choice([['true'], ['true'], eq(V('V'), A(rng.choice(atoms))), neq(V('V'), A(rng.choice(atoms))), call('k', V('V'), V('_'))])
        val = rng.choice([V('V'), V('V'), F('f', V('V')), A(rng.choice(atoms)), A(rng.choice(atoms))])
        body = eq(V('X'), val) if pre == ['true'] else ['and', pre, eq(V('X'), val)]
        if rng.random() < 0.3:
            body = ['and', eq(V('X'), val), pre] if pre != ['true'] else body
        clauses.append(['h', [V('V'), V('X')], body])
        has_fv = has_fv or val[0] == 'fun'
    clauses.append(['g', [V('V'), V('V')], ['true']])
    clauses.append(['g', [A(rng.choice(atoms)), A(rng.choice(atoms))], ['true']])
    ks = [(rng.choice(atoms), rng.choice(['y', 'z'])) for _ in range(rng.randrange(2, 4))]
    for a, b in ks:
        clauses.append(['k', [A(a), A(b)], ['true']])
    queries = []
    for ti in range(rng.randrange(2, 5)):
        name = 't%d' % ti
        tail = V('T')
        goal_kind = rng.choice(['h', 'h', 'g', 'k-tail', 'k', 'call'])
        pre = []
        if goal_kind == 'h': goal = F('h', V('V'), V('X'))
        elif goal_kind == 'g': goal = F('g', V('V'), V('X'))
        elif goal_kind == 'k-tail': goal = F('k', V('X'), V('T'))          # the goal binds the variable that is the bag's tail
        elif goal_kind == 'k': goal = F('k', V('X'), V('V'))
        else:
            gf = rng.choice(['h', 'g'])
            pre.append(eq(V('G'), F(gf, V('V'))))
            goal = F('call', V('G'), V('X'))
        # no occurs check in this engine: keep V out of the bag when an instance can be f(V) (V = f(V) is outside the property)
        v_ok = not (has_fv and (goal_kind == 'h' or (goal_kind == 'call' and gf == 'h')))
        tmpl = rng.choice([V('X'), V('X'), F('p', V('X')), F('p', V('X'), V('V'))])
        used = []
        def elem():
            q = rng.random()
            if q < 0.45: e = A(rng.choice(atoms))
            elif q < 0.6: e = V('_')
            elif q < 0.75: e = V('V') if v_ok else V('E')
            elif q < 0.85: e = V('E')
            else: e = V('X')
            if e[1] != '_' and not v_ok:
                # instances may be V and f(V): a variable that meets two of them would make V = f(V)
                if used: e = V('_')
                else: used.append(e[1])
            if tmpl[0] == 'fun' and (e == V('V') or rng.random() < 0.8):
                e = F('p', *([e] + [V('_')] * (len(tmpl[2]) - 1)))
            return e
        q = rng.random()
        n_el = rng.choice([0, 1, 1, 2])
        if q < 0.12: bag = V('T')                                           # control: a fresh bag
        elif q < 0.55:
            bag = tail
            for e in reversed([elem() for _ in range(max(1, n_el))]):
                bag = ['pair', e, bag]
        else:
            bag = _lst([elem() for _ in range(n_el)])
        if rng.random() < 0.25 and bag[0] != 'var':
            pre.append(eq(V('L'), bag)); bag = V('L')                       # the bag was bound by an earlier goal
        goals = pre + [call('findall', tmpl, goal, bag)]
        if rng.random() < 0.3:
            goals.append(rng.choice([call('k', V('V'), V('_')), eq(V('V'), A(rng.choice(atoms)))]))
        clauses.append([name, [V('V'), V('T'), V('E')], _conj(goals)])
        queries.append([name, [V('Q0'), V('Q1'), V('Q2')]])
        if rng.random() < 0.5:
            queries.append([name, [A(rng.choice(atoms)), V('Q0'), V('Q1')]])
    return {'clauses': clauses, 'queries': queries, 'shape': 'findall-bag'}


# ------------------------------------------------------------------ the caller's alternatives, as an oracle on the implementation alone

def check_relations(case, io, limit=150):
    """"the caller's own alternatives are untouched", stated on the implementation's observations only (no model): the generated
    caller  c(Xs) :- [n(_),] p(Xs) [, n(_)].  c(alt,..).   (resp.  w(Ws, G) :- n(G), r(..Ws..) [, n(_)].  w(alt,..).)  must answer
    exactly: for every solution of its own generator in order, every answer of the callee (as a query of its own) in order, each as
    many times as the goal after the call has solutions - and then its own last clause, whatever the callee did with cuts."""
    if not isinstance(io, dict) or 'queries' not in io:
        return None
    for rel in case.get('relations', []):
        qs = io['queries']
        if max(rel['caller'], rel['callee']) >= len(qs):
            continue
        c, p = qs[rel['caller']], qs[rel['callee']]
        if c['end'] != 'done' or p['end'] != 'done' or c['count'] > limit or p['count'] > limit:
            continue
        alt = [[0, 'alt']] * rel['alt']
        exp = []
        if rel['extra']:
            for e in rel['extra']:
                for a in p['answers']:
                    exp += [a + [e]] * rel['after']
        else:
            for _ in range(rel['before']):
                for a in p['answers']:
                    exp += [a] * rel['after']
        exp.append(alt)
        if c['answers'] != exp:
            return ('the answers of the caller %s are not those of its callee %s (%d answers) inside the caller\'s own alternatives followed by '
                    'the caller\'s last clause: %d answers instead of %d' % (case['queries'][rel['caller']][0], case['queries'][rel['callee']][0], p['count'], c['count'], len(exp)))
    return None
