"""Source-level tie for the rewriting compiler: Python source -> Gallina.

Reads $VERIF_REPO/src/yldprolog/yp_generator.py (and yp_prolog_visitor.py for the class
hierarchy) with the `ast` module and translates the methods

    YPPrologCompiler.has_local_cut    ->  tcut_src : body -> bool
    YPPrologCompiler.localize_cuts    ->  loc_src  : nat -> body -> body
    YPPrologCompiler.compile_body     ->  comp_src : nat -> body -> nat -> option (list stmt * nat)

(compile_predicate, and any other non-recursive helper method called from them, is inlined at
its call sites; get_cut_if_label is checked to be "increment the counter, return a label that
is an injective function of the new counter value").  The translator understands a small fixed
vocabulary of Python (see notes/TIE.md) and REFUSES everything else with a TieError that names
the source line.  It never looks at the source text as a whole: every statement is translated
compositionally, so an edit inside the vocabulary yields a different Gallina term, and the
Coq lemma `comp_src_eq` (coq/tie/CompileBodyTie.v.in), re-checked on every run, decides whether
the term still equals the hand-written model.

Python semantics assumed (the trusted part): see notes/TIE.md.
"""
import ast, os, sys

class TieError(Exception):
    def __init__(self, msg, node=None, func=None):
        self.lineno = getattr(node, 'lineno', None)
        self.func = func
        where = ''
        if self.lineno is not None:
            where = ' (yp_generator.py line %d%s)' % (self.lineno, ', in ' + func if func else '')
        Exception.__init__(self, msg + where)

# ---------------------------------------------------------------- fixed tables

# Python AST class -> (Gallina constructor of Lang/Ast.body, arity)
BODY_CTOR = {
    'ConjunctionPredicate': ('BAnd', 2), 'DisjunctionPredicate': ('BOr', 2), 'IfThenPredicate': ('BIf', 2),
    'NegationPredicate': ('BNot', 1), 'TruePredicate': ('BTrue', 0), 'FailPredicate': ('BFail', 0),
    'CutPredicate': ('BCut', 0), 'CutIfMarker': ('BMark', 1), 'Predicate': ('BCall', 2),
}
ALL_CTORS = ['BCall', 'BTrue', 'BFail', 'BCut', 'BMark', 'BAnd', 'BOr', 'BIf', 'BNot']
# field types of the Gallina constructors
CTOR_FIELD_TYPES = {'BAnd': ['body', 'body'], 'BOr': ['body', 'body'], 'BIf': ['body', 'body'], 'BNot': ['body'],
                    'BMark': ['label'], 'BCall': ['str', 'sterms'], 'BTrue': [], 'BFail': [], 'BCut': []}
# BCall f args stands for Predicate(functor=Functor(name=Atom(value=f), args=args)); these shapes are checked in the source
PRED_SHAPE = {'Predicate': ['functor'], 'Functor': ['name', 'args'], 'Atom': ['value']}

# term AST class -> Gallina constructor of Lang/Ast.sterm
TERM_CTOR = {'Atom': 'SAtom', 'NumeralTerm': 'SNum', 'VariableTerm': 'SVar', 'Functor': 'SFun', 'ListTerm': 'SList', 'ListPairTerm': 'SPair'}
ALL_TCTORS = ['SAtom', 'SNum', 'SVar', 'SFun', 'SList', 'SPair']
TCTOR_FIELD_TYPES = {'SAtom': ['str'], 'SNum': ['str'], 'SVar': ['str'], 'SFun': ['str', 'sterms'], 'SList': ['sterms'], 'SPair': ['sterm', 'sterm']}
# subclasses that the front end model represents by the constructor of their base class (Lang/Ast.v: anonymous variables are SVar "x<k+1>");
# an isinstance test against such a class cannot be decided on the Gallina side and is refused
TERM_ALIAS = {'AnonymousVariableTerm': ('VariableTerm', 'varname')}

# YPCode* class -> (Gallina constructor, argument types, result type)
CODE_CTOR = {
    'YPCodeForeach': ('SForeach', ['expr', 'code'], 'stmt'),
    'YPCodeYieldFalse': ('SYieldFalse', [], 'stmt'), 'YPCodeYieldTrue': ('SYieldTrue', [], 'stmt'),
    'YPCodeYieldBreak': ('SReturn', [], 'stmt'),
    'YPCodeBreakableBlock': ('SBlock', ['label', 'code'], 'stmt'), 'YPCodeBreakBlock': ('SBreakBlock', ['label'], 'stmt'),
    'YPCodeCall': ('ECall', ['str', 'exprs'], 'expr'), 'YPCodeExpr': ('EStr', ['str'], 'expr'),
    'YPCodeList': ('EList', ['exprs'], 'expr'), 'YPCodeVar': ('EVar', ['str'], 'expr'), 'YPCodeValue': ('ENum', ['str'], 'expr'),
}
CODE_CTOR_PARAMS = {   # expected __init__ parameters (checked in the source)
    'YPCodeForeach': ['loop_expression', 'loop_code'], 'YPCodeYieldFalse': [], 'YPCodeYieldTrue': [], 'YPCodeYieldBreak': [],
    'YPCodeBreakableBlock': ['label', 'body'], 'YPCodeBreakBlock': ['label'], 'YPCodeCall': ['func', 'args'],
    'YPCodeExpr': ['expr'], 'YPCodeList': ['l'], 'YPCodeVar': ['name'], 'YPCodeValue': ['val'],
}

# translated top-level functions: python name -> (gallina name, python parameter types, gallina parameter order, result type)
TOP = {
    'has_local_cut': ('tcut_src', ['body'], [0], 'bool'),
    'localize_cuts': ('loc_src', ['body', 'label'], [1, 0], 'body'),
    'compile_body': ('comp_src', ['body'], [0], 'code'),
    'compile_expression': ('compile_expression_src', ['sterm'], [0], 'expr'),
    'compile_unification': ('compile_unification_src', ['str', 'sterm', 'code'], [0, 1, 2], 'code'),
}
NONRECURSIVE = {'compile_unification'}
# functions with a loop: translated into the option monad (None = IndexError), with the attribute self.head_args_by_pos as an explicit parameter
LOOPFUN = {'compile_arg_list_unification': ('compile_arg_list_unification_src', ['sterms', 'code'], 'code')}
# methods that are referred to by name (hand-written Gallina, tied elsewhere)
EXTERNAL_MAP_FUNS = {'compile_expression': 'compile_expression_src'}

GTYPE = {'body': 'body', 'label': 'nat', 'bool': 'bool', 'code': 'list stmt', 'sterm': 'sterm', 'expr': 'expr', 'str': 'str', 'sterms': 'list sterm'}

class Val:
    __slots__ = ('ty', 'tx', 'fields')
    def __init__(self, ty, tx, fields=None):
        self.ty, self.tx, self.fields = ty, tx, fields

# ---------------------------------------------------------------- class hierarchy

def _self_attr(node, name=None):
    return (isinstance(node, ast.Attribute) and isinstance(node.value, ast.Name) and node.value.id == 'self'
            and (name is None or node.attr == name))

class Classes:
    """class name -> bases, __init__ parameters and field -> parameter position, read from the source"""
    def __init__(self, modules):
        self.bases, self.params, self.fields, self.node = {}, {}, {}, {}
        for m in modules:
            for n in m.body:
                if isinstance(n, ast.ClassDef):
                    if n.name in self.bases:
                        raise TieError('class %s is defined twice' % n.name, n)
                    if n.keywords or n.decorator_list:
                        raise TieError('class %s has a metaclass/keywords/decorators' % n.name, n)
                    bs = []
                    for b in n.bases:
                        if not isinstance(b, ast.Name):
                            raise TieError('class %s: base class is not a plain name' % n.name, n)
                        bs.append(b.id)
                    self.bases[n.name] = bs
                    self.node[n.name] = n
                    init = [f for f in n.body if isinstance(f, ast.FunctionDef) and f.name == '__init__']
                    if init:
                        self._read_init(n.name, init[0])
    def _read_init(self, cname, f):
        a = f.args
        if a.vararg or a.kwarg or a.kwonlyargs or a.posonlyargs:
            raise TieError('%s.__init__: only plain positional parameters are understood' % cname, f)
        ps = [x.arg for x in a.args][1:]
        fields = {}
        for st in f.body:
            if isinstance(st, ast.Expr) and isinstance(st.value, ast.Constant) and isinstance(st.value.value, str):
                continue
            if (isinstance(st, ast.Expr) and isinstance(st.value, ast.Call) and isinstance(st.value.func, ast.Attribute)
                    and st.value.func.attr == '__init__' and isinstance(st.value.func.value, ast.Name) and st.value.func.value.id in self.bases.get(cname, [])):
                continue      # Base.__init__(self, ...): sets the inherited fields, which the translated code must not read (enforced by paths)
            if (isinstance(st, ast.Assign) and len(st.targets) == 1 and _self_attr(st.targets[0])):
                if isinstance(st.value, ast.Name) and st.value.id in ps:
                    fields[st.targets[0].attr] = ps.index(st.value.id)
                else:
                    fields[st.targets[0].attr] = None     # a computed field: not readable by translated code
                continue
            fields['*'] = None
        self.params[cname] = ps
        self.fields[cname] = fields
    def subclass(self, c, d):
        """is c a (reflexive, transitive) subclass of d"""
        if c == d:
            return True
        return any(self.subclass(b, d) for b in self.bases.get(c, []) if b in self.bases)
    def field_index(self, cname, field, node):
        fs = self.fields.get(cname, {})
        if '*' in fs:
            raise TieError('%s.__init__ contains statements that are not understood' % cname, node)
        if fs.get(field) is None:
            raise TieError('field .%s of %s is not a constructor parameter stored as it is' % (field, cname), node)
        return fs[field]
    def check_tables(self):
        for c in BODY_CTOR:
            if c not in self.bases:
                raise TieError('class %s not found in the source' % c)
        # the classes we interpret (and their bases) are plain classes
        rel = set(BODY_CTOR) | set(CODE_CTOR) | set(PRED_SHAPE) | set(TERM_CTOR) | set(TERM_ALIAS)
        for c in list(self.bases):
            if any(self.subclass(r, c) for r in rel if r in self.bases):
                for f in self.node[c].body:
                    if isinstance(f, ast.FunctionDef) and f.name in ('__instancecheck__', '__subclasscheck__', '__new__', '__getattr__', '__getattribute__', '__setattr__', '__init_subclass__'):
                        raise TieError('class %s defines %s' % (c, f.name), f)
                    if isinstance(f, (ast.Assign, ast.AnnAssign)) and any(isinstance(x, ast.Name) and x.id == '__class__' for x in ast.walk(f)):
                        raise TieError('class %s assigns __class__' % c, f)
        # closed world: every class below an AST class is itself an AST class of the table
        for c in self.bases:
            for d in BODY_CTOR:
                if c not in BODY_CTOR and self.subclass(c, d):
                    raise TieError('class %s is a subclass of %s but has no constructor in Lang/Ast.body' % (c, d), self.node[c])
        for c, (g, ar) in BODY_CTOR.items():
            if c == 'Predicate':
                for k, want in PRED_SHAPE.items():
                    if self.params.get(k) != want or sorted(self.fields[k], key=lambda f: self.fields[k][f]) != want:
                        raise TieError('%s is expected to store exactly its parameters %s' % (k, want), self.node[k])
                continue
            ps = self.params.get(c, [])
            if len(ps) != ar:
                raise TieError('%s takes %d constructor arguments, Lang/Ast.%s has %d' % (c, len(ps), g, ar), self.node[c])
            got = sorted(i for i in self.fields.get(c, {}).values() if i is not None)
            if got != list(range(ar)):
                raise TieError('%s does not store each constructor argument in one field' % c, self.node[c])
        for c, g in TERM_CTOR.items():
            if c not in self.bases:
                raise TieError('class %s not found in the source' % c)
            if c == 'Functor':
                continue          # checked with PRED_SHAPE: Functor(name=Atom(value=f), args)
            ar = len(TCTOR_FIELD_TYPES[g])
            if len(self.params.get(c, [])) != ar or sorted(i for i in self.fields.get(c, {}).values() if i is not None) != list(range(ar)):
                raise TieError('%s does not store each of its %d constructor arguments in one field' % (c, ar), self.node[c])
        for c in self.bases:
            for d in TERM_CTOR:
                if c not in TERM_CTOR and self.subclass(c, d):
                    if c in TERM_ALIAS and TERM_ALIAS[c][0] == d and TERM_ALIAS[c][1] in self.fields.get(c, {}):
                        continue
                    raise TieError('class %s is a subclass of %s but has no constructor in Lang/Ast.sterm' % (c, d), self.node[c])
        for c, want in CODE_CTOR_PARAMS.items():
            if c not in self.bases:
                raise TieError('class %s not found in the source' % c)
            if self.params.get(c, []) != want:
                raise TieError('%s takes parameters %s, expected %s' % (c, self.params.get(c, []), want), self.node[c])
            if want and sorted(self.fields[c], key=lambda f: self.fields[c][f] if self.fields[c][f] is not None else 99) != want:
                raise TieError('%s is expected to store exactly its parameters' % c, self.node[c])
    def ctors_of(self, cname, node):
        if cname not in BODY_CTOR:
            raise TieError('isinstance against %s: not a class of the body AST' % cname, node)
        return [BODY_CTOR[c][0] for c in BODY_CTOR if self.subclass(c, cname)]
    def class_of_ctor(self, g):
        return [c for c in BODY_CTOR if BODY_CTOR[c][0] == g][0]
    def tctors_of(self, cname, node):
        if cname not in TERM_CTOR:
            raise TieError('isinstance against %s: not a class of the term AST that has a constructor of its own' % cname, node)
        return [TERM_CTOR[c] for c in TERM_CTOR if self.subclass(c, cname)]
    def class_of_tctor(self, g):
        return [c for c in TERM_CTOR if TERM_CTOR[c] == g][0]

# ---------------------------------------------------------------- translator

class Env:
    def __init__(self, vars=None, shapes=None):
        self.vars = dict(vars or {})       # python local name -> Val
        self.shapes = dict(shapes or {})   # gallina variable of type body -> (ctor, [gallina field variables])
    def bind(self, name, val):
        e = Env(self.vars, self.shapes); e.vars[name] = val; return e
    def know(self, gv, ctor, fields):
        e = Env(self.vars, self.shapes); e.shapes[gv] = (ctor, fields); return e

class Translator:
    def __init__(self, gen_mod, vis_mod):
        self.classes = Classes([vis_mod, gen_mod])
        self.classes.check_tables()
        comp = [n for n in gen_mod.body if isinstance(n, ast.ClassDef) and n.name == 'YPPrologCompiler']
        if len(comp) != 1:
            raise TieError('class YPPrologCompiler not found')
        self.methods = {}
        for f in comp[0].body:
            if isinstance(f, ast.FunctionDef):
                if f.name in self.methods:
                    raise TieError('method %s is defined twice' % f.name, f)
                if f.decorator_list:
                    raise TieError('method %s has decorators' % f.name, f)
                self.methods[f.name] = f
        # a later module-level statement must not replace a method or class we read
        for n in gen_mod.body:
            if isinstance(n, (ast.Assign, ast.AugAssign, ast.AnnAssign, ast.Delete)):
                for t in ast.walk(n):
                    if isinstance(t, ast.Attribute) and isinstance(t.value, ast.Name) and t.value.id in ('YPPrologCompiler',) + tuple(BODY_CTOR) + tuple(CODE_CTOR):
                        raise TieError('module-level statement modifies class %s' % t.value.id, n)
        self.check_debug()
        self.check_label()
        self.counter = 0
        self.cur = None          # (python name of the function being translated)
        self.inlining = []
        self.used = set()
        self.partial = False

    # -- side conditions on helper methods
    def check_debug(self):
        f = self.methods.get('_debug')
        if f is None:
            raise TieError('method _debug not found')
        for n in ast.walk(f):
            if isinstance(n, (ast.Assign, ast.AugAssign, ast.AnnAssign, ast.Delete, ast.Raise, ast.Global, ast.Nonlocal, ast.Yield, ast.YieldFrom, ast.Await)):
                raise TieError('_debug is expected only to write a log line, but contains %s' % type(n).__name__, n, '_debug')
            if isinstance(n, ast.Return) and n.value is not None:
                raise TieError('_debug returns a value', n, '_debug')
            if isinstance(n, ast.Call) and isinstance(n.func, ast.Attribute) and _self_attr(n.func):
                raise TieError('_debug calls self.%s' % n.func.attr, n, '_debug')
            if isinstance(n, ast.Attribute) and _self_attr(n) and n.attr != 'context':
                raise TieError('_debug reads self.%s' % n.attr, n, '_debug')
    def check_label(self):
        """get_cut_if_label:  self.cut_if_counter += 1 ; return <string constant> + str(self.cut_if_counter)"""
        f = self.methods.get('get_cut_if_label')
        if f is None:
            raise TieError('method get_cut_if_label not found')
        b = [s for s in f.body if not (isinstance(s, ast.Expr) and isinstance(s.value, ast.Constant))]
        ok = (len(b) == 2 and len(f.args.args) == 1
              and isinstance(b[0], ast.AugAssign) and isinstance(b[0].op, ast.Add) and _self_attr(b[0].target, 'cut_if_counter')
              and isinstance(b[0].value, ast.Constant) and b[0].value.value == 1 and type(b[0].value.value) is int
              and isinstance(b[1], ast.Return) and isinstance(b[1].value, ast.BinOp) and isinstance(b[1].value.op, ast.Add)
              and isinstance(b[1].value.left, ast.Constant) and isinstance(b[1].value.left.value, str)
              and not b[1].value.left.value[-1:].isdigit()
              and isinstance(b[1].value.right, ast.Call) and isinstance(b[1].value.right.func, ast.Name) and b[1].value.right.func.id == 'str'
              and len(b[1].value.right.args) == 1 and not b[1].value.right.keywords and _self_attr(b[1].value.right.args[0], 'cut_if_counter'))
        if not ok:
            raise TieError('get_cut_if_label is expected to be: self.cut_if_counter += 1; return "<prefix>" + str(self.cut_if_counter)', f, 'get_cut_if_label')
        # nothing else writes the counter except __init__ (= 0)
        for name, m in self.methods.items():
            for n in ast.walk(m):
                if isinstance(n, (ast.Assign, ast.AugAssign)):
                    tg = n.targets if isinstance(n, ast.Assign) else [n.target]
                    for t in tg:
                        for x in ast.walk(t):
                            if _self_attr(x, 'cut_if_counter') and name not in ('get_cut_if_label', '__init__'):
                                raise TieError('self.cut_if_counter is also written by %s' % name, n, name)

    def fresh(self, p):
        self.counter += 1
        return '%s%d' % (p, self.counter)
    def err(self, msg, node):
        raise TieError(msg, node, self.cur)

    # -- expressions.  eval(e, env, st, k): k(val, st) -> gallina text;  st = gallina text of the label counter (None in pure functions)
    def eval_list(self, es, env, st, k, acc=None):
        acc = acc or []
        if not es:
            return k(acc, st)
        return self.eval(es[0], env, st, lambda v, st2: self.eval_list(es[1:], env, st2, k, acc + [v]))

    def path(self, e, env):
        """value of a name / attribute path (no effects)"""
        if isinstance(e, ast.Name):
            if e.id not in env.vars:
                self.err('unknown name %s' % e.id, e)
            return env.vars[e.id]
        if isinstance(e, ast.Attribute):
            if isinstance(e.value, ast.Name) and e.value.id == 'self':
                self.err('reading self.%s is not in the vocabulary' % e.attr, e)
            base = self.path(e.value, env)
            if base.ty == 'body':
                sh = env.shapes.get(base.tx)
                if sh is None:
                    self.err('attribute .%s of a value whose class is not established by an enclosing isinstance test' % e.attr, e)
                ctor, fvars = sh
                if ctor == 'BCall':
                    if e.attr != 'functor':
                        self.err('attribute .%s of a Predicate' % e.attr, e)
                    f, args = fvars
                    return Val('functor', None, {'name': Val('atom', None, {'value': Val('str', f)}), 'args': Val('sterms', args)})
                cname = self.classes.class_of_ctor(ctor)
                i = self.classes.field_index(cname, e.attr, e)
                return Val(CTOR_FIELD_TYPES[ctor][i], fvars[i])
            if base.ty == 'sterm':
                sh = env.shapes.get(base.tx)
                if sh is None:
                    self.err('attribute .%s of a term whose class is not established by an enclosing isinstance test' % e.attr, e)
                ctor, fvars = sh
                if ctor == 'SFun':
                    f, args = fvars
                    fs = {'name': Val('atom', None, {'value': Val('str', f)}), 'args': Val('sterms', args)}
                    if e.attr not in fs:
                        self.err('attribute .%s of a Functor' % e.attr, e)
                    return fs[e.attr]
                i = self.classes.field_index(self.classes.class_of_tctor(ctor), e.attr, e)
                return Val(TCTOR_FIELD_TYPES[ctor][i], fvars[i])
            if base.fields is not None and e.attr in base.fields:
                return base.fields[e.attr]
            self.err('attribute .%s of a value of type %s' % (e.attr, base.ty), e)
        self.err('expression %s is not a name or attribute path' % type(e).__name__, e)

    def want(self, v, ty, node):
        if v.ty != ty or v.tx is None:
            self.err('expected a value of type %s, found %s' % (ty, v.ty), node)
        return v.tx

    def eval(self, e, env, st, k):
        if isinstance(e, (ast.Name, ast.Attribute)):
            return k(self.path(e, env), st)
        if isinstance(e, ast.Constant):
            if isinstance(e.value, bool):
                return k(Val('bool', 'true' if e.value else 'false'), st)
            if isinstance(e.value, str):
                s = e.value
                if not s or not all(c.isalnum() or c in '_$' for c in s) or not s.isascii():
                    self.err('string constant %r' % s, e)
                return k(Val('str', '(s_ "%s")' % s), st)
            self.err('constant %r' % (e.value,), e)
        if isinstance(e, ast.List):
            def after(vs, st2):
                if not vs:
                    return k(Val('code', '[]'), st2)      # only ever used as code in this vocabulary (typed by the context)
                tys = {v.ty for v in vs}
                if tys == {'stmt'}:
                    return k(Val('code', '[' + '; '.join(v.tx for v in vs) + ']'), st2)
                if tys == {'expr'}:
                    return k(Val('exprs', '[' + '; '.join(v.tx for v in vs) + ']'), st2)
                self.err('list display with elements of types %s' % sorted(tys), e)
            return self.eval_list(e.elts, env, st, after)
        if (isinstance(e, ast.BinOp) and isinstance(e.op, (ast.Add, ast.Sub)) and isinstance(e.right, ast.Constant)
                and type(e.right.value) is int and e.right.value >= 0):
            # integer arithmetic on a loop index with a known lower bound (so that natural-number subtraction is exact and an index is never negative)
            def arith(a, st2):
                if a.ty != 'int':
                    self.err('arithmetic on a value of type %s' % a.ty, e)
                c = e.right.value
                if isinstance(e.op, ast.Sub):
                    if a.fields['min'] < c:
                        self.err('subtraction that may become negative', e)
                    return k(Val('int', '(%s - %d)' % (a.tx, c), {'min': a.fields['min'] - c}), st2)
                return k(Val('int', '(%s + %d)' % (a.tx, c), {'min': a.fields['min'] + c}), st2)
            return self.eval(e.left, env, st, arith)
        if isinstance(e, ast.Subscript):
            if not self.partial:
                self.err('subscript in a function translated as total', e)
            def sub(vs, st2):
                l, i = vs
                if l.ty != 'sterms' or i.ty != 'int':
                    self.err('subscript %s[%s]' % (l.ty, i.ty), e)
                x = self.fresh('x')
                return 'match nth_error %s %s with\n| Some %s =>\n%s\n| None => None (* IndexError *)\nend' % (l.tx, i.tx, x, k(Val('sterm', x), st2))
            return self.eval_list([e.value, e.slice], env, st, sub)
        if isinstance(e, ast.BinOp) and isinstance(e.op, ast.Add):
            def plus(a, b, st3):
                if a.ty == 'str' and b.ty == 'str':       # str = list of code points: concatenation
                    return k(Val('str', '(%s ++ %s)' % (self.want(a, 'str', e.left), self.want(b, 'str', e.right))), st3)
                return k(Val('code', '(%s ++ %s)' % (self.want(a, 'code', e.left), self.want(b, 'code', e.right))), st3)
            return self.eval(e.left, env, st, lambda a, st2: self.eval(e.right, env, st2, lambda b, st3: plus(a, b, st3)))
        if isinstance(e, ast.BoolOp) and isinstance(e.op, ast.Or) and len(e.values) == 2:
            # `a or b` on booleans: b is evaluated only if a is false; both operands must be effect-free here
            if st is not None:
                self.err('`or` in a function with effects', e)
            return self.eval(e.values[0], env, st, lambda a, _: self.eval(e.values[1], env, st, lambda b, _2:
                k(Val('bool', '(orb %s %s)' % (self.want(a, 'bool', e), self.want(b, 'bool', e))), st)))
        if isinstance(e, ast.ListComp):
            # [ self.f(x) for x in <path> ]  with f a hand-written (separately tied) per-element function
            g = e.generators
            if (len(g) == 1 and not g[0].ifs and not g[0].is_async and isinstance(g[0].target, ast.Name)
                    and isinstance(e.elt, ast.Call) and _self_attr(e.elt.func) and e.elt.func.attr in EXTERNAL_MAP_FUNS
                    and len(e.elt.args) == 1 and not e.elt.keywords and isinstance(e.elt.args[0], ast.Name) and e.elt.args[0].id == g[0].target.id):
                src = self.path(g[0].iter, env)
                self.used.add(e.elt.func.attr)
                return k(Val('exprs', '(map %s %s)' % (EXTERNAL_MAP_FUNS[e.elt.func.attr], self.want(src, 'sterms', e))), st)
            self.err('list comprehension outside the vocabulary', e)
        if isinstance(e, ast.Call):
            if e.keywords or any(isinstance(a, ast.Starred) for a in e.args):
                self.err('keyword / starred arguments', e)
            if isinstance(e.func, ast.Name):
                c = e.func.id
                if c in BODY_CTOR and c != 'Predicate':
                    g, ar = BODY_CTOR[c]
                    if len(e.args) != ar:
                        self.err('%s with %d arguments' % (c, len(e.args)), e)
                    def after(vs, st2):
                        # constructor argument i is stored in the field with parameter position i: fields are addressed by position
                        txs = [self.want(v, t, e) for v, t in zip(vs, CTOR_FIELD_TYPES[g])]
                        return k(Val('body', '(%s)' % ' '.join([g] + txs) if txs else g), st2)
                    return self.eval_list(e.args, env, st, after)
                if c in CODE_CTOR:
                    g, tys, rty = CODE_CTOR[c]
                    if len(e.args) != len(tys):
                        self.err('%s with %d arguments' % (c, len(e.args)), e)
                    def after(vs, st2):
                        txs = [self.want(v, t, e) for v, t in zip(vs, tys)]
                        return k(Val(rty, '(%s)' % ' '.join([g] + txs) if txs else g), st2)
                    return self.eval_list(e.args, env, st, after)
                if c == 'str' and len(e.args) == 1:
                    def tostr(v, st2):
                        if v.ty != 'int':
                            self.err('str() of a value of type %s' % v.ty, e)
                        return k(Val('str', '(dec_of_nat %s)' % v.tx), st2)      # str(n) for a natural number: its decimal digits
                    return self.eval(e.args[0], env, st, tostr)
                self.err('call of %s is not in the vocabulary' % c, e)
            if _self_attr(e.func):
                return self.eval_method(e, env, st, k)
            self.err('call outside the vocabulary', e)
        self.err('expression %s is not in the vocabulary' % type(e).__name__, e)

    def eval_method(self, e, env, st, k):
        m = e.func.attr
        if m == 'get_cut_if_label':
            if e.args:
                self.err('get_cut_if_label with arguments', e)
            if st is None:
                self.err('get_cut_if_label in a function translated as pure', e)
            l = self.fresh('l')
            return 'let %s := S %s in\n%s' % (l, st, k(Val('label', l), l))
        if m == 'compile_body':
            if st is None:
                self.err('compile_body called from a function translated as pure', e)
            if len(e.args) != 1:
                self.err('compile_body with %d arguments' % len(e.args), e)
            def after(v, st2):
                b = self.want(v, 'body', e)
                if k is self.top_ret:
                    return 'comp_src n %s %s' % (b, st2)        # tail call: match r with Some (c,k) => Some (c,k) | None => None end = r
                c, kk = self.fresh('c'), self.fresh('k')
                return 'match comp_src n %s %s with\n| Some (%s, %s) =>\n%s\n| None => None\nend' % (b, st2, c, kk, k(Val('code', c), kk))
            return self.eval(e.args[0], env, st, after)
        if m in TOP:
            g, ptys, order, rty = TOP[m]
            if len(e.args) != len(ptys):
                self.err('%s with %d arguments' % (m, len(e.args)), e)
            f = self.methods.get(m)
            if f is None:
                self.err('method %s not found' % m, e)
            def after(vs, st2):
                txs = [self.want(v, t, e) for v, t in zip(vs, ptys)]
                return k(Val(rty, '(%s %s)' % (g, ' '.join(txs[i] for i in order))), st2)
            self.used.add(m)
            self.used_in_current.add(m)
            return self.eval_list(e.args, env, st, after)
        if m == '_debug':
            self.err('_debug used as an expression', e)
        # any other method: inlined (must be non-recursive and inside the vocabulary)
        f = self.methods.get(m)
        if f is None:
            self.err('method %s not found' % m, e)
        if m in self.inlining:
            self.err('recursive helper method %s' % m, e)
        a = f.args
        if a.vararg or a.kwarg or a.kwonlyargs or a.posonlyargs or a.defaults:
            self.err('helper method %s: only plain positional parameters are understood' % m, f)
        ps = [x.arg for x in a.args][1:]
        if len(ps) != len(e.args):
            self.err('%s with %d arguments' % (m, len(e.args)), e)
        def after(vs, st2):
            env2 = Env({p: v for p, v in zip(ps, vs)}, env.shapes)
            self.inlining.append(m)
            saved = self.cur
            self.cur = m
            try:
                def fall(env3, st3):
                    self.err('helper method %s can end without a return' % m, f)
                return self.block(f.body, env2, st2, k, fall)
            finally:
                self.cur = saved
                self.inlining.pop()
        return self.eval_list(e.args, env, st, after)

    # -- conditions
    def cond(self, t, env, st, kt, kf):
        if (isinstance(t, ast.Call) and isinstance(t.func, ast.Name) and t.func.id == 'isinstance' and len(t.args) == 2 and not t.keywords):
            v = self.path(t.args[0], env)
            if v.ty not in ('body', 'sterm'):
                self.err('isinstance on a value of type %s' % v.ty, t)
            isterm = v.ty == 'sterm'
            allc, ftypes = (ALL_TCTORS, TCTOR_FIELD_TYPES) if isterm else (ALL_CTORS, CTOR_FIELD_TYPES)
            cl = t.args[1]
            names = []
            for c in (cl.elts if isinstance(cl, ast.Tuple) else [cl]):
                if not isinstance(c, ast.Name):
                    self.err('isinstance: class is not a plain name', t)
                names.append(c.id)
            ctors = []
            for c in names:
                for g in (self.classes.tctors_of(c, t) if isterm else self.classes.ctors_of(c, t)):
                    if g not in ctors:
                        ctors.append(g)
            ctors = [g for g in allc if g in ctors]
            known = env.shapes.get(v.tx)
            if known is not None:      # the class of this object was established by an enclosing test
                return kt(env, st) if known[0] in ctors else kf(env, st)
            if not v.tx.isidentifier():
                self.err('isinstance on a computed value', t)
            out = ['match %s with' % v.tx]
            for g in ctors:
                fv = [self.fresh('x') for _ in ftypes[g]]
                out.append('| %s =>\n%s' % (' '.join([g] + fv), kt(env.know(v.tx, g, fv), st)))
            # the other constructors are listed one by one (no wildcard: Coq expands nested wildcard matches exponentially), and
            # the else-branch is translated once per constructor WITH the knowledge of the class, so that later tests on the
            # same object are decided statically: a chain of isinstance tests on one object becomes ONE match (first match wins)
            for g in allc:
                if g not in ctors:
                    fv = [self.fresh('x') for _ in ftypes[g]]
                    out.append('| %s =>\n%s' % (' '.join([g] + fv), kf(env.know(v.tx, g, fv), st)))
            out.append('end')
            return '\n'.join(out)
        # <path> == []  on a list of terms
        if (isinstance(t, ast.Compare) and len(t.ops) == 1 and isinstance(t.ops[0], ast.Eq) and isinstance(t.comparators[0], ast.List)
                and not t.comparators[0].elts):
            v = self.path(t.left, env)
            if v.ty != 'sterms' or not v.tx.isidentifier():
                self.err('== [] on a value of type %s' % v.ty, t)
            return 'match %s with\n| [] =>\n%s\n| _ :: _ =>\n%s\nend' % (v.tx, kt(env, st), kf(env, st))
        # self.head_args_by_pos[<int>] == None
        if (isinstance(t, ast.Compare) and len(t.ops) == 1 and isinstance(t.ops[0], ast.Eq) and isinstance(t.comparators[0], ast.Constant)
                and t.comparators[0].value is None and isinstance(t.left, ast.Subscript) and _self_attr(t.left.value, 'head_args_by_pos')):
            if not self.partial:
                self.err('self.head_args_by_pos in a function translated without it', t)
            def idx(i, st2):
                if i.ty != 'int':
                    self.err('index of type %s' % i.ty, t)
                return ('match nth_error pos %s with\n| None => None (* IndexError *)\n| Some None =>\n%s\n| Some (Some _) =>\n%s\nend'
                        % (i.tx, kt(env, st2), kf(env, st2)))
            return self.eval(t.left.slice, env, st, idx)
        # a boolean expression
        def after(v, st2):
            return 'if %s then\n%s\nelse\n%s' % (self.want(v, 'bool', t), kt(env, st2), kf(env, st2))
        return self.eval(t, env, st, after)

    # -- statements
    def debug_call(self, s):
        if not (isinstance(s, ast.Expr) and isinstance(s.value, ast.Call) and _self_attr(s.value.func, '_debug')):
            return False
        def pure(x):
            if isinstance(x, ast.Constant):
                return True
            if isinstance(x, ast.Name):
                return True
            if isinstance(x, ast.Attribute):
                return pure(x.value)
            if isinstance(x, ast.JoinedStr):
                return all(pure(y) for y in x.values)
            if isinstance(x, ast.FormattedValue):
                return pure(x.value) and (x.format_spec is None or pure(x.format_spec))
            return False
        for a in s.value.args:
            if not pure(a):
                self.err('argument of _debug is not a constant / name / attribute path / f-string of those', s)
        if s.value.keywords:
            self.err('_debug with keyword arguments', s)
        return True

    def block(self, stmts, env, st, ret, fall):
        if not stmts:
            return fall(env, st)
        s, rest = stmts[0], stmts[1:]
        if isinstance(s, ast.Expr) and isinstance(s.value, ast.Constant) and isinstance(s.value.value, str):
            return self.block(rest, env, st, ret, fall)
        if isinstance(s, ast.Pass):
            return self.block(rest, env, st, ret, fall)
        if self.debug_call(s):
            return self.block(rest, env, st, ret, fall)
        if isinstance(s, ast.Assign):
            if len(s.targets) != 1 or not isinstance(s.targets[0], ast.Name):
                self.err('assignment target is not a single local name', s)
            name = s.targets[0].id
            if name == 'self':
                self.err('assignment to self', s)
            return self.eval(s.value, env, st, lambda v, st2: self.block(rest, env.bind(name, v), st2, ret, fall))
        if isinstance(s, ast.Return):
            if s.value is None or (isinstance(s.value, ast.Constant) and s.value.value is None):
                self.err('return without a value', s)
            if rest:
                pass    # unreachable statements after a return are never executed
            return self.eval(s.value, env, st, ret)
        if isinstance(s, ast.If):
            cont = lambda env2, st2: self.block(rest, env2, st2, ret, fall)
            return self.cond(s.test, env, st,
                             lambda env2, st2: self.block(s.body, env2, st2, ret, cont),
                             lambda env2, st2: self.block(s.orelse, env2, st2, ret, cont))
        if isinstance(s, ast.For):
            return self.for_down(s, rest, env, st, ret, fall)
        self.err('statement %s is not in the vocabulary' % type(s).__name__, s)

    def for_down(self, s, rest, env, st, ret, fall):
        """for i in range(len(<list>), 0, -1): <block that re-assigns ONE local of type code>   ->   for_down (length l) (fun i c => ..) c0
        (for_down k f a runs f k, f (k-1), .., f 1: see the generated prelude)"""
        if not self.partial or st is not None:
            self.err('for loop in a function translated as total', s)
        it = s.iter
        ok = (not s.orelse and isinstance(s.target, ast.Name) and isinstance(it, ast.Call) and isinstance(it.func, ast.Name) and it.func.id == 'range'
              and len(it.args) == 3 and not it.keywords
              and isinstance(it.args[0], ast.Call) and isinstance(it.args[0].func, ast.Name) and it.args[0].func.id == 'len' and len(it.args[0].args) == 1
              and isinstance(it.args[1], ast.Constant) and it.args[1].value == 0 and type(it.args[1].value) is int
              and isinstance(it.args[2], ast.UnaryOp) and isinstance(it.args[2].op, ast.USub) and isinstance(it.args[2].operand, ast.Constant)
              and it.args[2].operand.value == 1 and type(it.args[2].operand.value) is int)
        if not ok:
            self.err('for loop is not of the form `for i in range(len(l), 0, -1)`', s)
        for n in ast.walk(s):
            if isinstance(n, (ast.Break, ast.Continue, ast.Return)):
                self.err('%s inside a for loop' % type(n).__name__, n)
        l = self.path(it.args[0].args[0], env)
        if l.ty != 'sterms':
            self.err('len() of a value of type %s' % l.ty, s)
        assigned = {t.id for n in ast.walk(s) if isinstance(n, ast.Assign) for t in n.targets if isinstance(t, ast.Name)}
        carried = sorted(a for a in assigned if a in env.vars)
        if s.target.id in assigned or len(carried) != 1 or env.vars[carried[0]].ty != 'code':
            self.err('the loop must re-assign exactly one local variable of type code defined before it (found %s)' % carried, s)
        cv = carried[0]
        i, c, r = self.fresh('i'), self.fresh('c'), self.fresh('c')
        env_in = env.bind(s.target.id, Val('int', i, {'min': 1})).bind(cv, Val('code', c))
        def no_ret(v, st2):
            self.err('return inside a for loop', s)
        def end_of_body(env2, st2):
            return 'Some %s' % self.want(env2.vars[cv], 'code', s)
        body = self.block(s.body, env_in, None, no_ret, end_of_body)
        # names first assigned inside the loop are not visible after it in this vocabulary (they would be unbound if the loop ran 0 times)
        after = self.block(rest, env.bind(cv, Val('code', r)), None, ret, fall)
        return ('match for_down (length %s) (fun %s %s =>\n%s) %s with\n| Some %s =>\n%s\n| None => None\nend'
                % (l.tx, i, c, body, env.vars[cv].tx, r, after))

    def loop_function(self, pyname):
        f = self.methods.get(pyname)
        if f is None:
            raise TieError('method %s not found' % pyname)
        g, ptys, rty = LOOPFUN[pyname]
        a = f.args
        if a.vararg or a.kwarg or a.kwonlyargs or a.posonlyargs or a.defaults or len(a.args) != len(ptys) + 1:
            raise TieError('%s: parameters not understood' % pyname, f)
        self.cur, self.counter, self.used_in_current, self.partial, self.top_ret = pyname, 0, set(), True, None
        names = {'sterms': 'args', 'code': 'c'}
        gps = [names[t] for t in ptys]
        env = Env({p.arg: Val(t, gp) for p, t, gp in zip(a.args[1:], ptys, gps)})
        def ret(v, st):
            return 'Some %s' % self.want(v, rty, f)
        def fall(env2, st2):
            raise TieError('%s can end without a return' % pyname, f, pyname)
        try:
            body = self.block(f.body, env, None, ret, fall)
        finally:
            self.partial = False
        self.cur = None
        binders = '(pos : list (option str)) ' + ' '.join('(%s : %s)' % (gp, GTYPE[t]) for gp, t in zip(gps, ptys))
        return indent('Definition %s %s : option (%s) :=\n%s.' % (g, binders, GTYPE[rty], body))

    # -- top-level functions
    def function(self, pyname):
        f = self.methods.get(pyname)
        if f is None:
            raise TieError('method %s not found' % pyname)
        g, ptys, order, rty = TOP[pyname]
        a = f.args
        if a.vararg or a.kwarg or a.kwonlyargs or a.posonlyargs or a.defaults:
            raise TieError('%s: only plain positional parameters are understood' % pyname, f)
        ps = [x.arg for x in a.args]
        if len(ps) != len(ptys) + 1 or ps[0] != 'self':
            raise TieError('%s takes parameters %s' % (pyname, ps), f)
        self.cur = pyname
        self.counter = 0
        self.used_in_current = set()
        gnames = {'body': 'b', 'label': 'm', 'sterm': 't', 'str': 'v', 'code': 'c'}
        gps = [gnames[t] + ('0' if False else '') for t in ptys]
        env = Env({p: Val(t, gp) for p, t, gp in zip(ps[1:], ptys, gps)})
        binders = ' '.join('(%s : %s)' % (gps[i], GTYPE[ptys[i]]) for i in order)
        struct = gps[0]
        if pyname == 'compile_body':
            def top_ret(v, st):
                return 'Some (%s, %s)' % (self.want(v, 'code', f), st)
            self.top_ret = top_ret
            def fall(env2, st2):
                return 'None (* the function ends without a return: Python returns None *)'
            body = self.block(f.body, env, 'cnt', top_ret, fall)
            text = ('Fixpoint comp_src (n : nat) (b : body) (cnt : nat) {struct n} : option (list stmt * nat) :=\n'
                    'match n with O => None | S n =>\n%s\nend.' % body)
        else:
            self.top_ret = None
            def ret(v, st):
                return self.want(v, rty, f)
            def fall(env2, st2):
                raise TieError('%s can end without a return' % pyname, f, pyname)
            body = self.block(f.body, env, None, ret, fall)
            if pyname in NONRECURSIVE:
                if pyname in self.used_in_current:
                    raise TieError('%s is expected not to call itself' % pyname, f, pyname)
                text = 'Definition %s %s : %s :=\n%s.' % (g, binders, GTYPE[rty], body)
            else:
                text = 'Fixpoint %s %s {struct %s} : %s :=\n%s.' % (g, binders, struct, GTYPE[rty], body)
        self.cur = None
        return indent(text)

def indent(text):
    out, depth = [], 0
    for line in text.split('\n'):
        s = line.strip()
        if s.startswith('end') or s.startswith('| ') or s.startswith('else'):
            d = depth - 1 if s.startswith('end') else depth
        else:
            d = depth
        if s.startswith('end'):
            depth -= 1
            d = depth
        out.append('  ' * max(d, 0) + s)
        if s.startswith('match ') and not s.rstrip('.').endswith('end'):
            depth += 1
    return '\n'.join(out)

HEADER = '''(* GENERATED by harness/lib/py2coq_body.py from %s - do not edit.
   One Gallina definition per Python method, translated statement by statement. *)
From Coq Require Import String.
From Coq Require Import List Arith Bool.
Import ListNotations.
From YP Require Import Base.Str Lang.Ast Comp.IR Comp.CompileBody.
Local Open Scope string_scope.
Local Open Scope list_scope.

(* Python's `for i in range(k, 0, -1): a = f(i, a)` (f may raise IndexError = None): f k, then f (k-1), .., f 1 *)
Fixpoint for_down {A : Type} (k : nat) (f : nat -> A -> option A) (a : A) : option A :=
  match k with O => Some a | S k' => match f (S k') a with Some a' => for_down k' f a' | None => None end end.
'''

ORDER = ['compile_expression', 'compile_unification', 'compile_arg_list_unification', 'has_local_cut', 'localize_cuts', 'compile_body']

def translate(repo):
    """returns (gallina text of the definitions, {python function: gallina name}); raises TieError"""
    src = os.path.join(repo, 'src', 'yldprolog')
    try:
        gen = ast.parse(open(os.path.join(src, 'yp_generator.py'), encoding='utf8').read())
        vis = ast.parse(open(os.path.join(src, 'yp_prolog_visitor.py'), encoding='utf8').read())
    except (OSError, SyntaxError) as e:
        raise TieError('cannot read/parse the source: %r' % e)
    # `from .yp_prolog_visitor import *` must be the only source of the AST class names
    for n in gen.body:
        if isinstance(n, (ast.Import, ast.ImportFrom)):
            if isinstance(n, ast.ImportFrom) and n.module == 'yp_prolog_visitor' and n.level == 1:
                continue
            if isinstance(n, ast.Import) and all(a.name == 'itertools' and a.asname is None for a in n.names):
                continue
            raise TieError('import statement outside the vocabulary', n)
    t = Translator(gen, vis)
    parts, funs = [], {}
    for py in ORDER:
        if py in LOOPFUN:
            parts.append('(* %s, yp_generator.py line %d *)\n%s' % (py, t.methods[py].lineno if py in t.methods else 0, t.loop_function(py)))
            funs[py] = LOOPFUN[py][0]
            continue
        parts.append('(* %s, yp_generator.py line %d *)\n%s' % (py, t.methods[py].lineno if py in t.methods else 0, t.function(py)))
        funs[py] = TOP[py][0]
    return HEADER % 'src/yldprolog/yp_generator.py' + '\n' + '\n\n'.join(parts) + '\n', funs

if __name__ == '__main__':
    repo = sys.argv[1] if len(sys.argv) > 1 else os.environ.get('VERIF_REPO', '/repo')
    try:
        text, funs = translate(repo)
    except TieError as e:
        sys.stderr.write('TIE REFUSED: %s\n' % e)
        sys.exit(2)
    sys.stdout.write(text)
