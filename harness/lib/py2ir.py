"""CPython's own reading of the emitted text, mapped back to the compiler's intermediate code.

`text_to_ir(text)` parses the text with `ast.parse` and recognises exactly the sub-language that the emitter
(Comp/Emit.v) produces; it returns the intermediate code in the observation shape of Comp/ShowIR.v, or raises
NotInSublanguage.  Comparing it with the model's intermediate code checks - with CPython's parser as the judge -
that the text denotes the code whose semantics Sem/IRSem.v states (indentation, loop nesting, the flag
protocol lines, loop-variable naming), which text equality with the model emitter alone does not say."""
import ast, re

class NotInSublanguage(Exception):
    pass

def _expr(e):
    if isinstance(e, ast.Name):
        return ['v', e.id]
    if isinstance(e, ast.Constant) and isinstance(e.value, str):
        return ['s', e.value]
    if isinstance(e, ast.Constant) and type(e.value) is int:
        return ['n', str(e.value)]
    if isinstance(e, ast.Call) and isinstance(e.func, ast.Name) and not e.keywords:
        return ['c', e.func.id, [_expr(a) for a in e.args]]
    if isinstance(e, ast.List):
        return ['l', [_expr(a) for a in e.elts]]
    raise NotInSublanguage('expression %s' % ast.dump(e)[:80])

def _is_name(e, name):
    return isinstance(e, ast.Name) and e.id == name

def _is_const(e, v):
    return isinstance(e, ast.Constant) and e.value is v

def _assign(s):
    if isinstance(s, ast.Assign) and len(s.targets) == 1 and isinstance(s.targets[0], ast.Name):
        return s.targets[0].id, s.value
    return None

def _is_break_trailer(s):
    return (isinstance(s, ast.If) and _is_name(s.test, 'doBreak') and not s.orelse and len(s.body) == 1
            and isinstance(s.body[0], ast.Break))

def _once_loop(s):
    return (isinstance(s, ast.For) and _is_name(s.target, '_') and isinstance(s.iter, ast.List) and len(s.iter.elts) == 1
            and _is_const(s.iter.elts[0], 1) and not s.orelse)

def _stmts(body, lv):
    if len(body) == 1 and isinstance(body[0], ast.Pass):
        return []
    out = []
    i = 0
    n = len(body)
    while i < n:
        s = body[i]
        a = _assign(s)
        if a is not None:
            x, v = a
            m = re.fullmatch(r'cutIf([0-9]+)', x)
            if m and _is_const(v, False):
                label = int(m.group(1))
                i += 1
                inner = []
                if i < n and _once_loop(body[i]):
                    inner = _stmts(body[i].body, lv)
                    if not inner:
                        raise NotInSublanguage('breakable block with an empty loop')
                    i += 1
                s2 = body[i] if i < n else None
                ok = (isinstance(s2, ast.If) and _is_name(s2.test, x) and not s2.orelse and len(s2.body) == 1
                      and _assign(s2.body[0]) is not None and _assign(s2.body[0])[0] == 'doBreak' and _is_const(_assign(s2.body[0])[1], False))
                if not ok:
                    raise NotInSublanguage('breakable block %s: missing `if %s: doBreak = False`' % (x, x))
                i += 1
                if not (i < n and _is_break_trailer(body[i])):
                    raise NotInSublanguage('breakable block %s: missing `if doBreak: break`' % x)
                i += 1
                out.append(['blk', label, inner])
                continue
            if m and _is_const(v, True):
                label = int(m.group(1))
                a2 = _assign(body[i + 1]) if i + 1 < n else None
                if not (a2 and a2[0] == 'doBreak' and _is_const(a2[1], True) and i + 2 < n and isinstance(body[i + 2], ast.Break)):
                    raise NotInSublanguage('break of block %s: not followed by `doBreak = True; break`' % x)
                i += 3
                out.append(['brk', label])
                continue
            if x == 'doBreak' or m:
                raise NotInSublanguage('stray assignment to %s' % x)
            out.append(['asg', x, _expr(v)])
            i += 1
            continue
        if isinstance(s, ast.For):
            if s.orelse or not isinstance(s.target, ast.Name) or s.target.id != 'l%d' % (lv + 1):
                raise NotInSublanguage('loop variable %s at nesting level %d' % (getattr(s.target, 'id', '?'), lv))
            inner = _stmts(s.body, lv + 1)
            i += 1
            if not (i < n and _is_break_trailer(body[i])):
                raise NotInSublanguage('loop without `if doBreak: break`')
            i += 1
            out.append(['for', _expr(s.iter), inner])
            continue
        if isinstance(s, ast.Expr) and isinstance(s.value, ast.Yield) and _is_const(s.value.value, False):
            out.append(['yf']); i += 1; continue
        if isinstance(s, ast.Expr) and isinstance(s.value, ast.Yield) and _is_const(s.value.value, True):
            out.append(['yt']); i += 1; continue
        if isinstance(s, ast.Return) and s.value is None:
            out.append(['ret']); i += 1; continue
        raise NotInSublanguage('statement %s' % ast.dump(s)[:80])
    return out

def text_to_ir(text):
    mod = ast.parse(text)
    funcs = []
    for d in mod.body:
        if not isinstance(d, ast.FunctionDef) or d.decorator_list or d.args.vararg or d.args.kwarg or d.args.kwonlyargs or d.args.defaults:
            raise NotInSublanguage('top level: %s' % type(d).__name__)
        params = [a.arg for a in d.args.args]
        if params != ['arg%d' % (k + 1) for k in range(len(params))]:
            raise NotInSublanguage('parameters %r' % params)
        m = re.fullmatch(r'(.*)_([0-9]+)', d.name, re.S)
        if not m or int(m.group(2)) != len(params) or str(int(m.group(2))) != m.group(2):
            raise NotInSublanguage('function name %r with %d parameters' % (d.name, len(params)))
        b = d.body
        ok = (len(b) == 3 and _assign(b[0]) is not None and _assign(b[0])[0] == 'doBreak' and _is_const(_assign(b[0])[1], False)
              and _once_loop(b[1])
              and isinstance(b[2], ast.If) and _is_const(b[2].test, False) and not b[2].orelse and len(b[2].body) == 1
              and isinstance(b[2].body[0], ast.Expr) and isinstance(b[2].body[0].value, ast.Yield) and _is_const(b[2].body[0].value.value, False))
        if not ok:
            raise NotInSublanguage('function frame of %s' % d.name)
        funcs.append([m.group(1), len(params), _stmts(b[1].body, 0)])
    return funcs
