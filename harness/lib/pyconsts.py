"""Python constants as terms: values that only the Python API (query arguments, asserted facts, registered Python
predicates) can bring into the engine.

JSON term  ["c", k]  = the k-th value of POOL (cases stay JSON-able; the value is built when the case is run).

THE RULE OF THE UNCHANGED CODE (engine.unify, last branch; Atom.unify / Functor.unify / Variable.unify for the mixed
cases): a value that is not an IUnifiable (Atom, Variable, Functor) is a constant; a constant never unifies with an atom or
a compound term, an unbound variable is bound to it like to any other term (whatever the value: None, False, 0, '' are
values like any other, and a variable bound to None IS bound), and two constants unify iff Python's `==` says so:
    1 == 1.0 == True == Fraction(1) == (1+0j);  0 == 0.0 == -0.0 == False;  10**15 == 1e15 but 10**15+1 != 1e15 (exact);
    0.1+0.2 != 0.3;  None == None only;  'a' != b'a' != Atom a;  tuples / lists / frozensets by their own ==;
    nan != nan (a NaN does not even unify with itself: see notes/C02.md).
So for everything except NaN the constants fall into equivalence classes of `==`; the class is what the Coq model gets
(an injective code inside TInt / TStr: the model's constants are "opaque values with decidable equality"), and what the
harness reads back from the engine.  NaN is not reflexive, so no equality-based model fits it: cases with a NaN are
judged by the oracle (reference unifier with `==` on the real values) alone.
"""
import math
from fractions import Fraction
from decimal import Decimal

NAN = float('nan')

# clusters of values that are easily confused with one another (equal across types, nearly equal, same text, "empty")
CLUSTERS = [
    ('zero', [0, False, 0.0, -0.0, None, '', b'', (), '0', 5e-324, Fraction(0), [], 'None', 'False']),
    ('one', [1, True, 1.0, Fraction(1), 1 + 0j, '1', 1.0000000000000002, (1,), Decimal(1), 'True', 0.9999999999999999]),
    ('third', [0.3, 0.1 + 0.2, Fraction(3, 10), Decimal('0.3'), 0.30000001, '0.3']),
    ('big', [10**15, 1e15, 10**15 + 1, 10**15 - 1, 10**30, 1e30, 2**63, float(2**63), 2**63 + 1, 2**53 + 1, float(2**53), 2**53]),
    ('nonfinite', [NAN, float('inf'), float('-inf'), 10**400, 1.7976931348623157e308]),
    ('text', ['a', b'a', ('a',), 'A', '[]', 'b', 'a ', ['a'], ('.', 'a', '[]'), 'f(a)', frozenset(['a'])]),
    ('minus', [-1, -1.0, '-1', -1.0000000000000002, Fraction(-1), (-1,)]),
    ('two', [2, 2.0, (1, 2), (1.0, 2), (1, 2.0000000000000004), [1, 2], 2.0000000000000004, (1, (2,)), (1, (2.0,))]),
]
POOL = [v for _, vs in CLUSTERS for v in vs]
CLUSTER_OF = [ci for ci, (_, vs) in enumerate(CLUSTERS) for _ in vs]
CLUSTER_IDX = []
_k = 0
for _, _vs in CLUSTERS:
    CLUSTER_IDX.append(list(range(_k, _k + len(_vs))))
    _k += len(_vs)

def is_nan(v):
    try:
        return bool(v != v)
    except Exception:
        return False

def py_eq(a, b):
    """the engine's rule for two constants"""
    try:
        return bool(a == b)
    except Exception:
        return False

# equivalence classes of == over the pool (NaN apart); representative = first member
CLASS_OF = []
_reps = []
for _i, _v in enumerate(POOL):
    if is_nan(_v):
        CLASS_OF.append(None)
        continue
    for _c, _r in enumerate(_reps):
        if py_eq(POOL[_r], _v):
            CLASS_OF.append(_c)
            break
    else:
        CLASS_OF.append(len(_reps))
        _reps.append(_i)
# == is an equivalence on the pool without NaN (checked, the encoding below relies on it)
for _i, _v in enumerate(POOL):
    for _j, _w in enumerate(POOL):
        if CLASS_OF[_i] is not None and CLASS_OF[_j] is not None:
            assert py_eq(_v, _w) == (CLASS_OF[_i] == CLASS_OF[_j]), (_v, _w)

def _class_code(c):
    """the model's constant for the class c: the int / str of the class if it has one (so that ["c", k] and the ordinary
    ["i", n] / ["s", s] terms meet as they do in the engine), else a reserved string"""
    members = [POOL[i] for i in range(len(POOL)) if CLASS_OF[i] == c]
    for m in members:
        if type(m) is int:
            return ['i', m]
    for m in members:
        if type(m) is str:
            return ['s', m]
    return ['s', '\x00c%d' % c]
CLASS_CODE = [_class_code(c) for c in range(len(_reps))]
NAN_CODE = ['s', '\x00nan']

def classify(v):
    """JSON constant (["i", n] | ["s", s]) of the ==-class of an arbitrary Python value read back from the engine"""
    if is_nan(v):
        return list(NAN_CODE)
    if type(v) is int:
        return ['i', v]
    if type(v) is str:
        return ['s', v]
    for c, r in enumerate(_reps):
        if py_eq(POOL[r], v):
            return list(CLASS_CODE[c])
    if isinstance(v, bool):
        return ['i', int(v)]
    if isinstance(v, int):
        return ['i', int(v)]
    return ['s', '\x00other:%s' % type(v).__name__]

def to_model(t):
    """the term with every ["c", k] replaced by the constant of its ==-class (NaN: a reserved constant - callers that
    compare with the model must skip terms for which has_nan is true)"""
    k = t[0]
    if k == 'c':
        c = CLASS_OF[t[1]]
        return list(NAN_CODE) if c is None else list(CLASS_CODE[c])
    if k == 'f':
        return ['f', t[1], [to_model(a) for a in t[2]]]
    return t

def has_nan(t):
    if t[0] == 'c':
        return CLASS_OF[t[1]] is None
    if t[0] == 'f':
        return any(has_nan(a) for a in t[2])
    return False

def has_const(t):
    if t[0] == 'c':
        return True
    if t[0] == 'f':
        return any(has_const(a) for a in t[2])
    return False

def show(k):
    return '<%s %r>' % (type(POOL[k]).__name__, POOL[k])

def show_term(t):
    k = t[0]
    if k == 'c':
        return show(t[1])
    if k == 'f':
        return '%s(%s)' % (t[1], ','.join(show_term(a) for a in t[2]))
    from lib import terms
    return terms.show_term(t)

# ------------------------------------------------------------------ reference: unification with == on the REAL values

def _walk(t, sub):
    while t[0] == 'v' and t[1] in sub:
        t = sub[t[1]]
    return t

def _val(t):
    return POOL[t[1]] if t[0] == 'c' else t[1]

def _occurs(i, t, sub):
    t = _walk(t, sub)
    if t[0] == 'v':
        return t[1] == i
    if t[0] == 'f':
        return any(_occurs(i, a, sub) for a in t[2])
    return False

def ref_unify(a, b, sub):
    """'ok' | 'clash' | 'cyc'.  Textbook unification, left to right, on JSON terms with ["c", k] constants compared by
    Python == on the real values (NaN included: it equals nothing), atoms by name, atoms / constants / compound terms
    pairwise different."""
    a = _walk(a, sub); b = _walk(b, sub)
    if a[0] == 'v' and b[0] == 'v' and a[1] == b[1]:
        return 'ok'
    if a[0] == 'v':
        if _occurs(a[1], b, sub):
            return 'cyc'
        sub[a[1]] = b
        return 'ok'
    if b[0] == 'v':
        if _occurs(b[1], a, sub):
            return 'cyc'
        sub[b[1]] = a
        return 'ok'
    if a[0] == 'f' or b[0] == 'f':
        if a[0] != b[0] or a[1] != b[1] or len(a[2]) != len(b[2]):
            return 'clash'
        for x, y in zip(a[2], b[2]):
            r = ref_unify(x, y, sub)
            if r != 'ok':
                return r
        return 'ok'
    if a[0] == 'a' or b[0] == 'a':
        return 'ok' if a[0] == b[0] and a[1] == b[1] else 'clash'
    return 'ok' if py_eq(_val(a), _val(b)) else 'clash'

def ref_outcome(eqs):
    """'ok' | 'clash' | 'cyc' | 'stack' (an equation before the last one has no solution)"""
    sub = {}
    for n, (a, b) in enumerate(eqs):
        r = ref_unify(a, b, sub)
        if r != 'ok':
            return r if n == len(eqs) - 1 or r == 'cyc' else 'stack'
    return 'ok'

# ------------------------------------------------------------------ engine objects

def make_impl_terms(engines, nvars=0):
    from lib import terms
    class ConstTerms(terms.ImplTerms):
        """ImplTerms that builds ["c", k] and reads every constant back as the code of its ==-class"""
        def build(self, t, eng=0):
            if t[0] == 'c':
                return POOL[t[1]]
            return super().build(t, eng)
        def read(self, obj, resolve=True, depth=0):
            if not isinstance(obj, self.E.IUnifiable):
                return classify(obj)
            return super().read(obj, resolve, depth)
    return ConstTerms(engines, nvars)

# ------------------------------------------------------------------ generators

def rand_const(rng, cluster=None):
    if cluster is None:
        return ['c', rng.randrange(len(POOL))]
    return ['c', rng.choice(CLUSTER_IDX[cluster])]

def sprinkle(rng, t, palette, p):
    """replace constant / atom leaves of t by constants of the palette with probability p each"""
    k = t[0]
    if k == 'f':
        if t[1] == '.' and len(t[2]) == 2 and t[2][1] == ['a', '[]']:
            return ['f', t[1], [sprinkle(rng, t[2][0], palette, p), t[2][1]]]      # keep lists lists
        return ['f', t[1], [sprinkle(rng, a, palette, p) for a in t[2]]]
    if k in ('a', 'i', 's') and rng.random() < p:
        return list(rng.choice(palette))
    return t

def palette(rng):
    """a few constants, mostly from one cluster (so that equal-across-types and nearly-equal values meet)"""
    ci = rng.randrange(len(CLUSTERS))
    n = rng.choice([2, 2, 3, 4])
    pal = [rand_const(rng, ci) for _ in range(n)]
    if rng.random() < 0.3:
        pal.append(rand_const(rng))
    if rng.random() < 0.2:
        pal.append(['a', rng.choice(['a', 'b', '[]'])])
    if rng.random() < 0.2:
        pal.append(['i', rng.choice([0, 1, -1, 2, 10**15])])
    return pal
