"""Helpers of the C12R check (repr() of str and the Python short-string-literal lexer):
generators of hostile strings and literal-like texts, and CPython's own lexing of the front
of a text as the reference for the model lexer Comp/PyLex.v.

Strings travel as lists of code points (lone surrogates survive JSON / pickling that way)."""
import io, ast, tokenize, warnings

# ---------------------------------------------------------------- code points <-> text

def to_s(cps):
    return ''.join(map(chr, cps))

def cps(s):
    return [ord(c) for c in s]

def g_cps(cs):
    """Gallina expression of type str for a list of code points (decoder Base.Str.d)."""
    out = []
    for c in cs:
        if 32 <= c <= 126 and c not in (34, 92):
            out.append(chr(c))
        else:
            out.append('\\%d;' % c)
    return '(d "%s")' % ''.join(out)

def printable_table(cs):
    """the part of the Unicode database the model needs for this case: the non-ASCII code
    points of the case for which str.isprintable is true"""
    return sorted({c for c in cs if c >= 128 and chr(c).isprintable()})

def is_surrogate(c):
    return 0xD800 <= c <= 0xDFFF

# ---------------------------------------------------------------- CPython's lexer at the front of a text

MODEL_ESCAPES = '\\\'"nrtxuU'

def cpython_lex(text):
    """What CPython does with a string literal at the very front of `text`, reading the text
    the way compile()/exec() read source (universal newlines, no NUL, UTF-8 encodable).
    Returns a dict with 'class':
      short        a one-line, non-triple, unprefixed literal using only the model's escapes:
                   + 'lit' (its spelling), 'value', 'rest'
      triple / multiline / unsupported-escape / prefixed
                   a literal outside the modelled sub-language
      decode-error the tokenizer accepts the spelling but the escape decoder rejects it
      error        the tokenizer rejects (unterminated, NUL / surrogate inside the literal, ...)
      not-string   the text does not start with a string literal"""
    # raw NUL / surrogates anywhere make compile() reject the whole source; the question asked
    # here is about the literal at the front, so they are neutralised first and only count as an
    # error when they lie inside the literal
    bad = [i for i, ch in enumerate(text) if ch == '\0' or is_surrogate(ord(ch))]
    t2 = ''.join('\x01' if (ch == '\0' or is_surrogate(ord(ch))) else ch for ch in text)
    try:
        g = tokenize.generate_tokens(io.StringIO(t2, newline=None).readline)
        tok = next(g)
    except (tokenize.TokenError, SyntaxError, IndentationError) as e:
        return {'class': 'error', 'why': type(e).__name__ + ': ' + str(e)[:80]}
    except StopIteration:
        return {'class': 'not-string'}
    if tok.type != tokenize.STRING or tok.start != (1, 0):
        return {'class': 'not-string', 'tok': tokenize.tok_name.get(tok.type, str(tok.type))}
    lit = tok.string
    if lit[0] not in '\'"':
        return {'class': 'prefixed'}
    if lit[:3] in ("'''", '"""'):
        return {'class': 'triple'}
    if tok.end[0] != 1 or '\n' in lit:
        return {'class': 'multiline'}
    if any(i < len(lit) for i in bad):
        return {'class': 'error', 'why': 'NUL or surrogate inside the literal'}
    assert text[:len(lit)] == lit
    i = 1
    unsupported = False
    while i < len(lit) - 1:
        if lit[i] == '\\':
            if lit[i + 1] not in MODEL_ESCAPES:
                unsupported = True
            i += 2
        else:
            i += 1
    try:
        with warnings.catch_warnings():
            warnings.simplefilter('ignore')
            value = ast.literal_eval(lit)
    except (SyntaxError, ValueError) as e:
        return {'class': 'decode-error', 'why': str(e)[:80]}
    if not isinstance(value, str):
        return {'class': 'not-string'}
    if unsupported:
        return {'class': 'unsupported-escape'}
    return {'class': 'short', 'lit': cps(lit), 'value': cps(value), 'rest': cps(text[len(lit):])}

# ---------------------------------------------------------------- generators

ASCII_PLAIN = [c for c in range(32, 127) if c not in (34, 39, 92)]
CTRL = list(range(0, 32)) + [127]
CTRL_COMMON = [10, 13, 9, 0, 27, 12, 11, 8, 7, 127]
LATIN1 = list(range(0x80, 0x100))
BMP_SPECIAL = [0x85, 0xA0, 0xAD, 0x2028, 0x2029, 0x200B, 0x200E, 0x202E, 0x2060, 0xFEFF, 0xFFFE, 0xFFFF,
               0xE000, 0xF8FF, 0x3000, 0x0300, 0x0301, 0x20DD, 0x1160, 0x180E, 0x061C, 0xFFF9, 0xFFFD,
               0x0378, 0x2019, 0xFF07, 0xFF02, 0xFF3C, 0x02BC, 0x2032, 0x00B4, 0x0060, 0x1680, 0x2000,
               0x202F, 0x205F, 0xFDD0, 0x0100, 0x00FF, 0x0101, 0xD7FF, 0xE001, 0x2400, 0x0600, 0x06DD, 0x070F]
ASTRAL_SPECIAL = [0x10000, 0x1F600, 0x1D11E, 0x20000, 0xE0001, 0xE0100, 0xE007F, 0xF0000, 0xFFFFD, 0x10FFFF,
                  0x10FFFE, 0x10FFFD, 0x50000, 0x1F1E6, 0x1FFFF, 0x2FFFE, 0x110BD, 0x1BCA0, 0x1D173, 0x13430,
                  0x1F3FB, 0x100000, 0xFFFFF, 0x10001]

ADVERSARIAL = [
    "')", "'))", '")', "\\'", "\\\\'", "\\", "\\\\", "'''", '"""', "\n", "\r\n", "\r", "\\n", "\\x27", "\\u0027",
    "\\N{APOSTROPHE}", "\\047", "'+__import__('os').system('id')+'", "');import os#", "\nimport os\n", "#",
    "{x}", "%s", "\\\n", "\x00", "';", "' '", "''", "\\U0001F600", "\\ud800", "\\x", "\\u", "'\\", "\"\\",
    "\\'\\\"", "\t", "\x0c", "\x85", "\u2028", "\u2029", "\\\r\n", "a'b\"c", "))))", "]]", ",", "'\n'", "\\N{",
    "\x7f", "\x1b[0m", "\xad", "\u202e", "\ufeff", "yield", "atom('x')", "\\'); evil(); ('",
]

PROFILES = ['ascii', 'quotes', 'backslash', 'control', 'latin1', 'bmp', 'astral', 'surrogate', 'mixed',
            'mixed', 'adversarial', 'adversarial', 'squote-only', 'dquote-only']

def rand_cp(rng, profile):
    r = rng.random()
    if profile == 'ascii':
        return rng.choice(ASCII_PLAIN)
    if profile == 'quotes':
        return rng.choice([39, 34, 39, 34, 92] + ASCII_PLAIN[:20]) if r < 0.8 else rng.choice(ASCII_PLAIN)
    if profile == 'squote-only':
        return 39 if r < 0.4 else rng.choice(ASCII_PLAIN + [92, 10])
    if profile == 'dquote-only':
        return 34 if r < 0.4 else rng.choice(ASCII_PLAIN + [92, 10])
    if profile == 'backslash':
        return 92 if r < 0.45 else rng.choice([39, 34, 110, 120, 117, 85, 48, 78, 123, 10] + ASCII_PLAIN)
    if profile == 'control':
        return rng.choice(CTRL_COMMON) if r < 0.5 else rng.choice(CTRL) if r < 0.8 else rng.choice(ASCII_PLAIN)
    if profile == 'latin1':
        return rng.choice(LATIN1) if r < 0.7 else rng.choice(ASCII_PLAIN + [39, 34])
    if profile == 'bmp':
        if r < 0.35:
            return rng.choice(BMP_SPECIAL)
        if r < 0.8:
            c = rng.randrange(0x100, 0x10000)
            return c if not is_surrogate(c) else 0x3042
        return rng.choice(ASCII_PLAIN + [39])
    if profile == 'astral':
        if r < 0.4:
            return rng.choice(ASTRAL_SPECIAL)
        if r < 0.8:
            return rng.randrange(0x10000, 0x110000)
        return rng.choice(ASCII_PLAIN + [34])
    if profile == 'surrogate':
        return rng.randrange(0xD800, 0xE000) if r < 0.5 else rng.choice(ASCII_PLAIN + [39, 92, 0x1F600])
    # mixed
    k = rng.randrange(10)
    if k == 0: return rng.choice([39, 34])
    if k == 1: return 92
    if k == 2: return rng.choice(CTRL_COMMON)
    if k == 3: return rng.choice(LATIN1)
    if k == 4: return rng.choice(BMP_SPECIAL)
    if k == 5: return rng.choice(ASTRAL_SPECIAL)
    if k == 6:
        c = rng.randrange(0x80, 0x110000)
        return c
    return rng.choice(ASCII_PLAIN)

def rand_len(rng):
    r = rng.random()
    if r < 0.03: return 0
    if r < 0.18: return 1
    if r < 0.45: return rng.randint(2, 4)
    if r < 0.82: return rng.randint(5, 16)
    if r < 0.97: return rng.randint(17, 64)
    return rng.randint(65, 300)

def rand_string(rng):
    """-> (profile, list of code points)"""
    profile = rng.choice(PROFILES)
    n = rand_len(rng)
    if profile == 'adversarial':
        out = []
        while len(out) < n:
            if rng.random() < 0.6:
                out.extend(cps(rng.choice(ADVERSARIAL)))
            else:
                out.append(rand_cp(rng, 'mixed'))
        return profile, out
    return profile, [rand_cp(rng, profile) for _ in range(n)]

RESTS = ["", ")", "))", ",x)", "]", "'", "''", "'x'", '"', '""', "' + evil", "\n", "\nimport os\n", " ", "\\",
         "):\n", ")])]):\n", "'''", "\x00", "#", "\ud800", "\r", "a", "'\\''"]

def rand_rest(rng):
    r = rng.random()
    if r < 0.7:
        return cps(rng.choice(RESTS))
    return [rand_cp(rng, 'mixed') for _ in range(rng.randint(1, 6))]

HEX = '0123456789abcdefABCDEF'

def _hex(rng, n):
    return ''.join(rng.choice(HEX) for _ in range(n))

def rand_literal_text(rng):
    """a literal-like text for the lexer comparison: mostly well-formed short literals of the model's
    sub-language followed by junk, with a controlled amount of breakage"""
    q = rng.choice("'\"")
    other = '"' if q == "'" else "'"
    breakage = rng.random() < 0.45
    parts = []
    for _ in range(rand_len(rng) if rng.random() < 0.9 else 0):
        k = rng.randrange(24 if breakage else 14)
        if k < 4: parts.append(chr(rng.choice(ASCII_PLAIN)))
        elif k == 4: parts.append(other)
        elif k == 5: parts.append('\\' + q)
        elif k == 6: parts.append('\\' + rng.choice("\\'\"nrt"))
        elif k == 7: parts.append('\\x' + _hex(rng, 2))
        elif k == 8: parts.append('\\u' + _hex(rng, 4))
        elif k == 9: parts.append('\\U000' + rng.choice('01') + _hex(rng, 4) if rng.random() < 0.8 else '\\U0010' + _hex(rng, 4))
        elif k == 10: parts.append('\\u' + rng.choice('dD') + rng.choice('89abAB') + _hex(rng, 2))   # escaped surrogate
        elif k == 11: parts.append(chr(rand_cp(rng, 'mixed')) if rng.random() < 0.5 else chr(rng.choice(BMP_SPECIAL)))
        elif k == 12: parts.append(rng.choice(['\t', '\x0c', '\x0b', '\x1b', '\x7f', '\x01', '\x85', '\u2028', '\xa0']))
        elif k == 13: parts.append(chr(rng.choice(ASTRAL_SPECIAL)))
        # ---- outside the model's sub-language / malformed
        elif k == 14: parts.append(rng.choice(['\n', '\r', '\r\n', '\0']))
        elif k == 15: parts.append('\\' + rng.choice('abfv01234567qzN{ (#xuU'))
        elif k == 16: parts.append('\\x' + _hex(rng, 1) + rng.choice("gG" + q + " "))
        elif k == 17: parts.append('\\u' + _hex(rng, rng.randint(0, 3)) + rng.choice("g" + q + " "))
        elif k == 18: parts.append('\\U' + rng.choice(['00110000', '0011' + _hex(rng, 4), 'ffffffff', '1' + _hex(rng, 7), _hex(rng, rng.randint(0, 7)) + 'x']))
        elif k == 19: parts.append('\\\n' if rng.random() < 0.7 else '\\\r\n')
        elif k == 20: parts.append(rng.choice(['\\N{DIGIT ONE}', '\\N{nonsense}', '\\101', '\\0', '\\777']))
        elif k == 21: parts.append(chr(rng.randrange(0xD800, 0xE000)))
        elif k == 22: parts.append(q * 2)
        else: parts.append('\\')
    body = ''.join(parts)
    r = rng.random()
    if breakage and r < 0.12:
        text = q + body                                  # unterminated
    elif breakage and r < 0.2:
        text = q * 3 + body + q * rng.choice([1, 3])     # triple-quoted
    elif breakage and r < 0.25:
        text = rng.choice(['r', 'b', 'u', 'f', ' ', 'x', '(']) + q + body + q
    else:
        text = q + body + q
    return cps(text) + rand_rest(rng)

def mutate_repr(rng, s_cps):
    """repr(s) with one small edit, followed by a rest: the lexer must agree with CPython on near misses"""
    r = list(repr(to_s(s_cps)))
    k = rng.randrange(5)
    if r and k == 0:
        del r[rng.randrange(len(r))]
    elif k == 1:
        r.insert(rng.randrange(len(r) + 1), rng.choice(["'", '"', '\\', '\n', 'x', '0']))
    elif r and k == 2:
        r[rng.randrange(len(r))] = rng.choice(["'", '"', '\\', '\n', 'g', 'U'])
    elif k == 3:
        r = r[:rng.randrange(len(r) + 1)]
    elif r and k == 4:
        i = rng.randrange(len(r))
        r[i] = r[i].upper()
    return cps(''.join(r)) + rand_rest(rng)
