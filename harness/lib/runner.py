"""Generic flow of one property check (DESIGN.md section 6):
   proof obligations -> corpus + generated cases through model and implementation ->
   intrinsic oracle -> decision -> evidence."""
import os, sys, json, time, random, hashlib, signal, traceback, multiprocessing, glob
from . import coqrun, terms

VERIF = coqrun.VERIF
REPO = os.environ.get('VERIF_REPO', '/repo')

COMMON_TRUSTED_BASE = [
    'Coq 8.16.1 kernel (coqc); vm_compute for the in-Coq evaluation of the model on the correspondence cases and for the non-vacuity Examples; no native_compute; no extraction',
    'axioms: none - Print Assumptions under every theorem of the property file says "Closed under the global context" (re-checked on every run); coqchk -o (thorough tier) reports Axioms <none>',
    'the hand-written Gallina model of the anchored code: tied to /repo only by the differential run of this check (generators, implementation driver, canonicalisation, printer Base/Str.v show and its parser harness/lib/terms.py are trusted)',
    'modelled, not verified: CPython (generator protocol, immediate finalisation of dropped generators, exec/compile, repr, recursion limit), the ANTLR 4.9.1 runtime and the checked-in generated lexer/parser, click',
    'the repaired defects D1-D26 of /repo (fix: commits, DESIGN.md section 2): the theorems are about the repaired tree',
]
COMMON_ASSUMPTIONS = [
    'the specification objects of the property file (reference semantics, list specs, recogniser of the grammar) say what the property text says',
    'cases outside the property domain (cyclic unifications, unbound goals, lone surrogates in source text) are not generated or are exempted explicitly, as the property text leaves them unspecified',
]

def log(*a):
    print(*a, file=sys.stderr, flush=True)

# ------------------------------------------------------------------ implementation side

class CaseTimeout(BaseException):   # not an Exception: code under test that catches Exception must not swallow the harness timeout
    pass

def _alarm(signum, frame):
    raise CaseTimeout()

_PROP = None

class _StrictHandler(__import__('logging').Handler):
    """what an application that has DEBUG logging switched on does with every record: format it (so lazily formatted
    arguments are rendered) - and, like logging.StreamHandler.emit for RecursionError, let what the formatting raises
    propagate to the code that logged"""
    def emit(self, record):
        self.format(record)

def _debug_logging_on():
    import logging
    root = logging.getLogger()
    h = _StrictHandler()
    st = (root.level, h, logging.root.manager.disable)
    logging.disable(logging.NOTSET)
    root.addHandler(h)
    root.setLevel(logging.DEBUG)
    return st

def _debug_logging_off(st):
    import logging
    level, h, disabled = st
    root = logging.getLogger()
    root.removeHandler(h)
    root.setLevel(level)
    logging.disable(disabled)

LOGGING_SHARE = 0.1                       # share of the cases that are run once more with DEBUG logging enabled for every logger:
LOGGING_MAX = {'quick': 40, 'thorough': 400}   # logging configuration must not change any observable (the unchanged code logs nothing)

def _with_debug_logging(prop, cases, rng, tier):
    if getattr(prop, 'NO_LOGGING_CASES', False):
        return []
    pool = [c for c in cases if isinstance(c, dict)]
    n = min(LOGGING_MAX.get(tier, 40), int(len(pool) * LOGGING_SHARE) + 1, len(pool))
    out = []
    for c in rng.sample(pool, n):
        c2 = json.loads(json.dumps(c))
        c2['debug_logging'] = True
        c2['origin'] = '%s+debug-logging' % c.get('origin', 'gen')
        out.append(c2)
    return out

def _impl_one(case, scale=1):
    prop = _PROP
    t = getattr(prop, 'CASE_TIMEOUT', 10) * scale
    signal.signal(signal.SIGALRM, _alarm)
    signal.setitimer(signal.ITIMER_REAL, t)
    try:
        lim = sys.getrecursionlimit()
        dbg = _debug_logging_on() if isinstance(case, dict) and case.get('debug_logging') else None
        try:
            return prop.impl(case)
        finally:
            signal.setitimer(signal.ITIMER_REAL, 0)
            sys.setrecursionlimit(lim)
            if dbg:
                _debug_logging_off(dbg)
    except CaseTimeout:
        return ['harness-timeout']
    except RecursionError:
        return ['harness-raised', 'RecursionError']
    except BaseException as e:
        return ['harness-raised', type(e).__name__, str(e)[:300], traceback.format_exc()[-1500:]]

def _init_worker(modname):
    global _PROP
    import importlib
    _PROP = importlib.import_module(modname)
    import yldprolog
    assert os.path.realpath(yldprolog.__file__).startswith(os.path.realpath(REPO) + os.sep), yldprolog.__file__

def _impl_chunk(chunk):
    return [_impl_one(c) for c in chunk]

SLOW_RETRY = 4      # cases that hit the per-case time limit while all cores were busy are run once more, alone,
SLOW_SCALE = 6      # with SLOW_SCALE times the limit, before "did not finish" is believed (a loaded or slower machine
                    # must not turn into an alarm; a genuinely non-terminating case still times out)

def _impl_one_slow(case):
    return _impl_one(case, SLOW_SCALE)

def _retry_slow(prop, cases, out, ctx):
    import concurrent.futures as cf
    slow = [i for i, o in enumerate(out) if isinstance(o, list) and o and o[0] == 'harness-timeout']
    per_case = getattr(prop, 'CASE_TIMEOUT', 10)
    for i in slow[:SLOW_RETRY]:
        try:
            with cf.ProcessPoolExecutor(1, mp_context=ctx, initializer=_init_worker, initargs=(prop.__name__,)) as ex1:
                out[i] = ex1.submit(_impl_one_slow, cases[i]).result(timeout=per_case * SLOW_SCALE + 120)
        except Exception as e:
            out[i] = ['harness-crashed', type(e).__name__]
        log(getattr(prop, 'ID', '?'), 'case %d hit the time limit; run again alone with %dx the limit: %s' % (i, SLOW_SCALE, 'finished' if not (isinstance(out[i], list) and out[i] and out[i][0] == 'harness-timeout') else 'still not finished'))
    return out

def run_impl(prop, cases, jobs=None):
    """Runs prop.impl on every case in forked worker processes.  A worker that dies (CPython aborts the process on
    some stack overflows) or a chunk that does not come back in time does not hang the check: its cases are re-run
    one by one, each in a process of its own, and a case that kills its process is reported as ['harness-crashed']."""
    import concurrent.futures as cf
    jobs = jobs or coqrun.NCPU
    ctx = multiprocessing.get_context('fork')
    if getattr(prop, 'IMPL_IN_PROCESS', False) or len(cases) < 8:
        _init_worker(prop.__name__)
        return _retry_slow(prop, cases, [_impl_one(c) for c in cases], ctx)
    nproc = min(jobs, max(1, len(cases) // 4))
    size = max(1, min(64, len(cases) // (jobs * 4) or 1))
    chunks = [(i, cases[i:i + size]) for i in range(0, len(cases), size)]
    per_case = getattr(prop, 'CASE_TIMEOUT', 10)
    out = [None] * len(cases)
    redo = []
    try:
        with cf.ProcessPoolExecutor(nproc, mp_context=ctx, initializer=_init_worker, initargs=(prop.__name__,)) as ex:
            futs = {ex.submit(_impl_chunk, ch): (i, ch) for i, ch in chunks}
            for fut in futs:
                i, ch = futs[fut]
                try:
                    res = fut.result(timeout=per_case * len(ch) + 600)
                    out[i:i + len(ch)] = res
                except Exception:
                    redo.append((i, ch))
    except Exception:
        pass
    for i, ch in chunks:
        if out[i] is None and (i, ch) not in redo:
            redo.append((i, ch))
    for i, ch in redo:
        for k, c in enumerate(ch):
            try:
                with cf.ProcessPoolExecutor(1, mp_context=ctx, initializer=_init_worker, initargs=(prop.__name__,)) as ex1:
                    out[i + k] = ex1.submit(_impl_one, c).result(timeout=per_case + 120)
            except Exception as e:
                out[i + k] = ['harness-crashed', type(e).__name__]
    return _retry_slow(prop, cases, out, ctx)

# ------------------------------------------------------------------ model side

def run_model(prop, cases, impl_obs=None):
    idx = []
    exprs = []
    needs = getattr(prop, 'MODEL_NEEDS_IMPL', False)
    for i, c in enumerate(cases):
        e = prop.model_expr(c, impl_obs[i]) if needs else prop.model_expr(c)
        if e is not None:
            idx.append(i)
            exprs.append(e)
    res = coqrun.eval_exprs(exprs, prop.IMPORTS, chunk=getattr(prop, 'COQ_CHUNK', 200), tag=prop.ID)
    out = [None] * len(cases)
    for i, r in zip(idx, res):
        out[i] = r
    return out

# ------------------------------------------------------------------ known findings

def load_known(pid):
    kf = json.load(open(os.path.join(VERIF, 'known_findings.json')))
    return [k for k in kf.get('known', []) if k['property'] == pid]

# ------------------------------------------------------------------ main flow

def default_compare(case, impl_obs, model_obs):
    if impl_obs != model_obs:
        return 'implementation and model disagree'
    return None

def judge(prop, case, impl_obs, model_obs):
    """None if the case is fine, else a short reason."""
    if isinstance(impl_obs, list) and impl_obs and impl_obs[0] == 'harness-timeout':
        return 'implementation did not finish within %ss' % getattr(prop, 'CASE_TIMEOUT', 10)
    if isinstance(impl_obs, list) and impl_obs and impl_obs[0] == 'harness-crashed':
        allow = getattr(prop, 'allow_harness_crash', None)
        if not (allow and allow(case)):
            return 'running the case killed the interpreter process (%s)' % impl_obs[1]
        return None
    if isinstance(impl_obs, list) and impl_obs and impl_obs[0] == 'harness-raised':
        allow = getattr(prop, 'allow_harness_raise', None)
        if not (allow and allow(case, impl_obs)):
            return 'implementation raised %s: %s' % (impl_obs[1], impl_obs[2] if len(impl_obs) > 2 else '')
    orc = getattr(prop, 'oracle', None)
    if orc:
        r = orc(case, impl_obs)
        if r:
            return 'oracle: ' + r
    if model_obs is not None:
        cmp_ = getattr(prop, 'compare', default_compare)
        r = cmp_(case, impl_obs, model_obs)
        if r:
            return r
    return None

def shrink_case(prop, case, reason_of):
    """Greedy delta debugging with prop.shrink (a generator of smaller candidates)."""
    sh = getattr(prop, 'shrink', None)
    if not sh:
        return case
    budget = 60
    cur = case
    improved = True
    while improved and budget > 0:
        improved = False
        for cand in sh(cur):
            budget -= 1
            if budget <= 0:
                break
            try:
                if reason_of(cand):
                    cur = cand
                    improved = True
                    break
            except Exception:
                continue
    return cur

def case_hash(case):
    c = {k: v for k, v in case.items() if k not in ('id', 'origin')}
    return hashlib.sha1(json.dumps(c, sort_keys=True).encode()).hexdigest()

def load_corpus(pid):
    out = []
    for p in sorted(glob.glob(os.path.join(VERIF, 'corpus', pid, '*.json'))):
        data = json.load(open(p))
        items = data if isinstance(data, list) else [data]
        for k, c in enumerate(items):
            c = dict(c)
            c['origin'] = 'corpus:%s#%d' % (os.path.basename(p), k)
            out.append(c)
    return out

def write_replay(pid, name, payload):
    d = os.path.join(VERIF, 'replays')
    os.makedirs(d, exist_ok=True)
    tag = os.environ.get('VERIF_REPLAY_TAG')
    if tag:
        name = tag + '-' + name
    p = os.path.join(d, name)
    with open(p, 'w') as f:
        json.dump(payload, f, indent=1, sort_keys=True)
    return p

def proof_stage(prop, tier='quick'):
    """Returns dict with obligations/discharged/axioms, list of problems."""
    problems = []
    info = {'obligations': 0, 'discharged': 0, 'theorems': [], 'assumptions': {}}
    try:
        info['build_s'] = round(coqrun.build(), 1)
    except coqrun.CoqError as e:
        problems.append(('build', str(e)))
        return info, problems
    gate = coqrun.source_gate()
    if gate:
        problems.append(('source-gate', 'forbidden declarations: ' + '; '.join(gate[:10])))
    try:
        theorems, printed, assumptions = coqrun.check_property_file(prop.ID)
    except coqrun.CoqError as e:
        problems.append(('properties-file', str(e)))
        return info, problems
    info['theorems'] = theorems
    info['assumptions'] = assumptions
    info['obligations'] = len(theorems)
    ok = 0
    for t in theorems:
        if t not in assumptions:
            problems.append(('assumptions', 'no Print Assumptions for theorem %s' % t))
            continue
        bad = [a for a in assumptions[t] if a.split('.')[-1] not in coqrun.ALLOWED_AXIOMS and a not in coqrun.ALLOWED_AXIOMS]
        if bad:
            problems.append(('assumptions', 'theorem %s depends on %s' % (t, bad)))
            continue
        ok += 1
    info['discharged'] = ok if not gate else 0
    if tier == 'thorough':
        try:
            ok, axs, summary = coqrun.coqchk(prop.ID)
            info['coqchk'] = summary[:1500]
            bad = [a for a in axs if a.split('.')[-1] not in coqrun.ALLOWED_AXIOMS and a not in coqrun.ALLOWED_AXIOMS]
            if not ok or bad:
                problems.append(('coqchk', 'independent re-check failed or reports axioms %s: %s' % (bad, summary[-400:])))
        except Exception as e:
            problems.append(('coqchk', 'coqchk could not be run: %r' % e))
    # source-level ties (additive hook): definitions regenerated from the source text + equality lemmas re-checked (lib/srctie.py)
    hook = getattr(prop, 'source_ties', None)
    if hook:
        tinfo, tproblems = hook()
        info['source_tie'] = tinfo
        info['obligations'] += tinfo.get('obligations', 0)
        info['discharged'] += tinfo.get('discharged', 0)
        problems.extend(tproblems)
    expected = getattr(prop, 'THEOREMS', None)
    if expected:
        missing = [t for t in expected if t not in theorems]
        if missing:
            problems.append(('theorems-missing', 'Properties/%s.v no longer states %s' % (prop.ID, missing)))
            info['discharged'] = min(info['discharged'], len(theorems) - len(missing))
    return info, problems

def run_check(prop, tier, seed, replay=None):
    t0 = time.time()
    pid = prop.ID
    os.makedirs(os.path.join(VERIF, 'evidence'), exist_ok=True)
    violations = []       # (line, replay path)
    known_lines = []
    try:
        return _run_check(prop, tier, seed, replay, t0, violations, known_lines)
    finally:
        coqrun.cleanup()

def _evaluate(prop, cases):
    impl_obs = run_impl(prop, cases)
    model_obs = run_model(prop, cases, impl_obs)
    return impl_obs, model_obs

def _run_check(prop, tier, seed, replay, t0, violations, known_lines):
    pid = prop.ID
    info, problems = proof_stage(prop, tier)
    log('[%s] proof stage: %d/%d obligations, %d problems (%.1fs)' % (pid, info['discharged'], info['obligations'], len(problems), time.time() - t0))

    if replay:
        data = json.load(open(replay))
        cases = [data['case']] if 'case' in data else data.get('cases', [])
        impl_obs, model_obs = _evaluate(prop, cases)
        bad = 0
        for c, io, mo in zip(cases, impl_obs, model_obs):
            r = judge(prop, c, io, mo)
            print(json.dumps({'case': c, 'impl': io, 'model': mo, 'verdict': r}, indent=1))
            if r:
                bad += 1
        if bad or problems:
            print('VIOLATION property=%s replay=%s' % (pid, replay))
            return 1
        return 0

    rng = random.Random('%s-%s-%s' % (pid, seed, tier))
    cases = load_corpus(pid)
    ncorpus = len(cases)
    extra = getattr(prop, 'builtin_corpus', None)
    if extra:
        for k, c in enumerate(extra()):
            c = dict(c); c['origin'] = 'builtin#%d' % k
            cases.append(c)
    gen = prop.gen(rng, tier)
    for c in gen:
        c.setdefault('origin', 'gen')
        cases.append(c)
    lrng = random.Random('%s-%s-%s-logging' % (pid, seed, tier))     # its own stream: the other cases stay what they were
    cases += _with_debug_logging(prop, cases, lrng, tier)
    for i, c in enumerate(cases):
        c['id'] = i
    log('[%s] %d cases (%d corpus)' % (pid, len(cases), ncorpus))
    impl_obs, model_obs = _evaluate(prop, cases)
    log('[%s] evaluated (%.1fs)' % (pid, time.time() - t0))

    known = load_known(pid)
    known_hits = {}
    failures = []
    nontrivial = set()
    compared = 0
    for c, io, mo in zip(cases, impl_obs, model_obs):
        if mo is not None:
            compared += 1
        r = judge(prop, c, io, mo)
        if r:
            failures.append((c, io, mo, r))
        try:
            if prop.nontrivial(c, io):
                nontrivial.add(case_hash(c))
        except Exception:
            pass

    def reason_of(cand):
        cand = dict(cand)
        io, mo = _evaluate(prop, [cand])
        return judge(prop, cand, io[0], mo[0])

    # failing inputs of the property itself (intrinsic oracle) are reported before mere model/implementation differences
    failures.sort(key=lambda f: 0 if f[3].startswith('oracle:') else 1)
    reported = 0
    for c, io, mo, r in failures:
        kf = None
        cl = getattr(prop, 'classify_known', None)
        if cl:
            kf = cl(c, io, mo, known)
        if kf:
            known_hits.setdefault(kf, []).append(c)
            continue
        if reported >= 5:
            reported += 1
            continue
        small = c
        try:
            small = shrink_case(prop, c, reason_of)
        except Exception as e:
            log('shrink failed: %r' % e)
        if small is not c:
            sio, smo = _evaluate(prop, [small])
            sr = judge(prop, small, sio[0], smo[0])
            if sr:
                c, io, mo, r = small, sio[0], smo[0], sr
        desc = getattr(prop, 'describe', lambda c: None)(c)
        path = write_replay(pid, '%s-%s-%d.json' % (pid, seed, reported), {
            'property': pid, 'case': c, 'observed_implementation': io, 'expected_model': mo,
            'reason': r, 'description': desc,
            'how_to_rerun': 'bin/check %s --replay <this file>' % pid})
        violations.append('VIOLATION property=%s replay=%s' % (pid, path))
        reported += 1

    # known findings: replay witnesses, report while they still fail
    kw = getattr(prop, 'known_witness_cases', None)
    for k in known:
        still = False
        if kw:
            wcases = kw(k)
            wio, wmo = _evaluate(prop, wcases)
            for wc, a, b in zip(wcases, wio, wmo):
                if judge(prop, wc, a, b):
                    still = True
        if still or known_hits.get(k['id']):
            known_lines.append('KNOWN-FINDING: property=%s %s (%s; %d generated cases of this class disagreed)' % (
                pid, k['what'], k['id'], len(known_hits.get(k['id'], []))))

    # broken proof obligations without a failing input
    if problems and not violations:
        path = write_replay(pid, '%s-tie-%s.json' % (pid, seed), {
            'property': pid, 'broken': [{'kind': k, 'detail': d} for k, d in problems],
            'note': 'a proof obligation or the source gate no longer checks; %d cases were searched for a failing input and none was found' % len(cases)})
        violations.append('VIOLATION property=%s replay=%s no-failing-input-found' % (pid, path))

    # evidence
    dist = {}
    try:
        dist = prop.distribution(cases, impl_obs) if hasattr(prop, 'distribution') else {}
    except Exception as e:
        dist = {'error': repr(e)}
    samples = []
    for c, io in list(zip(cases, impl_obs))[ncorpus:ncorpus + 400:100][:4] + list(zip(cases, impl_obs))[:1]:
        d = getattr(prop, 'describe', lambda c: None)(c)
        samples.append({'case': c, 'implementation': io, 'description': d})
    tb = list(getattr(prop, 'TRUSTED_BASE', []))
    for item in COMMON_TRUSTED_BASE:
        if item not in tb:
            tb.append(item)
    axioms = sorted({a for v in info['assumptions'].values() for a in v})
    ev = {
        'property_id': pid, 'tier': tier, 'seed': int(seed), 'level': 'proof',
        'coverage': {
            'obligations': info['obligations'], 'discharged': info['discharged'],
            'checker_cmd': 'make -C coq (coqc 8.16.1, full .vo build) && coqc theories/Properties/%s.v (Print Assumptions under every theorem) && source gate (no Axiom/Parameter/Admitted/admit/unchecked flags)' % pid,
            'trusted_base': tb,
            'theorems': info['theorems'],
            'axioms_reported': axioms if axioms else ['none: every theorem is closed under the global context'],
            'proof_problems': [d[:300] for _, d in problems],
            'source_tie': info.get('source_tie', 'none'),
            'coqchk': info.get('coqchk', 'not run in the quick tier (run by the thorough tier: coqchk -o on Properties/%s.vo and all its dependencies)' % pid),
            'evaluations': len(cases), 'distinct_nontrivial': len(nontrivial),
            'rule': getattr(prop, 'RULE', ''),
            'traces_validated_against_impl': compared,
            'samples': samples, 'input_distribution': dist,
            'known_finding_hits': {k: len(v) for k, v in known_hits.items()},
            'model_evaluations_not_finished_in_time': coqrun.MODEL_TIMEOUTS[0],
        },
        'assumptions': list(getattr(prop, 'ASSUMPTIONS', [])) + [a for a in COMMON_ASSUMPTIONS if a not in getattr(prop, 'ASSUMPTIONS', [])],
        'wall_s': round(time.time() - t0, 1),
        'violations': len(violations),
    }
    evdir = os.environ.get('VERIF_EVIDENCE_DIR') or os.path.join(VERIF, 'evidence')
    os.makedirs(evdir, exist_ok=True)
    with open(os.path.join(evdir, pid + '.json'), 'w') as f:
        json.dump(ev, f, indent=1)
    for l in known_lines:
        print(l)
    for l in violations:
        print(l)
    log('[%s] done: %d cases, %d nontrivial, %d violations, %.1fs' % (pid, len(cases), len(nontrivial), len(violations), time.time() - t0))
    return 1 if violations else 0
