"""Shared machinery of the semantic properties (C01, C05, C06, C09, C20): a case is a program (AST) plus
queries; the implementation compiles and loads it into a fresh engine and enumerates every query; the
Coq model answers the same queries twice - by the IR semantics of the compiled program (Sem/Machine.v)
and by the SLD reference semantics (Sem/Sld.v) - and all three answer sequences must be equal after
canonical renaming of unbound variables."""
import sys
from . import progs, ast_io, terms
from .terms import g_str, g_list, g_nat, g_term

IMPORTS = ['Lang.Ast', 'Lang.Front', 'Sem.Machine', 'Sem.Sld', 'Sem.SldR', 'Sem.RunSem']
DEPTH = 30
LIMIT = 150
CAP = 1500

class Ctx:
    debug_filename = ''
    debug_parser = False
    debug_generator = False

def sterm_to_term(t, qvars):
    """query argument (AST term over variables Q0..) -> JSON term over cells 0.."""
    k = t[0]
    if k == 'atom': return ['a', t[1]]
    if k == 'num': return ['i', int(t[1])]
    if k == 'var':
        if t[1] not in qvars:
            qvars.append(t[1])
        return ['v', qvars.index(t[1])]
    if k == 'fun': return ['f', t[1], [sterm_to_term(a, qvars) for a in t[2]]]
    if k == 'list': return terms.mklist([sterm_to_term(a, qvars) for a in t[1]])
    if k == 'pair': return ['f', '.', [sterm_to_term(t[1], qvars), sterm_to_term(t[2], qvars)]]
    raise ValueError(t)

def query_terms(q):
    qvars = []
    args = [sterm_to_term(a, qvars) for a in q[1]]
    return args, len(qvars)

def canon_answers(answers):
    return [[terms.term_obs(x) for x in terms.rename_canonical([terms.obs_term(o) for o in ans])] for ans in answers]

def source_of(case):
    return case.get('source') or ast_io.program_text(case['clauses'])

class QueryBudget(BaseException):   # not an Exception: code under test that catches Exception must not swallow it
    pass

# ---- object identity of variables that findall/3 collects from different answers
# The model names cells by a counter that is threaded along one search path, so it cannot say whether two variables
# that were created while a findall goal ran and were collected from DIFFERENT answers are the same object (they are,
# iff they were created before the choice point at which the two answers diverge).  The implementation is the
# authority there; the harness only has to know WHEN this happened: every Variable gets a creation serial number
# (patched in here, in the harness process, not in the repository) and findall/3 of the engine under test is wrapped
# so that it notices a collected variable that was created after the findall call started.  For such a query the
# comparison with the model ignores the identity of unbound variables (everything else is compared as usual).
_SERIAL = [0]

def _install_serials(engine):
    if getattr(engine.Variable, '_verif_serials', False):
        return
    orig = engine.Variable.__init__
    def __init__(self, *a, **k):
        orig(self, *a, **k)
        _SERIAL[0] += 1
        self._verif_serial = _SERIAL[0]
    engine.Variable.__init__ = __init__
    engine.Variable._verif_serials = True

def _term_variables(engine, t, acc):
    t = engine.get_value(t)
    if isinstance(t, engine.Variable):
        acc.append(t)
    elif isinstance(t, engine.Functor):
        for a in t._args:
            _term_variables(engine, a, acc)
    return acc

def watch_findall(yp):
    from yldprolog import engine
    _install_serials(engine)
    key = 'findall_3'
    orig = yp.eval_context.get(key)
    if orig is None or getattr(orig, '_verif_wrapped', False):
        return
    # findall/3 enumerates its goal through self.call: an instance attribute routes that one call through a wrapper that
    # looks at the instance of the template at every answer.  A variable created after the findall call started and
    # found in the instances of two DIFFERENT answers (it was created before the choice point at which they diverge) is
    # ONE object in the engine, whereas the model renames the inner variables of every answer apart; whatever is bound
    # through such a variable later (a non-variable bag, a later goal) differs.  Such a query is not compared with the model.
    orig_call = yp.call
    armed = [None]
    def call(goal, *args):
        ctx = armed[0]
        armed[0] = None
        if ctx is None:
            yield from orig_call(goal, *args)
            return
        template, start = ctx
        seen = set()
        n = 0
        for r in orig_call(goal, *args):
            n += 1
            if n > CAP:
                yp._verif_findall_big = True      # like a query with more than CAP answers: too large for the eagerly evaluated model
            try:
                inner = {v._verif_serial for v in _term_variables(engine, template, []) if getattr(v, '_verif_serial', 0) > start}
            except RecursionError:
                inner = set()
                yp._verif_findall_inner = True
            if inner:
                yp._verif_findall_inner = True
                if inner & seen:
                    yp._verif_findall_shared = True
                seen |= inner
            yield r
    yp.call = call
    def findall_3(template, goal, bag):
        start = _SERIAL[0]
        armed[0] = (template, start)
        for r in orig(template, goal, bag):
            try:
                if any(getattr(v, '_verif_serial', 0) > start for v in _term_variables(engine, bag, [])):
                    yp._verif_findall_inner = True
            except RecursionError:
                yp._verif_findall_inner = True
            yield r
    findall_3._verif_wrapped = True
    yp.eval_context[key] = findall_3

def anon_vars(o):
    """observation with the identity of unbound variables forgotten"""
    if isinstance(o, list):
        if len(o) == 2 and o[0] == 3 and isinstance(o[1], int):
            return [3, 0]
        return [anon_vars(x) for x in o]
    return o

def _budget_alarm(signum, frame):
    raise QueryBudget()

QUERY_BUDGET = 1.5      # seconds of search per query on the implementation; a query that needs more is not compared

def run_queries(yp, case, T_factory=None):
    import signal
    from yldprolog import engine as E
    out = []
    for q in case['queries']:
        args, nq = query_terms(q)
        T = terms.ImplTerms([yp], nq)
        objs = [T.build(a) for a in args]
        answers = []
        end = 'done'
        n = 0
        g = None
        yp._verif_findall_inner = False
        yp._verif_findall_shared = False
        yp._verif_findall_big = False
        # per-query search budget: the enclosing per-case timer of the runner is suspended and re-armed afterwards
        outer_left, _ = signal.getitimer(signal.ITIMER_REAL)
        outer_handler = signal.signal(signal.SIGALRM, _budget_alarm)
        signal.setitimer(signal.ITIMER_REAL, QUERY_BUDGET)
        try:
            try:
                g = yp.query(q[0], objs)
                for _ in g:
                    n += 1
                    if n <= LIMIT:
                        answers.append([terms.term_obs(T.read(T.vars[i])) for i in range(nq)])
                    if n >= CAP:
                        end = 'cap'
                        break
            except QueryBudget:
                end = 'budget'
            except RecursionError:
                end = 'raised RecursionError'
            except Exception as e:
                end = 'raised %s' % type(e).__name__
            finally:
                signal.setitimer(signal.ITIMER_REAL, 0)
        except QueryBudget:
            end = 'budget'
        finally:
            signal.setitimer(signal.ITIMER_REAL, 0)
            if g is not None and hasattr(g, 'close'):
                try:
                    g.close()
                except Exception:
                    pass
            signal.signal(signal.SIGALRM, outer_handler if outer_handler is not None else signal.SIG_DFL)
            if outer_left > 0:
                signal.setitimer(signal.ITIMER_REAL, max(0.05, outer_left))
        leftover = [i for i in range(nq) if T.vars[i]._is_bound]
        out.append({'answers': canon_answers(answers), 'count': n, 'end': end, 'leftover': leftover,
                    'findall_inner': bool(getattr(yp, '_verif_findall_inner', False)),
                    'findall_shared': bool(getattr(yp, '_verif_findall_shared', False)),
                    'findall_big': bool(getattr(yp, '_verif_findall_big', False))})
    return out

def impl(case):
    from yldprolog import compiler, engine
    src = source_of(case)
    try:
        text = compiler.compile_prolog_from_string(src, Ctx)
    except Exception as e:
        return {'rejected': type(e).__name__, 'msg': str(e)[:200], 'source': src}
    yp = engine.YP()
    watch_findall(yp)
    yp.load_script_from_string(text)
    return {'queries': run_queries(yp, case)}

MODEL_NEEDS_IMPL = True

def compared_queries(case, io):
    """indices of the queries that are evaluated by the model: those whose search the implementation finished
    within the budget and the answer cap (the model is evaluated eagerly inside Coq)"""
    if not isinstance(io, dict) or 'queries' not in io:
        return list(range(len(case['queries'])))
    return [i for i, iq in enumerate(io['queries']) if iq['end'] not in ('cap', 'budget') and not iq.get('findall_big')]

def model_expr(case, io=None):
    """the model is given the same source TEXT as the implementation: its own front end (Lang/Front.v) reads it"""
    from .pyrepr_check import cps, g_cps
    qs = []
    for qi in compared_queries(case, io):
        q = case['queries'][qi]
        args, nq = query_terms(q)
        qs.append('(%s, %s, %s)' % (g_str(q[0]), g_list([g_term(a) for a in args]), g_nat(nq)))
    # round 4: the *_lim entry points first ask the model compiler for its verdict "too large for Python" (Comp/Limits.v)
    return '(%s %d %s %s %d)' % ('run_three_src_lim' if case.get('three_views') else 'run_both_src_lim', DEPTH, g_cps(cps(source_of(case))), g_list(qs), LIMIT)

def model_views(mo):
    """[(ir_view, sld_view)] per query; a view is dict answers/count/err"""
    out = []
    for pair in mo:
        vs = []
        for m in pair:
            if m and m[0] == 'stuck':
                vs.append({'stuck': True})
            else:
                vs.append({'answers': canon_answers(m[0]), 'count': m[1], 'err': bool(m[2])})
        out.append(vs)
    return out

def compare(case, io, mo):
    if mo and mo[0] == 'front-rejects':
        if 'rejected' in io:
            return None
        return 'the model front end rejects a source text that the implementation compiles'
    too_large = 'rejected' in io and io['rejected'] == 'CompilerError' and 'too large for Python' in (io.get('msg') or '')
    if mo and mo[0] == 'too-large':
        # round 4: the model compiler (compile_program + Comp/Limits.v py_limits) refuses the program: more than 20 statically nested
        # blocks in an emitted function.  The implementation must refuse it too (D13) - a compiler that accepts it emits other code.
        if too_large:
            return None
        if 'rejected' in io:
            return 'the compiler rejected a generated program: %s %s (the model compiler says: too large for Python)' % (io['rejected'], io.get('msg'))
        return 'the implementation compiles a program that the model compiler refuses as too large for Python (more than 20 nested blocks)'
    if 'rejected' in io:
        if too_large:
            return 'the implementation refuses a program as too large for Python that the model compiler accepts: %s' % (io.get('msg'),)
        return 'the compiler rejected a generated program: %s %s' % (io['rejected'], io.get('msg'))
    views = model_views(mo)
    idx = compared_queries(case, io)
    for qi, vs in zip(idx, views):
        q, iq = case['queries'][qi], io['queries'][qi]
        ir, sld = vs[0], vs[1]
        sldr = vs[2] if len(vs) > 2 else None
        qtxt = ast_io.term_text(['fun', q[0], q[1]]) if q[1] else q[0]
        if ir.get('stuck'):
            return 'model compiler stuck'
        if ir['err'] or sld['err']:
            # the model ran out of call depth: only prefixes are comparable
            k = min(len(ir['answers']), len(iq['answers']))
            if ir['answers'][:k] != iq['answers'][:k]:
                return 'query %s: answers differ from the model before the model\'s depth limit' % qtxt
            continue
        if iq['end'] not in ('done', 'cap'):
            return 'query %s: implementation %s after %d answers; the model finishes normally with %d answers' % (qtxt, iq['end'], iq['count'], ir['count'])
        if iq['answers'] != ir['answers'] or (iq['end'] == 'done' and iq['count'] != ir['count']):
            return 'query %s: implementation answers differ from the compiled-code model (impl %d answers, model %d)' % (qtxt, iq['count'], ir['count'])
        if ir['answers'] != sld['answers'] or ir['count'] != sld['count']:
            # Sld.solve is an auxiliary, independently written reference (the proved chain is Machine = solveA ~ solveR).  Since
            # findall/3 collects copies (D27) the identity of variables inside collected instances is no longer observable, so the
            # two must agree on every query (answers are compared with unbound variables renamed by first occurrence).
            return 'query %s: compiled-code model and SLD reference differ (%d vs %d answers)' % (qtxt, ir['count'], sld['count'])
        if sldr is not None and not sldr.get('err') and (ir['answers'] != sldr['answers'] or ir['count'] != sldr['count']):
            return 'query %s: compiled-code model and renamed-apart SLD reference (SldR.solveR) differ (%d vs %d answers) - this contradicts a proved theorem: harness bug' % (qtxt, ir['count'], sldr['count'])
    return None

def compare_parts(case, io, mo):
    """(impl_vs_ir, ir_vs_sld, impl_vs_sld) booleans: which pairs disagree (for classification)"""
    views = model_views(mo)
    a = b = c = False
    for qi, vs in zip(compared_queries(case, io), views):
        iq = io['queries'][qi]
        ir, sld = vs[0], vs[1]
        if ir.get('stuck') or ir.get('err') or sld.get('err'):
            continue
        if iq['answers'] != ir['answers'] or (iq['end'] == 'done' and iq['count'] != ir['count']): a = True
        if ir['answers'] != sld['answers'] or ir['count'] != sld['count']: b = True
        if iq['answers'] != sld['answers'] or (iq['end'] == 'done' and iq['count'] != sld['count']): c = True
    return a, b, c

def oracle(case, io):
    if 'queries' not in io:
        return None
    for q, iq in zip(case['queries'], io['queries']):
        if iq['leftover'] and iq['end'] in ('done', 'cap'):
            return 'query variables still bound after the enumeration ended'
    return None

def describe(case):
    return {'program': source_of(case),
            'queries': [(ast_io.term_text(['fun', q[0], q[1]]) if q[1] else q[0]) for q in case['queries']]}

STRUCTURAL_META = ('neg_only', 'same_answers', 'relations', 'shape', 'estimated_blocks')

def _smaller(case, **kw):
    """a shrink candidate: the annotations that index into the clauses / queries of the ORIGINAL case (used by the intrinsic
    oracles of lib/progs_shapes.py and lib/progs_r4.py) do not describe the candidate any more and are dropped, and the origin is
    marked, so that a candidate counts as failing only through the model comparison and the structure-independent oracles; a
    case that fails through an annotation-based oracle alone is reported as it was generated"""
    c = {k: v for k, v in case.items() if k not in STRUCTURAL_META}
    c.update(kw)
    o = str(c.get('origin', 'gen'))
    if not o.endswith('+shrunk'):
        c['origin'] = o + '+shrunk'
    return c

def shrink(case):
    cl = case['clauses']
    if len(case['queries']) > 1:
        for i in range(len(case['queries'])):
            yield _smaller(case, queries=[case['queries'][i]])
    for i in range(len(cl)):
        yield _smaller(case, clauses=cl[:i] + cl[i + 1:])
    for i, (name, args, body) in enumerate(cl):
        if body[0] in ('and', 'or', 'if'):
            for sub in (body[1], body[2]):
                yield _smaller(case, clauses=cl[:i] + [[name, args, sub]] + cl[i + 1:])
        elif body[0] == 'not':
            yield _smaller(case, clauses=cl[:i] + [[name, args, body[1]]] + cl[i + 1:])

def stats(cases, obs):
    d = {'programs': len(cases), 'queries': 0, 'queries_where_findall_collected_inner_variables': 0, 'answers_hist': {'0': 0, '1': 0, '2-5': 0, '6+': 0}, 'nonground_answers': 0,
         'aliased_answers': 0, 'constructs': {}, 'ends': {}}
    for c, o in zip(cases, obs):
        cs = set()
        for _, _, b in c['clauses']:
            progs.constructs(b, cs)
        for x in cs:
            d['constructs'][x] = d['constructs'].get(x, 0) + 1
        if not isinstance(o, dict) or 'queries' not in o:
            if isinstance(o, dict) and 'too large for Python' in (o.get('msg') or ''):
                d['programs_rejected_as_too_large_for_python'] = d.get('programs_rejected_as_too_large_for_python', 0) + 1
            continue
        for iq in o['queries']:
            d['queries'] += 1
            if iq.get('findall_inner'):
                d['queries_where_findall_collected_inner_variables'] += 1
            if iq.get('findall_shared'):
                d['queries_where_two_findall_answers_share_an_inner_variable'] = d.get('queries_where_two_findall_answers_share_an_inner_variable', 0) + 1
            n = iq['count']
            k = '0' if n == 0 else '1' if n == 1 else '2-5' if n <= 5 else '6+'
            d['answers_hist'][k] += 1
            d['ends'][iq['end']] = d['ends'].get(iq['end'], 0) + 1
            for a in iq['answers']:
                vs = []
                for t in a:
                    vs += terms.term_vars(terms.obs_term(t), [])
                if vs:
                    d['nonground_answers'] += 1
                    if len(vs) != len(set(vs)) or len(a) > 1 and any(True for _ in [0]) and len(set(vs)) < sum(len(set(terms.term_vars(terms.obs_term(t), []))) for t in a):
                        d['aliased_answers'] += 1
    return d
