"""Source-level tie (notes/TIE.md): regenerate the Gallina definitions of compile_body / has_local_cut / localize_cuts from
$VERIF_REPO/src/yldprolog/yp_generator.py (lib/py2coq_body.py) and re-check the lemmas of coq/tie/CompileBodyTie.v.in against them.
Used by props c05/c06 through the hook `source_ties` of runner.proof_stage.  Returns (info, problems)."""
import os, re, subprocess, shutil, time, difflib
from . import coqrun, py2coq_body

LEMMAS = ['compile_expression_src_eq', 'compile_unification_src_eq', 'compile_arg_list_unification_src_eq', 'compile_arg_list_unification_src_model', 'tcut_src_eq', 'loc_src_eq', 'comp_src_eq', 'comp_src_eq_source', 'control_correct_src', 'comp_src_total']
TEMPLATE = os.path.join(coqrun.COQ, 'tie', 'CompileBodyTie.v.in')
EXPECTED = os.path.join(coqrun.COQ, 'tie', 'CompileBodySrc.expected.v')

def _diff(text):
    try:
        ref = open(EXPECTED, encoding='utf8').read()
    except OSError:
        return None
    d = list(difflib.unified_diff(ref.splitlines(), text.splitlines(), 'last good translation', 'translation of the source now', lineterm='', n=2))
    return '\n'.join(d[:120])

def check(pid='tie'):
    t0 = time.time()
    repo = os.environ.get('VERIF_REPO', '/repo')
    info = {'functions': {}, 'lemmas': LEMMAS, 'ok': False, 'obligations': len(LEMMAS), 'discharged': 0,
            'source': os.path.join(repo, 'src/yldprolog/yp_generator.py')}
    problems = []
    try:
        text, funs = py2coq_body.translate(repo)
    except py2coq_body.TieError as e:
        info['refused'] = str(e)
        problems.append(('source-tie', 'the translator refuses the source (function %s): %s' % (e.func or '?', e)))
        info['wall_s'] = round(time.time() - t0, 2)
        return info, problems
    except Exception as e:          # fail closed
        info['refused'] = repr(e)
        problems.append(('source-tie', 'the translator failed on the source: %r' % e))
        return info, problems
    info['functions'] = funs
    d = os.path.join(coqrun.VERIF, '.work', 'tie-%s-%d' % (pid, os.getpid()))
    os.makedirs(d, exist_ok=True)
    try:
        tpl = open(TEMPLATE, encoding='utf8').read()
        gate = coqrun.FORBIDDEN.findall(coqrun.strip_comments(text + tpl))
        f = os.path.join(d, 'CompileBodySrc.v')
        with open(f, 'w', encoding='utf8') as o:
            o.write(text + '\n' + tpl)
        r = subprocess.run(['timeout', '300', 'coqc', '-Q', os.path.join(coqrun.COQ, 'theories'), 'YP', f], cwd=d, capture_output=True, text=True)
        out = r.stdout + r.stderr
        printed = re.findall(r'^\s*Print Assumptions\s+([A-Za-z0-9_\']+)\s*\.', coqrun.strip_comments(tpl), re.M)
        closed = out.count('Closed under the global context')
        stated = re.findall(r'^\s*(?:Lemma|Corollary|Theorem)\s+([A-Za-z0-9_\']+)', coqrun.strip_comments(tpl), re.M)
        missing = [l for l in LEMMAS if l not in stated or l not in printed]
        if r.returncode == 0 and not gate and not missing and closed == len(printed) and 'Axioms:' not in out:
            info['ok'] = True
            info['discharged'] = len(LEMMAS)
        else:
            why = out.strip()[-1500:] if r.returncode != 0 else ('forbidden words %s / lemmas missing %s / assumptions not closed' % (gate, missing))
            m = re.search(r'\(in proof ([A-Za-z0-9_\']+)\)', out)
            lemma = m.group(1) if m else None
            ml = re.search(r'line (\d+), characters', out)
            if lemma is None and ml:       # the statement that contains the reported line
                upto = (text + '\n' + tpl).split('\n')[:int(ml.group(1))]
                names = re.findall(r'^\s*(?:Lemma|Corollary|Theorem|Example|Fixpoint|Definition)\s+([A-Za-z0-9_\']+)', '\n'.join(upto), re.M)
                lemma = names[-1] if names else None
            diff = _diff(text)
            info['coqc'] = why
            info['diff_against_last_good'] = diff
            problems.append(('source-tie', 'the definition generated from the source is no longer proved equal to the model (lemma %s; coq/tie/CompileBodyTie.v.in): %s%s'
                             % (lemma or '?', why, ('\n--- change of the generated definition ---\n' + diff) if diff else '')))
    finally:
        shutil.rmtree(d, ignore_errors=True)
    info['wall_s'] = round(time.time() - t0, 2)
    return info, problems
