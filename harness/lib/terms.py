import json
"""Terms as JSON-able Python values, their Gallina rendering, and conversion to and
from the implementation's objects.

JSON term:  ["a", name] atom | ["i", int] | ["s", text] python str constant |
            ["v", index] variable | ["f", name, [args...]] compound
Lists are ["f", ".", [head, tail]] chains ending in ["a", "[]"].
"""
import random

# ---------------------------------------------------------------- Gallina text

def g_str(s):
    """Gallina expression of type str (list N) for the Python string s."""
    out = []
    for ch in s:
        c = ord(ch)
        if 32 <= c <= 126 and ch not in '"\\':
            out.append(ch)
        else:
            out.append('\\%d;' % c)
    return '(d "%s")' % ''.join(out)

def g_Z(n):
    return '(%d)%%Z' % n

def g_nat(n):
    assert n >= 0
    return '%d%%nat' % n

def g_N(n):
    assert n >= 0
    return '%d%%N' % n

def g_bool(b):
    return 'true' if b else 'false'

def g_list(items):
    return '[' + '; '.join(items) + ']'

def g_option(x):
    return 'None' if x is None else '(Some %s)' % x

def g_pair(a, b):
    return '(%s, %s)' % (a, b)

def g_term(t):
    k = t[0]
    if k == 'a':
        return '(TAtom %s)' % g_str(t[1])
    if k == 'i':
        return '(TInt %s)' % g_Z(t[1])
    if k == 's':
        return '(TStr %s)' % g_str(t[1])
    if k == 'v':
        return '(TVar %s)' % g_nat(t[1])
    if k == 'f':
        return '(TFun %s %s)' % (g_str(t[1]), g_list([g_term(a) for a in t[2]]))
    raise ValueError(t)

# ---------------------------------------------------------------- observations

def parse_obs(s):
    """Parse the text printed by Base.Str.show into nested Python lists / str / int."""
    pos = 0
    n = len(s)
    def parse():
        nonlocal pos
        c = s[pos]
        if c == '(':
            pos += 1
            items = []
            while True:
                if s[pos] == ')':
                    pos += 1
                    return items
                if s[pos] == ' ':
                    pos += 1
                    continue
                items.append(parse())
        if c == '{':
            pos += 1
            out = []
            while True:
                j = pos
                while s[j] != '}' and s[j] != '\\':
                    j += 1
                out.append(s[pos:j])
                if s[j] == '}':
                    pos = j + 1
                    return ''.join(out)
                k = s.index(';', j)
                out.append(chr(int(s[j + 1:k])))
                pos = k + 1
        j = pos
        if s[j] == '-':
            j += 1
        while j < n and s[j].isdigit():
            j += 1
        v = int(s[pos:j])
        pos = j
        return v
    r = parse()
    assert pos == n, (s, pos)
    return r

def term_obs(t):
    """The observation (nested lists) of a JSON term; mirrors Term/Show.v term_obs."""
    k = t[0]
    if k == 'a':
        return [0, t[1]]
    if k == 'i':
        return [1, t[1]]
    if k == 's':
        return [2, t[1]]
    if k == 'v':
        return [3, t[1]]
    if k == 'f':
        return [4, t[1], [term_obs(a) for a in t[2]]]
    raise ValueError(t)

def obs_term(o):
    k = o[0]
    if k == 0:
        return ['a', o[1]]
    if k == 1:
        return ['i', o[1]]
    if k == 2:
        return ['s', o[1]]
    if k == 3:
        return ['v', o[1]]
    return ['f', o[1], [obs_term(a) for a in o[2]]]

# ---------------------------------------------------------------- helpers on JSON terms

NIL = ['a', '[]']

def mklist(items, tail=None):
    r = tail if tail is not None else NIL
    for x in reversed(items):
        r = ['f', '.', [x, r]]
    return r

def term_vars(t, acc=None):
    if acc is None:
        acc = []
    if t[0] == 'v':
        if t[1] not in acc:
            acc.append(t[1])
    elif t[0] == 'f':
        for a in t[2]:
            term_vars(a, acc)
    return acc

def term_size(t):
    if t[0] == 'f':
        return 1 + sum(term_size(a) for a in t[2])
    return 1

def term_depth(t):
    if t[0] == 'f':
        return 1 + max([term_depth(a) for a in t[2]] or [0])
    return 1

def show_term(t):
    """Prolog-ish text of a JSON term, for reports."""
    k = t[0]
    if k == 'a':
        return t[1]
    if k == 'i':
        return str(t[1])
    if k == 's':
        return repr(t[1])
    if k == 'v':
        return '_G%d' % t[1]
    return '%s(%s)' % (t[1], ','.join(show_term(a) for a in t[2]))

def rename_canonical(terms):
    """Rename variables to 0,1,2.. by first occurrence across the list of terms."""
    m = {}
    def go(t):
        if t[0] == 'v':
            if t[1] not in m:
                m[t[1]] = len(m)
            return ['v', m[t[1]]]
        if t[0] == 'f':
            return ['f', t[1], [go(a) for a in t[2]]]
        return t
    return [go(t) for t in terms]

# ---------------------------------------------------------------- implementation objects

class ImplTerms:
    """Builds engine objects for JSON terms and reads them back.  Variables are
    engine Variable objects identified by index."""
    def __init__(self, engines, nvars=0):
        from yldprolog import engine as E
        self.E = E
        self.engines = engines if isinstance(engines, (list, tuple)) else [engines]
        self.vars = []
        self.ids = {}
        self.reuse = False       # when set, a compound term that is built again is THE SAME engine object (a caller that holds
        self.cache = {}          # one term object and passes it to several API calls while bindings come and go)
        for _ in range(nvars):
            self.new_var()
    def new_var(self):
        v = self.engines[0].variable()
        self.ids[id(v)] = len(self.vars)
        self.vars.append(v)
        return v
    def var(self, i):
        while len(self.vars) <= i:
            self.new_var()
        return self.vars[i]
    def build(self, t, eng=0):
        k = t[0]
        yp = self.engines[eng % len(self.engines)]
        if k == 'a':
            e = t[2] if len(t) > 2 else eng
            return self.engines[e % len(self.engines)].atom(t[1])
        if k in ('i', 's'):
            return t[1]
        if k == 'v':
            return self.var(t[1])
        if k == 'f':
            if self.reuse:
                key = json.dumps([t, eng % len(self.engines)])
                if key not in self.cache:
                    self.cache[key] = yp.functor(t[1], [self.build(a, eng) for a in t[2]])
                return self.cache[key]
            return yp.functor(t[1], [self.build(a, eng) for a in t[2]])
        raise ValueError(t)
    def read(self, obj, resolve=True, depth=0):
        """JSON term for an engine object, following bindings (independently of the
        engine's own get_value) when resolve is set.  Unknown variables get new indices."""
        E = self.E
        if depth > 400:
            raise RecursionError('term too deep (cyclic?)')
        if isinstance(obj, E.Variable):
            if resolve and obj._is_bound:
                return self.read(obj._value, resolve, depth + 1)
            i = self.ids.get(id(obj))
            if i is None or self.vars[i] is not obj:
                i = len(self.vars)
                self.ids[id(obj)] = i
                self.vars.append(obj)
            return ['v', i]
        if isinstance(obj, E.Atom):
            return ['a', obj._name]
        if isinstance(obj, E.Functor):
            return ['f', obj._name, [self.read(a, resolve, depth + 1) for a in obj._args]]
        if isinstance(obj, bool):
            return ['x', repr(obj)]
        if isinstance(obj, int):
            return ['i', obj]
        if isinstance(obj, str):
            return ['s', obj]
        return ['x', repr(type(obj))]
    def bound_state(self):
        return [bool(v._is_bound) for v in self.vars]

# ---------------------------------------------------------------- random terms

ATOMS = ['a', 'b', 'c', '[]']
FUNCTORS = [('f', 1), ('g', 2), ('h', 3), ('f', 2), ('.', 2), ('k', 0)]

def rand_term(rng, nvars, depth, pvar=0.3, consts=True):
    r = rng.random()
    if depth <= 0 or r < 0.25:
        q = rng.random()
        if nvars > 0 and q < pvar + 0.2:
            return ['v', rng.randrange(nvars)]
        if consts and q > 0.9:
            return ['i', rng.choice([0, 1, 2, -3, 10**12])]
        if consts and q > 0.85:
            return ['s', rng.choice(['', 'a', 'x y', '[]'])]
        return ['a', rng.choice(ATOMS)]
    if nvars > 0 and r < 0.25 + pvar * 0.6:
        return ['v', rng.randrange(nvars)]
    if r > 0.88:
        n = rng.randrange(0, 4)
        items = [rand_term(rng, nvars, depth - 1, pvar, consts) for _ in range(n)]
        tail = None
        if nvars > 0 and rng.random() < 0.35:
            tail = ['v', rng.randrange(nvars)]
        return mklist(items, tail)
    f, n = rng.choice(FUNCTORS)
    return ['f', f, [rand_term(rng, nvars, depth - 1, pvar, consts) for _ in range(n)]]

def mutate_term(rng, t, nvars, depth=2):
    """A term that is close to t: same skeleton with a few positions replaced."""
    if rng.random() < 0.18:
        return rand_term(rng, nvars, depth)
    if t[0] == 'f':
        args = [mutate_term(rng, a, nvars, depth - 1) for a in t[2]]
        q = rng.random()
        if q < 0.04 and args:
            args = args[:-1]
        elif q < 0.08:
            args = args + [rand_term(rng, nvars, 1)]
        name = t[1]
        if rng.random() < 0.04:
            name = rng.choice(['f', 'g', 'h'])
        return ['f', name, args]
    if rng.random() < 0.3 and nvars > 0:
        return ['v', rng.randrange(nvars)]
    return t
