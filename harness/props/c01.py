"""C01 - compiled clauses compute exactly Prolog's answers, in order."""
from lib import semcheck, progs, progs_r4, progs_r5
from lib.semcheck import impl, model_expr, compare, oracle, describe, shrink, IMPORTS

ID = 'C01'
THEOREMS = ['C01_compile_program_total', 'C01_compiled_program_computes_reference', 'C01_compiled_program_is_sld', 'C01_source_text_is_sld', 'C01_front_good', 'C01_naming_equals_renaming_apart', 'C01_body_code_correct', 'C01_fresh_head_variable', 'C01_activations_use_fresh_cells', 'C01_distinct_variables_distinct_cells', 'C01_anon_numbered', 'C01_anon_name_injective', 'C01_anon_name_not_a_source_variable', 'C01_call_never_cuts',
            'C01_numeral_value_any_spelling', 'C01_numeral_eq_any_spelling', 'C01_numeral_neq_any_spelling']
CASE_TIMEOUT = 60
MODEL_NEEDS_IMPL = True
COQ_CHUNK = 20
RULE = ('random programs of facts and rules (2-5 predicates of arity 0-3 with 1-4 clauses, leaf fact predicates with 0-3 solutions that bind '
        'a distinct atom, list-recursion templates mem/app/len; heads with repeated, nested and anonymous variables, lists and [H|T] patterns; '
        'bodies: conjunctions of calls, =, \\=, true, fail) x 2-8 queries with unbound / partially bound / aliased arguments. Compared: the '
        'first 150 canonical answers (resolved query variables, unbound variables renamed by first occurrence over the whole answer tuple, which '
        'records aliasing), the number of answers and how the enumeration ended, between the implementation, the Coq model of the compiled '
        'code (IR semantics) and the Coq SLD reference semantics. Generator modes added in round 3: "role churn" (all clauses of a predicate use the '
        'same variable name per argument position in changing roles: plain argument / nested / repeated / body-only / absent; 3-5 clauses); '
        '"adversarial identifiers" (40% of the programs: variables renamed per clause or per program into names that look like compiler-invented '
        'ones - _<N>, _G<N>, _x<N>, X<N>, V_<N>, V_X, Arg<N>, L<N>, CutIf<N>, case/underscore variants of each other - with N taken from the '
        'index of the clause\'s own `_` in the text or clause (0/1-based), argument positions and small numbers; constants replaced by `_`; '
        'predicates and atoms renamed to x1, arg1, l1, doBreak, cutIf1, p_1, p0_n, def, pass, ...); "anonymous-variable programs" (facts with '
        'pairwise different / equal arguments, rules full of `_` next to 1-3 named variables with adversarial names: an answer exists only if '
        'every `_` is a variable of its own). Non-trivial: some query has >= 1 answer and the program has a rule with a body '
        'goal or a repeated/nested head variable.')
TRUSTED_BASE = []

def source_ties():
    """source-level tie of the compiler functions (notes/TIE.md): compile_expression, compile_unification, the reverse loop of
    compile_arg_list_unification, compile_body / has_local_cut / localize_cuts"""
    from lib import srctie
    return srctie.check(ID)

def gen(rng, tier):
    n = 220 if tier == 'quick' else 5000
    cases = []
    for _ in range(n):
        o = progs.Opts(open_leaves=0.5 if rng.random() < 0.3 else 0.0, control=False, cut=False, builtins=False, deep=rng.random() < 0.1,
                       churn=rng.choice([0.0, 0.0, 0.3, 0.6]))
        p = progs.gen_program(rng, o)
        adv = rng.random() < 0.4
        if adv:
            # identifiers that look like the names the compiler invents (x<N>, V_<name>, arg<i>, l<k>, cutIf<k>, <name>_<arity>) or like
            # what another mangling scheme would invent (_<N>, _G<N>, ...), mixed with several `_` in the same clause
            p = progs.adversarial_program(rng, p)
        cases.append({'clauses': p['clauses'], 'queries': p['queries'], 'adversarial': adv})
    for _ in range(n // 4):
        p = progs.gen_alias_program(rng)
        adv = rng.random() < 0.3
        if adv:
            p = progs.adversarial_program(rng, p)
        cases.append({'clauses': p['clauses'], 'queries': p['queries'], 'adversarial': adv})
    for _ in range(n // 4):
        # "every `_` is a distinct variable": clauses full of `_` next to named variables with adversarial names
        p = progs.gen_anon_program(rng)
        cases.append({'clauses': p['clauses'], 'queries': p['queries'], 'anon': True})
    # round 4: numerals in every spelling the grammar allows (leading zeros, 0, 00, large) wherever a term may stand, and = / \\= goals
    # between two constants / two ground terms (same value in two spellings, different values, atom against numeral, compound terms)
    for _ in range(n // 4):
        o = progs.Opts(open_leaves=0.0, control=False, cut=False, builtins=False, numerals=rng.choice([0.15, 0.3, 0.5]), constcmp=rng.choice([0.1, 0.25, 0.4]))
        p = progs.gen_program(rng, o)
        cases.append({'clauses': p['clauses'], 'queries': p['queries'], 'shape': 'numerals'})
    for _ in range(n // 5):
        cases.append(progs_r4.gen_const_program(rng))
    # round 6: groups of atoms whose names collide under a plausible mangling ('x y' / x_20y / x_y / xy ...), as constants, functor names,
    # list elements and clause-head arguments, in positions where confusing two of them changes the answers (lib/progs_r5.py)
    for _ in range(n // 5):
        cases.append(progs_r5.gen_mangled_atom_program(rng))
    return cases

def builtin_corpus():
    from lib.progs import V, A, F
    L = []
    def prog(clauses, queries): L.append({'clauses': clauses, 'queries': queries})
    mem = progs.REC_TEMPLATES[0][2]; app = progs.REC_TEMPLATES[1][2]
    prog(mem, [['mem', [V('Q0'), ['list', [A('a'), A('b'), A('c')]]]], ['mem', [A('b'), ['list', [A('a'), V('Q0'), A('b')]]]]])
    prog(app, [['app', [V('Q0'), V('Q1'), ['list', [A('a'), A('b')]]]]])
    prog([['p', [V('X'), F('f', V('X'), V('Y')), V('Y')], ['true']]], [['p', [V('Q0'), V('Q1'), V('Q2')]], ['p', [A('a'), V('Q0'), V('Q1')]], ['p', [V('Q0'), F('f', A('b'), V('Q0')), V('Q1')]]])
    prog([['p', [], ['and', ['call', 'q', []], ['fail']]], ['q', [], ['true']]], [['p', []]])
    prog([['p', [], ['fail']]], [['p', []]])
    prog([['p', [V('_'), V('_')], ['true']]], [['p', [V('Q0'), V('Q1')]], ['p', [A('a'), A('b')]]])
    prog([['p', [V('X'), V('X')], ['true']]], [['p', [V('Q0'), V('Q1')]], ['p', [A('a'), A('b')]], ['p', [F('f', V('Q0')), F('f', A('a'))]]])
    # the same variable name is clause-local, then a head argument, then local again (fresh per clause and activation)
    prog([['r', [A('k'), V('Y')], ['call', '=', [V('X'), V('Y')]]], ['r', [V('X'), A('second')], ['true']], ['r', [A('k'), V('Y')], ['and', ['call', 'q', [V('X')]], ['call', '=', [V('Y'), V('X')]]]],
          ['q', [A('a')], ['true']], ['q', [A('b')], ['true']]], [['r', [A('k'), V('Q0')]], ['r', [V('Q0'), V('Q1')]]])
    # aliasing of two unbound variables, then enumeration
    prog([['p', [V('X')], ['and', ['call', '=', [V('X'), V('Y')]], ['call', 'q', [V('Y')]]]], ['q', [A('a')], ['true']], ['q', [A('b')], ['true']]], [['p', [V('Q0')]]])
    prog([['l', [V('X'), V('Y')], ['and', ['call', 's', [V('X'), V('Y')]], ['and', ['call', 'm', [V('Y')]], ['call', '=', [V('X'), A('c')]]]]],
          ['s', [V('X'), V('X')], ['true']], ['m', [A('a')], ['true']], ['m', [A('b')], ['true']], ['m', [A('c')], ['true']]], [['l', [V('Q0'), V('Q1')]]])
    # `_` next to named variables that look like names a compiler could invent for `_` (every `_` is a variable of its own)
    d = [['d', [A('a'), A('b')], ['true']], ['d', [A('b'), A('c')], ['true']]]
    call = lambda f, *a: ['call', f, list(a)]
    prog(d + [['r', [V('_'), V('_1'), V('_2'), V('_')], call('d', V('_1'), V('_2'))],
              ['s', [V('_0'), V('_')], ['and', call('d', V('_'), V('_0')), call('d', V('_3'), V('_'))]],
              ['t', [V('X1'), V('_'), V('_x1'), V('_G1')], ['and', call('d', V('X1'), V('_')), ['and', call('d', V('_x1'), V('_G1')), call('d', V('_'), V('_7'))]]],
              ['u', [V('V_x1'), V('_'), V('Arg1')], ['and', call('d', V('_'), V('V_x1')), call('=', V('Arg1'), F('f', V('_'), V('__'), V('_')))]]],
         [['r', [V('Q0'), V('Q1'), V('Q2'), V('Q3')]], ['r', [A('c'), V('Q0'), V('Q1'), A('a')]], ['s', [V('Q0'), V('Q1')]], ['s', [A('c'), A('a')]],
          ['t', [V('Q0'), V('Q1'), V('Q2'), V('Q3')]], ['t', [A('a'), A('c'), A('b'), V('Q0')]], ['u', [V('Q0'), V('Q1'), V('Q2')]], ['u', [A('c'), A('a'), F('f', A('a'), A('b'), A('c'))]]])
    # the same variable name per argument position in changing roles over the clauses of one predicate
    prog([['e', [V('X'), A('plain')], call('d', V('X'), V('_'))], ['e', [F('f', V('X')), A('nested')], call('d', V('X'), V('_'))],
          ['e', [V('X'), V('X')], ['true']], ['e', [V('X'), A('again')], call('d', V('_'), V('X'))], ['e', [V('Y'), A('other')], call('d', V('X'), V('Y'))]] + d,
         [['e', [V('Q0'), V('Q1')]], ['e', [A('b'), V('Q0')]], ['e', [V('Q0'), A('again')]], ['e', [F('f', V('Q0')), V('Q1')]]])
    # round 4: comparisons of constants (a numeral denotes its value however it is spelled)
    num = lambda s: ['num', s]
    prog([['cmp', [A('eq')], call('=', num('01'), num('1'))], ['cmp', [A('neq')], call('\\=', num('01'), num('1'))],
          ['cmp', [A('atoms')], call('=', A('a'), A('a'))], ['cmp', [A('mixed')], call('\\=', A('a'), num('0'))],
          ['cmp', [A('deep')], call('=', F('f', num('000'), ['list', [num('10')]]), F('f', num('0'), ['list', [num('0010')]]))],
          ['n', [num('0042')], ['true']], ['n', [num('42')], ['true']]],
         [['cmp', [V('Q0')]], ['n', [V('Q0')]], ['n', [num('042')]]])
    return L

def nontrivial(case, io):
    if not isinstance(io, dict) or 'queries' not in io:
        return False
    if not any(q['count'] >= 1 for q in io['queries']):
        return False
    for name, args, body in case['clauses']:
        if body != ['true'] and body != ['fail']:
            return True
    return False

def distribution(cases, obs):
    return semcheck.stats(cases, obs)
