"""C02 - unification computes a most general unifier, or fails.

Two families of cases:
 kind 'pair' (default): one pair of terms unified under a stack of 0-4 earlier, still suspended unifications; every
               generator is created and started in the same step.
 kind 'sched': "creation and start are different moments".  Several unify generators over shared variables; the call
               unify(a, b) (which dereferences and dispatches), the first next (which runs the body: Variable.unify
               dereferences again, unify_arrays dereferences its elements), later nexts, close() and dropping the object
               are SEPARATE events, other generators being created / started / exhausted / closed in between.  The
               started generators form a stack (LIFO, as nested generators do); creation happens at any time.
               After EVERY event: did it yield, which variables are bound, what every variable dereferences to
               (read with a cycle-safe walk over _is_bound/_value) - compared with the generator model
               (Unify/UnifyGen.v through Unify/RunUnifySched.v) and, independently of the model, with a
               reference unifier written here (oracle): the bindings must be a most general unifier of the
               equations of the ACTIVE unifications (a variant of the reference's mgu), acyclic, and bind exactly
               as many variables as the mgu does.
"""
import random
from lib import terms, pyconsts
from lib.pyconsts import to_model
from props import c02_sched as S
from lib.terms import g_term, g_list, g_pair, g_nat

ID = 'C02'
IMPORTS = ['Unify.Unify', 'Unify.RunUnify', 'Unify.RunUnifySched', 'Unify.SchedSpec']
THEOREMS = ['C02_unify_constant_recoding', 'C02_unify_sound', 'C02_unify_complete_mgu', 'C02_unify_most_general', 'C02_unify_fail_no_unifier', 'C02_unify_sym_ok', 'C02_unify_sym_fail', 'C02_unify_functor_arity', 'C02_unify_fuel_irrelevant', 'C02_unify_equivariant', 'C02_unify_increment', 'C02_unify_yields_at_most_once', 'C02_generator_is_unify',
            'C02_late_start_is_unify', 'C02_late_start_mgu', 'C02_late_start_fail', 'C02_late_start_snapshot_mgu', 'C02_late_start_snapshot_fail',
            'C02_late_start_sym', 'C02_late_drive_restores', 'C02_stack_mgu', 'C02_stack_fail_no_unifier', 'C02_run_events_is_generator_model',
            'C02_sched_refines', 'C02_srun_mgu', 'C02_run_events_spec']
RULE = ('ALL 576 pairs of terms of depth <= 2 over {a, b, X0, X1, f/1, g/2} exhaustively (thorough tier: also under 3 active bindings), plus '
        'random pairs of terms (depth <= 4, atoms/ints/strs/variables/compound/lists/partial lists; the second '
        'term is with probability 1/2 a mutation of the first so that most pairs nearly unify) under a stack of 0-4 '
        'earlier unifications that are still suspended; atoms come from two engine instances; each pair is also run '
        'swapped. Non-trivial: both sides compound or a variable chain of length >= 2 is involved, and the two sides '
        'share a variable or a stacked binding is dereferenced. '
        'Round 4: 30% of the random pairs and schedules carry constants that only the Python API can produce (pool of 74 values in clusters of easily confused ones: equal across '
        'types, nearly equal, spelled alike, all empty), 300 pairs of such constants meeting in 14 shapes (directly, under a repeated variable, through active bindings / aliases, in lists), '
        'and EVERY pair inside each cluster; expected outcome also from a reference unifier with == on the real values. '
        "kind 'sched' (creation and start are different moments): schedules of 2-5 unify generators over 2-5 shared variables "
        '(variable-variable, variable-constant, variable-compound and compound-compound pairs), events create / next / close / drop, '
        'started generators LIFO, creation at any time, plus ALL schedules "create g0, create g1, start them in either order" over a '
        'fixed set of 10 small pairs on {X, Y} (thorough tier: all triples and orders). Non-trivial: some generator is started when the '
        'bindings differ from those at its creation and it yields. Distinct by hash of the case. Round 5 (style held / reuse): schedules in which the '
        'caller HOLDS its term objects - every compound (sub)term of the case is built once and the same engine object is handed to unify() again '
        'and again, in rounds in which the variables inside it are bound to constants / small terms / each other, the held terms are unified with '
        'each other, with nearly ground look-alikes and with variables, and the bindings are taken down again (LIFO); the random schedules once '
        'more with terms built once.')
TRUSTED_BASE = [
    'Coq 8.16.1 kernel (coqc); vm_compute for the in-Coq evaluation of the model on every case; no native_compute',
    'no axioms: all C02 theorems are closed under the global context',
    'hand-written model Unify/Unify.v of engine.py unify/unify_arrays/Variable.unify/Atom.unify/Functor.unify; tied to /repo by this differential run (not by translation)',
    'harness: generators, driver of the implementation (harness/props/c02.py), parser of the printed observations',
    'modelled, not verified: CPython generator protocol (the call unify(..) = UnifyGen.mk_unify, __next__ = UnifyGen.next, close()/drop = UnifyGen.close)',
    "reference unifier of the intrinsic oracle (harness/props/c02.py: _ref_unify, textbook algorithm with occurs check on JSON terms)",
]
ASSUMPTIONS = ['cases whose solution needs a cyclic term (model result UCyc) are unspecified by the property: only required not to hang',
               'Python constants: the engine compares two constants with ==; on the generated pool (None, bools, ints, floats, Fraction, Decimal, complex, bytes, tuples, lists, strs; '
               'harness/lib/pyconsts.py) == is an equivalence except for NaN, and the model gets the ==-class of a constant as an opaque value; NaN (not equal to itself) is judged by '
               'the reference unifier of the oracle alone']
CASE_TIMEOUT = 10

def gen(rng, tier):
    n = 1200 if tier == 'quick' else 20000
    cases = []
    for _ in range(n):
        nv = rng.choice([2, 3, 4, 5, 6])
        depth = rng.choice([1, 2, 3, 3, 4])
        stack = []
        for _ in range(rng.choice([0, 0, 1, 1, 2, 3, 4])):
            a = terms.rand_term(rng, nv, 2, pvar=0.45)
            b = terms.mutate_term(rng, a, nv) if rng.random() < 0.6 else terms.rand_term(rng, nv, 2, pvar=0.45)
            if rng.random() < 0.5:
                a = ['v', rng.randrange(nv)]
            stack.append([a, b])
        t1 = terms.rand_term(rng, nv, depth, pvar=0.35)
        if rng.random() < 0.55:
            t2 = terms.mutate_term(rng, t1, nv)
        else:
            t2 = terms.rand_term(rng, nv, depth, pvar=0.35)
        if rng.random() < 0.5:
            t1, t2 = t2, t1
        if rng.random() < 0.3:
            # round 4: constants that only the Python API can produce (lib/pyconsts.py), a few per case and mostly from one
            # cluster of easily confused values, in place of atom / int / str leaves of both terms and of the stack
            pal = pyconsts.palette(rng)
            p = rng.choice([0.3, 0.6, 0.9])
            stack = [[pyconsts.sprinkle(rng, a, pal, p), pyconsts.sprinkle(rng, b, pal, p)] for a, b in stack]
            t1 = pyconsts.sprinkle(rng, t1, pal, p)
            t2 = pyconsts.sprinkle(rng, t2, pal, p)
        cases.append({'stack': stack, 't1': t1, 't2': t2, 'nvars': nv, 'engsalt': rng.randrange(4)})
    cases.extend(const_shape(rng) for _ in range(300 if tier == 'quick' else 3000))
    cases.extend(const_pairs(tier))
    cases.extend(exhaustive_pairs(tier))
    cases.extend(S.gen_case(rng) for _ in range(900 if tier == 'quick' else 10000))
    cases.extend(S.exhaustive(tier))
    # round 5: term objects held by the caller and unified again and again while the bindings of their variables come and go
    cases.extend(S.gen_held_case(rng) for _ in range(400 if tier == 'quick' else 5000))
    # ... and the random schedules once more with every compound term of a case built only once
    for c in [S.gen_case(rng) for _ in range(200 if tier == 'quick' else 2500)]:
        c['reuse'] = True
        cases.append(c)
    return cases

def _shape(k, c1, c2, c3, rng=None):
    """(stack, t1, t2, nvars): the ways two constants c1, c2 meet in a unification"""
    v = lambda i: ['v', i]
    f = lambda n, *xs: ['f', n, list(xs)]
    a = ['a', 'a']
    if k == 0:
        return [], c1, c2, 1                                              # directly
    if k == 1:
        return [[v(0), c1]], v(0), c2, 1                                  # through an active binding
    if k == 2:
        return [], f('f', v(0), v(0)), f('f', c1, c2), 1                  # a variable that occurs twice
    if k == 3:
        return [], f('p', v(0), c2), f('p', c1, v(0)), 1
    if k == 4:
        return [], f('h', v(0), v(1), v(1)), f('h', c1, v(0), c2), 2      # through an alias
    if k == 5:
        return [], terms.mklist([c3, c1, v(0)]), terms.mklist([c3, c2, v(0)]), 1
    if k == 6:
        return [], terms.mklist([c1], v(0)), terms.mklist([v(1), c3, c2]), 2
    if k == 7:
        return [[v(0), v(1)], [v(1), c1]], f('f', v(0), v(2)), f('f', c2, c3), 3   # chain of active bindings
    if k == 8:
        return [[v(0), c1]], f('g', v(0), v(1)), f('g', v(1), c2), 2
    if k == 9:
        return [[v(0), c1], [v(1), c2]], v(0), v(1), 2                     # two bound variables
    if k == 10:
        return [[v(0), c1]], f('g', v(0), v(0)), f('g', v(0), v(1)), 2     # a bound variable against itself
    if k == 11:
        return [], f('f', c1, a), f('f', c2, a), 0
    if k == 12:
        return [[v(0), f('f', c1)]], v(0), f('f', c2), 1
    return [[v(0), c1]], terms.mklist([v(0), v(1)]), terms.mklist([v(1), c2]), 2
N_SHAPES = 14

def const_shape(rng):
    """two (three) constants, mostly of one cluster of easily confused values - or a constant and the atom / int / str
    that looks like it -, meeting in one of the shapes above"""
    pal = pyconsts.palette(rng)
    c1, c2, c3 = (list(rng.choice(pal)) for _ in range(3))
    q = rng.random()
    if q < 0.15:
        c2 = list(c1)
    elif q < 0.25:
        m = pyconsts.to_model(c1)
        if not (m[0] == 's' and m[1].startswith('\x00')):
            c2 = m                                          # the plain int / str of the same class, if it has one
    elif q < 0.32:
        c2 = ['a', rng.choice(['a', '[]', 'b'])]
    st, t1, t2, nv = _shape(rng.randrange(N_SHAPES), c1, c2, c3)
    if rng.random() < 0.5:
        t1, t2 = t2, t1
    if rng.random() < 0.3:
        st = [[b, a] for a, b in st]
    return {'stack': st, 't1': t1, 't2': t2, 'nvars': max(nv, 1), 'engsalt': rng.randrange(4), 'origin': 'const-shape'}

def const_pairs(tier):
    """EVERY unordered pair of constants inside each cluster of lib/pyconsts.py (values that are equal across types, nearly
    equal, spelled alike, or all 'empty'), each in one of the four basic shapes in turn (thorough tier: in all four, and
    all pairs of the whole pool directly)"""
    out = []
    n = 0
    for idx in pyconsts.CLUSTER_IDX:
        for x in range(len(idx)):
            for y in range(x, len(idx)):
                for k in ([n % 4] if tier == 'quick' else [0, 1, 2, 3]):
                    st, t1, t2, nv = _shape(k, ['c', idx[x]], ['c', idx[y]], ['i', 1])
                    out.append({'stack': st, 't1': t1, 't2': t2, 'nvars': max(nv, 1), 'engsalt': 0, 'origin': 'const-pairs'})
                n += 1
    if tier != 'quick':
        for x in range(len(pyconsts.POOL)):
            for y in range(x + 1, len(pyconsts.POOL)):
                if pyconsts.CLUSTER_OF[x] != pyconsts.CLUSTER_OF[y]:
                    out.append({'stack': [], 't1': ['c', x], 't2': ['c', y], 'nvars': 1, 'engsalt': 0, 'origin': 'const-pairs'})
    return out

def exhaustive_pairs(tier):
    """ALL pairs of terms of depth <= 2 over {a, b, X0, X1, f/1, g/2} (24 terms, 576 pairs), started from no active
    binding and - thorough tier - also under each of the active bindings X0 = X1, X0 = a, X1 = f(X0)"""
    leaves = [['a', 'a'], ['a', 'b'], ['v', 0], ['v', 1]]
    ts = list(leaves) + [['f', 'f', [x]] for x in leaves] + [['f', 'g', [x, y]] for x in leaves for y in leaves]
    stacks = [[]] if tier == 'quick' else [[], [[['v', 0], ['v', 1]]], [[['v', 0], ['a', 'a']]], [[['v', 1], ['f', 'f', [['v', 0]]]]]]
    out = []
    for st in stacks:
        for t1 in ts:
            for t2 in ts:
                out.append({'stack': st, 't1': t1, 't2': t2, 'nvars': 2, 'engsalt': 0, 'origin': 'exhaustive'})
    return out

def builtin_corpus():
    a, b = ['a', 'a'], ['a', 'b']
    v = lambda i: ['v', i]
    f = lambda n, *xs: ['f', n, list(xs)]
    L = []
    def c(t1, t2, nv, stack=()):
        L.append({'stack': [list(p) for p in stack], 't1': t1, 't2': t2, 'nvars': nv, 'engsalt': 1})
    c(f('p', v(0), f('f', v(1)), v(0)), f('p', f('g', v(2)), f('f', a), v(3)), 4)
    c(a, ['f', 'a', []], 1)                 # atom vs 0-ary compound
    c(f('f', a), f('f', a, b), 1)           # arity
    c(f('f', a), f('g', a), 1)              # name
    c(v(0), v(0), 1)                        # self unification
    c(v(0), v(1), 2, [(v(1), v(0))])        # alias loop: X=Y under Y=X
    c(v(0), v(1), 3, [(v(0), v(2)), (v(1), v(2))])
    c(f('f', v(0), v(0)), f('f', a, b), 1)
    c(f('f', v(0), v(1)), f('f', v(1), a), 2)
    c(['i', 1], ['i', 1], 1); c(['i', 1], ['i', 2], 1); c(['s', 'a'], a, 1); c(['s', 'a'], ['s', 'a'], 1)
    c(['i', 1], v(0), 1); c(v(0), ['s', ''], 1)
    c(terms.mklist([v(0), b]), terms.mklist([a], v(1)), 2)
    c(v(0), f('f', v(1)), 3, [(v(1), v(2))])   # binding value is dereferenced
    c(v(0), b, 3, [(v(0), v(1))])              # X=Y active, then X=b
    return L + S.corpus()

def model_expr(case):
    if case.get('kind') == 'sched':
        return S.model_expr(case)
    if _has_nan(case):
        return None          # NaN is not equal to itself: no model with an equality on constants fits; judged by the oracle
    stk = g_list([g_pair(g_term(to_model(a)), g_term(to_model(b))) for a, b in case['stack']])
    return '(run_unify 200 %s %s %s %s)' % (stk, g_term(to_model(case['t1'])), g_term(to_model(case['t2'])), g_nat(case['nvars']))

def _has_nan(case):
    return any(pyconsts.has_nan(t) for p in case['stack'] for t in p) or pyconsts.has_nan(case['t1']) or pyconsts.has_nan(case['t2'])

def _has_const(case):
    return any(pyconsts.has_const(t) for p in case['stack'] for t in p) or pyconsts.has_const(case['t1']) or pyconsts.has_const(case['t2'])

def _salted(t, salt, pos=[0]):
    """atoms come from alternating engine instances"""
    if t[0] == 'a':
        pos[0] += 1
        return ['a', t[1], (pos[0] * (salt + 1)) % 2 if salt else 0]
    if t[0] == 'f':
        return ['f', t[1], [_salted(x, salt, pos) for x in t[2]]]
    return t

def _drive(case, swap):
    from yldprolog import engine as E
    engines = [E.YP(), E.YP()]
    T = pyconsts.make_impl_terms(engines, case['nvars'])
    held = []
    for a, b in case['stack']:
        g = iter(E.unify(T.build(_salted(a, case['engsalt'])), T.build(_salted(b, case['engsalt']))))
        try:
            next(g)
        except StopIteration:
            return ['stack']
        held.append(g)
    before = [T.read(v) for v in T.vars[:case['nvars']]]
    o1 = T.build(_salted(case['t1'], case['engsalt']))
    o2 = T.build(_salted(case['t2'], case['engsalt']))
    if swap:
        o1, o2 = o2, o1
    g = iter(E.unify(o1, o2))
    yields = 0
    res = None
    try:
        next(g)
        yields = 1
        r1 = T.read(o1); r2 = T.read(o2)
        if swap:
            r1, r2 = r2, r1
        vs = [T.read(v) for v in T.vars[:case['nvars']]]
        # the engine's own deep dereference must agree with the bindings
        gv1 = T.read(E.get_value(o1), resolve=False); gv2 = T.read(E.get_value(o2), resolve=False)
        if swap:
            gv1, gv2 = gv2, gv1
        res = ['ok', terms.term_obs(r1), terms.term_obs(r2), [terms.term_obs(x) for x in vs]]
        gvs = [T.read(E.get_value(v), resolve=False) for v in T.vars[:case['nvars']]]
        flags = T.bound_state()[:case['nvars']]
        extra = {'gv1': gv1 == r1, 'gv2': gv2 == r2, 'gvv': gvs == vs,
                 'flags': all(f == (x != ['v', i]) for i, (f, x) in enumerate(zip(flags, vs)))}
        try:
            next(g)
            yields = 2
        except StopIteration:
            pass
    except StopIteration:
        res = ['fail']
        extra = {}
    after = [T.read(v) for v in T.vars[:case['nvars']]]
    for h in reversed(held):
        h.close()
    final_unbound = not any(T.bound_state())
    return {'res': res, 'yields': yields, 'restored': after == before, 'final_unbound': final_unbound, 'extra': extra}

def impl(case):
    if case.get('kind') == 'sched':
        return S.impl(case)
    try:
        d = _drive(case, False)
    except RecursionError:
        return ['cyc-or-deep']
    if d == ['stack']:
        return ['stack']
    try:
        s = _drive(case, True)
    except RecursionError:
        s = {'res': ['cyc-or-deep']}
    return {'fwd': d, 'swapped': s}

def compare(case, io, mo):
    if case.get('kind') == 'sched':
        return S.compare(case, io, mo)
    if mo[0] == 'oof':
        return 'model ran out of fuel (harness problem)'
    if mo[0] == 'cyc':
        return None      # unspecified by the property
    if mo[0] == 'stack':
        return None if io == ['stack'] else 'model: a stacked unification fails, implementation: it succeeds'
    if io == ['stack']:
        return 'implementation: a stacked unification fails, model: it succeeds'
    if io == ['cyc-or-deep']:
        return 'implementation raised RecursionError on a case the model solves without a cycle'
    if io['fwd']['res'] != mo:
        return 'outcome differs from the model (expected %r)' % (mo[0],)
    return None

def _reference(case):
    """'ok' | 'clash' | 'cyc' | 'stack': textbook unification of the stack's equations and then the goal's, constants compared
    by Python == on the real values (lib/pyconsts.py: the rule of the unchanged engine) - independent of the Coq model"""
    return pyconsts.ref_outcome([tuple(p) for p in case['stack']] + [(case['t1'], case['t2'])])

def oracle(case, io):
    if case.get('kind') == 'sched':
        return S.oracle(case, io) if isinstance(io, dict) else None
    want = _reference(case)
    if io == ['stack']:
        return None if want in ('stack', 'cyc') else 'a unification of the stack does not yield although its terms are unifiable under the bindings active then'
    if not isinstance(io, dict):
        return None
    f, s = io['fwd'], io['swapped']
    if want == 'stack':
        return 'every unification of the stack yields although one of them has no unifier under the bindings active then'
    for d, name in ((f, 'unify(t1,t2)'), (s, 'unify(t2,t1)')):
        if want == 'ok' and d['res'][0] == 'fail':
            return '%s does not yield although the terms are unifiable under the active bindings (constants by ==)' % name
        if want == 'clash' and d['res'][0] == 'ok':
            return '%s yields although the terms are not unifiable under the active bindings (constants by ==)' % name
    if f['yields'] > 1:
        return 'unify yielded more than once'
    if not f['restored']:
        return 'bindings not restored after the unification generator was exhausted'
    if not f['final_unbound']:
        return 'a variable is still bound after all generators were closed'
    if f['res'][0] == 'ok':
        if f['res'][1] != f['res'][2]:
            return 'the two terms do not dereference to the same term at the yield'
        if not (f['extra']['gv1'] and f['extra']['gv2'] and f['extra'].get('gvv', True)):
            return 'get_value does not reflect the bindings at the yield'
        if not f['extra'].get('flags', True):
            return 'at the yield a variable that dereferences to something else is not flagged as bound (or the reverse)'
    if s['res'][0] in ('ok', 'fail') and f['res'][0] in ('ok', 'fail') and s['res'][0] != f['res'][0]:
        return 'unify(t1,t2) and unify(t2,t1) differ: %s vs %s' % (f['res'][0], s['res'][0])
    if s['res'][0] == 'ok' and f['res'][0] == 'ok':
        # equal up to renaming of variables: compare canonical renamings of (t1, vars...)
        a = terms.rename_canonical([terms.obs_term(f['res'][1])] + [terms.obs_term(x) for x in f['res'][3]])
        b = terms.rename_canonical([terms.obs_term(s['res'][1])] + [terms.obs_term(x) for x in s['res'][3]])
        if a != b:
            return 'results of unify(t1,t2) and unify(t2,t1) are not variants of each other'
    return None

def nontrivial(case, io):
    if not isinstance(io, dict):
        return False
    if case.get('kind') == 'sched':
        return S.nontrivial(case, io)
    t1, t2 = case['t1'], case['t2']
    both = t1[0] == 'f' and t2[0] == 'f'
    shared = set(terms.term_vars(t1)) & set(terms.term_vars(t2))
    stackvars = set()
    for a, b in case['stack']:
        stackvars |= set(terms.term_vars(a)) | set(terms.term_vars(b))
    touched = (set(terms.term_vars(t1)) | set(terms.term_vars(t2))) & stackvars
    return (both or len(case['stack']) >= 2) and bool(shared or touched)

def describe(case):
    if case.get('kind') == 'sched':
        return S.describe(case)
    return {'stack': ['%s = %s' % (pyconsts.show_term(a), pyconsts.show_term(b)) for a, b in case['stack']],
            'goal': 'unify(%s, %s)' % (pyconsts.show_term(case['t1']), pyconsts.show_term(case['t2']))}

def shrink(case):
    if case.get('kind') == 'sched':
        yield from S.shrink(case)
        return
    for i in range(len(case['stack'])):
        c = dict(case); c['stack'] = case['stack'][:i] + case['stack'][i + 1:]
        yield c
    for key in ('t1', 't2'):
        t = case[key]
        if t[0] == 'f':
            for a in t[2]:
                c = dict(case); c[key] = a
                yield c
            for i in range(len(t[2])):
                if t[2][i][0] == 'f':
                    for sub in t[2][i][2] + [['a', 'a']]:
                        c = dict(case); c[key] = ['f', t[1], t[2][:i] + [sub] + t[2][i + 1:]]
                        yield c

def distribution(cases, obs):
    d = {'ok': 0, 'fail': 0, 'cyc-or-deep': 0, 'stack-fails': 0, 'other': 0, 'stack_depth': {}, 'both_compound': 0,
         'pair_cases_with_python_api_constants': sum(1 for c in cases if c.get('kind') != 'sched' and _has_const(c)),
         'pair_cases_with_nan_judged_by_the_oracle_alone': sum(1 for c in cases if c.get('kind') != 'sched' and _has_nan(c)),
         'sched_cases_with_python_api_constants': sum(1 for c in cases if c.get('kind') == 'sched' and any(
             e[0] == 'create' and (pyconsts.has_const(e[2]) or pyconsts.has_const(e[3])) for e in c['events'])),
         'const_pairs_exhaustive_in_clusters': sum(1 for c in cases if c.get('origin') == 'const-pairs'),
         'exhaustive_small_scope_pairs': sum(1 for c in cases if c.get('origin') == 'exhaustive'),
         'exhaustive_small_scope_schedules': sum(1 for c in cases if c.get('origin') == 'exhaustive-sched')}
    d['sched'] = S.distribution(cases, obs)
    for c, o in zip(cases, obs):
        if c.get('kind') == 'sched':
            continue
        if isinstance(o, dict):
            d[o['fwd']['res'][0] if o['fwd']['res'][0] in ('ok', 'fail') else 'other'] += 1
        elif o == ['stack']:
            d['stack-fails'] += 1
        elif o == ['cyc-or-deep']:
            d['cyc-or-deep'] += 1
        else:
            d['other'] += 1
        k = str(len(c['stack']))
        d['stack_depth'][k] = d['stack_depth'].get(k, 0) + 1
        if c['t1'][0] == 'f' and c['t2'][0] == 'f':
            d['both_compound'] += 1
    return d
